import GeomV.C15.ProofsBlocks
/-!
# C15 — (a) the Bool test `blockRel` is complete for its Prop reading, (b) ANY candidate-picking
matcher gives the answer of the code's first-fit matcher on block-structured relations, (c) ONE
statement for "a vertex displaced anywhere, at any nesting depth ⇒ false in both call directions".
-/
set_option linter.unusedSimpArgs false
set_option linter.unusedVariables false
namespace GeomV.C15
open GeomV

/-! ## (a) `BlockP → blockRel` -/

theorem disjointRows_of {β : Type} (p q : β → Bool) (ys : List β)
    (h : ∀ y ∈ ys, ¬ (p y = true ∧ q y = true)) : Spec.disjointRows (ys.map p) (ys.map q) = true := by
  induction ys with
  | nil => simp [Spec.disjointRows]
  | cons a ys ih =>
    simp only [List.map_cons, Spec.disjointRows, Bool.and_eq_true, Bool.not_eq_true']
    refine ⟨?_, ih (fun y hy => h y (by simp [hy]))⟩
    have := h a (by simp)
    cases hp : p a <;> cases hq : q a <;> simp_all

theorem BlockP_blockRel {β : Type} (ps : List (β → Bool)) (ys : List β) (h : BlockP ps ys) :
    Spec.blockRel ps ys = true := by
  simp only [Spec.blockRel, Spec.candRows, List.all_eq_true, List.mem_map, forall_exists_index, and_imp,
    forall_apply_eq_imp_iff₂, Bool.or_eq_true, beq_iff_eq]
  intro p hp q hq
  by_cases hsh : ∃ y ∈ ys, p y = true ∧ q y = true
  · right
    obtain ⟨y, hy, hpy, hqy⟩ := hsh
    apply List.map_inj_left.2
    intro z hz
    cases hpz : p z <;> cases hqz : q z
    · rfl
    · have := h p hp q hq y hy z hz hpy hqy hqz; simp [hpz] at this
    · have := h q hq p hp y hy z hz hqy hpy hpz; simp [hqz] at this
    · rfl
  · left
    apply disjointRows_of
    intro y hy hh; exact hsh ⟨y, hy, hh⟩

/-- **The decidable test is exactly its Prop reading**: `blockRel ps ys` holds iff whenever two
members of one side share a candidate, every candidate of one is a candidate of the other
(completeness `BlockP → blockRel` was open; soundness is `blockRel_BlockP`). -/
theorem C15_blockRel_iff {β : Type} (ps : List (β → Bool)) (ys : List β) :
    Spec.blockRel ps ys = true ↔ BlockP ps ys :=
  ⟨blockRel_BlockP ps ys, BlockP_blockRel ps ys⟩

/-! ## (b) any candidate-picking matcher

The four member-matching methods of similar.go keep a slice of unmatched indices, scan it from the
front and remove the first candidate (`removeFirst`). A rewrite of that bookkeeping (a `used` table,
scanning from the back, swapping the last index into the hole, …) changes WHICH candidate is taken.
`PickRule` is any such rule: it may take any candidate among the unmatched members and fails only
when there is none. -/

structure PickRule (β : Type) where
  pick : (β → Bool) → List β → Option (β × List β)
  sound : ∀ p ys y r, pick p ys = some (y, r) → p y = true ∧ List.Perm ys (y :: r)
  complete : ∀ p ys, pick p ys = none → ∀ y ∈ ys, p y = false

/-- the outer loop of the code with the inner loop replaced by the rule -/
def greedyWith {β : Type} (K : PickRule β) : List (β → Bool) → List β → Bool
  | [], _ => true
  | p :: ps, ys =>
    match K.pick p ys with
    | none => false
    | some yr => greedyWith K ps yr.2

/-- count check + loops, as `matchMembers` -/
def matchWith {β : Type} (K : PickRule β) (ps : List (β → Bool)) (ys : List β) : Bool :=
  ps.length == ys.length && greedyWith K ps ys

theorem allHold_length {β : Type} (ps : List (β → Bool)) (ys : List β) (h : Spec.AllHold ps ys) :
    ps.length = ys.length := by
  induction ps generalizing ys with
  | nil => rw [allHold_nil_left] at h; simp [h]
  | cons p ps ih =>
    obtain ⟨y, t, rfl, _, ht⟩ := (allHold_cons_left _ _ _).1 h
    simp [ih t ht]

open Spec in
theorem greedyWith_perfect {β : Type} (K : PickRule β) (ps : List (β → Bool)) (ys : List β)
    (hl : ps.length = ys.length) (h : greedyWith K ps ys = true) : PerfectMatch ps ys := by
  induction ps generalizing ys with
  | nil =>
    have : ys = [] := List.length_eq_zero_iff.1 (by simpa using hl.symm)
    subst this; exact ⟨[], List.Perm.refl _, trivial⟩
  | cons p ps ih =>
    simp only [greedyWith] at h
    cases hk : K.pick p ys with
    | none => simp [hk] at h
    | some yr =>
      obtain ⟨y, r⟩ := yr
      simp only [hk] at h
      obtain ⟨hpy, hperm⟩ := K.sound p ys y r hk
      have hlen : ps.length = r.length := by
        have := hperm.length_eq; simp at this hl; omega
      obtain ⟨r', hp', ha⟩ := ih r hlen h
      exact ⟨y :: r', (List.Perm.cons y hp').trans hperm.symm, ⟨hpy, ha⟩⟩

open Spec in
theorem perfect_greedyWith_block {β : Type} (K : PickRule β) (ps : List (β → Bool)) (ys : List β)
    (hb : BlockP ps ys) (h : PerfectMatch ps ys) : greedyWith K ps ys = true := by
  induction ps generalizing ys with
  | nil => simp [greedyWith]
  | cons p ps ih =>
    obtain ⟨ys', hp, ha⟩ := h
    obtain ⟨y0, t, rfl, hy0, hat⟩ := (allHold_cons_left _ _ _).1 ha
    have hmem : y0 ∈ ys := hp.subset (by simp)
    simp only [greedyWith]
    cases hk : K.pick p ys with
    | none => have := K.complete p ys hk y0 hmem; simp [hy0] at this
    | some yr =>
      obtain ⟨y, r⟩ := yr
      obtain ⟨h2, hpr⟩ := K.sound p ys y r hk
      have hperm : List.Perm (y0 :: t) (y :: r) := hp.trans hpr
      have hsub : ∀ z ∈ r, z ∈ ys := fun z hz => hpr.symm.subset (by simp [hz])
      have hymem : y ∈ ys := hpr.symm.subset (by simp)
      have hb' : BlockP ps r := BlockP_mono _ _ _ _ hb (fun q hq => by simp [hq]) hsub
      apply ih _ hb'
      by_cases heq : y0 = y
      · subst heq; exact ⟨t, hperm.cons_inv, hat⟩
      · have hyt : y ∈ t := by
          have : y ∈ y0 :: t := hperm.symm.subset (by simp)
          rcases List.mem_cons.1 this with h | h
          · exact absurd h.symm heq
          · exact h
        obtain ⟨t1, t2, rfl⟩ := List.append_of_mem hyt
        obtain ⟨q, hq, hqy, hrep⟩ := allHold_replace ps t1 t2 y y0 hat
        have hqy0 : q y0 = true :=
          hb q (by simp [hq]) p (by simp) y hymem y0 hmem hqy h2 hy0
        refine ⟨t1 ++ y0 :: t2, ?_, hrep hqy0⟩
        have e1 : List.Perm (y :: (t1 ++ y0 :: t2)) (y0 :: (t1 ++ y :: t2)) :=
          ((List.Perm.cons y List.perm_middle).trans (List.Perm.swap y0 y _)).trans
            (List.Perm.cons y0 List.perm_middle.symm)
        exact (e1.trans hperm).cons_inv

/-- **Any matcher that takes SOME candidate for each receiver member in turn gives the answer of
the code's first-fit matcher** when distinct members are separated (`blockRel`: copies allowed):
both answer `true` exactly when a one-to-one pairing of similar members exists. A rewrite of the
index bookkeeping of the four member-matching methods that keeps these semantics (count check, one
unmatched candidate consumed per receiver member, `false` only when there is none) is therefore
harmless on the property's quantifier — which is why those loops are tied by the correspondence
run and not pinned syntactically. (Without `blockRel` the choice matters: see the example below.) -/
theorem C15_any_fit_matcher {β : Type} (K : PickRule β) (ps : List (β → Bool)) (ys : List β)
    (hs : Spec.blockRel ps ys = true) : matchWith K ps ys = matchMembers ps ys := by
  have hb := blockRel_BlockP ps ys hs
  have h1 : matchWith K ps ys = true ↔ Spec.PerfectMatch ps ys := by
    constructor
    · intro h
      simp only [matchWith, Bool.and_eq_true, beq_iff_eq] at h
      exact greedyWith_perfect K ps ys h.1 h.2
    · intro h
      simp only [matchWith, Bool.and_eq_true, beq_iff_eq]
      refine ⟨?_, perfect_greedyWith_block K ps ys hb h⟩
      obtain ⟨ys', hp, ha⟩ := h
      rw [allHold_length ps ys' ha]; exact hp.length_eq
  have h2 := C15_greedy_iff_perfect_blocks ps ys hs
  cases h : matchWith K ps ys <;> cases h' : matchMembers ps ys <;> simp_all

/-! two rules: the code's (first candidate) and its opposite (last candidate) -/

def pickFirst {β : Type} (p : β → Bool) : List β → Option (β × List β)
  | [] => none
  | y :: ys => if p y then some (y, ys) else (pickFirst p ys).map fun zr => (zr.1, y :: zr.2)

def pickLast {β : Type} (p : β → Bool) : List β → Option (β × List β)
  | [] => none
  | y :: ys =>
    match pickLast p ys with
    | some zr => some (zr.1, y :: zr.2)
    | none => if p y then some (y, ys) else none

def firstFit (β : Type) : PickRule β where
  pick := pickFirst
  sound := by
    intro p ys
    induction ys with
    | nil => intro y r h; simp [pickFirst] at h
    | cons a ys ih =>
      intro y r h
      simp only [pickFirst] at h
      by_cases ha : p a = true
      · simp [ha] at h; obtain ⟨rfl, rfl⟩ := h; exact ⟨ha, List.Perm.refl _⟩
      · simp [ha] at h
        obtain ⟨z, r', hz, rfl, rfl⟩ := h
        obtain ⟨h1, h2⟩ := ih z r' hz
        exact ⟨h1, (List.Perm.cons a h2).trans (List.Perm.swap _ _ _)⟩
  complete := by
    intro p ys
    induction ys with
    | nil => simp
    | cons a ys ih =>
      intro h
      simp only [pickFirst] at h
      by_cases ha : p a = true
      · simp [ha] at h
      · simp [ha] at h
        intro y hy
        rcases List.mem_cons.1 hy with rfl | hy
        · simpa using ha
        · exact ih h y hy

def lastFit (β : Type) : PickRule β where
  pick := pickLast
  sound := by
    intro p ys
    induction ys with
    | nil => intro y r h; simp [pickLast] at h
    | cons a ys ih =>
      intro y r h
      simp only [pickLast] at h
      cases hl : pickLast p ys with
      | some zr =>
        simp [hl] at h; obtain ⟨rfl, rfl⟩ := h
        obtain ⟨h1, h2⟩ := ih zr.1 zr.2 hl
        exact ⟨h1, (List.Perm.cons a h2).trans (List.Perm.swap _ _ _)⟩
      | none =>
        simp [hl] at h
        obtain ⟨ha, rfl, rfl⟩ := h
        exact ⟨ha, List.Perm.refl _⟩
  complete := by
    intro p ys
    induction ys with
    | nil => simp
    | cons a ys ih =>
      intro h
      simp only [pickLast] at h
      cases hl : pickLast p ys with
      | some zr => simp [hl] at h
      | none =>
        simp [hl] at h
        intro y hy
        rcases List.mem_cons.1 hy with rfl | hy
        · exact h
        · exact ih hl y hy

/-- the first-candidate rule IS the code's matcher (no hypothesis) -/
theorem C15_firstFit_is_code {β : Type} (ps : List (β → Bool)) (ys : List β) :
    matchWith (firstFit β) ps ys = matchMembers ps ys := by
  have key : ∀ (p : β → Bool) (ys : List β), removeFirst p ys = (pickFirst p ys).map (·.2) := by
    intro p ys
    induction ys with
    | nil => simp [removeFirst, pickFirst]
    | cons a ys ih =>
      simp only [removeFirst, pickFirst]
      by_cases ha : p a = true
      · simp [ha]
      · simp [ha, ih, Option.map_map, Function.comp_def]
  have g : ∀ (ps : List (β → Bool)) (ys : List β), greedyWith (firstFit β) ps ys = greedy ps ys := by
    intro ps
    induction ps with
    | nil => intro ys; simp [greedyWith, greedy]
    | cons p ps ih =>
      intro ys
      simp only [greedyWith, greedy, key, firstFit]
      cases hk : pickFirst p ys with
      | none => simp
      | some yr => simpa [firstFit] using ih yr.2
  simp [matchWith, matchMembers, g]

/-! ## (c) a vertex displaced anywhere, at any nesting depth -/

theorem mem_mid {α : Type} {a z : α} {l1 l2 : List α} (h : a ∈ l1 ++ l2) : a ∈ l1 ++ z :: l2 := by
  simp at h ⊢
  rcases h with h | h
  · exact Or.inl h
  · exact Or.inr (Or.inr h)

/-- in a position-by-position matching, two properties that agree on every matched pair are counted
equally often on the two sides -/
theorem allHold_countP {α β : Type} (R : α → β → Bool) (f : α → Bool) (g : β → Bool) :
    ∀ (xs : List α) (ys : List β), Spec.AllHold (xs.map R) ys →
      (∀ x ∈ xs, ∀ y ∈ ys, R x y = true → f x = g y) → xs.countP f = ys.countP g := by
  intro xs
  induction xs with
  | nil => intro ys h _; rw [List.map_nil, allHold_nil_left] at h; simp [h]
  | cons x xs ih =>
    intro ys h hfg
    rw [List.map_cons] at h
    obtain ⟨y, t, rfl, hxy, ht⟩ := (allHold_cons_left _ _ _).1 h
    have e := hfg x (by simp) y (by simp) hxy
    have := ih t ht (fun a ha b hb hab => hfg a (by simp [ha]) b (by simp [hb]) hab)
    simp [List.countP_cons, this, e]

/-- **One member displaced ⇒ false, distinct members separated, repeated members allowed.**
`x'` is not similar to `x`; the similarity relation between the members of the original list and of
the list with `x` replaced by `x'` is block-structured. Then no one-to-one pairing exists (if `x'`
is similar to some other member `a`, the members similar to `a` are one fewer on the left than on
the right), so the matcher answers `false`. Unlike `C15_false_displaced_member`/`_copy` nothing is
assumed about WHO `x'` is similar to. -/
theorem C15_false_displaced_member_blocks {α : Type} (R : α → α → Bool) (l1 l2 : List α) (x x' : α)
    (hsymm : ∀ a b, R a b = R b a) (hrefl : ∀ a ∈ l1 ++ l2, R a a = true) (hxx : R x x' = false)
    (hb : BlockP ((l1 ++ x :: l2).map R) (l1 ++ x' :: l2)) :
    matchMembers ((l1 ++ x :: l2).map R) (l1 ++ x' :: l2) = false := by
  by_cases hex : ∃ a ∈ l1 ++ l2, R a x' = true
  · obtain ⟨a, ha, hax'⟩ := hex
    cases hm : matchMembers ((l1 ++ x :: l2).map R) (l1 ++ x' :: l2) with
    | false => rfl
    | true =>
      exfalso
      obtain ⟨ys', hp, hall⟩ := greedyRem_perfect _ _ ((matchMembers_iff _ _).1 hm)
      have haa := hrefl a ha
      have haL : R a ∈ (l1 ++ x :: l2).map R := List.mem_map.2 ⟨a, mem_mid ha, rfl⟩
      have haL' : a ∈ l1 ++ x' :: l2 := mem_mid ha
      have hx'L' : x' ∈ l1 ++ x' :: l2 := by simp
      have hcnt := allHold_countP R (fun b => R b a) (R a) (l1 ++ x :: l2) ys' hall (by
        intro b hb' y hy hby
        have hyL' : y ∈ l1 ++ x' :: l2 := hp.subset hy
        have hbL : R b ∈ (l1 ++ x :: l2).map R := List.mem_map.2 ⟨b, hb', rfl⟩
        cases h1 : R b a <;> cases h2 : R a y
        · rfl
        · have := hb (R b) hbL (R a) haL y hyL' a haL' hby h2 haa; simp [h1] at this
        · have := hb (R a) haL (R b) hbL a haL' y hyL' haa h1 hby; simp [h2] at this
        · rfl)
      rw [hp.countP_eq] at hcnt
      have hfg : (fun b => R b a) = R a := by funext b; exact hsymm b a
      have hxa : R x a = false := by
        cases h : R x a with
        | false => rfl
        | true =>
          have := hb (R x) (List.mem_map.2 ⟨x, by simp, rfl⟩) (R a) haL a haL' x' hx'L' h haa hax'
          simp [hxx] at this
      rw [hfg] at hcnt
      have hax : R a x = false := by rw [hsymm]; exact hxa
      simp [List.countP_append, List.countP_cons, hax, hax'] at hcnt
  · have hno : ∀ a ∈ l1 ++ x :: l2, R x' a = false := by
      intro a ha
      rw [hsymm]
      have : a = x ∨ a ∈ l1 ++ l2 := by
        simp at ha ⊢
        rcases ha with h | h | h
        · exact Or.inr (Or.inl h)
        · exact Or.inl h
        · exact Or.inr (Or.inr h)
      rcases this with rfl | h
      · exact hxx
      · cases hh : R a x' with
        | false => rfl
        | true => exact absurd ⟨a, h, hh⟩ hex
    rw [matchMembers_symm R R _ _ (fun a _ b _ => hsymm a b)]
    apply matchMembers_no_partner
    exact ⟨R x', List.mem_map.2 ⟨x', by simp, rfl⟩, hno⟩

/-! ### reflexivity (positive tolerance, no nil interface) -/

theorem pointSimilar_refl (p : P) (e : Rat) (he : 0 < e) : pointSimilar p p e = true := by
  simp [pointSimilar_eq_ptNear, Spec.ptNear, Spec.near, Rat.sub_self, he]

theorem pointsSimilar_refl (ps : List P) (e : Rat) (he : 0 < e) : pointsSimilar ps ps e = true := by
  induction ps with
  | nil => simp [pointsSimilar]
  | cons p ps ih => simp [pointsSimilar, ih, pointSimilar_refl p e he]

theorem ringSimilar_refl (a : List P) (e : Rat) (he : 0 < e) : ringSimilar a a e = true := by
  rw [ringSimilar_iff]
  refine ⟨rfl, ?_⟩
  by_cases h1 : a.length ≤ 1
  · exact Or.inl ⟨h1, pointsSimilar_refl a e he⟩
  · right
    refine ⟨by omega, 0, by omega, ?_⟩
    rw [ringSimilarFrom_iff]
    intro i hi
    have hia : i < a.length := by omega
    refine ⟨a[i], a[i], by simp [hia], ?_, pointSimilar_refl _ e he⟩
    rw [Nat.add_zero, Nat.mod_eq_of_lt hi]; simp [hia]

theorem matchMembers_refl {α : Type} (R : α → α → Bool) (xs : List α) (h : ∀ a ∈ xs, R a a = true) :
    matchMembers (xs.map R) xs = true := by
  simp only [matchMembers, List.length_map, beq_self_eq_true, Bool.true_and]
  induction xs with
  | nil => simp [greedy]
  | cons x xs ih =>
    simp only [List.map_cons, greedy, removeFirst, h x (by simp), if_true]
    exact ih (fun a ha => h a (by simp [ha]))

mutual
/-- no nil interface anywhere inside -/
def noNil : RGeom → Bool
  | .collection gs => noNilL gs
  | .nil => false
  | _ => true
def noNilL : List RGeom → Bool
  | [] => true
  | g :: gs => noNil g && noNilL gs
end

theorem noNilL_mem (gs : List RGeom) (h : noNilL gs = true) : ∀ g ∈ gs, noNil g = true := by
  induction gs with
  | nil => simp
  | cons a gs ih =>
    simp only [noNilL, Bool.and_eq_true] at h
    intro g hg
    rcases List.mem_cons.1 hg with rfl | hg
    · exact h.1
    · exact ih h.2 g hg

mutual
theorem sim_refl (e : Rat) (he : 0 < e) : ∀ g : RGeom, noNil g = true → sim g e g = true
  | .point p, _ => by simp [sim, pointSimilar_refl p e he]
  | .multiPoint ps, _ => by simp [sim, pointsSimilar_refl ps e he]
  | .lineString ps, _ => by simp [sim, pointsSimilar_refl ps e he]
  | .bounds a b, _ => by simp [sim, pointSimilar_refl _ e he]
  | .nil, h => by simp [noNil] at h
  | .multiLineString ls, _ => by
    simp only [sim, mlsSimilar]
    exact matchMembers_refl (fun l l' => pointsSimilar l l' e) ls (fun l _ => pointsSimilar_refl l e he)
  | .polygon rs, _ => by
    simp only [sim, polygonSimilar]
    exact matchMembers_refl (fun r r' => ringSimilar r r' e) rs (fun r _ => ringSimilar_refl r e he)
  | .multiPolygon ps, _ => by
    simp only [sim, mpgSimilar]
    refine matchMembers_refl (fun p p' => polygonSimilar p p' e) ps (fun p _ => ?_)
    exact matchMembers_refl (fun r r' => ringSimilar r r' e) p (fun r _ => ringSimilar_refl r e he)
  | .collection gs, h => by
    simp only [sim, simL_eq_map]
    simp only [noNil] at h
    exact matchMembers_refl (fun g h => sim g e h) gs (sim_reflL e he gs h)
theorem sim_reflL (e : Rat) (he : 0 < e) : ∀ gs : List RGeom, noNilL gs = true → ∀ g ∈ gs, sim g e g = true
  | [], _ => by simp
  | g :: gs, h => by
    simp only [noNilL, Bool.and_eq_true] at h
    exact List.forall_mem_cons.2 ⟨sim_refl e he g h.1, sim_reflL e he gs h.2⟩
end

/-! ### the displacement relation -/

/-- moved by at least `tol` in x or in y -/
def Far (tol : Rat) (p q : P) : Prop := tol ≤ (p.x - q.x).abs ∨ tol ≤ (p.y - q.y).abs

/-- one vertex of a point list moved by at least `tol` -/
def DispPts (tol : Rat) (ps qs : List P) : Prop :=
  ∃ l1 p q l2, ps = l1 ++ p :: l2 ∧ qs = l1 ++ q :: l2 ∧ Far tol p q

/-- one vertex of a closed ring (not the closing duplicate) moved by at least `tol`, the ring's
other vertices not within `tol` of the vertex's original position (vertex separation: without it a
displaced vertex can turn a ring into a rotation of itself) -/
def DispRing (tol : Rat) (a a' : List P) : Prop :=
  ∃ i p q, a.length = a'.length ∧ i < a.length - 1 ∧ (∀ j, j < a.length - 1 → j ≠ i → a'[j]? = a[j]?) ∧
    a[i]? = some p ∧ a'[i]? = some q ∧ Far tol p q ∧
    (∀ j r, j < a.length - 1 → j ≠ i → a[j]? = some r → pointSimilar p r tol = false)

/-- one member of a list replaced by a displaced version of itself -/
def DispMember {α : Type} (D : α → α → Prop) (xs ys : List α) : Prop :=
  ∃ l1 x x' l2, xs = l1 ++ x :: l2 ∧ ys = l1 ++ x' :: l2 ∧ D x x'

/-- `Displaced tol g g'`: `g'` is `g` with ONE vertex moved by at least `tol`, the vertex sitting
anywhere: in a point / multi-point / line string / bounds corner, in a line of a multi-line-string,
in a ring of a polygon, in a ring of a member polygon of a multi-polygon, or in a member — at any
depth — of a collection. -/
inductive Displaced (tol : Rat) : RGeom → RGeom → Prop
  | point (p q : P) : Far tol p q → Displaced tol (.point p) (.point q)
  | multiPoint (ps qs : List P) : DispPts tol ps qs → Displaced tol (.multiPoint ps) (.multiPoint qs)
  | lineString (ps qs : List P) : DispPts tol ps qs → Displaced tol (.lineString ps) (.lineString qs)
  | boundsMin (a a' b : P) : Far tol a a' → Displaced tol (.bounds a b) (.bounds a' b)
  | boundsMax (a b b' : P) : Far tol b b' → Displaced tol (.bounds a b) (.bounds a b')
  | multiLineString (ls ls' : List (List P)) : DispMember (DispPts tol) ls ls' →
      Displaced tol (.multiLineString ls) (.multiLineString ls')
  | polygon (rs rs' : List (List P)) : DispMember (DispRing tol) rs rs' →
      Displaced tol (.polygon rs) (.polygon rs')
  | multiPolygon (ps ps' : List (List (List P))) : DispMember (DispMember (DispRing tol)) ps ps' →
      Displaced tol (.multiPolygon ps) (.multiPolygon ps')
  | collection (l1 : List RGeom) (g g' : RGeom) (l2 : List RGeom) : Displaced tol g g' →
      Displaced tol (.collection (l1 ++ g :: l2)) (.collection (l1 ++ g' :: l2))

theorem dispPts_false (tol : Rat) (ps qs : List P) (h : DispPts tol ps qs) : pointsSimilar ps qs tol = false := by
  obtain ⟨l1, p, q, l2, rfl, rfl, hfar⟩ := h
  cases hs : pointsSimilar (l1 ++ p :: l2) (l1 ++ q :: l2) tol with
  | false => rfl
  | true =>
    have := ((pointsSimilar_iff _ _ tol).1 hs).2 l1.length p q (by simp) (by simp)
    rw [pointSimilar_false_of_far p q tol hfar] at this; simp at this

theorem dispRing_false (tol : Rat) (a a' : List P) (h : DispRing tol a a') : ringSimilar a a' tol = false := by
  obtain ⟨i, p, q, hl, hi, hsame, hp, hq, hfar, hsep⟩ := h
  exact C15_false_displaced_ring_vertex a a' tol i p q hl hi hsame hp hq
    (pointSimilar_false_of_far p q tol hfar) hsep

theorem blockP_of_rows {α β : Type} (R R2 : α → β → Bool) (xs : List α) (ys : List β)
    (h : ∀ x ∈ xs, ∀ y ∈ ys, R x y = R2 x y) (hb : BlockP (xs.map R2) ys) : BlockP (xs.map R) ys := by
  intro p hp q hq y hy z hz hpy hqy hqz
  obtain ⟨a, ha, rfl⟩ := List.mem_map.1 hp
  obtain ⟨b, hb', rfl⟩ := List.mem_map.1 hq
  rw [h a ha y hy] at hpy; rw [h b hb' y hy] at hqy; rw [h b hb' z hz] at hqz
  rw [h a ha z hz]
  exact hb (R2 a) (List.mem_map.2 ⟨a, ha, rfl⟩) (R2 b) (List.mem_map.2 ⟨b, hb', rfl⟩) y hy z hz hpy hqy hqz

theorem polygon_displaced_false (tol : Rat) (he : 0 < tol) (rs rs' : List (List P))
    (hd : DispMember (DispRing tol) rs rs') (hs : Spec.blockRel (Spec.ringPreds rs tol) rs' = true) :
    polygonSimilar rs rs' tol = false := by
  obtain ⟨l1, x, x', l2, rfl, rfl, hx⟩ := hd
  unfold polygonSimilar
  apply C15_false_displaced_member_blocks (fun r r' => ringSimilar r r' tol) l1 l2 x x'
    (fun a b => ringSimilar_comm a b tol) (fun a _ => ringSimilar_refl a tol he) (dispRing_false tol x x' hx)
  apply blockP_of_rows _ (fun r r' => Spec.ringNear r r' tol) _ _
    (fun a _ b _ => ringSimilar_eq_ringNear a b tol)
  exact blockRel_BlockP _ _ hs

/-- **A vertex displaced anywhere ⇒ `Similar` is false in both call directions.** `g'` is `g` with one
vertex moved by at least `tol` (`Displaced`: any of the eight types, the vertex at the end of ANY
nesting path through collections / multi-polygons / polygons / multi-line-strings), distinct members
separated at every level (`blockSeparated`; repeated members allowed), positive tolerance, no nil
interface among the members. This assembles the per-level lemmas (`C15_false_displaced_vertex`,
`_ring_vertex`, `_member`, `_copy`) into one statement; the member-level step is
`C15_false_displaced_member_blocks` (a counting argument, no assumption about whom the displaced member
resembles). -/
theorem C15_false_displaced_anywhere (tol : Rat) (he : 0 < tol) (g g' : RGeom) (hd : Displaced tol g g')
    (hn : noNil g = true) (hs : Spec.blockSeparated g tol g' = true) :
    sim g tol g' = false ∧ sim g' tol g = false := by
  suffices h : sim g tol g' = false from ⟨h, by rw [← C15_symm_all]; exact h⟩
  induction hd with
  | point p q hf => simp [sim, pointSimilar_false_of_far p q tol hf]
  | multiPoint ps qs h => simp [sim, dispPts_false tol ps qs h]
  | lineString ps qs h => simp [sim, dispPts_false tol ps qs h]
  | boundsMin a a' b hf => simp [sim, pointSimilar_false_of_far a a' tol hf]
  | boundsMax a b b' hf => simp [sim, pointSimilar_false_of_far b b' tol hf]
  | multiLineString ls ls' h =>
    obtain ⟨l1, x, x', l2, rfl, rfl, hx⟩ := h
    simp only [sim, mlsSimilar]
    apply C15_false_displaced_member_blocks (fun l l' => pointsSimilar l l' tol) l1 l2 x x'
      (fun a b => pointsSimilar_comm a b tol) (fun a _ => pointsSimilar_refl a tol he) (dispPts_false tol x x' hx)
    apply blockP_of_rows _ (fun l l' => Spec.ptsNear l l' tol) _ _
      (fun a _ b _ => pointsSimilar_eq_ptsNear a b tol)
    exact blockRel_BlockP _ _ (by simpa [Spec.blockSeparated] using hs)
  | polygon rs rs' h =>
    simp only [sim]
    exact polygon_displaced_false tol he rs rs' h (by simpa [Spec.blockSeparated] using hs)
  | multiPolygon ps ps' h =>
    obtain ⟨l1, x, x', l2, rfl, rfl, hx⟩ := h
    simp only [Spec.blockSeparated, Bool.and_eq_true, List.all_eq_true] at hs
    simp only [sim, mpgSimilar]
    apply C15_false_displaced_member_blocks (fun p p' => polygonSimilar p p' tol) l1 l2 x x'
      (fun a b => polygonSimilar_comm a b tol)
      (fun a _ => matchMembers_refl (fun r r' => ringSimilar r r' tol) a (fun r _ => ringSimilar_refl r tol he))
      (polygon_displaced_false tol he x x' hx (hs.2 x (by simp) x' (by simp)))
    apply blockP_of_rows _ (fun p p' => Spec.polygonNear p p' tol) _ _
      (fun a ha b hb => polygonSimilar_eq_block a b tol (hs.2 a ha b hb))
    exact blockRel_BlockP _ _ hs.1
  | collection l1 x x' l2 hx ih =>
    simp only [Spec.blockSeparated, Bool.and_eq_true, List.all_eq_true, blockSeparatedL_eq_map, List.mem_map] at hs
    simp only [noNil] at hn
    have hnm := noNilL_mem _ hn
    simp only [sim, simL_eq_map]
    have hpair : ∀ a ∈ l1 ++ x :: l2, ∀ b ∈ l1 ++ x' :: l2, Spec.blockSeparated a tol b = true :=
      fun a ha b hb => hs.2 _ ⟨a, ha, rfl⟩ b hb
    apply C15_false_displaced_member_blocks (fun a b => sim a tol b) l1 l2 x x'
      (fun a b => sim_comm tol a b)
      (fun a ha => sim_refl tol he a (hnm a (mem_mid ha)))
      (ih (hnm x (by simp)) (hpair x (by simp) x' (by simp)))
    apply blockP_of_rows _ (fun a b => Spec.specSim a tol b) _ _
      (fun a ha b hb => model_eq_spec_block tol a b (hpair a ha b hb))
    rw [← specSimL_eq_map]
    exact blockRel_BlockP _ _ hs.1

/-! non-vacuity: a collection holding a multi-polygon (one polygon twice) and a line; one ring
vertex of ONE copy displaced, three levels down -/
section Examples
private def pt'' (x y : Rat) : P := ⟨x, y⟩
private def tri : List P := [pt'' 0 0, pt'' 4 0, pt'' 0 4, pt'' 0 0]
private def tri' : List P := [pt'' 0 0, pt'' 4 2, pt'' 0 4, pt'' 0 0]
private def ln : List P := [pt'' 9 9, pt'' 10 9]
private def gA : RGeom := .collection [.lineString ln, .multiPolygon [[tri], [tri]]]
private def gB : RGeom := .collection [.lineString ln, .multiPolygon [[tri], [tri']]]

example : Displaced (1/10) gA gB :=
  .collection [.lineString ln] _ _ [] (.multiPolygon _ _ ⟨[[tri]], [tri], [tri'], [], rfl, rfl,
    ⟨[], tri, tri', [], rfl, rfl, ⟨1, pt'' 4 0, pt'' 4 2, by decide, by decide,
      by intro j hj hji; have : j = 0 ∨ j = 2 := by simp [tri] at hj; omega
         rcases this with rfl | rfl <;> rfl,
      rfl, rfl, Or.inr (by decide +kernel),
      by intro j r hj hji hr; have : j = 0 ∨ j = 2 := by simp [tri] at hj; omega
         rcases this with rfl | rfl <;> (simp [tri] at hr; subst hr; decide +kernel)⟩⟩⟩)
example : noNil gA = true ∧ Spec.blockSeparated gA (1/10) gB = true := by decide +kernel
example : sim gA (1/10) gB = false ∧ sim gB (1/10) gA = false := by decide +kernel
/-- without `blockRel` the choice of candidate matters: first-fit and last-fit disagree -/
example : matchWith (firstFit Nat) [fun n => n ≤ 1, fun n => n == 0] [0, 1] = false ∧
    matchWith (lastFit Nat) [fun n => n ≤ 1, fun n => n == 0] [0, 1] = true := by decide
example : Spec.blockRel [fun n => decide (n ≤ 1), fun n => n == 0] [0, 1] = false := by decide
end Examples

end GeomV.C15
