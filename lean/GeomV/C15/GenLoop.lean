import GeomV.C15.Model
/-!
# C15 — loop combinators used by the REGENERATED member-matching methods (Gen.lean)

go2lean.py translates the bodies of the four greedy `Similar` methods statement by statement; the
two nested `range` loops become the two combinators below, the Go slice expressions `x[a:b]` and
`append(x, y...)` become `slice` / `++`. `loops_eq_greedy` (Ties.lean) proves that the index
bookkeeping of the source (slice of unmatched indices, removal of position `ii` by the two-branch
`if ii == len(indices)-1 … else append(…)`, `break`) is the model's `greedy`/`removeFirst`.
-/
namespace GeomV.C15.Gen

/-- Go `x[a:b]` (in range) -/
def slice {α : Type} (x : List α) (a b : Nat) : List α := (x.drop a).take (b - a)

/-- `for ii, i := range indices { if cond(i) { matched = true; indices = rem(ii); break } }`:
`ii` counts from `k`, `i` runs over the elements; `none` = not matched -/
def innerGo (cond : Nat → Bool) (rem : Nat → List Nat) : Nat → List Nat → Option (List Nat)
  | _, [] => none
  | ii, i :: rest => if cond i then some (rem ii) else innerGo cond rem (ii + 1) rest

def innerLoop (indices : List Nat) (cond : Nat → Bool) (rem : Nat → List Nat) : Option (List Nat) :=
  innerGo cond rem 0 indices

/-- `for _, l := range ml { matched := false; <inner loop>; if !matched { return false } }; return true`
with the loop-carried variable `indices` -/
def outerLoop {α : Type} (step : α → List Nat → Option (List Nat)) : List α → List Nat → Bool
  | [], _ => true
  | l :: ls, indices =>
    match step l indices with
    | none => false
    | some indices' => outerLoop step ls indices'

end GeomV.C15.Gen
