import GeomV.C15.Model
import GeomV.C15.Spec
/-!
# C15 — helper lemmas: the greedy matcher (generic), rings (index form ⇄ rotation form)
-/
set_option linter.unusedSimpArgs false
set_option linter.unusedVariables false
namespace GeomV.C15
open GeomV

/-! ## greedy matcher -/

/-- `greedy` returning the members still unmatched -/
def greedyRem {β : Type} : List (β → Bool) → List β → Option (List β)
  | [], ys => some ys
  | p :: ps, ys => (removeFirst p ys).bind (greedyRem ps)

theorem greedy_eq_isSome {β : Type} (ps : List (β → Bool)) (ys : List β) :
    greedy ps ys = (greedyRem ps ys).isSome := by
  induction ps generalizing ys with
  | nil => simp [greedy, greedyRem]
  | cons p ps ih =>
    simp only [greedy, greedyRem]
    cases h : removeFirst p ys with
    | none => simp
    | some r => simp [ih]

theorem removeFirst_some {β : Type} (p : β → Bool) (ys r : List β) :
    removeFirst p ys = some r ↔
      ∃ l1 y l2, ys = l1 ++ y :: l2 ∧ p y = true ∧ (∀ z ∈ l1, p z = false) ∧ r = l1 ++ l2 := by
  induction ys generalizing r with
  | nil => simp [removeFirst]
  | cons a ys ih =>
    simp only [removeFirst]
    by_cases ha : p a = true
    · simp only [ha, if_true, Option.some.injEq]
      constructor
      · intro h; exact ⟨[], a, ys, by simp, ha, by simp, by simp [h]⟩
      · rintro ⟨l1, y, l2, h1, h2, h3, h4⟩
        cases l1 with
        | nil => simp at h1; simp [h4, h1.2]
        | cons b l1 =>
          simp at h1
          have := h3 b (by simp)
          rw [← h1.1] at this; simp [ha] at this
    · have ha' : p a = false := by simpa using ha
      simp only [ha', Bool.false_eq_true, if_false]
      cases hr : removeFirst p ys with
      | none =>
        simp only [Option.map_none, reduceCtorEq, false_iff]
        rintro ⟨l1, y, l2, h1, h2, h3, h4⟩
        cases l1 with
        | nil => simp at h1; rw [← h1.1] at h2; simp [ha'] at h2
        | cons b l1 =>
          simp at h1
          have := (ih (l1 ++ l2)).2 ⟨l1, y, l2, h1.2, h2, fun z hz => h3 z (by simp [hz]), rfl⟩
          simp [hr] at this
      | some r' =>
        simp only [Option.map_some, Option.some.injEq]
        obtain ⟨l1, y, l2, h1, h2, h3, h4⟩ := (ih r').1 hr
        constructor
        · intro h
          exact ⟨a :: l1, y, l2, by simp [h1], h2, by
            intro z hz; simp at hz; rcases hz with rfl | hz; exact ha'; exact h3 z hz, by simp [← h, h4]⟩
        · rintro ⟨m1, y', m2, g1, g2, g3, g4⟩
          cases m1 with
          | nil => simp at g1; rw [← g1.1] at g2; simp [ha'] at g2
          | cons b m1 =>
            simp at g1
            have := (ih (m1 ++ m2)).2 ⟨m1, y', m2, g1.2, g2, fun z hz => g3 z (by simp [hz]), rfl⟩
            rw [hr] at this
            simp at this
            simp [g4, this, g1.1]

theorem removeFirst_none {β : Type} (p : β → Bool) (ys : List β) :
    removeFirst p ys = none ↔ ∀ z ∈ ys, p z = false := by
  induction ys with
  | nil => simp [removeFirst]
  | cons a ys ih =>
    simp only [removeFirst]
    by_cases ha : p a = true
    · simp [ha]
    · have ha' : p a = false := by simpa using ha
      simp [ha', ih]

theorem removeFirst_length {β : Type} (p : β → Bool) (ys r : List β) (h : removeFirst p ys = some r) :
    r.length + 1 = ys.length := by
  obtain ⟨l1, y, l2, h1, _, _, h4⟩ := (removeFirst_some p ys r).1 h
  subst h1 h4; simp; omega

theorem greedyRem_length {β : Type} (ps : List (β → Bool)) (ys r : List β) (h : greedyRem ps ys = some r) :
    r.length + ps.length = ys.length := by
  induction ps generalizing ys with
  | nil => simp [greedyRem] at h; simp [h]
  | cons p ps ih =>
    simp only [greedyRem] at h
    cases hr : removeFirst p ys with
    | none => simp [hr] at h
    | some r' =>
      simp [hr] at h
      have := ih r' h
      have := removeFirst_length p ys r' hr
      simp; omega

/-- `matchMembers` succeeds exactly when the greedy loops consume every member of the argument -/
theorem matchMembers_iff {β : Type} (ps : List (β → Bool)) (ys : List β) :
    matchMembers ps ys = true ↔ greedyRem ps ys = some [] := by
  simp only [matchMembers, Bool.and_eq_true, beq_iff_eq, greedy_eq_isSome]
  constructor
  · rintro ⟨hl, hs⟩
    cases h : greedyRem ps ys with
    | none => simp [h] at hs
    | some r =>
      have := greedyRem_length ps ys r h
      have : r.length = 0 := by omega
      simp [List.length_eq_zero_iff.1 this]
  · intro h
    have := greedyRem_length ps ys [] h
    simp at this
    simp [h, this]

theorem greedyRem_append {β : Type} (ps qs : List (β → Bool)) (ys : List β) :
    greedyRem (ps ++ qs) ys = (greedyRem ps ys).bind (greedyRem qs) := by
  induction ps generalizing ys with
  | nil => simp [greedyRem]
  | cons p ps ih =>
    simp only [List.cons_append, greedyRem]
    cases removeFirst p ys with
    | none => simp
    | some r => simp [ih]

/-- frame: a member `x` that no predicate accepts stays at the head of the unmatched list -/
theorem greedyRem_frame {β : Type} (qs : List (β → Bool)) (x : β) (zs : List β)
    (h : ∀ q ∈ qs, q x = false) :
    greedyRem qs (x :: zs) = (greedyRem qs zs).map (x :: ·) := by
  induction qs generalizing zs with
  | nil => simp [greedyRem]
  | cons q qs ih =>
    have hq : q x = false := h q (by simp)
    simp only [greedyRem, removeFirst, hq, Bool.false_eq_true, if_false]
    cases removeFirst q zs with
    | none => simp
    | some r => simp [ih r (fun q' hq' => h q' (by simp [hq']))]

/-- The greedy matcher with the count check is symmetric, for ANY relation (no separation needed):
first-fit from the left and first-fit from the right build the same pairing. -/
theorem greedyRem_symm {α β : Type} (R : α → β → Bool) (R' : β → α → Bool) :
    ∀ (xs : List α) (ys : List β), (∀ x ∈ xs, ∀ y ∈ ys, R x y = R' y x) →
      (greedyRem (xs.map R) ys = some [] ↔ greedyRem (ys.map R') xs = some []) := by
  intro xs
  induction xs with
  | nil =>
    intro ys _
    cases ys with
    | nil => simp [greedyRem]
    | cons y ys => simp [greedyRem, removeFirst]
  | cons x xs ih =>
    intro ys hR
    simp only [List.map_cons, greedyRem]
    cases hr : removeFirst (R x) ys with
    | none =>
      have hn := (removeFirst_none _ _).1 hr
      have hf : ∀ q ∈ ys.map R', q x = false := by
        intro q hq
        obtain ⟨y, hy, rfl⟩ := List.mem_map.1 hq
        rw [← hR x (by simp) y hy]; exact hn y hy
      rw [greedyRem_frame _ _ _ hf]
      cases greedyRem (List.map R' ys) xs <;> simp
    | some r =>
      obtain ⟨l1, y, l2, h1, h2, h3, h4⟩ := (removeFirst_some _ _ _).1 hr
      subst h1 h4
      have hf : ∀ q ∈ l1.map R', q x = false := by
        intro q hq
        obtain ⟨z, hz, rfl⟩ := List.mem_map.1 hq
        rw [← hR x (by simp) z (by simp [hz])]; exact h3 z hz
      have hy : R' y x = true := by rw [← hR x (by simp) y (by simp)]; exact h2
      have step : greedyRem ((l1 ++ y :: l2).map R') (x :: xs) = greedyRem ((l1 ++ l2).map R') xs := by
        rw [List.map_append, List.map_append, greedyRem_append, greedyRem_append, greedyRem_frame _ _ _ hf]
        cases greedyRem (List.map R' l1) xs with
        | none => simp
        | some z1 => simp [greedyRem, removeFirst, hy]
      rw [step]
      simp only [Option.bind_some]
      exact ih (l1 ++ l2) (fun a ha b hb => hR a (by simp [ha]) b (by
        simp at hb ⊢; rcases hb with hb | hb; exact Or.inl hb; exact Or.inr (Or.inr hb)))

theorem matchMembers_symm {α β : Type} (R : α → β → Bool) (R' : β → α → Bool)
    (xs : List α) (ys : List β) (h : ∀ x ∈ xs, ∀ y ∈ ys, R x y = R' y x) :
    matchMembers (xs.map R) ys = matchMembers (ys.map R') xs := by
  have := greedyRem_symm R R' xs ys h
  rw [← matchMembers_iff, ← matchMembers_iff] at this
  cases h1 : matchMembers (xs.map R) ys <;> cases h2 : matchMembers (ys.map R') xs <;> simp_all

/-! ## greedy vs. perfect matchings -/

open Spec in
theorem greedyRem_perfect {β : Type} (ps : List (β → Bool)) (ys : List β)
    (h : greedyRem ps ys = some []) : PerfectMatch ps ys := by
  induction ps generalizing ys with
  | nil => simp [greedyRem] at h; subst h; exact ⟨[], List.Perm.refl _, trivial⟩
  | cons p ps ih =>
    simp only [greedyRem] at h
    cases hr : removeFirst p ys with
    | none => simp [hr] at h
    | some r =>
      simp [hr] at h
      obtain ⟨l1, y, l2, h1, h2, h3, h4⟩ := (removeFirst_some _ _ _).1 hr
      obtain ⟨r', hp, ha⟩ := ih r h
      refine ⟨y :: r', ?_, ⟨h2, ha⟩⟩
      subst h1 h4
      exact (List.Perm.cons y hp).trans List.perm_middle.symm

theorem allHold_nil_left {β : Type} (ys : List β) : Spec.AllHold ([] : List (β → Bool)) ys ↔ ys = [] := by
  cases ys <;> simp [Spec.AllHold]

theorem allHold_cons_left {β : Type} (p : β → Bool) (ps : List (β → Bool)) (ys : List β) :
    Spec.AllHold (p :: ps) ys ↔ ∃ y t, ys = y :: t ∧ p y = true ∧ Spec.AllHold ps t := by
  cases ys with
  | nil => simp [Spec.AllHold]
  | cons a ys =>
    simp only [Spec.AllHold, List.cons.injEq]
    constructor
    · rintro ⟨h1, h2⟩; exact ⟨a, ys, ⟨rfl, rfl⟩, h1, h2⟩
    · rintro ⟨y, t, ⟨rfl, rfl⟩, h1, h2⟩; exact ⟨h1, h2⟩

theorem countP_two {β : Type} (p : β → Bool) (l1 l2 : List β) (y y0 : β) (hy : p y = true) (hy0 : p y0 = true)
    (hm : y0 ∈ l1 ++ l2) : 2 ≤ (l1 ++ y :: l2).countP p := by
  have h1 : 1 ≤ (l1 ++ l2).countP p := List.countP_pos_iff.2 ⟨y0, hm, hy0⟩
  simp only [List.countP_append, List.countP_cons, hy, if_true] at *
  omega

theorem sepRel_iff {β : Type} (ps : List (β → Bool)) (ys : List β) :
    Spec.sepRel ps ys = true ↔
      (∀ p ∈ ps, ys.countP p ≤ 1) ∧ (∀ y ∈ ys, ps.countP (fun p => p y) ≤ 1) := by
  simp [Spec.sepRel, List.all_eq_true]

open Spec in
theorem perfect_greedyRem {β : Type} (ps : List (β → Bool)) (ys : List β)
    (hs : sepRel ps ys = true) (h : PerfectMatch ps ys) : greedyRem ps ys = some [] := by
  induction ps generalizing ys with
  | nil =>
    obtain ⟨ys', hp, ha⟩ := h
    rw [allHold_nil_left] at ha; subst ha
    simp [List.nil_perm.1 hp, greedyRem]
  | cons p ps ih =>
    obtain ⟨ys', hp, ha⟩ := h
    obtain ⟨y0, t, rfl, hy0, hat⟩ := (allHold_cons_left _ _ _).1 ha
    have hs' := (sepRel_iff _ _).1 hs
    have hmem : y0 ∈ ys := hp.subset (by simp)
    cases hr : removeFirst p ys with
    | none => have := (removeFirst_none _ _).1 hr y0 hmem; simp [hy0] at this
    | some r =>
      obtain ⟨l1, y, l2, h1, h2, h3, h4⟩ := (removeFirst_some _ _ _).1 hr
      subst h1 h4
      have hperm : List.Perm (y0 :: t) (y :: (l1 ++ l2)) := hp.trans List.perm_middle
      have htr : List.Perm t (l1 ++ l2) := by
        by_cases heq : y0 = y
        · subst heq; exact hperm.cons_inv
        · have hm : y0 ∈ l1 ++ l2 := by
            have : y0 ∈ y :: (l1 ++ l2) := hperm.subset (by simp)
            rcases List.mem_cons.1 this with h | h
            · exact absurd h heq
            · exact h
          have := countP_two p l1 l2 y y0 h2 hy0 hm
          have := hs'.1 p (by simp)
          omega
      simp only [greedyRem, hr, Option.bind_some]
      apply ih
      · rw [sepRel_iff]
        constructor
        · intro q hq
          have h1 := hs'.1 q (by simp [hq])
          have : (l1 ++ l2).countP q ≤ (l1 ++ y :: l2).countP q := by
            simp only [List.countP_append, List.countP_cons]; split <;> omega
          omega
        · intro z hz
          have hz' : z ∈ l1 ++ y :: l2 := by
            simp at hz ⊢; rcases hz with h | h; exact Or.inl h; exact Or.inr (Or.inr h)
          have := hs'.2 z hz'
          simp only [List.countP_cons] at this
          split at this <;> omega
      · exact ⟨t, htr, hat⟩

/-- **greedy_iff_perfect**: when no member has two candidate partners (`sepRel`), the greedy
matcher (with the count check) answers `true` exactly when the member-similarity relation admits a
perfect matching, i.e. is a bijection between the two member lists. The direction "greedy true ⇒
perfect matching" holds without `sepRel`. -/
theorem greedy_iff_perfect {β : Type} (ps : List (β → Bool)) (ys : List β)
    (hs : Spec.sepRel ps ys = true) : matchMembers ps ys = true ↔ Spec.PerfectMatch ps ys := by
  rw [matchMembers_iff]
  exact ⟨greedyRem_perfect ps ys, perfect_greedyRem ps ys hs⟩

theorem mem_picks {β : Type} (ys : List β) (y : β) (r : List β) :
    (y, r) ∈ Spec.picks ys ↔ ∃ l1 l2, ys = l1 ++ y :: l2 ∧ r = l1 ++ l2 := by
  induction ys generalizing r with
  | nil => simp [Spec.picks]
  | cons a ys ih =>
    simp only [Spec.picks, List.mem_cons, List.mem_map, Prod.mk.injEq]
    constructor
    · rintro (⟨h1, h2⟩ | ⟨⟨z, r'⟩, hm, rfl, rfl⟩)
      · exact ⟨[], ys, by simp [h1], by simp [h2]⟩
      · obtain ⟨l1, l2, h1, h2⟩ := (ih _).1 hm
        exact ⟨a :: l1, l2, by simp [h1], by simp [h2]⟩
    · rintro ⟨l1, l2, h1, h2⟩
      cases l1 with
      | nil => simp at h1 h2; left; exact ⟨h1.1.symm, by rw [h2, h1.2]⟩
      | cons b l1 =>
        simp at h1 h2
        right
        refine ⟨(y, l1 ++ l2), (ih _).2 ⟨l1, l2, h1.2, rfl⟩, rfl, ?_⟩
        simp [h2, h1.1]

open Spec in
/-- the backtracking search of the specification finds a pairing iff one exists -/
theorem existsMatching_iff {β : Type} (ps : List (β → Bool)) (ys : List β) :
    existsMatching ps ys = true ↔ PerfectMatch ps ys := by
  induction ps generalizing ys with
  | nil =>
    simp only [existsMatching, List.isEmpty_iff]
    constructor
    · rintro rfl; exact ⟨[], List.Perm.refl _, trivial⟩
    · rintro ⟨ys', hp, ha⟩
      rw [allHold_nil_left] at ha; subst ha; exact List.nil_perm.1 hp
  | cons p ps ih =>
    simp only [existsMatching, List.any_eq_true, Bool.and_eq_true]
    constructor
    · rintro ⟨⟨y, r⟩, hm, hy, hr⟩
      obtain ⟨l1, l2, h1, h2⟩ := (mem_picks _ _ _).1 hm
      obtain ⟨r', hp, ha⟩ := (ih r).1 hr
      subst h1 h2
      exact ⟨y :: r', (List.Perm.cons y hp).trans List.perm_middle.symm, ⟨hy, ha⟩⟩
    · rintro ⟨ys', hp, ha⟩
      obtain ⟨y0, t, rfl, hy0, hat⟩ := (allHold_cons_left _ _ _).1 ha
      have hmem : y0 ∈ ys := hp.subset (by simp)
      obtain ⟨l1, l2, rfl⟩ := List.append_of_mem hmem
      refine ⟨(y0, l1 ++ l2), (mem_picks _ _ _).2 ⟨l1, l2, rfl, rfl⟩, hy0, (ih _).2 ⟨t, ?_, hat⟩⟩
      exact (hp.trans List.perm_middle).cons_inv

/-- under `sepRel` the model's greedy matcher and the specification's search agree -/
theorem matchMembers_eq_existsMatching {β : Type} (ps : List (β → Bool)) (ys : List β)
    (hs : Spec.sepRel ps ys = true) : matchMembers ps ys = Spec.existsMatching ps ys := by
  have h1 := greedy_iff_perfect ps ys hs
  have h2 := existsMatching_iff ps ys
  cases h : matchMembers ps ys <;> cases h' : Spec.existsMatching ps ys <;> simp_all

/-- greedy success always yields a pairing (no separation needed) -/
theorem matchMembers_sound {β : Type} (ps : List (β → Bool)) (ys : List β)
    (h : matchMembers ps ys = true) : Spec.existsMatching ps ys = true :=
  (existsMatching_iff ps ys).2 (greedyRem_perfect ps ys ((matchMembers_iff ps ys).1 h))

theorem removeFirst_congr {β : Type} (p q : β → Bool) (ys : List β) (h : ∀ y ∈ ys, p y = q y) :
    removeFirst p ys = removeFirst q ys := by
  induction ys with
  | nil => rfl
  | cons a ys ih =>
    simp only [removeFirst, h a (by simp), ih (fun y hy => h y (by simp [hy]))]

theorem greedyRem_congr {α β : Type} (R R2 : α → β → Bool) (xs : List α) (ys : List β)
    (h : ∀ x ∈ xs, ∀ y ∈ ys, R x y = R2 x y) :
    greedyRem (xs.map R) ys = greedyRem (xs.map R2) ys := by
  induction xs generalizing ys with
  | nil => rfl
  | cons x xs ih =>
    simp only [List.map_cons, greedyRem]
    rw [removeFirst_congr (R x) (R2 x) ys (fun y hy => h x (by simp) y hy)]
    cases hr : removeFirst (R2 x) ys with
    | none => rfl
    | some r =>
      obtain ⟨l1, y, l2, h1, _, _, h4⟩ := (removeFirst_some _ _ _).1 hr
      subst h1 h4
      simp only [Option.bind_some]
      exact ih _ (fun a ha b hb => h a (by simp [ha]) b (by
        simp at hb ⊢; rcases hb with hb | hb; exact Or.inl hb; exact Or.inr (Or.inr hb)))

theorem matchMembers_congr {α β : Type} (R R2 : α → β → Bool) (xs : List α) (ys : List β)
    (h : ∀ x ∈ xs, ∀ y ∈ ys, R x y = R2 x y) :
    matchMembers (xs.map R) ys = matchMembers (xs.map R2) ys := by
  simp only [matchMembers, greedy_eq_isSome, greedyRem_congr R R2 xs ys h, List.length_map]

/-- a member without any candidate partner makes the matcher answer `false` -/
theorem matchMembers_no_partner {β : Type} (ps : List (β → Bool)) (ys : List β)
    (h : ∃ p ∈ ps, ∀ y ∈ ys, p y = false) : matchMembers ps ys = false := by
  cases hm : matchMembers ps ys with
  | false => rfl
  | true =>
    exfalso
    obtain ⟨ys', hp, ha⟩ := greedyRem_perfect ps ys ((matchMembers_iff ps ys).1 hm)
    obtain ⟨p, hpm, hno⟩ := h
    have key : ∀ (ps : List (β → Bool)) (ys' : List β), Spec.AllHold ps ys' → ∀ p ∈ ps, ∃ y ∈ ys', p y = true := by
      intro ps
      induction ps with
      | nil => intro _ _ p hp; simp at hp
      | cons q qs ih =>
        intro ys' ha p hp
        obtain ⟨y0, t, rfl, hy0, hat⟩ := (allHold_cons_left _ _ _).1 ha
        rcases List.mem_cons.1 hp with rfl | hp
        · exact ⟨y0, by simp, hy0⟩
        · obtain ⟨y, hy, hpy⟩ := ih t hat p hp
          exact ⟨y, by simp [hy], hpy⟩
    obtain ⟨y, hy, hpy⟩ := key ps ys' ha p hpm
    have := hno y (hp.subset hy)
    simp [hpy] at this

/-! ## points -/

theorem abs_lt_iff' (x e : Rat) : x.abs < e ↔ (x < e ∧ -x < e) := by
  unfold Rat.abs
  split <;> grind

theorem similar_eq_near (a b e : Rat) : similar a b e = Spec.near a b e := by
  unfold similar Spec.near
  rw [decide_eq_decide, abs_lt_iff']
  constructor <;> (intro h; constructor <;> grind)

theorem similar_comm (a b e : Rat) : similar a b e = similar b a e := by
  unfold similar; rw [Rat.abs_sub_comm]

theorem pointSimilar_comm (p q : P) (e : Rat) : pointSimilar p q e = pointSimilar q p e := by
  unfold pointSimilar; rw [similar_comm p.x, similar_comm p.y]

theorem pointSimilar_eq_ptNear (p q : P) (e : Rat) : pointSimilar p q e = Spec.ptNear p q e := by
  unfold pointSimilar Spec.ptNear; rw [similar_eq_near, similar_eq_near]

theorem pointsSimilar_comm (ps qs : List P) (e : Rat) : pointsSimilar ps qs e = pointsSimilar qs ps e := by
  induction ps generalizing qs with
  | nil => cases qs <;> simp [pointsSimilar]
  | cons p ps ih => cases qs with
    | nil => simp [pointsSimilar]
    | cons q qs => simp [pointsSimilar, ih qs, pointSimilar_comm p q]

theorem pointsSimilar_eq_ptsNear (ps qs : List P) (e : Rat) : pointsSimilar ps qs e = Spec.ptsNear ps qs e := by
  induction ps generalizing qs with
  | nil => cases qs <;> simp [pointsSimilar, Spec.ptsNear]
  | cons p ps ih => cases qs with
    | nil => simp [pointsSimilar, Spec.ptsNear]
    | cons q qs =>
      simp only [pointsSimilar, ih qs, pointSimilar_eq_ptNear]
      simp only [Spec.ptsNear, List.length_cons, List.zip_cons_cons, List.all_cons]
      cases Spec.ptNear p q e <;> simp

theorem pointsSimilar_length (ps qs : List P) (e : Rat) (h : pointsSimilar ps qs e = true) :
    ps.length = qs.length := by
  induction ps generalizing qs with
  | nil => cases qs <;> simp_all [pointsSimilar]
  | cons p ps ih => cases qs with
    | nil => simp [pointsSimilar] at h
    | cons q qs => simp [pointsSimilar] at h; simp [ih qs h.2]

/-- index form of `pointsSimilar` -/
theorem pointsSimilar_iff (ps qs : List P) (e : Rat) :
    pointsSimilar ps qs e = true ↔
      ps.length = qs.length ∧ ∀ (i : Nat) p q, ps[i]? = some p → qs[i]? = some q → pointSimilar p q e = true := by
  induction ps generalizing qs with
  | nil => cases qs <;> simp [pointsSimilar]
  | cons p ps ih => cases qs with
    | nil => simp [pointsSimilar]
    | cons q qs =>
      simp only [pointsSimilar, Bool.and_eq_true, ih qs, List.length_cons, Nat.add_right_cancel_iff]
      constructor
      · rintro ⟨h0, hl, hi⟩
        refine ⟨hl, ?_⟩
        intro i p' q' hp hq
        cases i with
        | zero => simp at hp hq; subst hp hq; exact h0
        | succ i => simp at hp hq; exact hi i p' q' hp hq
      · rintro ⟨hl, hi⟩
        exact ⟨hi 0 p q (by simp) (by simp), hl, fun i p' q' hp hq => hi (i+1) p' q' (by simpa using hp) (by simpa using hq)⟩

/-! ## rings -/

theorem mod_shift (i k n : Nat) (hi : i < n) (hk : k < n) : ((i + (n - k) % n) % n + k) % n = i := by
  by_cases h0 : k = 0
  · subst h0; simp [Nat.mod_eq_of_lt hi]
  · have h1 : (n - k) % n = n - k := Nat.mod_eq_of_lt (by omega)
    rw [h1]
    by_cases h2 : k ≤ i
    · have e1 : (i + (n - k)) % n = i - k := by
        have : i + (n - k) = (i - k) + n := by omega
        rw [this, Nat.add_mod_right]; exact Nat.mod_eq_of_lt (by omega)
      rw [e1]
      have : i - k + k = i := by omega
      rw [this]; exact Nat.mod_eq_of_lt hi
    · have e1 : (i + (n - k)) % n = i + (n - k) := Nat.mod_eq_of_lt (by omega)
      rw [e1]
      have : i + (n - k) + k = i + n := by omega
      rw [this, Nat.add_mod_right]; exact Nat.mod_eq_of_lt hi

/-- index form of the inner loop of `ringSimilar` -/
theorem ringSimilarFrom_iff (a b : List P) (k n : Nat) (e : Rat) :
    ringSimilarFrom a b k n e = true ↔
      ∀ i, i < n → ∃ p q, a[i]? = some p ∧ b[(i + k) % n]? = some q ∧ pointSimilar p q e = true := by
  simp only [ringSimilarFrom, List.all_eq_true, List.mem_range]
  constructor
  · intro h i hi
    have := h i hi
    split at this
    · next p q hp hq => exact ⟨p, q, hp, hq, this⟩
    · simp at this
  · intro h i hi
    obtain ⟨p, q, hp, hq, hpq⟩ := h i hi
    simp [hp, hq, hpq]

/-- no index of `ringSimilarFrom` is out of range when called from `ringSimilar` (`n = len-1`) -/
theorem ringSimilarFrom_inbounds (a b : List P) (k n i : Nat) (ha : n ≤ a.length) (hb : n ≤ b.length)
    (hi : i < n) : (a[i]?).isSome ∧ (b[(i + k) % n]?).isSome := by
  have : (i + k) % n < n := Nat.mod_lt _ (by omega)
  constructor <;> simp <;> omega

theorem ringSimilarFrom_symm (a b : List P) (k n : Nat) (e : Rat) (hk : k < n)
    (h : ringSimilarFrom a b k n e = true) : ringSimilarFrom b a ((n - k) % n) n e = true := by
  rw [ringSimilarFrom_iff] at *
  intro i hi
  have hj : (i + (n - k) % n) % n < n := Nat.mod_lt _ (by omega)
  obtain ⟨p, q, hp, hq, hpq⟩ := h _ hj
  rw [mod_shift i k n hi hk] at hq
  exact ⟨q, p, hq, hp, by rw [pointSimilar_comm]; exact hpq⟩

theorem ringSimilar_iff (a b : List P) (e : Rat) :
    ringSimilar a b e = true ↔ a.length = b.length ∧
      ((a.length ≤ 1 ∧ pointsSimilar a b e = true) ∨
       (1 < a.length ∧ ∃ k, k < a.length - 1 ∧ ringSimilarFrom a b k (a.length - 1) e = true)) := by
  unfold ringSimilar
  by_cases hl : a.length = b.length
  · by_cases h1 : a.length ≤ 1
    · have h1' : b.length ≤ 1 := by omega
      have : ¬ (1 < b.length) := by omega
      simp [hl, h1', this]
    · have h1' : ¬ b.length ≤ 1 := by omega
      have : 1 < b.length := by omega
      simp [hl, h1', this, List.any_eq_true, List.mem_range]
  · simp [hl]

theorem ringSimilar_symm' (a b : List P) (e : Rat) (h : ringSimilar a b e = true) : ringSimilar b a e = true := by
  rw [ringSimilar_iff] at *
  obtain ⟨hl, h⟩ := h
  refine ⟨hl.symm, ?_⟩
  rcases h with ⟨h1, h2⟩ | ⟨h1, k, hk, h2⟩
  · left; exact ⟨by omega, by rw [pointsSimilar_comm]; exact h2⟩
  · right
    refine ⟨by omega, (a.length - 1 - k) % (a.length - 1), ?_, ?_⟩
    · rw [← hl]; exact Nat.mod_lt _ (by omega)
    · rw [← hl]; exact ringSimilarFrom_symm a b k _ e hk h2

theorem ringSimilar_comm (a b : List P) (e : Rat) : ringSimilar a b e = ringSimilar b a e := by
  cases h1 : ringSimilar a b e <;> cases h2 : ringSimilar b a e <;> simp_all
  · have := ringSimilar_symm' b a e h2; simp_all
  · have := ringSimilar_symm' a b e h1; simp_all

/-! ## rings: the index loops of the code are the rotation reading of the specification -/

theorem length_rot {α : Type} (k : Nat) (l : List α) (hk : k ≤ l.length) : (Spec.rot k l).length = l.length := by
  simp [Spec.rot]; omega

theorem getElem?_rot {α : Type} (l : List α) (k i : Nat) (hk : k < l.length) (hi : i < l.length) :
    (Spec.rot k l)[i]? = l[(i + k) % l.length]? := by
  unfold Spec.rot
  rw [List.getElem?_append]
  simp only [List.length_drop]
  split
  · next h =>
    rw [List.getElem?_drop, Nat.mod_eq_of_lt (by omega), Nat.add_comm]
  · next h =>
    have e : (i + k) % l.length = i + k - l.length := by
      rw [Nat.mod_eq_sub_mod (by omega)]; exact Nat.mod_eq_of_lt (by omega)
    rw [e, List.getElem?_take_of_lt (by omega)]
    congr 1; omega

theorem length_cyc (a : List P) : (Spec.cyc a).length = a.length - 1 := by simp [Spec.cyc]

theorem getElem?_cyc (a : List P) (i : Nat) (hi : i < a.length - 1) : (Spec.cyc a)[i]? = a[i]? := by
  simp only [Spec.cyc, List.dropLast_eq_take]
  exact List.getElem?_take_of_lt hi

theorem ringSimilarFrom_eq_rot (a b : List P) (k : Nat) (e : Rat) (hl : a.length = b.length)
    (hk : k < a.length - 1) :
    ringSimilarFrom a b k (a.length - 1) e = Spec.ptsNear (Spec.cyc a) (Spec.rot k (Spec.cyc b)) e := by
  rw [← pointsSimilar_eq_ptsNear]
  have hcb : (Spec.cyc b).length = a.length - 1 := by rw [length_cyc, hl]
  have key : ringSimilarFrom a b k (a.length - 1) e = true ↔
      pointsSimilar (Spec.cyc a) (Spec.rot k (Spec.cyc b)) e = true := by
    rw [ringSimilarFrom_iff, pointsSimilar_iff]
    constructor
    · intro h
      refine ⟨by rw [length_rot _ _ (by omega), length_cyc, hcb], ?_⟩
      intro i p q hp hq
      have hi : i < a.length - 1 := by
        have := (List.getElem?_eq_some_iff.1 hp).1; rwa [length_cyc] at this
      obtain ⟨p', q', hp', hq', hpq⟩ := h i hi
      rw [getElem?_cyc a i hi] at hp
      rw [getElem?_rot _ _ _ (by omega) (by omega), hcb, getElem?_cyc b _ (by rw [← hl]; exact Nat.mod_lt _ (by omega))] at hq
      rw [hp] at hp'; rw [hq] at hq'
      simp at hp' hq'; subst hp' hq'; exact hpq
    · rintro ⟨_, h⟩ i hi
      have hj : (i + k) % (a.length - 1) < a.length - 1 := Nat.mod_lt _ (by omega)
      have h1 : i < a.length := by omega
      have h2 : (i + k) % (a.length - 1) < b.length := by omega
      refine ⟨a[i], b[(i + k) % (a.length - 1)], by simp, by simp, ?_⟩
      apply h i
      · rw [getElem?_cyc a i hi]; simp
      · rw [getElem?_rot _ _ _ (by omega) (by omega), hcb, getElem?_cyc b _ (by rw [← hl]; exact hj)]; simp
  cases h1 : ringSimilarFrom a b k (a.length - 1) e <;>
    cases h2 : pointsSimilar (Spec.cyc a) (Spec.rot k (Spec.cyc b)) e <;> simp_all

theorem any_congr_mem {α : Type} (l : List α) (f g : α → Bool) (h : ∀ x ∈ l, f x = g x) :
    l.any f = l.any g := by
  induction l with
  | nil => rfl
  | cons a l ih => simp [List.any_cons, h a (by simp), ih (fun x hx => h x (by simp [hx]))]

/-- the model's `ringSimilar` (index loops of the Go code) is the specification's `ringNear`
(some rotation of the cycle without the closing vertex) -/
theorem ringSimilar_eq_ringNear (a b : List P) (e : Rat) : ringSimilar a b e = Spec.ringNear a b e := by
  unfold ringSimilar Spec.ringNear
  by_cases hl : a.length = b.length
  · by_cases h1 : a.length ≤ 1
    · have h1' : b.length ≤ 1 := by omega
      simp [hl, h1', pointsSimilar_eq_ptsNear]
    · have : ¬ b.length ≤ 1 := by omega
      simp only [hl, bne_self_eq_false, Bool.false_eq_true, if_false, this, beq_self_eq_true, Bool.true_and]
      rw [← hl]
      exact any_congr_mem _ _ _ (fun k hk => ringSimilarFrom_eq_rot a b k e hl (List.mem_range.1 hk))
  · simp [hl]

end GeomV.C15
