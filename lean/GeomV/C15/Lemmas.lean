import GeomV.C15.Model
import GeomV.C15.Spec
/-!
# C15 — helper lemmas: the greedy matcher (generic), rings (index form ⇄ rotation form)
-/
set_option linter.unusedSimpArgs false
set_option linter.unusedVariables false
namespace GeomV.C15
open GeomV

/-! ## greedy matcher -/

/-- `greedy` returning the members still unmatched -/
def greedyRem {β : Type} : List (β → Bool) → List β → Option (List β)
  | [], ys => some ys
  | p :: ps, ys => (removeFirst p ys).bind (greedyRem ps)

theorem greedy_eq_isSome {β : Type} (ps : List (β → Bool)) (ys : List β) :
    greedy ps ys = (greedyRem ps ys).isSome := by
  induction ps generalizing ys with
  | nil => simp [greedy, greedyRem]
  | cons p ps ih =>
    simp only [greedy, greedyRem]
    cases h : removeFirst p ys with
    | none => simp
    | some r => simp [ih]

theorem removeFirst_some {β : Type} (p : β → Bool) (ys r : List β) :
    removeFirst p ys = some r ↔
      ∃ l1 y l2, ys = l1 ++ y :: l2 ∧ p y = true ∧ (∀ z ∈ l1, p z = false) ∧ r = l1 ++ l2 := by
  induction ys generalizing r with
  | nil => simp [removeFirst]
  | cons a ys ih =>
    simp only [removeFirst]
    by_cases ha : p a = true
    · simp only [ha, if_true, Option.some.injEq]
      constructor
      · intro h; exact ⟨[], a, ys, by simp, ha, by simp, by simp [h]⟩
      · rintro ⟨l1, y, l2, h1, h2, h3, h4⟩
        cases l1 with
        | nil => simp at h1; simp [h4, h1.2]
        | cons b l1 =>
          simp at h1
          have := h3 b (by simp)
          rw [← h1.1] at this; simp [ha] at this
    · have ha' : p a = false := by simpa using ha
      simp only [ha', Bool.false_eq_true, if_false]
      cases hr : removeFirst p ys with
      | none =>
        simp only [Option.map_none, reduceCtorEq, false_iff]
        rintro ⟨l1, y, l2, h1, h2, h3, h4⟩
        cases l1 with
        | nil => simp at h1; rw [← h1.1] at h2; simp [ha'] at h2
        | cons b l1 =>
          simp at h1
          have := (ih (l1 ++ l2)).2 ⟨l1, y, l2, h1.2, h2, fun z hz => h3 z (by simp [hz]), rfl⟩
          simp [hr] at this
      | some r' =>
        simp only [Option.map_some, Option.some.injEq]
        obtain ⟨l1, y, l2, h1, h2, h3, h4⟩ := (ih r').1 hr
        constructor
        · intro h
          exact ⟨a :: l1, y, l2, by simp [h1], h2, by
            intro z hz; simp at hz; rcases hz with rfl | hz; exact ha'; exact h3 z hz, by simp [← h, h4]⟩
        · rintro ⟨m1, y', m2, g1, g2, g3, g4⟩
          cases m1 with
          | nil => simp at g1; rw [← g1.1] at g2; simp [ha'] at g2
          | cons b m1 =>
            simp at g1
            have := (ih (m1 ++ m2)).2 ⟨m1, y', m2, g1.2, g2, fun z hz => g3 z (by simp [hz]), rfl⟩
            rw [hr] at this
            simp at this
            simp [g4, this, g1.1]

theorem removeFirst_none {β : Type} (p : β → Bool) (ys : List β) :
    removeFirst p ys = none ↔ ∀ z ∈ ys, p z = false := by
  induction ys with
  | nil => simp [removeFirst]
  | cons a ys ih =>
    simp only [removeFirst]
    by_cases ha : p a = true
    · simp [ha]
    · have ha' : p a = false := by simpa using ha
      simp [ha', ih]

theorem removeFirst_length {β : Type} (p : β → Bool) (ys r : List β) (h : removeFirst p ys = some r) :
    r.length + 1 = ys.length := by
  obtain ⟨l1, y, l2, h1, _, _, h4⟩ := (removeFirst_some p ys r).1 h
  subst h1 h4; simp; omega

theorem greedyRem_length {β : Type} (ps : List (β → Bool)) (ys r : List β) (h : greedyRem ps ys = some r) :
    r.length + ps.length = ys.length := by
  induction ps generalizing ys with
  | nil => simp [greedyRem] at h; simp [h]
  | cons p ps ih =>
    simp only [greedyRem] at h
    cases hr : removeFirst p ys with
    | none => simp [hr] at h
    | some r' =>
      simp [hr] at h
      have := ih r' h
      have := removeFirst_length p ys r' hr
      simp; omega

/-- `matchMembers` succeeds exactly when the greedy loops consume every member of the argument -/
theorem matchMembers_iff {β : Type} (ps : List (β → Bool)) (ys : List β) :
    matchMembers ps ys = true ↔ greedyRem ps ys = some [] := by
  simp only [matchMembers, Bool.and_eq_true, beq_iff_eq, greedy_eq_isSome]
  constructor
  · rintro ⟨hl, hs⟩
    cases h : greedyRem ps ys with
    | none => simp [h] at hs
    | some r =>
      have := greedyRem_length ps ys r h
      have : r.length = 0 := by omega
      simp [List.length_eq_zero_iff.1 this]
  · intro h
    have := greedyRem_length ps ys [] h
    simp at this
    simp [h, this]

theorem greedyRem_append {β : Type} (ps qs : List (β → Bool)) (ys : List β) :
    greedyRem (ps ++ qs) ys = (greedyRem ps ys).bind (greedyRem qs) := by
  induction ps generalizing ys with
  | nil => simp [greedyRem]
  | cons p ps ih =>
    simp only [List.cons_append, greedyRem]
    cases removeFirst p ys with
    | none => simp
    | some r => simp [ih]

/-- frame: a member `x` that no predicate accepts stays at the head of the unmatched list -/
theorem greedyRem_frame {β : Type} (qs : List (β → Bool)) (x : β) (zs : List β)
    (h : ∀ q ∈ qs, q x = false) :
    greedyRem qs (x :: zs) = (greedyRem qs zs).map (x :: ·) := by
  induction qs generalizing zs with
  | nil => simp [greedyRem]
  | cons q qs ih =>
    have hq : q x = false := h q (by simp)
    simp only [greedyRem, removeFirst, hq, Bool.false_eq_true, if_false]
    cases removeFirst q zs with
    | none => simp
    | some r => simp [ih r (fun q' hq' => h q' (by simp [hq']))]

/-- The greedy matcher with the count check is symmetric, for ANY relation (no separation needed):
first-fit from the left and first-fit from the right build the same pairing. -/
theorem greedyRem_symm {α β : Type} (R : α → β → Bool) (R' : β → α → Bool) :
    ∀ (xs : List α) (ys : List β), (∀ x ∈ xs, ∀ y ∈ ys, R x y = R' y x) →
      (greedyRem (xs.map R) ys = some [] ↔ greedyRem (ys.map R') xs = some []) := by
  intro xs
  induction xs with
  | nil =>
    intro ys _
    cases ys with
    | nil => simp [greedyRem]
    | cons y ys => simp [greedyRem, removeFirst]
  | cons x xs ih =>
    intro ys hR
    simp only [List.map_cons, greedyRem]
    cases hr : removeFirst (R x) ys with
    | none =>
      have hn := (removeFirst_none _ _).1 hr
      have hf : ∀ q ∈ ys.map R', q x = false := by
        intro q hq
        obtain ⟨y, hy, rfl⟩ := List.mem_map.1 hq
        rw [← hR x (by simp) y hy]; exact hn y hy
      rw [greedyRem_frame _ _ _ hf]
      cases greedyRem (List.map R' ys) xs <;> simp
    | some r =>
      obtain ⟨l1, y, l2, h1, h2, h3, h4⟩ := (removeFirst_some _ _ _).1 hr
      subst h1 h4
      have hf : ∀ q ∈ l1.map R', q x = false := by
        intro q hq
        obtain ⟨z, hz, rfl⟩ := List.mem_map.1 hq
        rw [← hR x (by simp) z (by simp [hz])]; exact h3 z hz
      have hy : R' y x = true := by rw [← hR x (by simp) y (by simp)]; exact h2
      have step : greedyRem ((l1 ++ y :: l2).map R') (x :: xs) = greedyRem ((l1 ++ l2).map R') xs := by
        rw [List.map_append, List.map_append, greedyRem_append, greedyRem_append, greedyRem_frame _ _ _ hf]
        cases greedyRem (List.map R' l1) xs with
        | none => simp
        | some z1 => simp [greedyRem, removeFirst, hy]
      rw [step]
      simp only [Option.bind_some]
      exact ih (l1 ++ l2) (fun a ha b hb => hR a (by simp [ha]) b (by
        simp at hb ⊢; rcases hb with hb | hb; exact Or.inl hb; exact Or.inr (Or.inr hb)))

theorem matchMembers_symm {α β : Type} (R : α → β → Bool) (R' : β → α → Bool)
    (xs : List α) (ys : List β) (h : ∀ x ∈ xs, ∀ y ∈ ys, R x y = R' y x) :
    matchMembers (xs.map R) ys = matchMembers (ys.map R') xs := by
  have := greedyRem_symm R R' xs ys h
  rw [← matchMembers_iff, ← matchMembers_iff] at this
  cases h1 : matchMembers (xs.map R) ys <;> cases h2 : matchMembers (ys.map R') xs <;> simp_all

/-! ## points -/

theorem abs_lt_iff' (x e : Rat) : x.abs < e ↔ (x < e ∧ -x < e) := by
  unfold Rat.abs
  split <;> grind

theorem similar_eq_near (a b e : Rat) : similar a b e = Spec.near a b e := by
  unfold similar Spec.near
  rw [decide_eq_decide, abs_lt_iff']
  constructor <;> (intro h; constructor <;> grind)

theorem similar_comm (a b e : Rat) : similar a b e = similar b a e := by
  unfold similar; rw [Rat.abs_sub_comm]

theorem pointSimilar_comm (p q : P) (e : Rat) : pointSimilar p q e = pointSimilar q p e := by
  unfold pointSimilar; rw [similar_comm p.x, similar_comm p.y]

theorem pointSimilar_eq_ptNear (p q : P) (e : Rat) : pointSimilar p q e = Spec.ptNear p q e := by
  unfold pointSimilar Spec.ptNear; rw [similar_eq_near, similar_eq_near]

theorem pointsSimilar_comm (ps qs : List P) (e : Rat) : pointsSimilar ps qs e = pointsSimilar qs ps e := by
  induction ps generalizing qs with
  | nil => cases qs <;> simp [pointsSimilar]
  | cons p ps ih => cases qs with
    | nil => simp [pointsSimilar]
    | cons q qs => simp [pointsSimilar, ih qs, pointSimilar_comm p q]

theorem pointsSimilar_eq_ptsNear (ps qs : List P) (e : Rat) : pointsSimilar ps qs e = Spec.ptsNear ps qs e := by
  induction ps generalizing qs with
  | nil => cases qs <;> simp [pointsSimilar, Spec.ptsNear]
  | cons p ps ih => cases qs with
    | nil => simp [pointsSimilar, Spec.ptsNear]
    | cons q qs =>
      simp only [pointsSimilar, ih qs, pointSimilar_eq_ptNear]
      simp only [Spec.ptsNear, List.length_cons, List.zip_cons_cons, List.all_cons]
      cases Spec.ptNear p q e <;> simp

theorem pointsSimilar_length (ps qs : List P) (e : Rat) (h : pointsSimilar ps qs e = true) :
    ps.length = qs.length := by
  induction ps generalizing qs with
  | nil => cases qs <;> simp_all [pointsSimilar]
  | cons p ps ih => cases qs with
    | nil => simp [pointsSimilar] at h
    | cons q qs => simp [pointsSimilar] at h; simp [ih qs h.2]

/-- index form of `pointsSimilar` -/
theorem pointsSimilar_iff (ps qs : List P) (e : Rat) :
    pointsSimilar ps qs e = true ↔
      ps.length = qs.length ∧ ∀ (i : Nat) p q, ps[i]? = some p → qs[i]? = some q → pointSimilar p q e = true := by
  induction ps generalizing qs with
  | nil => cases qs <;> simp [pointsSimilar]
  | cons p ps ih => cases qs with
    | nil => simp [pointsSimilar]
    | cons q qs =>
      simp only [pointsSimilar, Bool.and_eq_true, ih qs, List.length_cons, Nat.add_right_cancel_iff]
      constructor
      · rintro ⟨h0, hl, hi⟩
        refine ⟨hl, ?_⟩
        intro i p' q' hp hq
        cases i with
        | zero => simp at hp hq; subst hp hq; exact h0
        | succ i => simp at hp hq; exact hi i p' q' hp hq
      · rintro ⟨hl, hi⟩
        exact ⟨hi 0 p q (by simp) (by simp), hl, fun i p' q' hp hq => hi (i+1) p' q' (by simpa using hp) (by simpa using hq)⟩

/-! ## rings -/

theorem mod_shift (i k n : Nat) (hi : i < n) (hk : k < n) : ((i + (n - k) % n) % n + k) % n = i := by
  by_cases h0 : k = 0
  · subst h0; simp [Nat.mod_eq_of_lt hi]
  · have h1 : (n - k) % n = n - k := Nat.mod_eq_of_lt (by omega)
    rw [h1]
    by_cases h2 : k ≤ i
    · have e1 : (i + (n - k)) % n = i - k := by
        have : i + (n - k) = (i - k) + n := by omega
        rw [this, Nat.add_mod_right]; exact Nat.mod_eq_of_lt (by omega)
      rw [e1]
      have : i - k + k = i := by omega
      rw [this]; exact Nat.mod_eq_of_lt hi
    · have e1 : (i + (n - k)) % n = i + (n - k) := Nat.mod_eq_of_lt (by omega)
      rw [e1]
      have : i + (n - k) + k = i + n := by omega
      rw [this, Nat.add_mod_right]; exact Nat.mod_eq_of_lt hi

/-- index form of the inner loop of `ringSimilar` -/
theorem ringSimilarFrom_iff (a b : List P) (k n : Nat) (e : Rat) :
    ringSimilarFrom a b k n e = true ↔
      ∀ i, i < n → ∃ p q, a[i]? = some p ∧ b[(i + k) % n]? = some q ∧ pointSimilar p q e = true := by
  simp only [ringSimilarFrom, List.all_eq_true, List.mem_range]
  constructor
  · intro h i hi
    have := h i hi
    split at this
    · next p q hp hq => exact ⟨p, q, hp, hq, this⟩
    · simp at this
  · intro h i hi
    obtain ⟨p, q, hp, hq, hpq⟩ := h i hi
    simp [hp, hq, hpq]

/-- no index of `ringSimilarFrom` is out of range when called from `ringSimilar` (`n = len-1`) -/
theorem ringSimilarFrom_inbounds (a b : List P) (k n i : Nat) (ha : n ≤ a.length) (hb : n ≤ b.length)
    (hi : i < n) : (a[i]?).isSome ∧ (b[(i + k) % n]?).isSome := by
  have : (i + k) % n < n := Nat.mod_lt _ (by omega)
  constructor <;> simp <;> omega

theorem ringSimilarFrom_symm (a b : List P) (k n : Nat) (e : Rat) (hk : k < n)
    (h : ringSimilarFrom a b k n e = true) : ringSimilarFrom b a ((n - k) % n) n e = true := by
  rw [ringSimilarFrom_iff] at *
  intro i hi
  have hj : (i + (n - k) % n) % n < n := Nat.mod_lt _ (by omega)
  obtain ⟨p, q, hp, hq, hpq⟩ := h _ hj
  rw [mod_shift i k n hi hk] at hq
  exact ⟨q, p, hq, hp, by rw [pointSimilar_comm]; exact hpq⟩

theorem ringSimilar_iff (a b : List P) (e : Rat) :
    ringSimilar a b e = true ↔ a.length = b.length ∧
      ((a.length ≤ 1 ∧ pointsSimilar a b e = true) ∨
       (1 < a.length ∧ ∃ k, k < a.length - 1 ∧ ringSimilarFrom a b k (a.length - 1) e = true)) := by
  unfold ringSimilar
  by_cases hl : a.length = b.length
  · by_cases h1 : a.length ≤ 1
    · have h1' : b.length ≤ 1 := by omega
      have : ¬ (1 < b.length) := by omega
      simp [hl, h1', this]
    · have h1' : ¬ b.length ≤ 1 := by omega
      have : 1 < b.length := by omega
      simp [hl, h1', this, List.any_eq_true, List.mem_range]
  · simp [hl]

theorem ringSimilar_symm' (a b : List P) (e : Rat) (h : ringSimilar a b e = true) : ringSimilar b a e = true := by
  rw [ringSimilar_iff] at *
  obtain ⟨hl, h⟩ := h
  refine ⟨hl.symm, ?_⟩
  rcases h with ⟨h1, h2⟩ | ⟨h1, k, hk, h2⟩
  · left; exact ⟨by omega, by rw [pointsSimilar_comm]; exact h2⟩
  · right
    refine ⟨by omega, (a.length - 1 - k) % (a.length - 1), ?_, ?_⟩
    · rw [← hl]; exact Nat.mod_lt _ (by omega)
    · rw [← hl]; exact ringSimilarFrom_symm a b k _ e hk h2

theorem ringSimilar_comm (a b : List P) (e : Rat) : ringSimilar a b e = ringSimilar b a e := by
  cases h1 : ringSimilar a b e <;> cases h2 : ringSimilar b a e <;> simp_all
  · have := ringSimilar_symm' b a e h2; simp_all
  · have := ringSimilar_symm' a b e h1; simp_all

end GeomV.C15
