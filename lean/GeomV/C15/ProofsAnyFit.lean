import GeomV.C15.ProofsPath
/-!
# C15 — the any-fit statement through all nesting levels

`simK K1 K2 K3` is the model `sim` in which the inner loop of each of the four member-matching
methods is replaced by an arbitrary candidate-picking rule (`PickRule`: takes SOME unmatched
candidate, fails only when there is none): `K1` for lines of a multi-line-string and rings of a
polygon, `K2` for the polygons of a multi-polygon, `K3` for the members of a collection (at every
depth). When distinct members are separated (`blockSeparated`, repeated members allowed) it answers
exactly what the code's first-fit model answers. So a rewrite of the index bookkeeping of
`MultiLineString/Polygon/MultiPolygon/GeometryCollection.Similar` that keeps these semantics cannot
change any answer on the property's quantifier.
-/
set_option linter.unusedSimpArgs false
set_option linter.unusedVariables false
namespace GeomV.C15
open GeomV

def polygonSimilarK (K1 : PickRule (List P)) (rs rs' : List (List P)) (e : Rat) : Bool :=
  matchWith K1 (rs.map fun r => fun r' => ringSimilar r r' e) rs'

mutual
def simK (K1 : PickRule (List P)) (K2 : PickRule (List (List P))) (K3 : PickRule RGeom) :
    RGeom → Rat → RGeom → Bool
  | .multiLineString ls, e, h => match h with
    | .multiLineString ls' => matchWith K1 (ls.map fun l => fun l' => pointsSimilar l l' e) ls'
    | _ => false
  | .polygon rs, e, h => match h with
    | .polygon rs' => polygonSimilarK K1 rs rs' e
    | _ => false
  | .multiPolygon ps, e, h => match h with
    | .multiPolygon ps' => matchWith K2 (ps.map fun p => fun p' => polygonSimilarK K1 p p' e) ps'
    | _ => false
  | .collection gs, e, h => match h with
    | .collection hs => matchWith K3 (simLK K1 K2 K3 gs e) hs
    | _ => false
  | .point p, e, h => sim (.point p) e h
  | .multiPoint ps, e, h => sim (.multiPoint ps) e h
  | .lineString ps, e, h => sim (.lineString ps) e h
  | .bounds a b, e, h => sim (.bounds a b) e h
  | .nil, _, _ => false
def simLK (K1 : PickRule (List P)) (K2 : PickRule (List (List P))) (K3 : PickRule RGeom) :
    List RGeom → Rat → List (RGeom → Bool)
  | [], _ => []
  | g :: gs, e => simK K1 K2 K3 g e :: simLK K1 K2 K3 gs e
end

theorem simLK_eq_map (K1 : PickRule (List P)) (K2 : PickRule (List (List P))) (K3 : PickRule RGeom)
    (gs : List RGeom) (e : Rat) : simLK K1 K2 K3 gs e = gs.map fun g => simK K1 K2 K3 g e := by
  induction gs with
  | nil => simp [simLK]
  | cons g gs ih => simp [simLK, ih]

/-- one level: the rule's answer on rows that agree with a block-structured relation `R` is the
first-fit answer on `R` -/
theorem matchWith_eq_of_rows {α β : Type} (K : PickRule β) (RK R : α → β → Bool) (xs : List α) (ys : List β)
    (h : ∀ x ∈ xs, ∀ y ∈ ys, RK x y = R x y) (hb : Spec.blockRel (xs.map R) ys = true) :
    matchWith K (xs.map RK) ys = matchMembers (xs.map R) ys := by
  have hbK : Spec.blockRel (xs.map RK) ys = true :=
    BlockP_blockRel _ _ (blockP_of_rows RK R xs ys h (blockRel_BlockP _ _ hb))
  rw [C15_any_fit_matcher K _ _ hbK]
  exact matchMembers_congr RK R xs ys h

theorem polygonSimilarK_eq (K1 : PickRule (List P)) (rs rs' : List (List P)) (e : Rat)
    (hs : Spec.blockRel (Spec.ringPreds rs e) rs' = true) :
    polygonSimilarK K1 rs rs' e = polygonSimilar rs rs' e := by
  unfold polygonSimilarK polygonSimilar
  have hm : (rs.map fun r => fun r' => ringSimilar r r' e) = Spec.ringPreds rs e := by
    unfold Spec.ringPreds; congr; funext r r'; exact ringSimilar_eq_ringNear r r' e
  rw [hm]; exact C15_any_fit_matcher K1 _ _ hs

mutual
theorem simK_eq (K1 : PickRule (List P)) (K2 : PickRule (List (List P))) (K3 : PickRule RGeom) (e : Rat) :
    ∀ (g h : RGeom), Spec.blockSeparated g e h = true → simK K1 K2 K3 g e h = sim g e h
  | .point p, h, _ => by simp [simK]
  | .multiPoint ps, h, _ => by simp [simK]
  | .lineString ps, h, _ => by simp [simK]
  | .bounds a b, h, _ => by simp [simK]
  | .nil, h, _ => by simp [simK, sim]
  | .multiLineString ls, h, hs => by
    cases h with
    | multiLineString ls' =>
      simp only [simK, sim, mlsSimilar]
      have hm : (ls.map fun l => fun l' => pointsSimilar l l' e) = (ls.map fun l => fun l' => Spec.ptsNear l l' e) := by
        congr; funext l l'; exact pointsSimilar_eq_ptsNear l l' e
      rw [hm]; exact C15_any_fit_matcher K1 _ _ (by simpa [Spec.blockSeparated] using hs)
    | _ => simp [simK, sim]
  | .polygon rs, h, hs => by
    cases h with
    | polygon rs' =>
      simp only [simK, sim]
      exact polygonSimilarK_eq K1 rs rs' e (by simpa [Spec.blockSeparated] using hs)
    | _ => simp [simK, sim]
  | .multiPolygon ps, h, hs => by
    cases h with
    | multiPolygon ps' =>
      simp only [Spec.blockSeparated, Bool.and_eq_true, List.all_eq_true] at hs
      simp only [simK, sim, mpgSimilar]
      rw [matchWith_eq_of_rows K2 (fun p p' => polygonSimilarK K1 p p' e) (fun p p' => Spec.polygonNear p p' e) ps ps'
        (fun p hp p' hp' => by
          rw [polygonSimilarK_eq K1 p p' e (hs.2 p hp p' hp'), polygonSimilar_eq_block p p' e (hs.2 p hp p' hp')])
        hs.1]
      exact (matchMembers_congr (fun p p' => polygonSimilar p p' e) (fun p p' => Spec.polygonNear p p' e) ps ps'
        (fun p hp p' hp' => polygonSimilar_eq_block p p' e (hs.2 p hp p' hp'))).symm
    | _ => simp [simK, sim]
  | .collection gs, h, hs => by
    cases h with
    | collection hs' =>
      simp only [Spec.blockSeparated, Bool.and_eq_true, List.all_eq_true, blockSeparatedL_eq_map, List.mem_map] at hs
      simp only [simK, sim, simLK_eq_map, simL_eq_map]
      have hpair : ∀ g ∈ gs, ∀ h ∈ hs', Spec.blockSeparated g e h = true :=
        fun g hg h hh => hs.2 _ ⟨g, hg, rfl⟩ h hh
      rw [matchWith_eq_of_rows K3 (fun g h => simK K1 K2 K3 g e h) (fun g h => Spec.specSim g e h) gs hs'
        (fun g hg h hh => by
          rw [simK_eqL K1 K2 K3 e gs g hg h (hpair g hg h hh), model_eq_spec_block e g h (hpair g hg h hh)])
        (by rw [← specSimL_eq_map]; exact hs.1)]
      exact (matchMembers_congr (fun g h => sim g e h) (fun g h => Spec.specSim g e h) gs hs'
        (fun g hg h hh => model_eq_spec_block e g h (hpair g hg h hh))).symm
    | _ => simp [simK, sim]
theorem simK_eqL (K1 : PickRule (List P)) (K2 : PickRule (List (List P))) (K3 : PickRule RGeom) (e : Rat) :
    ∀ (gs : List RGeom), ∀ g ∈ gs, ∀ h, Spec.blockSeparated g e h = true → simK K1 K2 K3 g e h = sim g e h
  | [] => by simp
  | g' :: gs => List.forall_mem_cons.2 ⟨simK_eq K1 K2 K3 e g', simK_eqL K1 K2 K3 e gs⟩
end

/-- **Any candidate-picking rules in the four member-matching methods, at every nesting level, give
the answers of the code** when distinct members are separated (repeated members allowed): all eight
types, any depth, any member counts. -/
theorem C15_any_fit_all_levels (K1 : PickRule (List P)) (K2 : PickRule (List (List P))) (K3 : PickRule RGeom)
    (g h : RGeom) (tol : Rat) (hs : Spec.blockSeparated g tol h = true) :
    simK K1 K2 K3 g tol h = sim g tol h := simK_eq K1 K2 K3 tol g h hs

/-- with the first-candidate rule everywhere `simK` IS the model (no hypothesis): the statement above
is about the code's own matcher when the rules are instantiated with it -/
theorem polygonSimilarK_firstFit (rs rs' : List (List P)) (e : Rat) :
    polygonSimilarK (firstFit _) rs rs' e = polygonSimilar rs rs' e := by
  unfold polygonSimilarK polygonSimilar; exact C15_firstFit_is_code _ _

/-! non-vacuity: last-fit everywhere on a multi-polygon holding the same polygon twice, nested in a collection -/
section Examples
private def v (x y : Rat) : P := ⟨x, y⟩
private def t1 : List P := [v 0 0, v 4 0, v 0 4, v 0 0]
private def t2 : List P := [v 9 9, v 13 9, v 9 13, v 9 9]
private def gL : RGeom := .collection [.multiPolygon [[t1], [t2], [t1]], .lineString [v 1 1, v 2 2]]
private def gR : RGeom := .collection [.lineString [v 1 1, v 2 2], .multiPolygon [[t1], [t1], [t2]]]
example : Spec.blockSeparated gL (1/10) gR = true := by decide +kernel
example : simK (lastFit _) (lastFit _) (lastFit _) gL (1/10) gR = true ∧ sim gL (1/10) gR = true := by decide +kernel
end Examples

end GeomV.C15
