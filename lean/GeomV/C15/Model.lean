import GeomV.Common.Geom
/-!
# C15 — model of /repo/similar.go (after the two `fix:` commits), function by function

Numbers are exact rationals (core `Rat`): the Go code only forms `math.Abs(a-b) < e`, so for finite
doubles whose difference is computed exactly (dyadic grids) this model *is* the float code; for
other doubles the rounding of `a-b` matters only when `|a-b|` is within an ulp of `e`.

Go `Similar` methods never return an error and (after the fixes) contain no slice index that can
be out of range; the only fault left is calling `Similar` on a nil interface / nil `*Bounds`
member, which is outside the property (the eight types): in `sim` a `Geom.nil` receiver answers
`false`; `simE` at the end of this file is `sim` with that panic as a modelled fault (compared with
the real code on the lines tagged `nilm`).
-/
namespace GeomV.C15
open GeomV

abbrev P := Pt Rat
abbrev RGeom := Geom Rat

/-- `func similar(a, b, e float64) bool { return math.Abs(a-b) < e }` -/
def similar (a b e : Rat) : Bool := decide ((a - b).abs < e)

/-- `func pointSimilar(p1, p2 Point, e float64) bool` -/
def pointSimilar (p q : P) (e : Rat) : Bool := similar p.x q.x e && similar p.y q.y e

/-- `func pointsSimilar(p1s, p2s []Point, e float64) bool`: `false` when the lengths differ, else
the conjunction over all indices (the Go loop returns at the first failing index). -/
def pointsSimilar : List P → List P → Rat → Bool
  | [], [], _ => true
  | p :: ps, q :: qs, e => pointSimilar p q e && pointsSimilar ps qs e
  | _, _, _ => false

/-- `func ringSimilarFrom(a, b []Point, k, n int, e float64) bool`:
`for i := 0; i < n; i++ { if !pointSimilar(a[i], b[(i+k)%n], e) { return false } }; return true`.
Both indices are in range whenever `n ≤ len a`, `n ≤ len b` (theorem `ringSimilarFrom_inbounds`);
the `none` branches are therefore never taken from `ringSimilar`. -/
def ringSimilarFrom (a b : List P) (k n : Nat) (e : Rat) : Bool :=
  (List.range n).all fun i =>
    match a[i]?, b[(i + k) % n]? with
    | some p, some q => pointSimilar p q e
    | _, _ => false

/-- `func ringSimilar(a, b []Point, e float64) bool` (fixed version: every start point of `b`). -/
def ringSimilar (a b : List P) (e : Rat) : Bool :=
  if a.length != b.length then false
  else
    -- n := len(a) - 1; if n < 1 { return pointsSimilar(a, b, e) }
    if a.length ≤ 1 then pointsSimilar a b e
    else (List.range (a.length - 1)).any fun k => ringSimilarFrom a b k (a.length - 1) e

/-! ### the greedy matcher shared by MultiLineString, MultiPolygon, Polygon, GeometryCollection

A member of the receiver is represented by its predicate on members of the argument
(`l.Similar(ml2[i], tolerance)`); the Go code keeps a slice of the indices of the argument's members
that are still unmatched, the model keeps those members themselves. -/

/-- inner loop `for ii, i := range indices { if … { remove index i; break } }`:
remove the first remaining member that satisfies `p`; `none` when there is no match. -/
def removeFirst {β : Type} (p : β → Bool) : List β → Option (List β)
  | [] => none
  | y :: ys => if p y then some ys else (removeFirst p ys).map (y :: ·)

/-- outer loop `for _, l := range ml { …; if !matched { return false } }; return true` -/
def greedy {β : Type} : List (β → Bool) → List β → Bool
  | [], _ => true
  | p :: ps, ys =>
    match removeFirst p ys with
    | none => false
    | some ys' => greedy ps ys'

/-- `if len(ml) != len(ml2) { return false }` (the first fix) followed by the greedy loops -/
def matchMembers {β : Type} (ps : List (β → Bool)) (ys : List β) : Bool :=
  ps.length == ys.length && greedy ps ys

/-- `func (ml MultiLineString) Similar`, both arguments already known to be multi-line-strings -/
def mlsSimilar (ls ls' : List (List P)) (e : Rat) : Bool :=
  matchMembers (ls.map fun l => fun l' => pointsSimilar l l' e) ls'

/-- `func (p Polygon) Similar` -/
def polygonSimilar (rs rs' : List (List P)) (e : Rat) : Bool :=
  matchMembers (rs.map fun r => fun r' => ringSimilar r r' e) rs'

/-- `func (mp MultiPolygon) Similar` -/
def mpgSimilar (ps ps' : List (List (List P))) (e : Rat) : Bool :=
  matchMembers (ps.map fun p => fun p' => polygonSimilar p p' e) ps'

mutual
/-- `g.Similar(h, e)` for the eight types: the type switch answers `false` for a different dynamic
type. Argument order `sim g e h` (tolerance in the middle) makes `sim g e` the member predicate. -/
def sim : RGeom → Rat → RGeom → Bool
  | .point p, e, h => match h with
    | .point q => pointSimilar p q e
    | _ => false
  | .multiPoint ps, e, h => match h with
    | .multiPoint qs => pointsSimilar ps qs e
    | _ => false
  | .lineString ps, e, h => match h with
    | .lineString qs => pointsSimilar ps qs e
    | _ => false
  | .multiLineString ls, e, h => match h with
    | .multiLineString ls' => mlsSimilar ls ls' e
    | _ => false
  | .polygon rs, e, h => match h with
    | .polygon rs' => polygonSimilar rs rs' e
    | _ => false
  | .multiPolygon ps, e, h => match h with
    | .multiPolygon ps' => mpgSimilar ps ps' e
    | _ => false
  | .collection gs, e, h => match h with
    | .collection hs => matchMembers (simL gs e) hs
    | _ => false
  | .bounds a b, e, h => match h with
    | .bounds c d => pointSimilar a c e && pointSimilar b d e
    | _ => false
  | .nil, _, _ => false
/-- the member predicates `gc1.Similar(·, tolerance)` of a collection's members -/
def simL : List RGeom → Rat → List (RGeom → Bool)
  | [], _ => []
  | g :: gs, e => sim g e :: simL gs e
end

/-! ### nil interface values (outside the property's eight types; modelled as faults)

Calling `Similar` on a nil interface value panics (`runtime error: invalid memory address or nil
pointer dereference`). A nil interface can only be a RECEIVER as a member of a collection on the
receiver side (`gc1.Similar(gc2[i], tolerance)` with `gc1 == nil`) or as the top-level receiver; as
an ARGUMENT it falls into the `default:` branch of every type switch (`false`). `simE` is `sim` with
that fault: the greedy loops run in `Except Fault`, so the panic happens exactly when the loops reach
a nil receiver member — not when the count check or an earlier unmatched member has already
answered `false`. (A typed nil `*Bounds` cannot be written in the line protocol and is not modelled.) -/

inductive Fault where
  /-- `panic: runtime error: invalid memory address or nil pointer dereference` -/
  | nilDeref
deriving Repr, DecidableEq

def removeFirstM {β : Type} (p : β → Except Fault Bool) : List β → Except Fault (Option (List β))
  | [] => .ok none
  | y :: ys =>
    match p y with
    | .error f => .error f
    | .ok true => .ok (some ys)
    | .ok false =>
      match removeFirstM p ys with
      | .error f => .error f
      | .ok r => .ok (r.map (y :: ·))

def greedyM {β : Type} : List (β → Except Fault Bool) → List β → Except Fault Bool
  | [], _ => .ok true
  | p :: ps, ys =>
    match removeFirstM p ys with
    | .error f => .error f
    | .ok none => .ok false
    | .ok (some ys') => greedyM ps ys'

mutual
/-- `g.Similar(h, e)` including the nil-interface panic -/
def simE : RGeom → Rat → RGeom → Except Fault Bool
  | .nil, _, _ => .error .nilDeref
  | .collection gs, e, h => match h with
    | .collection hs => if gs.length != hs.length then .ok false else greedyM (simLE gs e) hs
    | _ => .ok false
  | .point p, e, h => .ok (sim (.point p) e h)
  | .multiPoint ps, e, h => .ok (sim (.multiPoint ps) e h)
  | .lineString ps, e, h => .ok (sim (.lineString ps) e h)
  | .multiLineString ls, e, h => .ok (sim (.multiLineString ls) e h)
  | .polygon rs, e, h => .ok (sim (.polygon rs) e h)
  | .multiPolygon ps, e, h => .ok (sim (.multiPolygon ps) e h)
  | .bounds a b, e, h => .ok (sim (.bounds a b) e h)
def simLE : List RGeom → Rat → List (RGeom → Except Fault Bool)
  | [], _ => []
  | g :: gs, e => simE g e :: simLE gs e
end

end GeomV.C15
