import GeomV.C15.ProofsFloatLift
import GeomV.C02.IEEE
/-!
# C15 — IEEE-754 binary64 roundTiesToEven IS a `Rounding` in the sense of ProofsFloat.lean

`C02.rne : Rat → Rat` (lean/GeomV/C02/IEEE.lean) is the value of the bit pattern computed by C17's
`Dec.roundPos` (exact natural-number round-to-nearest-even on the 64-bit pattern) with the sign of
the argument. It is monotone (`C02.rne_mono`), odd (`C02.rne_neg`) and fixes every double
`m · 2^e`, `|m| ≤ 2^53`, `-1074 ≤ e ≤ 970` (`C02.rne_rep`): the three fields of `Rounding`.
Hence the hypothesis "Go's float64 `a-b` is a monotone odd rounding fixing the representable
numbers" of `C15_float_false/_true/_exact/_symm/_lift` is no longer assumed of an abstract `rnd`:
it is proved of the round-to-nearest-even model. (What stays trusted: that the hardware subtraction
IS roundTiesToEven of the exact difference — IEEE 754 — and that `math.Abs`, `<` are exact. On
overflow of `a-b` the model continues with ±2^1024, the value standing for ±Inf: `|±Inf| < e` is
false in the code and `2^1024 < e` is false for every double `e`, so the answers agree there too.)
-/
namespace GeomV.C15
open GeomV

/-- the finite binary64 values (all subnormal and normal doubles): `m · 2^e` with `|m| ≤ 2^53`,
`-1074 ≤ e ≤ 970` -/
def IsDouble (x : Rat) : Prop :=
  ∃ m e : Int, |m| ≤ 2 ^ 53 ∧ -1074 ≤ e ∧ e ≤ 970 ∧ x = (m : Rat) * (2 : Rat) ^ e

/-- **float64 roundTiesToEven is a `Rounding` on the doubles** (monotone, odd, identity on doubles) -/
theorem C15_rne_rounding : Rounding C02.rne IsDouble where
  mono := C02.rne_mono
  odd := C02.rne_neg
  fix := by
    rintro x ⟨m, e, hm, he, h970, rfl⟩
    exact C02.rne_rep m e hm he h970

/-- `similar` of similar.go evaluated in IEEE binary64: `|rne(a − b)| < e` -/
def float64Similar (a b e : Rat) : Bool := floatSimilar C02.rne a b e

/-- **the float64 code of all eight `Similar` methods = the exact model** on every input whose
x–x / y–y coordinate pairs of receiver × argument are `Clear` (difference a double, or at least
`tol`, or at most a double `f < tol`), `tol` a double — `C15_float_lift` with the IEEE rounding,
no hypothesis about the rounding left. -/
theorem C15_float64_lift (g h : RGeom) (e : Rat) (he : IsDouble e)
    (hc : ∀ p ∈ ptsOf g, ∀ q ∈ ptsOf h, Clear IsDouble e p.x q.x ∧ Clear IsDouble e p.y q.y) :
    simC (fun a b => float64Similar a b e) g h = sim g e h :=
  C15_float_lift C15_rne_rounding g h e he hc

/-- displaced by at least `tol` ⇒ the float64 comparison answers false (no margin) -/
theorem C15_float64_false (a b e : Rat) (he : IsDouble e) (h : similar a b e = false) :
    float64Similar a b e = false := C15_float_false C15_rne_rounding a b e he h

/-- perturbed by at most a double `f < tol` ⇒ the float64 comparison answers true -/
theorem C15_float64_true (a b e f : Rat) (hf : IsDouble f) (hfe : f < e) (h : (a - b).abs ≤ f) :
    float64Similar a b e = true := (C15_float_true C15_rne_rounding a b e f hf hfe h).1

/-- the float64 comparison is symmetric -/
theorem C15_float64_symm (a b e : Rat) : float64Similar a b e = float64Similar b a e :=
  C15_float_symm C15_rne_rounding a b e

/-! non-vacuity: 1/2, 3, 2^-30 are doubles; a pair with exact differences -/
example : IsDouble (1 / 2) := ⟨1, -1, by norm_num, by norm_num, by norm_num, by norm_num⟩
example : IsDouble 3 := ⟨3, 0, by norm_num, by norm_num, by norm_num, by norm_num⟩
example : Clear IsDouble (1 / 2) (3 : Rat) (5 / 2) :=
  Or.inl ⟨1, -1, by norm_num, by norm_num, by norm_num, by norm_num⟩

/-! ### dyadic grids: no margin condition at all -/

/-- `x` is an integer multiple `m · 2^k` of the grid unit `2^k` with `|m| ≤ 2^52` (the generator's
dyadic bases: unit `tol/64`, integer coordinates far below 2^52) -/
def OnGrid (k : Int) (x : Rat) : Prop := ∃ m : Int, |m| ≤ 2 ^ 52 ∧ x = (m : Rat) * (2 : Rat) ^ k

/-- the difference of two grid values is a double: computed exactly by float64 -/
theorem isDouble_sub_of_onGrid (k : Int) (hk : -1074 ≤ k) (hk' : k ≤ 970) (a b : Rat)
    (ha : OnGrid k a) (hb : OnGrid k b) : IsDouble (a - b) := by
  obtain ⟨m, hm, rfl⟩ := ha
  obtain ⟨n, hn, rfl⟩ := hb
  refine ⟨m - n, k, ?_, hk, hk', ?_⟩
  · have h1 := abs_le.mp hm
    have h2 := abs_le.mp hn
    rw [abs_le]
    constructor <;> omega
  · push_cast; ring

/-- **On a dyadic grid the float64 code of all eight methods IS the exact model**: every coordinate
of both operands an integer multiple (|m| ≤ 2^52) of one unit `2^k`, `-1074 ≤ k ≤ 970`, `tol` a
double — no margin condition at all (this is the case of the generator's dyadic bases, 80 % of the
generated pairs, from tol = 2^-900 to 2^900). -/
theorem C15_float64_grid (k : Int) (hk : -1074 ≤ k) (hk' : k ≤ 970) (g h : RGeom) (e : Rat) (he : IsDouble e)
    (hg : ∀ p ∈ ptsOf g, OnGrid k p.x ∧ OnGrid k p.y) (hh : ∀ q ∈ ptsOf h, OnGrid k q.x ∧ OnGrid k q.y) :
    simC (fun a b => float64Similar a b e) g h = sim g e h :=
  C15_float64_lift g h e he fun p hp q hq =>
    ⟨Or.inl (isDouble_sub_of_onGrid k hk hk' _ _ (hg p hp).1 (hh q hq).1),
     Or.inl (isDouble_sub_of_onGrid k hk hk' _ _ (hg p hp).2 (hh q hq).2)⟩

example : OnGrid (-6) (3 / 64) := ⟨3, by norm_num, by norm_num⟩

end GeomV.C15
