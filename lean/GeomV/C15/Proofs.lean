import GeomV.C15.Model
import GeomV.C15.Spec
namespace GeomV.C15
theorem C15_placeholder : True := trivial
end GeomV.C15
