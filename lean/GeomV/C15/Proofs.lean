import GeomV.C15.Lemmas
/-!
# C15 — property theorems about the model of similar.go (fixed code)
-/
set_option linter.unusedSimpArgs false
set_option linter.unusedVariables false
namespace GeomV.C15
open GeomV

theorem simL_eq_map (gs : List RGeom) (e : Rat) : simL gs e = gs.map fun g => sim g e := by
  induction gs with
  | nil => simp [simL]
  | cons g gs ih => simp [simL, ih]

theorem mlsSimilar_comm (a b : List (List P)) (e : Rat) : mlsSimilar a b e = mlsSimilar b a e := by
  unfold mlsSimilar
  exact matchMembers_symm (fun l l' => pointsSimilar l l' e) (fun l l' => pointsSimilar l l' e) a b
    (fun x _ y _ => pointsSimilar_comm x y e)

theorem polygonSimilar_comm (a b : List (List P)) (e : Rat) : polygonSimilar a b e = polygonSimilar b a e := by
  unfold polygonSimilar
  exact matchMembers_symm (fun l l' => ringSimilar l l' e) (fun l l' => ringSimilar l l' e) a b
    (fun x _ y _ => ringSimilar_comm x y e)

theorem mpgSimilar_comm (a b : List (List (List P))) (e : Rat) : mpgSimilar a b e = mpgSimilar b a e := by
  unfold mpgSimilar
  exact matchMembers_symm (fun l l' => polygonSimilar l l' e) (fun l l' => polygonSimilar l l' e) a b
    (fun x _ y _ => polygonSimilar_comm x y e)

mutual
theorem sim_comm (e : Rat) : ∀ (g h : RGeom), sim g e h = sim h e g
  | .point p, h => by cases h <;> simp [sim, pointSimilar_comm]
  | .multiPoint ps, h => by cases h <;> simp [sim, pointsSimilar_comm]
  | .lineString ps, h => by cases h <;> simp [sim, pointsSimilar_comm]
  | .multiLineString ls, h => by cases h <;> simp [sim, mlsSimilar_comm]
  | .polygon rs, h => by cases h <;> simp [sim, polygonSimilar_comm]
  | .multiPolygon ps, h => by cases h <;> simp [sim, mpgSimilar_comm]
  | .bounds a b, h => by cases h <;> simp [sim, pointSimilar_comm]
  | .nil, h => by cases h <;> simp [sim]
  | .collection gs, h => by
    cases h with
    | collection hs =>
      simp only [sim, simL_eq_map]
      exact matchMembers_symm (fun g h => sim g e h) (fun h g => sim h e g) gs hs
        (fun x hx y _ => simL_comm e gs x hx y)
    | _ => simp [sim]
theorem simL_comm (e : Rat) : ∀ (gs : List RGeom), ∀ g ∈ gs, ∀ h, sim g e h = sim h e g
  | [] => by simp
  | g' :: gs => List.forall_mem_cons.2 ⟨sim_comm e g', simL_comm e gs⟩
end

/-- **Symmetry** (first clause), for every pair of geometries of the eight types, every nesting
depth and every tolerance — no separation hypothesis is needed for the fixed code:
`g.Similar(h, tol) = h.Similar(g, tol)`. -/
theorem C15_symm_all (g h : RGeom) (tol : Rat) : sim g tol h = sim h tol g := sim_comm tol g h

/-- The symmetry clause exactly as the property states it (positive tolerance, matching
unambiguous); a special case of `C15_symm_all`. -/
theorem C15_symm (g h : RGeom) (tol : Rat) (_ : Spec.separated g tol h = true) (_ : 0 < tol) :
    sim g tol h = sim h tol g := sim_comm tol g h

end GeomV.C15
