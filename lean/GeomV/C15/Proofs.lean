import GeomV.C15.Lemmas
/-!
# C15 — property theorems about the model of similar.go (fixed code)
-/
set_option linter.unusedSimpArgs false
set_option linter.unusedVariables false
namespace GeomV.C15
open GeomV

theorem simL_eq_map (gs : List RGeom) (e : Rat) : simL gs e = gs.map fun g => sim g e := by
  induction gs with
  | nil => simp [simL]
  | cons g gs ih => simp [simL, ih]

theorem mlsSimilar_comm (a b : List (List P)) (e : Rat) : mlsSimilar a b e = mlsSimilar b a e := by
  unfold mlsSimilar
  exact matchMembers_symm (fun l l' => pointsSimilar l l' e) (fun l l' => pointsSimilar l l' e) a b
    (fun x _ y _ => pointsSimilar_comm x y e)

theorem polygonSimilar_comm (a b : List (List P)) (e : Rat) : polygonSimilar a b e = polygonSimilar b a e := by
  unfold polygonSimilar
  exact matchMembers_symm (fun l l' => ringSimilar l l' e) (fun l l' => ringSimilar l l' e) a b
    (fun x _ y _ => ringSimilar_comm x y e)

theorem mpgSimilar_comm (a b : List (List (List P))) (e : Rat) : mpgSimilar a b e = mpgSimilar b a e := by
  unfold mpgSimilar
  exact matchMembers_symm (fun l l' => polygonSimilar l l' e) (fun l l' => polygonSimilar l l' e) a b
    (fun x _ y _ => polygonSimilar_comm x y e)

mutual
theorem sim_comm (e : Rat) : ∀ (g h : RGeom), sim g e h = sim h e g
  | .point p, h => by cases h <;> simp [sim, pointSimilar_comm]
  | .multiPoint ps, h => by cases h <;> simp [sim, pointsSimilar_comm]
  | .lineString ps, h => by cases h <;> simp [sim, pointsSimilar_comm]
  | .multiLineString ls, h => by cases h <;> simp [sim, mlsSimilar_comm]
  | .polygon rs, h => by cases h <;> simp [sim, polygonSimilar_comm]
  | .multiPolygon ps, h => by cases h <;> simp [sim, mpgSimilar_comm]
  | .bounds a b, h => by cases h <;> simp [sim, pointSimilar_comm]
  | .nil, h => by cases h <;> simp [sim]
  | .collection gs, h => by
    cases h with
    | collection hs =>
      simp only [sim, simL_eq_map]
      exact matchMembers_symm (fun g h => sim g e h) (fun h g => sim h e g) gs hs
        (fun x hx y _ => simL_comm e gs x hx y)
    | _ => simp [sim]
theorem simL_comm (e : Rat) : ∀ (gs : List RGeom), ∀ g ∈ gs, ∀ h, sim g e h = sim h e g
  | [] => by simp
  | g' :: gs => List.forall_mem_cons.2 ⟨sim_comm e g', simL_comm e gs⟩
end

/-- **Symmetry** (first clause), for every pair of geometries of the eight types, every nesting
depth and every tolerance — no separation hypothesis is needed for the fixed code:
`g.Similar(h, tol) = h.Similar(g, tol)`. -/
theorem C15_symm_all (g h : RGeom) (tol : Rat) : sim g tol h = sim h tol g := sim_comm tol g h

/-- The symmetry clause exactly as the property states it (positive tolerance, matching
unambiguous); a special case of `C15_symm_all`. -/
theorem C15_symm (g h : RGeom) (tol : Rat) (_ : Spec.separated g tol h = true) (_ : 0 < tol) :
    sim g tol h = sim h tol g := sim_comm tol g h

/-! ## model = specification when matching is unambiguous -/

theorem specSimL_eq_map (gs : List RGeom) (e : Rat) : Spec.specSimL gs e = gs.map fun g => Spec.specSim g e := by
  induction gs with
  | nil => simp [Spec.specSimL]
  | cons g gs ih => simp [Spec.specSimL, ih]

theorem separatedL_eq_map (gs : List RGeom) (e : Rat) : Spec.separatedL gs e = gs.map fun g => Spec.separated g e := by
  induction gs with
  | nil => simp [Spec.separatedL]
  | cons g gs ih => simp [Spec.separatedL, ih]

theorem mlsSimilar_eq (ls ls' : List (List P)) (e : Rat)
    (hs : Spec.sepRel (ls.map fun l => fun l' => Spec.ptsNear l l' e) ls' = true) :
    mlsSimilar ls ls' e = Spec.mlsNear ls ls' e := by
  unfold mlsSimilar Spec.mlsNear
  have : (ls.map fun l => fun l' => pointsSimilar l l' e) = (ls.map fun l => fun l' => Spec.ptsNear l l' e) := by
    congr; funext l l'; exact pointsSimilar_eq_ptsNear l l' e
  rw [this]; exact matchMembers_eq_existsMatching _ _ hs

theorem polygonSimilar_eq (rs rs' : List (List P)) (e : Rat)
    (hs : Spec.sepRel (Spec.ringPreds rs e) rs' = true) :
    polygonSimilar rs rs' e = Spec.polygonNear rs rs' e := by
  unfold polygonSimilar Spec.polygonNear
  have : (rs.map fun r => fun r' => ringSimilar r r' e) = Spec.ringPreds rs e := by
    unfold Spec.ringPreds; congr; funext r r'; exact ringSimilar_eq_ringNear r r' e
  rw [this]; exact matchMembers_eq_existsMatching _ _ hs

theorem mpgSimilar_eq (ps ps' : List (List (List P))) (e : Rat)
    (hs : Spec.sepRel (ps.map fun p => fun p' => Spec.polygonNear p p' e) ps' = true)
    (hr : ∀ p ∈ ps, ∀ p' ∈ ps', Spec.sepRel (Spec.ringPreds p e) p' = true) :
    mpgSimilar ps ps' e = Spec.mpgNear ps ps' e := by
  unfold mpgSimilar Spec.mpgNear
  rw [matchMembers_congr (fun p p' => polygonSimilar p p' e) (fun p p' => Spec.polygonNear p p' e) ps ps'
    (fun p hp p' hp' => polygonSimilar_eq p p' e (hr p hp p' hp'))]
  exact matchMembers_eq_existsMatching _ _ hs

mutual
theorem model_eq_spec (e : Rat) : ∀ (g h : RGeom), Spec.separated g e h = true → sim g e h = Spec.specSim g e h
  | .point p, h, _ => by cases h <;> simp [sim, Spec.specSim, pointSimilar_eq_ptNear]
  | .multiPoint ps, h, _ => by cases h <;> simp [sim, Spec.specSim, pointsSimilar_eq_ptsNear]
  | .lineString ps, h, _ => by cases h <;> simp [sim, Spec.specSim, pointsSimilar_eq_ptsNear]
  | .bounds a b, h, _ => by cases h <;> simp [sim, Spec.specSim, pointSimilar_eq_ptNear]
  | .nil, h, _ => by cases h <;> simp [sim, Spec.specSim]
  | .multiLineString ls, h, hs => by
    cases h with
    | multiLineString ls' => simp only [sim, Spec.specSim]; exact mlsSimilar_eq ls ls' e (by simpa [Spec.separated] using hs)
    | _ => simp [sim, Spec.specSim]
  | .polygon rs, h, hs => by
    cases h with
    | polygon rs' => simp only [sim, Spec.specSim]; exact polygonSimilar_eq rs rs' e (by simpa [Spec.separated] using hs)
    | _ => simp [sim, Spec.specSim]
  | .multiPolygon ps, h, hs => by
    cases h with
    | multiPolygon ps' =>
      simp only [sim, Spec.specSim]
      simp only [Spec.separated, Bool.and_eq_true, List.all_eq_true] at hs
      exact mpgSimilar_eq ps ps' e hs.1 hs.2
    | _ => simp [sim, Spec.specSim]
  | .collection gs, h, hs => by
    cases h with
    | collection hs' =>
      simp only [Spec.separated, Bool.and_eq_true, List.all_eq_true, separatedL_eq_map, List.mem_map] at hs
      simp only [sim, Spec.specSim, simL_eq_map]
      rw [matchMembers_congr (fun g h => sim g e h) (fun g h => Spec.specSim g e h) gs hs'
        (fun g hg h hh => model_eq_specL e gs g hg h (hs.2 _ ⟨g, hg, rfl⟩ h hh))]
      rw [← specSimL_eq_map]
      exact matchMembers_eq_existsMatching _ _ hs.1
    | _ => simp [sim, Spec.specSim]
theorem model_eq_specL (e : Rat) : ∀ (gs : List RGeom), ∀ g ∈ gs, ∀ h, Spec.separated g e h = true →
    sim g e h = Spec.specSim g e h
  | [] => by simp
  | g' :: gs => List.forall_mem_cons.2 ⟨model_eq_spec e g', model_eq_specL e gs⟩
end

/-- **The code computes the specification** on every pair whose matching is unambiguous
(`separated`, at every nesting level): `g.Similar(h, tol)` is `true` exactly when `h` has the same
type as `g` and is obtained from it by moving every coordinate by less than `tol`, reordering
members (some one-to-one pairing of similar members exists) and restarting closed rings at another
vertex (`Spec.specSim`). All eight types, any nesting depth, any tolerance. -/
theorem C15_model_eq_spec (g h : RGeom) (tol : Rat) (hs : Spec.separated g tol h = true) :
    sim g tol h = Spec.specSim g tol h := model_eq_spec tol g h hs

/-! ## "true when perturbed / members reordered / closed rings restarted" -/

/-- **Perturbation clause, general form.** If `h` is `g` with every coordinate moved by less than
`tol`, members reordered and closed rings restarted at another vertex — which is what
`Spec.specSim g tol h = true` says (see `specSim_members_iff`, `C15_perturb_ring` for the explicit
permutation / rotation readings) — and matching is unambiguous, then `g.Similar(h, tol)` is true. -/
theorem C15_perturb (g h : RGeom) (tol : Rat) (hs : Spec.separated g tol h = true)
    (hp : Spec.specSim g tol h = true) : sim g tol h = true := by
  rw [model_eq_spec tol g h hs]; exact hp

/-- explicit reading of the member clause: the specification's search succeeds iff SOME reordering
of the argument's members is matched position by position -/
theorem specSim_members_iff {β : Type} (ps : List (β → Bool)) (ys : List β) :
    Spec.existsMatching ps ys = true ↔ ∃ ys', List.Perm ys' ys ∧ Spec.AllHold ps ys' :=
  existsMatching_iff ps ys

/-- **Reordered members.** If some reordering `ys'` of the argument's members is similar to the
receiver's members position by position and matching is unambiguous, the greedy matcher says true
(instantiated by lines of a multi-line-string, rings of a polygon, polygons of a multi-polygon,
members of a collection). -/
theorem C15_perturb_members {β : Type} (ps : List (β → Bool)) (ys ys' : List β)
    (hperm : List.Perm ys' ys) (hall : Spec.AllHold ps ys') (hs : Spec.sepRel ps ys = true) :
    matchMembers ps ys = true :=
  (greedy_iff_perfect ps ys hs).2 ⟨ys', hperm, hall⟩

theorem rot_rot_inv {α : Type} (c : List α) (k : Nat) (hk : k < c.length) :
    Spec.rot ((c.length - k) % c.length) (Spec.rot k c) = c := by
  by_cases h0 : k = 0
  · subst h0; simp [Spec.rot]
  · rw [Nat.mod_eq_of_lt (by omega)]
    unfold Spec.rot
    have hl : (c.drop k).length = c.length - k := by simp
    rw [← hl, List.drop_left, List.take_left, List.take_append_drop]

theorem cyc_rotateRing (k : Nat) (b : List P) (hk : k < (Spec.cyc b).length) :
    Spec.cyc (Spec.rotateRing k b) = Spec.rot k (Spec.cyc b) ∧
      (Spec.rotateRing k b).length = (Spec.cyc b).length + 1 := by
  unfold Spec.rotateRing
  have hlen := length_rot k (Spec.cyc b) (by omega)
  cases hr : Spec.rot k (Spec.cyc b) with
  | nil => rw [hr] at hlen; simp at hlen; omega
  | cons p r =>
    rw [hr] at hlen
    constructor
    · show ((p :: r) ++ [p]).dropLast = p :: r
      exact List.dropLast_concat
    · show ((p :: r) ++ [p]).length = (Spec.cyc b).length + 1
      rw [List.length_append, hlen]; rfl

/-- **Perturbed and restarted closed ring.** Let `b` be `a` with every vertex moved by less than
`tol` (`ptsNear a b`), and restart `b` at its `k`-th vertex (`rotateRing k b`: rotate the cycle,
close it again). Then `ringSimilar` — the code after the second fix — answers `true`; no
`AnchorStable`-style hypothesis is needed any more (axis-aligned rectangles included). -/
theorem C15_perturb_ring (a b : List P) (tol : Rat) (k : Nat) (h2 : 2 ≤ a.length)
    (hp : Spec.ptsNear a b tol = true) (hk : k < b.length - 1) :
    ringSimilar a (Spec.rotateRing k b) tol = true := by
  rw [ringSimilar_eq_ringNear]
  have hl : a.length = b.length := by
    rw [← pointsSimilar_eq_ptsNear] at hp; exact pointsSimilar_length a b tol hp
  have hcb : (Spec.cyc b).length = b.length - 1 := length_cyc b
  obtain ⟨hc, hlen⟩ := cyc_rotateRing k b (by omega)
  have hcyc : Spec.ptsNear (Spec.cyc a) (Spec.cyc b) tol = true := by
    rw [← pointsSimilar_eq_ptsNear] at hp ⊢
    rw [pointsSimilar_iff] at hp ⊢
    refine ⟨by rw [length_cyc, length_cyc, hl], ?_⟩
    intro i p q h1 h2'
    have hi : i < a.length - 1 := by
      have := (List.getElem?_eq_some_iff.1 h1).1; rwa [length_cyc] at this
    rw [getElem?_cyc a i hi] at h1
    rw [getElem?_cyc b i (by omega)] at h2'
    exact hp.2 i p q h1 h2'
  unfold Spec.ringNear
  have hne : ¬ a.length ≤ 1 := by omega
  simp only [hne, if_false, Bool.and_eq_true, beq_iff_eq, List.any_eq_true, List.mem_range]
  refine ⟨by omega, ((Spec.cyc b).length - k) % (Spec.cyc b).length, ?_, ?_⟩
  · have : (Spec.cyc b).length = a.length - 1 := by omega
    rw [this]; exact Nat.mod_lt _ (by omega)
  · rw [hc, rot_rot_inv _ _ (by omega)]; exact hcyc

/-- **Perturbed point lists** (multi-point, line string, point, bounds corners): moving every
coordinate by less than `tol` keeps them similar. -/
theorem C15_perturb_points (ps qs : List P) (p q p' q' : P) (tol : Rat) :
    (Spec.ptsNear ps qs tol = true → sim (.lineString ps) tol (.lineString qs) = true ∧
      sim (.multiPoint ps) tol (.multiPoint qs) = true) ∧
    (Spec.ptNear p q tol = true → sim (.point p) tol (.point q) = true) ∧
    (Spec.ptNear p q tol = true → Spec.ptNear p' q' tol = true →
      sim (.bounds p p') tol (.bounds q q') = true) := by
  simp only [sim, pointsSimilar_eq_ptsNear, pointSimilar_eq_ptNear]
  refine ⟨fun h => ⟨h, h⟩, fun h => h, fun h1 h2 => by simp [h1, h2]⟩

/-- **Polygon: rings reordered, restarted and perturbed.** If some reordering `rs''` of the
argument's rings pairs every ring of the receiver with a ring that is within `tol` of it at some
start vertex (`ringNear`, cf. `C15_perturb_ring`), and no ring has two candidates, `Similar` is true. -/
theorem C15_perturb_polygon (rs rs' rs'' : List (List P)) (tol : Rat) (hperm : List.Perm rs'' rs')
    (hrings : Spec.AllHold (Spec.ringPreds rs tol) rs'')
    (hsep : Spec.sepRel (Spec.ringPreds rs tol) rs' = true) :
    sim (.polygon rs) tol (.polygon rs') = true := by
  simp only [sim]
  rw [polygonSimilar_eq rs rs' tol hsep]
  exact (existsMatching_iff _ _).2 ⟨rs'', hperm, hrings⟩

/-- **Collection: members reordered, each similar to its partner** (recursively, by the
specification), matching unambiguous at every level ⇒ `Similar` is true. -/
theorem C15_perturb_collection (gs hs hs' : List RGeom) (tol : Rat) (hperm : List.Perm hs' hs)
    (hmem : Spec.AllHold (Spec.specSimL gs tol) hs')
    (hsep : Spec.separated (.collection gs) tol (.collection hs) = true) :
    sim (.collection gs) tol (.collection hs) = true := by
  apply C15_perturb _ _ _ hsep
  simp only [Spec.specSim]
  exact (existsMatching_iff _ _).2 ⟨hs', hperm, hmem⟩

/-! ## "false when …" -/

/-- index of the dynamic type -/
def tag : RGeom → Nat
  | .point _ => 0 | .multiPoint _ => 1 | .lineString _ => 2 | .multiLineString _ => 3
  | .polygon _ => 4 | .multiPolygon _ => 5 | .collection _ => 6 | .bounds _ _ => 7 | .nil => 8

/-- number of vertices (point lists) or members (member lists) -/
def memberCount : RGeom → Nat
  | .point _ => 1 | .multiPoint ps => ps.length | .lineString ps => ps.length
  | .multiLineString ls => ls.length | .polygon rs => rs.length | .multiPolygon ps => ps.length
  | .collection gs => gs.length | .bounds _ _ => 2 | .nil => 0

/-- **Different types ⇒ false.** -/
theorem C15_false_type (g h : RGeom) (tol : Rat) (ht : tag g ≠ tag h) : sim g tol h = false := by
  cases g <;> cases h <;> simp [sim, tag] at ht ⊢

theorem pointsSimilar_false_of_length (ps qs : List P) (e : Rat) (h : ps.length ≠ qs.length) :
    pointsSimilar ps qs e = false := by
  cases hp : pointsSimilar ps qs e with
  | false => rfl
  | true => exact absurd (pointsSimilar_length ps qs e hp) h

/-- **Different member counts / vertex counts ⇒ false** (this is what the first fix added for the
four member-list types). -/
theorem C15_false_count (g h : RGeom) (tol : Rat) (hc : memberCount g ≠ memberCount h) :
    sim g tol h = false := by
  cases g <;> cases h <;>
    simp [sim, memberCount, mlsSimilar, polygonSimilar, mpgSimilar, matchMembers, simL_eq_map] at hc ⊢ <;>
    first
      | exact pointsSimilar_false_of_length _ _ _ hc
      | (intro h; exact absurd h hc)

/-- a ring or a line whose vertex count differs from the candidate's is not similar to it -/
theorem C15_false_vertex_count (a b : List P) (tol : Rat) (h : a.length ≠ b.length) :
    pointsSimilar a b tol = false ∧ ringSimilar a b tol = false := by
  refine ⟨pointsSimilar_false_of_length a b tol h, ?_⟩
  cases hr : ringSimilar a b tol with
  | false => rfl
  | true => exact absurd ((ringSimilar_iff a b tol).1 hr).1 h

/-- **A member without a similar partner ⇒ false** (inserted / deleted / replaced / displaced
member; a member whose vertex count matches no candidate). -/
theorem C15_false_no_partner {β : Type} (ps : List (β → Bool)) (ys : List β)
    (h : ∃ p ∈ ps, ∀ y ∈ ys, p y = false) : matchMembers ps ys = false :=
  matchMembers_no_partner ps ys h

theorem pointSimilar_false_of_far (p q : P) (e : Rat)
    (h : e ≤ (p.x - q.x).abs ∨ e ≤ (p.y - q.y).abs) : pointSimilar p q e = false := by
  unfold pointSimilar similar
  rcases h with h | h
  · have : ¬ ((p.x - q.x).abs < e) := by grind
    simp [this]
  · have : ¬ ((p.y - q.y).abs < e) := by grind
    simp [this]

/-- **One vertex displaced by at least `tol` (in x or in y) ⇒ false**, for point lists compared
position by position (multi-point, line string; no separation needed). -/
theorem C15_false_displaced_vertex (ps qs : List P) (tol : Rat) (i : Nat) (p q : P)
    (hp : ps[i]? = some p) (hq : qs[i]? = some q)
    (hfar : tol ≤ (p.x - q.x).abs ∨ tol ≤ (p.y - q.y).abs) :
    sim (.lineString ps) tol (.lineString qs) = false ∧ sim (.multiPoint ps) tol (.multiPoint qs) = false := by
  have : pointsSimilar ps qs tol = false := by
    cases h : pointsSimilar ps qs tol with
    | false => rfl
    | true =>
      have := ((pointsSimilar_iff ps qs tol).1 h).2 i p q hp hq
      rw [pointSimilar_false_of_far p q tol hfar] at this; simp at this
  simp [sim, this]

/-- **Reversed line string ⇒ false** as soon as some vertex is not within `tol` of its mirror
vertex. -/
theorem C15_false_reversed (l : List P) (tol : Rat) (i : Nat) (hi : i < l.length) (p q : P)
    (hp : l[i]? = some p) (hq : l[l.length - 1 - i]? = some q) (hfar : pointSimilar p q tol = false) :
    sim (.lineString l) tol (.lineString l.reverse) = false := by
  simp only [sim]
  cases h : pointsSimilar l l.reverse tol with
  | false => rfl
  | true =>
    have := ((pointsSimilar_iff l l.reverse tol).1 h).2 i p q hp (by rw [List.getElem?_reverse hi]; exact hq)
    rw [hfar] at this; simp at this

/-- **One ring vertex displaced ⇒ the rings are not similar**, when the other vertices of the ring
are not within `tol` of the displaced vertex's original position (vertices separated): `a'` is `a`
except at index `i` of the cycle (any closing vertex), `p = a[i]`, `q = a'[i]` not similar. -/
theorem C15_false_displaced_ring_vertex (a a' : List P) (tol : Rat) (i : Nat) (p q : P)
    (hl : a.length = a'.length) (hi : i < a.length - 1)
    (hsame : ∀ j, j < a.length - 1 → j ≠ i → a'[j]? = a[j]?)
    (hp : a[i]? = some p) (hq : a'[i]? = some q) (hpq : pointSimilar p q tol = false)
    (hsep : ∀ j r, j < a.length - 1 → j ≠ i → a[j]? = some r → pointSimilar p r tol = false) :
    ringSimilar a a' tol = false := by
  cases hr : ringSimilar a a' tol with
  | false => rfl
  | true =>
    exfalso
    obtain ⟨_, h⟩ := (ringSimilar_iff a a' tol).1 hr
    rcases h with ⟨h1, _⟩ | ⟨h1, k, hk, hf⟩
    · omega
    · obtain ⟨p', q', hp', hq', hpq'⟩ := (ringSimilarFrom_iff _ _ _ _ _).1 hf i hi
      rw [hp] at hp'; simp at hp'; subst hp'
      have hj : (i + k) % (a.length - 1) < a.length - 1 := Nat.mod_lt _ (by omega)
      by_cases hji : (i + k) % (a.length - 1) = i
      · rw [hji, hq] at hq'; simp at hq'; subst hq'; rw [hpq] at hpq'; simp at hpq'
      · rw [hsame _ hj hji] at hq'
        rw [hsep _ q' hj hji hq'] at hpq'; simp at hpq'

/-- **One member displaced ⇒ false under separation.** `xs` is separated from itself (each member
is similar to itself and to no other member); replacing member `x` by an `x'` that is not similar
to it makes the matcher answer `false`. (Lines, rings, polygons, collection members.) -/
theorem C15_false_displaced_member {α : Type} (R : α → α → Bool) (l1 l2 : List α) (x x' : α)
    (hrefl : R x x = true) (hsep : Spec.sepRel ((l1 ++ x :: l2).map R) (l1 ++ x :: l2) = true)
    (hx : R x x' = false) :
    matchMembers ((l1 ++ x :: l2).map R) (l1 ++ x' :: l2) = false := by
  apply matchMembers_no_partner
  refine ⟨R x, by simp, ?_⟩
  intro y hy
  have hs := ((sepRel_iff _ _).1 hsep).1 (R x) (by simp)
  cases hxy : R x y with
  | false => rfl
  | true =>
    exfalso
    have hy' : y = x' ∨ y ∈ l1 ++ l2 := by
      simp at hy ⊢; rcases hy with h | h | h
      · exact Or.inr (Or.inl h)
      · exact Or.inl h
      · exact Or.inr (Or.inr h)
    rcases hy' with rfl | hm
    · rw [hx] at hxy; simp at hxy
    · have := countP_two (R x) l1 l2 x y hrefl hxy hm
      omega

/-- **The "false" clauses of the property, collected**: different types; different member or
vertex counts; a member with no similar partner; a displaced vertex in a point list; a reversed
line string. (Ring-vertex and member displacement under separation:
`C15_false_displaced_ring_vertex`, `C15_false_displaced_member`.) -/
theorem C15_false_cases (tol : Rat) :
    (∀ g h : RGeom, tag g ≠ tag h → sim g tol h = false) ∧
    (∀ g h : RGeom, memberCount g ≠ memberCount h → sim g tol h = false) ∧
    (∀ a b : List P, a.length ≠ b.length → pointsSimilar a b tol = false ∧ ringSimilar a b tol = false) ∧
    (∀ (l : List P) (i : Nat) (p q : P), i < l.length → l[i]? = some p → l[l.length - 1 - i]? = some q →
      pointSimilar p q tol = false → sim (.lineString l) tol (.lineString l.reverse) = false) ∧
    (∀ (ps qs : List P) (i : Nat) (p q : P), ps[i]? = some p → qs[i]? = some q →
      (tol ≤ (p.x - q.x).abs ∨ tol ≤ (p.y - q.y).abs) →
      sim (.lineString ps) tol (.lineString qs) = false ∧ sim (.multiPoint ps) tol (.multiPoint qs) = false) :=
  ⟨fun g h => C15_false_type g h tol, fun g h => C15_false_count g h tol,
   fun a b => C15_false_vertex_count a b tol,
   fun l i p q hi hp hq hf => C15_false_reversed l tol i hi p q hp hq hf,
   fun ps qs i p q hp hq hf => C15_false_displaced_vertex ps qs tol i p q hp hq hf⟩

/-! ## without any separation hypothesis: a `true` answer is always justified -/

theorem allHold_mono {α β : Type} (R R2 : α → β → Bool) (xs : List α)
    (h : ∀ x ∈ xs, ∀ y, R x y = true → R2 x y = true) :
    ∀ ys', Spec.AllHold (xs.map R) ys' → Spec.AllHold (xs.map R2) ys' := by
  induction xs with
  | nil => intro ys' ha; cases ys' <;> simp_all [Spec.AllHold]
  | cons x xs ih =>
    intro ys' ha
    cases ys' with
    | nil => simp [Spec.AllHold] at ha
    | cons y t =>
      simp only [List.map_cons, Spec.AllHold] at ha ⊢
      exact ⟨h x (by simp) y ha.1, ih (fun a ha' => h a (by simp [ha'])) t ha.2⟩

theorem matchMembers_sound_mono {α β : Type} (R R2 : α → β → Bool) (xs : List α) (ys : List β)
    (h : ∀ x ∈ xs, ∀ y, R x y = true → R2 x y = true)
    (hm : matchMembers (xs.map R) ys = true) : Spec.existsMatching (xs.map R2) ys = true := by
  obtain ⟨ys', hp, ha⟩ := greedyRem_perfect _ _ ((matchMembers_iff _ _).1 hm)
  exact (existsMatching_iff _ _).2 ⟨ys', hp, allHold_mono R R2 xs h ys' ha⟩

theorem polygonSimilar_sound (rs rs' : List (List P)) (e : Rat) (h : polygonSimilar rs rs' e = true) :
    Spec.polygonNear rs rs' e = true :=
  matchMembers_sound_mono (fun r r' => ringSimilar r r' e) (fun r r' => Spec.ringNear r r' e) rs rs'
    (fun r _ r' hr => by rw [← ringSimilar_eq_ringNear]; exact hr) h

mutual
theorem sim_sound (e : Rat) : ∀ (g h : RGeom), sim g e h = true → Spec.specSim g e h = true
  | .point p, h => by cases h <;> simp [sim, Spec.specSim, pointSimilar_eq_ptNear]
  | .multiPoint ps, h => by cases h <;> simp [sim, Spec.specSim, pointsSimilar_eq_ptsNear]
  | .lineString ps, h => by cases h <;> simp [sim, Spec.specSim, pointsSimilar_eq_ptsNear]
  | .bounds a b, h => by cases h <;> simp [sim, Spec.specSim, pointSimilar_eq_ptNear]
  | .nil, h => by cases h <;> simp [sim, Spec.specSim]
  | .multiLineString ls, h => by
    cases h with
    | multiLineString ls' =>
      simp only [sim, Spec.specSim]
      exact matchMembers_sound_mono (fun l l' => pointsSimilar l l' e) (fun l l' => Spec.ptsNear l l' e) ls ls'
        (fun l _ l' hl => by rw [← pointsSimilar_eq_ptsNear]; exact hl)
    | _ => simp [sim, Spec.specSim]
  | .polygon rs, h => by
    cases h with
    | polygon rs' => simp only [sim, Spec.specSim]; exact polygonSimilar_sound rs rs' e
    | _ => simp [sim, Spec.specSim]
  | .multiPolygon ps, h => by
    cases h with
    | multiPolygon ps' =>
      simp only [sim, Spec.specSim]
      exact matchMembers_sound_mono (fun p p' => polygonSimilar p p' e) (fun p p' => Spec.polygonNear p p' e) ps ps'
        (fun p _ p' hp => polygonSimilar_sound p p' e hp)
    | _ => simp [sim, Spec.specSim]
  | .collection gs, h => by
    cases h with
    | collection hs =>
      simp only [sim, Spec.specSim, simL_eq_map, specSimL_eq_map]
      exact matchMembers_sound_mono (fun g h => sim g e h) (fun g h => Spec.specSim g e h) gs hs
        (fun g hg h hh => sim_soundL e gs g hg h hh)
    | _ => simp [sim, Spec.specSim]
theorem sim_soundL (e : Rat) : ∀ (gs : List RGeom), ∀ g ∈ gs, ∀ h, sim g e h = true → Spec.specSim g e h = true
  | [] => by simp
  | g' :: gs => List.forall_mem_cons.2 ⟨sim_sound e g', sim_soundL e gs⟩
end

/-- **Every "false" clause at once, with no separation hypothesis**: whenever the specification
says *not similar* — no type-preserving, one-to-one pairing of members, rotation of rings and
< tol vertex-by-vertex agreement exists (different types, different member or vertex counts, a
reversed line, a vertex displaced by ≥ tol with nothing else within tol, …) — the code answers
`false`. Equivalently a `true` answer always comes with such a pairing. -/
theorem C15_false_of_spec (g h : RGeom) (tol : Rat) (hn : Spec.specSim g tol h = false) :
    sim g tol h = false := by
  cases hs : sim g tol h with
  | false => rfl
  | true => rw [sim_sound tol g h hs] at hn; simp at hn

/-- `greedy_iff_perfect` (proved in Lemmas.lean): under `sepRel` the greedy matcher with the count
check answers `true` iff the member-similarity relation has a perfect matching (is a bijection
between the member lists). -/
theorem C15_greedy_iff_perfect {β : Type} (ps : List (β → Bool)) (ys : List β)
    (hs : Spec.sepRel ps ys = true) : matchMembers ps ys = true ↔ Spec.PerfectMatch ps ys :=
  greedy_iff_perfect ps ys hs

/-- the index loops of the (fixed) `ringSimilar` never index out of range and compute the
rotation reading of the specification -/
theorem C15_ring_index_eq_rotation (a b : List P) (tol : Rat) :
    ringSimilar a b tol = Spec.ringNear a b tol ∧
    (∀ k n i, n ≤ a.length → n ≤ b.length → i < n → (a[i]?).isSome ∧ (b[(i + k) % n]?).isSome) :=
  ⟨ringSimilar_eq_ringNear a b tol, fun k n i ha hb hi => ringSimilarFrom_inbounds a b k n i ha hb hi⟩

/-! ## non-vacuity: the hypotheses are satisfiable, on the inputs that used to fail -/

section Examples
private def pt (x y : Rat) : P := ⟨x, y⟩
/-- unit square, closed -/
private def sq : List P := [pt 0 0, pt 1 0, pt 1 1, pt 0 1, pt 0 0]
/-- the same square, one X moved by 1/1000 (anchor tie: the old code compared out of phase) and
restarted at its third vertex -/
private def sq' : List P := [pt 1 1, pt (-1/1000) 1, pt 0 0, pt 1 0, pt 1 1]
private def far : List P := [pt 5 5, pt 6 5, pt 6 6, pt 5 5]

/-- `separated` and `specSim` hold for polygon{far, square} vs polygon{square', far} at tol 1/100,
so `C15_perturb` applies; its conclusion, evaluated on the model: -/
example : Spec.separated (.polygon [far, sq]) (1/100) (.polygon [sq', far]) = true := by decide +kernel
example : Spec.specSim (.polygon [far, sq]) (1/100) (.polygon [sq', far]) = true := by decide +kernel
example : sim (.polygon [far, sq]) (1/100) (.polygon [sq', far]) = true := by decide +kernel
/-- extra ring on the argument side: both orders now answer false (`C15_false_count`) -/
example : sim (.polygon [sq]) (1/10) (.polygon [sq, far]) = false ∧
    sim (.polygon [sq, far]) (1/10) (.polygon [sq]) = false := by decide +kernel
/-- the loops without the count check (the code before the first fix) were not symmetric -/
example : greedy ([] : List (Nat → Bool)) [1] = true ∧ greedy [fun _ => true] ([] : List Nat) = false := by
  decide
/-- hypotheses of `C15_false_displaced_ring_vertex` / `C15_false_reversed` are satisfiable -/
example : ringSimilar sq [pt 0 0, pt 1 0, pt 1 (3/2), pt 0 1, pt 0 0] (1/10) = false := by decide +kernel
example : sim (.lineString [pt 0 0, pt 1 0]) (1/10) (.lineString [pt 0 0, pt 1 0].reverse) = false := by
  decide +kernel
/-- nested collections -/
example : Spec.separated (.collection [.point (pt 0 0), .collection [.lineString [pt 1 1, pt 2 2]]]) (1/10)
    (.collection [.collection [.lineString [pt 1 (21/20), pt 2 2]], .point (pt 0 0)]) = true := by decide +kernel
example : sim (.collection [.point (pt 0 0), .collection [.lineString [pt 1 1, pt 2 2]]]) (1/10)
    (.collection [.collection [.lineString [pt 1 (21/20), pt 2 2]], .point (pt 0 0)]) = true := by decide +kernel
/-- rings that visit a vertex twice ("pinched": two triangles sharing P) are NOT excluded by any
hypothesis: `C15_perturb_ring` applies to them; here every start-vertex pair of the cycle
P,A,B,P,C,D is evaluated on the model (36 pairs), including the one where the argument's first
occurrence of P is not the one corresponding to the receiver's start. -/
private def pinch : List P := [pt 0 0, pt 2 0, pt 2 1, pt 0 0, pt (-2) 0, pt (-2) (-1), pt 0 0]
example : (List.range 6).all (fun i => (List.range 6).all fun j =>
    ringSimilar (Spec.rotateRing i pinch) (Spec.rotateRing j pinch) (1/10)) = true := by decide +kernel
example : Spec.ptsNear pinch pinch (1/10) = true ∧ 2 ≤ pinch.length ∧ 3 < pinch.length - 1 := by decide +kernel
end Examples

end GeomV.C15
