import GeomV.C15.ProofsFloat
/-!
# C15 — the float statement about `similar`, lifted through the eight `Similar` methods

`simC c` is the model `sim` with the scalar comparison `similar · · e` replaced by an arbitrary
`c : Rat → Rat → Bool` (everything else — point lists, ring rotations, greedy member matching, type
switches, nesting — identical). `simC (similar · · e) = sim · e ·` (`simC_similar`), and `simC` only
ever applies `c` to an x-coordinate of the receiver and an x-coordinate of the argument, or to two
y-coordinates (`simC_congr`). Hence: if every such coordinate pair is *clear* — the difference is
representable, or at least `e` in absolute value, or at most a representable `f < e` — the float
code (`c = floatSimilar rnd · · e`, any monotone odd rounding fixing representables) answers exactly
what the exact model answers, for all eight types at any nesting depth (`C15_float_lift`).
-/
set_option linter.unusedSimpArgs false
set_option linter.unusedVariables false
namespace GeomV.C15
open GeomV

def pointSimilarC (c : Rat → Rat → Bool) (p q : P) : Bool := c p.x q.x && c p.y q.y

def pointsSimilarC (c : Rat → Rat → Bool) : List P → List P → Bool
  | [], [] => true
  | p :: ps, q :: qs => pointSimilarC c p q && pointsSimilarC c ps qs
  | _, _ => false

def ringSimilarFromC (c : Rat → Rat → Bool) (a b : List P) (k n : Nat) : Bool :=
  (List.range n).all fun i =>
    match a[i]?, b[(i + k) % n]? with
    | some p, some q => pointSimilarC c p q
    | _, _ => false

def ringSimilarC (c : Rat → Rat → Bool) (a b : List P) : Bool :=
  if a.length != b.length then false
  else
    if a.length ≤ 1 then pointsSimilarC c a b
    else (List.range (a.length - 1)).any fun k => ringSimilarFromC c a b k (a.length - 1)

def polygonSimilarC (c : Rat → Rat → Bool) (rs rs' : List (List P)) : Bool :=
  matchMembers (rs.map fun r => fun r' => ringSimilarC c r r') rs'

mutual
def simC (c : Rat → Rat → Bool) : RGeom → RGeom → Bool
  | .point p, h => match h with
    | .point q => pointSimilarC c p q
    | _ => false
  | .multiPoint ps, h => match h with
    | .multiPoint qs => pointsSimilarC c ps qs
    | _ => false
  | .lineString ps, h => match h with
    | .lineString qs => pointsSimilarC c ps qs
    | _ => false
  | .multiLineString ls, h => match h with
    | .multiLineString ls' => matchMembers (ls.map fun l => fun l' => pointsSimilarC c l l') ls'
    | _ => false
  | .polygon rs, h => match h with
    | .polygon rs' => polygonSimilarC c rs rs'
    | _ => false
  | .multiPolygon ps, h => match h with
    | .multiPolygon ps' => matchMembers (ps.map fun p => fun p' => polygonSimilarC c p p') ps'
    | _ => false
  | .collection gs, h => match h with
    | .collection hs => matchMembers (simLC c gs) hs
    | _ => false
  | .bounds a b, h => match h with
    | .bounds a' b' => pointSimilarC c a a' && pointSimilarC c b b'
    | _ => false
  | .nil, _ => false
def simLC (c : Rat → Rat → Bool) : List RGeom → List (RGeom → Bool)
  | [] => []
  | g :: gs => simC c g :: simLC c gs
end

theorem simLC_eq_map (c : Rat → Rat → Bool) (gs : List RGeom) : simLC c gs = gs.map fun g => simC c g := by
  induction gs with
  | nil => simp [simLC]
  | cons g gs ih => simp [simLC, ih]

/-! ### `simC` at the exact comparison is the model -/

theorem pointsSimilarC_similar (e : Rat) (ps qs : List P) :
    pointsSimilarC (fun a b => similar a b e) ps qs = pointsSimilar ps qs e := by
  induction ps generalizing qs with
  | nil => cases qs <;> simp [pointsSimilarC, pointsSimilar]
  | cons p ps ih =>
    cases qs with
    | nil => simp [pointsSimilarC, pointsSimilar]
    | cons q qs => simp [pointsSimilarC, pointsSimilar, pointSimilarC, pointSimilar, ih]

theorem ringSimilarC_similar (e : Rat) (a b : List P) :
    ringSimilarC (fun a b => similar a b e) a b = ringSimilar a b e := by
  unfold ringSimilarC ringSimilar
  simp only [pointsSimilarC_similar]
  rfl

theorem polygonSimilarC_similar (e : Rat) (rs rs' : List (List P)) :
    polygonSimilarC (fun a b => similar a b e) rs rs' = polygonSimilar rs rs' e := by
  unfold polygonSimilarC polygonSimilar
  simp only [ringSimilarC_similar]

mutual
theorem simC_similar (e : Rat) : ∀ g h : RGeom, simC (fun a b => similar a b e) g h = sim g e h
  | .point p, h => by cases h <;> simp [simC, sim, pointSimilarC, pointSimilar]
  | .multiPoint ps, h => by cases h <;> simp [simC, sim, pointsSimilarC_similar]
  | .lineString ps, h => by cases h <;> simp [simC, sim, pointsSimilarC_similar]
  | .multiLineString ls, h => by cases h <;> simp [simC, sim, mlsSimilar, pointsSimilarC_similar]
  | .polygon rs, h => by cases h <;> simp [simC, sim, polygonSimilarC_similar]
  | .multiPolygon ps, h => by cases h <;> simp [simC, sim, mpgSimilar, polygonSimilarC_similar]
  | .bounds a b, h => by cases h <;> simp [simC, sim, pointSimilarC, pointSimilar]
  | .nil, h => by simp [simC, sim]
  | .collection gs, h => by
    cases h with
    | collection hs => simp only [simC, sim, simLC_similar e gs]
    | _ => simp [simC, sim]
theorem simLC_similar (e : Rat) : ∀ gs : List RGeom, simLC (fun a b => similar a b e) gs = simL gs e
  | [] => by simp [simLC, simL]
  | g :: gs => by
    simp only [simLC, simL, simLC_similar e gs]
    congr 1
    funext h
    exact simC_similar e g h
end

/-! ### `simC` applies `c` only to coordinate pairs of receiver × argument -/

mutual
/-- all vertices of a geometry -/
def ptsOf : RGeom → List P
  | .point p => [p]
  | .multiPoint ps => ps
  | .lineString ps => ps
  | .multiLineString ls => ls.flatten
  | .polygon rs => rs.flatten
  | .multiPolygon ps => ps.flatten.flatten
  | .collection gs => ptsOfL gs
  | .bounds a b => [a, b]
  | .nil => []
def ptsOfL : List RGeom → List P
  | [] => []
  | g :: gs => ptsOf g ++ ptsOfL gs
end

theorem ptsOfL_mem (gs : List RGeom) (g : RGeom) (hg : g ∈ gs) (p : P) (hp : p ∈ ptsOf g) : p ∈ ptsOfL gs := by
  induction gs with
  | nil => simp at hg
  | cons a gs ih =>
    simp only [ptsOfL, List.mem_append]
    rcases List.mem_cons.1 hg with rfl | hg
    · exact Or.inl hp
    · exact Or.inr (ih hg)

/-- `c1` and `c2` agree on the x–x and y–y coordinate pairs of `A × B` -/
def AgreeOn (c1 c2 : Rat → Rat → Bool) (A B : List P) : Prop :=
  ∀ p ∈ A, ∀ q ∈ B, c1 p.x q.x = c2 p.x q.x ∧ c1 p.y q.y = c2 p.y q.y

theorem AgreeOn.mono {c1 c2 : Rat → Rat → Bool} {A B A' B' : List P} (h : AgreeOn c1 c2 A B)
    (hA : ∀ p ∈ A', p ∈ A) (hB : ∀ q ∈ B', q ∈ B) : AgreeOn c1 c2 A' B' :=
  fun p hp q hq => h p (hA p hp) q (hB q hq)

theorem pointSimilarC_congr {c1 c2 : Rat → Rat → Bool} {A B : List P} (h : AgreeOn c1 c2 A B)
    (p q : P) (hp : p ∈ A) (hq : q ∈ B) : pointSimilarC c1 p q = pointSimilarC c2 p q := by
  unfold pointSimilarC; rw [(h p hp q hq).1, (h p hp q hq).2]

theorem pointsSimilarC_congr {c1 c2 : Rat → Rat → Bool} (ps qs : List P) (h : AgreeOn c1 c2 ps qs) :
    pointsSimilarC c1 ps qs = pointsSimilarC c2 ps qs := by
  induction ps generalizing qs with
  | nil => cases qs <;> simp [pointsSimilarC]
  | cons p ps ih =>
    cases qs with
    | nil => simp [pointsSimilarC]
    | cons q qs =>
      simp only [pointsSimilarC]
      rw [pointSimilarC_congr h p q (by simp) (by simp),
        ih qs (h.mono (fun a ha => by simp [ha]) (fun a ha => by simp [ha]))]

theorem ringSimilarFromC_congr {c1 c2 : Rat → Rat → Bool} (a b : List P) (k n : Nat) (h : AgreeOn c1 c2 a b) :
    ringSimilarFromC c1 a b k n = ringSimilarFromC c2 a b k n := by
  unfold ringSimilarFromC
  congr 1
  funext i
  cases ha : a[i]? with
  | none => rfl
  | some p =>
    cases hb : b[(i + k) % n]? with
    | none => rfl
    | some q =>
      exact pointSimilarC_congr h p q (List.mem_of_getElem? ha) (List.mem_of_getElem? hb)

theorem ringSimilarC_congr {c1 c2 : Rat → Rat → Bool} (a b : List P) (h : AgreeOn c1 c2 a b) :
    ringSimilarC c1 a b = ringSimilarC c2 a b := by
  unfold ringSimilarC
  rw [pointsSimilarC_congr a b h]
  have : (fun k => ringSimilarFromC c1 a b k (a.length - 1)) = fun k => ringSimilarFromC c2 a b k (a.length - 1) := by
    funext k; exact ringSimilarFromC_congr a b k _ h
  rw [this]

theorem polygonSimilarC_congr {c1 c2 : Rat → Rat → Bool} (rs rs' : List (List P))
    (h : AgreeOn c1 c2 rs.flatten rs'.flatten) : polygonSimilarC c1 rs rs' = polygonSimilarC c2 rs rs' := by
  unfold polygonSimilarC
  apply matchMembers_congr (fun r r' => ringSimilarC c1 r r') (fun r r' => ringSimilarC c2 r r')
  intro r hr r' hr'
  exact ringSimilarC_congr r r' (h.mono (fun p hp => List.mem_flatten.2 ⟨r, hr, hp⟩)
    (fun q hq => List.mem_flatten.2 ⟨r', hr', hq⟩))

mutual
theorem simC_congr (c1 c2 : Rat → Rat → Bool) : ∀ g h : RGeom, AgreeOn c1 c2 (ptsOf g) (ptsOf h) →
    simC c1 g h = simC c2 g h
  | .point p, h, ha => by
    cases h with
    | point q => simp only [simC]; exact pointSimilarC_congr ha p q (by simp [ptsOf]) (by simp [ptsOf])
    | _ => simp [simC]
  | .multiPoint ps, h, ha => by
    cases h with
    | multiPoint qs => simp only [simC]; exact pointsSimilarC_congr ps qs (by simpa [ptsOf] using ha)
    | _ => simp [simC]
  | .lineString ps, h, ha => by
    cases h with
    | lineString qs => simp only [simC]; exact pointsSimilarC_congr ps qs (by simpa [ptsOf] using ha)
    | _ => simp [simC]
  | .multiLineString ls, h, ha => by
    cases h with
    | multiLineString ls' =>
      simp only [simC]
      apply matchMembers_congr (fun l l' => pointsSimilarC c1 l l') (fun l l' => pointsSimilarC c2 l l')
      intro l hl l' hl'
      exact pointsSimilarC_congr l l' (AgreeOn.mono (A := ls.flatten) (B := ls'.flatten) (by simpa [ptsOf] using ha)
        (fun p hp => List.mem_flatten.2 ⟨l, hl, hp⟩) (fun q hq => List.mem_flatten.2 ⟨l', hl', hq⟩))
    | _ => simp [simC]
  | .polygon rs, h, ha => by
    cases h with
    | polygon rs' => simp only [simC]; exact polygonSimilarC_congr rs rs' (by simpa [ptsOf] using ha)
    | _ => simp [simC]
  | .multiPolygon ps, h, ha => by
    cases h with
    | multiPolygon ps' =>
      simp only [simC]
      apply matchMembers_congr (fun p p' => polygonSimilarC c1 p p') (fun p p' => polygonSimilarC c2 p p')
      intro p hp p' hp'
      exact polygonSimilarC_congr p p' (AgreeOn.mono (A := ps.flatten.flatten) (B := ps'.flatten.flatten)
        (by simpa [ptsOf] using ha)
        (fun v hv => by
          obtain ⟨r, hr, hvr⟩ := List.mem_flatten.1 hv
          exact List.mem_flatten.2 ⟨r, List.mem_flatten.2 ⟨p, hp, hr⟩, hvr⟩)
        (fun v hv => by
          obtain ⟨r, hr, hvr⟩ := List.mem_flatten.1 hv
          exact List.mem_flatten.2 ⟨r, List.mem_flatten.2 ⟨p', hp', hr⟩, hvr⟩))
    | _ => simp [simC]
  | .bounds a b, h, ha => by
    cases h with
    | bounds a' b' =>
      simp only [simC]
      rw [pointSimilarC_congr ha a a' (by simp [ptsOf]) (by simp [ptsOf]),
        pointSimilarC_congr ha b b' (by simp [ptsOf]) (by simp [ptsOf])]
    | _ => simp [simC]
  | .nil, h, _ => by simp [simC]
  | .collection gs, h, ha => by
    cases h with
    | collection hs =>
      simp only [simC, simLC_eq_map]
      apply matchMembers_congr (fun g h => simC c1 g h) (fun g h => simC c2 g h)
      intro g hg h hh
      exact simLC_congr c1 c2 gs g hg h (AgreeOn.mono (A := ptsOfL gs) (B := ptsOfL hs) (by simpa [ptsOf] using ha)
        (fun p hp => ptsOfL_mem gs g hg p hp) (fun q hq => ptsOfL_mem hs h hh q hq))
    | _ => simp [simC]
theorem simLC_congr (c1 c2 : Rat → Rat → Bool) : ∀ gs : List RGeom, ∀ g ∈ gs, ∀ h : RGeom,
    AgreeOn c1 c2 (ptsOf g) (ptsOf h) → simC c1 g h = simC c2 g h
  | [] => by simp
  | g' :: gs => List.forall_mem_cons.2 ⟨simC_congr c1 c2 g', simLC_congr c1 c2 gs⟩
end

/-! ### the lift -/

/-- a coordinate pair on which rounding cannot change the comparison with `e`: the difference is
representable, or at least `e` in absolute value, or at most a representable `f < e` -/
def Clear (F : Rat → Prop) (e a b : Rat) : Prop :=
  F (a - b) ∨ e ≤ (a - b).abs ∨ ∃ f, F f ∧ f < e ∧ (a - b).abs ≤ f

theorem floatSimilar_eq_of_clear {rnd : Rat → Rat} {F : Rat → Prop} (R : Rounding rnd F) (e a b : Rat)
    (he : F e) (h : Clear F e a b) : floatSimilar rnd a b e = similar a b e := by
  rcases h with h | h | ⟨f, hf, hfe, h⟩
  · exact C15_float_exact R a b e h
  · have hs : similar a b e = false := by
      unfold similar
      have : ¬ ((a - b).abs < e) := Rat.not_lt.2 h
      simpa using this
    rw [hs]; exact C15_float_false R a b e he hs
  · obtain ⟨h1, h2⟩ := C15_float_true R a b e f hf hfe h
    rw [h1, h2]

/-- **The float code of all eight `Similar` methods answers what the exact model answers** whenever
every x–x / y–y coordinate pair of receiver × argument is `Clear` — for any rounding that is
monotone, odd and fixes the representable numbers (Go's float64 subtraction is assumed to be one),
any nesting depth, any member counts. The code and the model can therefore differ only on inputs
holding a coordinate pair whose difference is inexact AND lies strictly between `tol` and its
representable predecessor; the generator's grids (dyadic: differences exact; decimal: ≤ 57/64 tol
or ≥ tol) keep every pair clear. -/
theorem C15_float_lift {rnd : Rat → Rat} {F : Rat → Prop} (R : Rounding rnd F) (g h : RGeom) (e : Rat)
    (he : F e)
    (hc : ∀ p ∈ ptsOf g, ∀ q ∈ ptsOf h, Clear F e p.x q.x ∧ Clear F e p.y q.y) :
    simC (fun a b => floatSimilar rnd a b e) g h = sim g e h := by
  rw [← simC_similar e g h]
  apply simC_congr
  intro p hp q hq
  exact ⟨floatSimilar_eq_of_clear R e _ _ he (hc p hp q hq).1,
    floatSimilar_eq_of_clear R e _ _ he (hc p hp q hq).2⟩

/-- consequently the float code is symmetric on such inputs, and — under the separation
hypotheses — equals the specification -/
theorem C15_float_lift_symm {rnd : Rat → Rat} {F : Rat → Prop} (R : Rounding rnd F) (g h : RGeom) (e : Rat)
    (he : F e)
    (hc : ∀ p ∈ ptsOf g, ∀ q ∈ ptsOf h, Clear F e p.x q.x ∧ Clear F e p.y q.y)
    (hc' : ∀ p ∈ ptsOf h, ∀ q ∈ ptsOf g, Clear F e p.x q.x ∧ Clear F e p.y q.y) :
    simC (fun a b => floatSimilar rnd a b e) g h = simC (fun a b => floatSimilar rnd a b e) h g := by
  rw [C15_float_lift R g h e he hc, C15_float_lift R h g e he hc', C15_symm_all]

/-! non-vacuity with the lossy integer rounding of ProofsFloat: a polygon pair whose coordinate
differences are integers (exact) or ≥ e -/
section Examples
private def q (x y : Rat) : P := ⟨x, y⟩
example : simC (fun a b => floatSimilar truncInt a b 2) (.polygon [[q 0 0, q 5 0, q 0 5, q 0 0]])
    (.polygon [[q 5 1, q 0 6, q 0 1, q 5 1]]) = true := by decide +kernel
end Examples

end GeomV.C15
