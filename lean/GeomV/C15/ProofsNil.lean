import GeomV.C15.ProofsPath
/-!
# C15 — nil interface values: what the code does, as modelled faults

`simE` (Model.lean) is `sim` with Go's nil-interface panic. The property speaks of the eight types
only; these statements say what happens outside: no panic when the RECEIVER holds no nil interface
(whatever the argument holds — a nil argument is answered `false`), a panic as soon as the loops
reach a nil receiver member, and `false` without a panic when the count check or an unmatched
earlier member answers first. The correspondence lines tagged `nilm` compare the real code with
`simE` (panic or answer) in both call directions.
-/
set_option linter.unusedSimpArgs false
set_option linter.unusedVariables false
namespace GeomV.C15
open GeomV

theorem removeFirstM_ok {β : Type} (q : β → Bool) (ys : List β) :
    removeFirstM (fun y => Except.ok (q y)) ys = Except.ok (removeFirst q ys) := by
  induction ys with
  | nil => rfl
  | cons y ys ih =>
    simp only [removeFirstM, removeFirst]
    cases hq : q y
    · simp [ih]
    · simp

theorem greedyM_ok {β : Type} (qs : List (β → Bool)) (ys : List β) :
    greedyM (qs.map fun q => fun y => Except.ok (q y)) ys = Except.ok (greedy qs ys) := by
  induction qs generalizing ys with
  | nil => rfl
  | cons q qs ih =>
    simp only [List.map_cons, greedyM, greedy, removeFirstM_ok]
    cases removeFirst q ys with
    | none => rfl
    | some r => exact ih r

mutual
theorem simE_ok (e : Rat) : ∀ g : RGeom, noNil g = true → ∀ h, simE g e h = Except.ok (sim g e h)
  | .point p, _, h => by simp [simE]
  | .multiPoint ps, _, h => by simp [simE]
  | .lineString ps, _, h => by simp [simE]
  | .multiLineString ls, _, h => by simp [simE]
  | .polygon rs, _, h => by simp [simE]
  | .multiPolygon ps, _, h => by simp [simE]
  | .bounds a b, _, h => by simp [simE]
  | .nil, hn, _ => by simp [noNil] at hn
  | .collection gs, hn, h => by
    simp only [noNil] at hn
    cases h with
    | collection hs =>
      have hlen : (simL gs e).length = gs.length := by simp [simL_eq_map]
      simp only [simE, sim, matchMembers, simLE_ok e gs hn, hlen]
      by_cases hl : gs.length = hs.length
      · simp [hl, greedyM_ok]
      · simp [hl]
    | _ => simp [simE, sim]
theorem simLE_ok (e : Rat) : ∀ gs : List RGeom, noNilL gs = true →
    simLE gs e = (simL gs e).map fun q => fun y => Except.ok (q y)
  | [], _ => by simp [simLE, simL]
  | g :: gs, hn => by
    simp only [noNilL, Bool.and_eq_true] at hn
    simp only [simLE, simL, List.map_cons, simLE_ok e gs hn.2]
    congr 1
    funext y
    exact simE_ok e g hn.1 y
end

/-- **No nil interface in the receiver ⇒ no panic, and the answer is the model's** — whatever the
argument holds (a nil argument, or nil members of the argument, fall into the `default:` branch of
the type switches and are answered `false`). -/
theorem C15_nil_free_receiver_no_fault (g h : RGeom) (tol : Rat) (hn : noNil g = true) :
    simE g tol h = Except.ok (sim g tol h) := simE_ok tol g hn h

/-- **A nil interface receiver panics**; a nil first member of a collection panics as soon as the
member counts agree and the argument has a member to compare it with; different member counts
answer `false` before any member is touched. -/
theorem C15_nil_receiver_faults (tol : Rat) :
    (∀ h, simE .nil tol h = Except.error Fault.nilDeref) ∧
    (∀ gs y hs, gs.length = hs.length →
      simE (.collection (.nil :: gs)) tol (.collection (y :: hs)) = Except.error Fault.nilDeref) ∧
    (∀ gs hs, gs.length ≠ hs.length → simE (.collection gs) tol (.collection hs) = Except.ok false) := by
  refine ⟨fun h => by simp [simE], ?_, ?_⟩
  · intro gs y hs hl
    simp [simE, simLE, hl, greedyM, removeFirstM]
  · intro gs hs hl
    simp [simE, hl]

/-! examples: the panic happens only when the loops reach the nil member -/
section Examples
private def pp (x y : Rat) : RGeom := .point ⟨x, y⟩
-- [p, nil] vs [nil, p]: p is matched with p (after `p.Similar(nil) = false`), then the nil receiver panics
example : (simE (.collection [pp 0 0, .nil]) (1/2) (.collection [.nil, pp 0 0])).toOption = none := by decide +kernel
-- [p, nil] vs [q, r] with p far from both: `false` before the nil member is reached
example : (simE (.collection [pp 0 0, .nil]) (1/2) (.collection [pp 5 5, pp 7 7])).toOption = some false := by decide +kernel
-- nil argument members never panic
example : (simE (.collection [pp 0 0]) (1/2) (.collection [.nil])).toOption = some false := by decide +kernel
example : (simE (pp 0 0) (1/2) .nil).toOption = some false := by decide +kernel
end Examples

end GeomV.C15
