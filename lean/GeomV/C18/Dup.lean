import GeomV.C18.Proofs
/-!
# C18 — documents with DUPLICATE ids (the same typed id on several elements)

What `extract` does then (model = code: `processX` returns at once when the id is already stored):
the FIRST element of an id that is selected or requested while the id is not yet stored is stored and its
references are registered; later elements of that id are skipped — unless, with several workers, two elements of the
id pass the `hasNeedX` read before either stores: then both store (the map keeps the last write) and the
references of BOTH are followed.  So with duplicate ids the result is schedule dependent
(`C18_duplicates_schedule_dependent`, a `decide` witness) and "the" object of an id is ambiguous; OSM files list every
id once, so this is outside the property's documents.  What still holds for EVERY document, every schedule and
every worker count (`C18_duplicates`):
* termination within `|doc| + 2` passes;
* nothing outside the least `Closed` set is stored (all versions' references followed = upper bound);
* `ClosedD`: every element the keep function selects has its id stored, and every stored id has a VERSION in the
  document all of whose present references are stored (closure under the references of a stored version).
With unique ids `ClosedD` and `Closed` coincide on sets of present ids (`closedD_of_closed`, `closed_of_closedD`).
-/
set_option linter.unusedSimpArgs false
set_option linter.unusedVariables false
namespace GeomV.C18

/-- closure clauses when ids may repeat: the reference clause asks for ONE version per member -/
structure ClosedD (doc : Doc) (k : Keep) (C : Ref → Prop) : Prop where
  sel : ∀ o ∈ doc, Selects k C o → C o.key
  refs : ∀ r, C r → ∃ o ∈ doc, o.key = r ∧ ∀ r' ∈ o.refs, Present doc r' → C r'

theorem closed_of_closedD {doc : Doc} {k : Keep} {C : Ref → Prop} (hu : uniqueKeys doc) (h : ClosedD doc k C) :
    Closed doc k C :=
  ⟨h.sel, fun o ho hk r hr hp => by
    obtain ⟨o', ho', hkey, h'⟩ := h.refs o.key hk
    have : o' = o := hu o' ho' o ho hkey
    subst this
    exact h' r hr hp⟩

theorem closedD_of_closed {doc : Doc} {k : Keep} {C : Ref → Prop} (hp : ∀ r, C r → Present doc r)
    (h : Closed doc k C) : ClosedD doc k C :=
  ⟨h.sel, fun r hr => by
    obtain ⟨o, ho, rfl⟩ := hp r hr
    exact ⟨o, ho, rfl, h.refs o ho hr⟩⟩

/-- the judge's run-time check of the duplicate-id clauses is sound -/
theorem closedDB_sound (doc : Doc) (k : Keep) (S : List Ref) (h : closedDB doc k S = true) :
    ClosedD doc k (· ∈ S) := by
  simp only [closedDB, List.all_eq_true, List.any_eq_true, Bool.and_eq_true, Bool.or_eq_true, Bool.not_eq_true',
    decide_eq_true_eq, beq_iff_eq] at h
  constructor
  · intro o ho hs
    rcases h.1 o ho with h1 | h1
    · have := (sel_iff k S o).2 hs; simp [this] at h1
    · exact h1
  · intro r hr
    obtain ⟨o, ho, hk, hrefs⟩ := h.2 r hr
    refine ⟨o, ho, hk, fun r' hr' hp => ?_⟩
    rcases hrefs r' hr' with h2 | h2
    · have := (presentB_iff doc r').2 hp; simp [this] at h2
    · exact h2

/-- object `o`'s references are registered, or a worker is registering them right now -/
def Wit (c : PCfg) (o : Obj) : Prop := Registered c.st o ∨ ∃ i, InFlight c.st o (c.ws i)

theorem Wit.step {e : Env} {o' : Obj} : ∀ c c', PStep e c c' → Wit c o' → Wit c' o' := by
  intro c c' h hG
  cases h with
  | @deq w o q hw hi hq =>
    rcases hG with h | ⟨i, h⟩
    · exact .inl h
    · refine .inr ⟨i, ?_⟩
      have hiw : i ≠ w := by
        rintro rfl
        cases hti : c.ws i <;> simp [hti, Task.isIdle, InFlight] at hi h
      simpa [setW, hiw] using h
  | @task w t s' t' hw hwt hT =>
    have other : ∀ i, i ≠ w → InFlight c.st o' (c.ws i) →
        Registered s' o' ∨ ∃ i, InFlight s' o' (setW c.ws w t' i) := fun i hiw h =>
      .inr ⟨i, by simpa [setW, hiw] using h.mono hT.mono.2⟩
    have reg : Registered c.st o' → Registered s' o' ∨ ∃ i, InFlight s' o' (setW c.ws w t' i) :=
      fun h => .inl fun r hr => hT.mono.2 r (h r hr)
    have mine : Registered s' o' ∨ InFlight s' o' t' →
        Registered s' o' ∨ ∃ i, InFlight s' o' (setW c.ws w t' i) := fun h =>
      h.imp id fun h => ⟨w, by simpa [setW] using h⟩
    show Registered s' o' ∨ ∃ i, InFlight s' o' (setW c.ws w t' i)
    have old : (∀ h : InFlight c.st o' t, Registered s' o' ∨ InFlight s' o' t') →
        Registered s' o' ∨ ∃ i, InFlight s' o' (setW c.ws w t' i) := by
      intro hme
      rcases hG with h | ⟨i, h⟩
      · exact reg h
      · by_cases hiw : i = w
        · subst hiw; rw [hwt] at h; exact mine (hme h)
        · exact other i hiw h
    cases hT with
    | startHas _ => exact old (fun h => by simp [InFlight] at h)
    | startBase _ _ => exact old (fun h => by simp [InFlight] at h)
    | startDyn _ _ _ => exact old (fun h => by simp [InFlight] at h)
    | startStat _ _ _ => exact old (fun h => by simp [InFlight] at h)
    | keepNil => exact old (fun h => by simp [InFlight] at h)
    | keepHit _ => exact old (fun h => by simp [InFlight] at h)
    | keepMiss _ => exact old (fun h => by simp [InFlight] at h)
    | @store o => exact old (fun h => by simp [InFlight] at h)
    | depsNil =>
      refine old (fun h => .inl ?_)
      intro r hr; simpa using h.2 r hr
    | @depsSkip o r rest hn =>
      refine old (fun h => ?_)
      obtain ⟨rfl, h2⟩ := h
      refine inflight_mkDeps (fun r' hr' => ?_)
      rcases h2 r' hr' with h | h
      · exact .inl h
      · rcases List.mem_cons.1 h with rfl | h
        · exact .inl ((needOf_iff _ _).1 hn).2
        · exact .inr h
    | @depsGo o r rest hn =>
      refine old (fun h => .inr ?_)
      obtain ⟨rfl, h2⟩ := h
      refine ⟨rfl, fun r' hr' => ?_⟩
      rcases h2 r' hr' with h | h
      · exact .inl h
      · rcases List.mem_cons.1 h with rfl | h
        · exact .inr (.inl rfl)
        · exact .inr (.inr h)
    | @depWrite o r rest =>
      refine old (fun h => ?_)
      obtain ⟨rfl, h2⟩ := h
      refine inflight_mkDeps (fun r' hr' => ?_)
      rcases h2 r' hr' with h | rfl | h
      · exact .inl (by simp [h])
      · exact .inl (by simp)
      · exact .inr h

/-- every stored id has a version in the document that is registered or being registered -/
def GInvD (doc : Doc) (c : PCfg) : Prop := ∀ r ∈ c.st.kept, ∃ o ∈ doc, o.key = r ∧ Wit c o

theorem GInvD.step {doc : Doc} {e : Env} :
    ∀ c c', PStep e c c' → (∀ i o, c.ws i = .storing o → o ∈ doc) → GInvD doc c → GInvD doc c' := by
  intro c c' h hst hG r hr
  by_cases hold : r ∈ c.st.kept
  · obtain ⟨o, ho, hk, hw⟩ := hG r hold
    exact ⟨o, ho, hk, hw.step c c' h⟩
  · cases h with
    | @deq w o q hw hi hq => exact absurd hr hold
    | @task w t s' t' hw hwt hT =>
      cases hT with
      | @store o =>
        have hkey : r = o.key := by simpa [hold] using hr
        refine ⟨o, hst w o hwt, hkey.symm, ?_⟩
        exact (inflight_mkDeps (s := _) (fun r hr => .inr hr)).imp id fun h => ⟨w, by simpa [setW] using h⟩
      | startHas _ => exact absurd hr hold
      | startBase _ _ => exact absurd hr hold
      | startDyn _ _ _ => exact absurd hr hold
      | startStat _ _ _ => exact absurd hr hold
      | keepNil => exact absurd hr hold
      | keepHit _ => exact absurd hr hold
      | keepMiss _ => exact absurd hr hold
      | depsNil => exact absurd hr hold
      | depsSkip _ => exact absurd hr hold
      | depsGo _ => exact absurd hr hold
      | depWrite => exact absurd hr hold

/-- between passes -/
structure LInvD (doc : Doc) (C : Ref → Prop) (s : State) : Prop where
  sound : SState doc C s
  reg : ∀ r ∈ s.kept, ∃ o ∈ doc, o.key = r ∧ Registered s o

structure PassEndD (e : Env) (doc : Doc) (C : Ref → Prop) (s : State) (c : PCfg) : Prop where
  sinv : SInv doc e.k C c
  ginv : GInvD doc c
  pinv : PInv e doc c
  tinv : TInv s.kept c
  queue : c.queue = []
  idle : AllIdle c

theorem passEndD {e : Env} {doc : Doc} {C : Ref → Prop} (hC : Closed doc e.k C) (hm : Mode e)
    (hW : 0 < e.W) {order : List Obj} (ho : ∀ o, o ∈ order ↔ o ∈ doc)
    (ch : List Nat) {s : State} (hs : LInvD doc C s) : PassEndD e doc C s (runPass e order ch s) := by
  have hfin := runPass_final e hW order ch s
  have h1 : SInv doc e.k C (runPass e order ch s) ∧ GInvD doc (runPass e order ch s) := by
    refine runPass_ind (I := fun c => SInv doc e.k C c ∧ GInvD doc c) ?_ order ch s ?_
    · intro c c' hstep hI
      refine ⟨SInv.step hC c c' hstep hI.1, GInvD.step c c' hstep ?_ hI.2⟩
      intro i o hio
      have := hI.1.tasks i
      rw [hio] at this
      exact this.1
    · refine ⟨SInv.start ⟨hs.sound.kept, hs.sound.need⟩ (fun o h => (ho o).1 h), ?_⟩
      intro r hr
      obtain ⟨o, hod, hk, hreg⟩ := hs.reg r hr
      exact ⟨o, hod, hk, .inl hreg⟩
  have h2 : PInv e doc (runPass e order ch s) := by
    refine runPass_ind (I := PInv e doc) (PInv.step hm doc) order ch s ?_
    intro _ o hod
    exact .inl ((ho o).2 hod)
  have h3 : TInv s.kept (runPass e order ch s) := by
    refine runPass_ind (I := TInv s.kept) (TInv.step s.kept) order ch s ?_
    exact ⟨fun r hr => hr, fun h => by simp [startPass] at h, fun _ => trivial⟩
  exact ⟨h1.1, h1.2, h2, h3, hfin.1, hfin.2⟩

theorem PassEndD.linv {e : Env} {doc : Doc} {C : Ref → Prop} {s : State} {c : PCfg}
    (h : PassEndD e doc C s c) : LInvD doc C c.st := by
  refine ⟨h.sinv.state, fun r hr => ?_⟩
  obtain ⟨o, ho, hk, hw⟩ := h.ginv r hr
  refine ⟨o, ho, hk, ?_⟩
  rcases hw with hr | ⟨i, hi⟩
  · exact hr
  · have := h.idle i
    cases hti : c.ws i <;> simp [hti, Task.isIdle, InFlight] at this hi

theorem PassEndD.closed {e : Env} {doc : Doc} {C : Ref → Prop} {s : State} {c : PCfg}
    (h : PassEndD e doc C s c) (hf : c.st.flag = false) : ClosedD doc e.k (· ∈ c.st.kept) := by
  have done : ∀ o ∈ doc, Done e c.st o := by
    intro o ho
    rcases h.pinv hf o ho with hq | ⟨i, hi⟩ | hd
    · simp [h.queue] at hq
    · have := h.idle i
      cases hti : c.ws i <;> simp [hti, Task.isIdle, Busy] at this hi
    · exact hd
  have hl := h.linv
  constructor
  · intro o ho hsel
    rcases done o ho with hd | ⟨hd, _⟩
    · exact (has_iff _ _).1 hd
    · have : e.k.sel c.st.has o = true := (sel_iff e.k c.st.kept o).2 hsel
      simp [this] at hd
  · intro r hk
    obtain ⟨o, ho, hkey, hreg⟩ := hl.reg r hk
    refine ⟨o, ho, hkey, fun r' hr' hp => ?_⟩
    have hn : r' ∈ c.st.need := hreg r' hr'
    obtain ⟨o', ho', rfl⟩ := hp
    rcases done o' ho' with hd | ⟨_, hd⟩
    · exact (has_iff _ _).1 hd
    · exact (needOf_false_iff _ _).1 hd hn

theorem PassEndD.mu_lt {e : Env} {doc : Doc} {C : Ref → Prop} {s : State} {c : PCfg}
    (h : PassEndD e doc C s c) (hf : c.st.flag = true) : mu doc c.st < mu doc s := by
  obtain ⟨r, hr, hr0⟩ := h.tinv.grow hf
  obtain ⟨o, ho, rfl⟩ := (h.sinv.state.kept r hr).2
  refine filter_length_lt _ _ ?_ doc ⟨o, ho, ?_, ?_⟩
  · intro x hx
    simp only [Bool.not_eq_true', has_false_iff] at hx ⊢
    exact fun hk => hx (h.tinv.sub _ hk)
  · simpa [State.has] using hr0
  · simpa [State.has] using hr

theorem loopG_specD {e : Env} {doc : Doc} {C : Ref → Prop} (hC : Closed doc e.k C) (hm : Mode e)
    (hW : 0 < e.W) :
    ∀ (n : Nat) (ps : List (List Obj × List Nat)) (s : State), LInvD doc C s → mu doc s < n →
      ∃ s', loopG e doc n ps s = .ok s' ∧ LInvD doc C s' ∧ ClosedD doc e.k (· ∈ s'.kept)
  | 0, _, _, _, h => by omega
  | n+1, ps, s, hs, hmu => by
    have hp := passEndD hC hm hW (nextPass_mem doc ps) (nextPass doc ps).2 hs
    simp only [loopG]
    by_cases hf : (runPass e (nextPass doc ps).1 (nextPass doc ps).2 s).st.flag = true
    · simp only [hf, if_true]
      exact loopG_specD hC hm hW n ps.tail _ hp.linv (by have := hp.mu_lt hf; omega)
    · have hf' : (runPass e (nextPass doc ps).1 (nextPass doc ps).2 s).st.flag = false := by
        simpa using hf
      simp only [hf', Bool.false_eq_true, if_false]
      exact ⟨_, rfl, hp.linv, hp.closed hf'⟩

/-- **C18_duplicates** (quantifier "any OSM document", here also the ill-formed ones that repeat an id): for EVERY
document, keep function of the modelled shape, `W ≥ 1` and schedule, the fixed `extract` terminates within `|doc|+2`
passes and its kept set `K` (1) lies inside every closed set (nothing outside the full closure is stored),
(2) contains the id of every element the keep function selects given `K`, and (3) for every stored id there is a
version of it in the document all of whose present references are stored.  No `uniqueKeys` hypothesis. -/
theorem C18_duplicates (k : Keep) (W : Nat) (hW : 0 < W) (doc : Doc) (sched : List (List Nat)) :
    ∃ s : State, runG ⟨true, k, W⟩ doc (sched.map fun ch => (doc, ch)) = .ok s ∧
      extractRun true k W doc sched = .ok (doc.filter fun o => decide (o.key ∈ s.kept)) ∧
      (∀ C, Closed doc k C → ∀ r ∈ s.kept, C r ∧ Present doc r) ∧
      ClosedD doc k (· ∈ s.kept) := by
  have hm : Mode ⟨true, k, W⟩ := .inl rfl
  obtain ⟨s, hs, _, hcl⟩ := loopG_specD (e := ⟨true, k, W⟩) (closed_univ doc k) hm hW (passFuel doc)
    (sched.map fun ch => (doc, ch)) State.init
    ⟨⟨by simp [State.init], by simp [State.init]⟩, by simp [State.init]⟩
    (by have := mu_le doc State.init; simp [passFuel]; omega)
  exact ⟨s, hs, extractRun_eq hs, fun C hC => C18_sound_run ⟨true, k, W⟩ hW doc _ s hs C hC, hcl⟩

/-! ## with duplicate ids the result depends on the schedule (concrete witness) -/

def dn1 : Obj := ⟨⟨.node, 1⟩, [], 0, 0, []⟩
def dn2 : Obj := ⟨⟨.node, 2⟩, [], 0, 0, []⟩
/-- two `<way id="1">` elements, both tagged, with different node lists -/
def dwa : Obj := ⟨⟨.way, 1⟩, [⟨.node, 1⟩], 0, 0, [(1, 1)]⟩
def dwb : Obj := ⟨⟨.way, 1⟩, [⟨.node, 2⟩], 0, 0, [(1, 1)]⟩

/-- one worker: the first `way 1` is stored, the second skipped (`{w1, n1}`); two workers that both read "way 1 not
stored" before either stores: both store, both node lists are followed (`{w1, n1, n2}`). -/
theorem C18_duplicates_schedule_dependent :
    keys (extractRun true (keepTags [(1, [])]) 1 [dwa, dwb, dn1, dn2] []) =
      some [⟨.way, 1⟩, ⟨.way, 1⟩, ⟨.node, 1⟩] ∧
    keys (extractRun true (keepTags [(1, [])]) 2 [dwa, dwb, dn1, dn2] [[0, 1, 0, 1]]) =
      some [⟨.way, 1⟩, ⟨.way, 1⟩, ⟨.node, 1⟩, ⟨.node, 2⟩] := by
  decide

end GeomV.C18
