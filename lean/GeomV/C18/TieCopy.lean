import GeomV.C18.TieLoop
/-!
# C18 — T1 tie for the COPYING `processNode / processWay / processRelation` (regenerated from extract.go)

These are the functions `extract`'s workers call.  `tie_processNode/Way/Relation`: the regenerated function (locks dropped:
its sequential meaning), run on a `Data` whose abstraction is (membership-)equal to a model state `s`, returns a `Data` whose
abstraction is equal to `procSeq ⟨true, k, W⟩ s o` — the model's `processX` run to completion with the FIXED loop condition
(every store raises the flag: fix 48f837f) — and its boolean result is that state's flag.  `tie_worker_*`: that is exactly
what a worker of the interleaving model does with one object when nobody interferes (`finishW`).  The calls
`copyNode/Way/Relation` are GenLib vocabulary.  `extract`'s own loop (goroutines, channel, errgroup) is not translated.
-/
set_option linter.unusedVariables false
set_option linter.unusedSimpArgs false
namespace GeomV.C18
open Gen

/-- the Go keep function `K` has the modelled shape `k` on the objects the scanners deliver to `extract`
(`*osm.Node`, `*osm.Way`, `*osm.Relation` with typed members) -/
def KeepShapeS (K : KeepFunc) (k : Keep) : Prop :=
  ∀ (d : Data) (obj : Object) (o : Obj), obj.scanned = some o → obj.Typed → K d obj = .ok (k.sel (absState d).has o)

theorem seq_store_node (d : Data) (f : Bool) (s : State) (hs : SEq (absState d f) s) (n : Node) (f' : Bool)
    (hf : f' = (s.flag || true)) :
    SEq (absState { d with Nodes := GoMap.set d.Nodes n.ID n } f')
      { s with kept := nref n.ID :: s.kept, flag := s.flag || true } := by
  refine ⟨fun r => ?_, hs.need, hf⟩
  have := hs.kept r
  simp only [absState, List.mem_append, mem_set_map, List.mem_cons] at this ⊢
  rw [← this]
  constructor
  · rintro (((h | h) | h) | h)
    · exact .inl h
    · exact .inr (.inl (.inl h))
    · exact .inr (.inl (.inr h))
    · exact .inr (.inr h)
  · rintro (h | ((h | h) | h))
    · exact .inl (.inl (.inl h))
    · exact .inl (.inl (.inr h))
    · exact .inl (.inr h)
    · exact .inr h

/-- **tie_processNode**: the REGENERATED `processNode` (copying version, used by `extract`) = the model's `processX`
run to completion with the FIXED loop condition (`fos = true`: every store raises the flag); its boolean result is the
flag; the only change of the object maps is `Nodes[n.ID] = copyNode(n, keepTags)`. -/
theorem tie_processNode (K : KeepFunc) (k : Keep) (hK : KeepShapeS K k) (W : Nat) (d : Data) (n : Node)
    (kt : Bool) (s : State) (hs : SEq (absState d false) s) :
    ∃ d' ap, processNode d n K kt = .ok (d', ap) ∧
      SEq (absState d' ap) (procSeq ⟨true, k, W⟩ s (objNode n)) ∧
      (d' = d ∨ d' = { d with Nodes := GoMap.set d.Nodes n.ID (copyNode n kt) }) := by
  unfold processNode procSeq
  have e1 : (absState d).has (nref n.ID) = s.has (nref n.ID) := hs.has _
  have e2 : (absState d).needOf (nref n.ID) = s.needOf (nref n.ID) := hs.needOf _
  have e3 : (absState d).has = s.has := hs.hasFn
  have hk := hK d (.osmNode n) _ rfl trivial
  rw [e3] at hk
  rw [tie_hasNeedNode, e1, e2]
  have ek : (objNode n).key = nref n.ID := rfl
  simp only [ek]
  by_cases h1 : s.has (nref n.ID) = true
  · exact ⟨d, false, by simp [h1, Ctl.bind, Ctl.stateE, Except.map], by simpa [h1] using hs, .inl rfl⟩
  · have h1' : s.has (nref n.ID) = false := by simpa using h1
    by_cases h2 : k.sel s.has (objNode n) = true ∨ s.needOf (nref n.ID) = true
    · refine ⟨{ d with Nodes := GoMap.set d.Nodes n.ID (copyNode n kt) }, true, ?_, ?_, .inr rfl⟩
      · simp [h1', h2, hk, Ctl.bind, Ctl.call, Ctl.stateE, Except.map]
      · simp only [h1', h2, Bool.or_eq_true, if_true, Bool.false_eq_true, if_false, storeSeq, depsSeq]
        have er : (objNode n).refs = [] := rfl
        simp only [er, depsSeq, ek]
        exact seq_store_node d false s hs (copyNode n kt) true (by simp)
    · exact ⟨d, false, by simp [h1', h2, hk, Ctl.bind, Ctl.call, Ctl.stateE, Except.map],
        by simpa [h1', h2] using hs, .inl rfl⟩

theorem seq_set_flag {d : Data} {s : State} {a : Bool} (h : SEq (absState d a) s) (f : Bool) :
    SEq (absState d f) { s with flag := f } := ⟨h.kept, h.need, rfl⟩

/-- **tie_processWay**: the REGENERATED `processWay` (copying version) = the model's `processX` run to completion with the
fixed loop condition; result bool = flag; `Ways[w.ID] = copyWay(w, keepTags)` is the only change of the object maps. -/
theorem tie_processWay (K : KeepFunc) (k : Keep) (hK : KeepShapeS K k) (W : Nat) (d : Data) (w : OsmWay)
    (kt : Bool) (s : State) (hs : SEq (absState d false) s) :
    ∃ d' ap, processWay d w K kt = .ok (d', ap) ∧
      SEq (absState d' ap) (procSeq ⟨true, k, W⟩ s (objOsmWay w)) ∧
      d'.Nodes = d.Nodes ∧ d'.Relations = d.Relations ∧
      (d'.Ways = d.Ways ∨ d'.Ways = GoMap.set d.Ways w.ID (copyWay w kt)) := by
  unfold processWay procSeq
  have e1 : (absState d).has (wref w.ID) = s.has (wref w.ID) := hs.has _
  have e2 : (absState d).needOf (wref w.ID) = s.needOf (wref w.ID) := hs.needOf _
  have e3 : (absState d).has = s.has := hs.hasFn
  have hk := hK d (.osmWay w) _ rfl trivial
  rw [e3] at hk
  rw [tie_hasNeedWay, e1, e2]
  have ek : (objOsmWay w).key = wref w.ID := rfl
  have er : (objOsmWay w).refs = w.Nodes.map (fun n => nref n.ID) := rfl
  simp only [ek]
  by_cases h1 : s.has (wref w.ID) = true
  · exact ⟨d, false, by simp [h1, Ctl.bind, Ctl.stateE, Except.map], by simpa [h1] using hs, rfl, rfl, .inl rfl⟩
  · have h1' : s.has (wref w.ID) = false := by simpa using h1
    by_cases h2 : k.sel s.has (objOsmWay w) = true ∨ s.needOf (wref w.ID) = true
    · simp only [h1', h2, hk, Bool.or_eq_true, Ctl.bind, Ctl.call, if_true, Bool.false_eq_true, if_false, storeSeq, er]
      generalize hX : rangeS w.Nodes _ ((_ : Data), true) = X
      have hst : SEq (absState { d with Ways := GoMap.set d.Ways w.ID (copyWay w kt) } true)
          { s with kept := wref w.ID :: s.kept, flag := s.flag || true } := by
        have := seq_set_flag (seq_store_way d s hs (copyWay w kt)) true
        refine ⟨this.kept, this.need, by rw [absFlag]; simp⟩
      obtain ⟨d', ap', rfl, hs2, hsame⟩ := rangeS_deps_of_eq (fun n : WayNode => nref n.ID) (fun n _ d ap s hs => by
        simp only [tie_hasNeedNode]
        by_cases hn : s.needOf (nref n.ID) = true
        · have hn' : (absState d).needOf (nref n.ID) = true := by rw [← hn]; exact hs.needOf _
          exact ⟨d, ap, by simp [hn'], by simpa [depsSeq, hn] using hs, rfl, rfl, rfl⟩
        · have hn1 : s.needOf (nref n.ID) = false := by simpa using hn
          have hn' : (absState d).needOf (nref n.ID) = false := by rw [← hn1]; exact hs.needOf _
          exact ⟨{ d with dependentNodes := GoMap.set d.dependentNodes n.ID () }, true, by simp [hn'],
            by simpa [depsSeq, hn1] using seq_dep_node d ap s hs n.ID hn1, rfl, rfl, rfl⟩)
        _ true _ X hX hst
      exact ⟨d', ap', by simp [Ctl.stateE, Except.map], hs2, hsame.1, hsame.2.2, .inr hsame.2.1⟩
    · exact ⟨d, false, by simp [h1', h2, hk, Ctl.bind, Ctl.call, Ctl.stateE, Except.map],
        by simpa [h1', h2] using hs, rfl, rfl, .inl rfl⟩

/-- **tie_processRelation**: the REGENERATED `processRelation` (copying version) = the model's `processX` run to
completion with the fixed loop condition: every typed member is looked up / registered in the `dependent*` map OF ITS
TYPE under the member's own `Ref`. -/
theorem tie_processRelation (K : KeepFunc) (k : Keep) (hK : KeepShapeS K k) (W : Nat) (d : Data) (r : Relation)
    (hr : MembersTyped r) (kt : Bool) (s : State) (hs : SEq (absState d false) s) :
    ∃ d' ap, processRelation d r K kt = .ok (d', ap) ∧
      SEq (absState d' ap) (procSeq ⟨true, k, W⟩ s (objRel r)) ∧
      d'.Nodes = d.Nodes ∧ d'.Ways = d.Ways ∧
      (d'.Relations = d.Relations ∨ d'.Relations = GoMap.set d.Relations r.ID (copyRelation r kt)) := by
  unfold processRelation procSeq
  have e1 : (absState d).has (rref r.ID) = s.has (rref r.ID) := hs.has _
  have e2 : (absState d).needOf (rref r.ID) = s.needOf (rref r.ID) := hs.needOf _
  have e3 : (absState d).has = s.has := hs.hasFn
  have hk := hK d (.osmRelation r) _ rfl hr
  rw [e3] at hk
  rw [tie_hasNeedRelation, e1, e2]
  have ek : (objRel r).key = rref r.ID := rfl
  have er : (objRel r).refs = r.Members.map mrefD := filterMap_mref _ hr
  simp only [ek]
  by_cases h1 : s.has (rref r.ID) = true
  · exact ⟨d, false, by simp [h1, Ctl.bind, Ctl.stateE, Except.map], by simpa [h1] using hs, rfl, rfl, .inl rfl⟩
  · have h1' : s.has (rref r.ID) = false := by simpa using h1
    by_cases h2 : k.sel s.has (objRel r) = true ∨ s.needOf (rref r.ID) = true
    · simp only [h1', h2, hk, Bool.or_eq_true, Ctl.bind, Ctl.call, if_true, Bool.false_eq_true, if_false, storeSeq, er]
      generalize hX : rangeS r.Members _ ((_ : Data), true) = X
      have hst : SEq (absState { d with Relations := GoMap.set d.Relations r.ID (copyRelation r kt) } true)
          { s with kept := rref r.ID :: s.kept, flag := s.flag || true } := by
        have := seq_set_flag (seq_store_rel d s hs (copyRelation r kt)) true
        refine ⟨this.kept, this.need, by rw [absFlag]; simp⟩
      obtain ⟨d', ap', rfl, hs2, hsame⟩ := rangeS_deps_of_eq mrefD (fun m hm d ap s hs => by
        have hty := hr m hm
        cases hmt : m.Typ with
        | node =>
          simp only [tie_hasNeedNode, hmt, mrefD]
          by_cases hn : s.needOf (nref m.Ref) = true
          · have hn' : (absState d).needOf (nref m.Ref) = true := by rw [← hn]; exact hs.needOf _
            exact ⟨d, ap, by simp [hn'], by simpa [depsSeq, hn] using hs, rfl, rfl, rfl⟩
          · have hn1 : s.needOf (nref m.Ref) = false := by simpa using hn
            have hn' : (absState d).needOf (nref m.Ref) = false := by rw [← hn1]; exact hs.needOf _
            exact ⟨{ d with dependentNodes := GoMap.set d.dependentNodes m.Ref () }, true, by simp [hn'],
              by simpa [depsSeq, hn1] using seq_dep_node d ap s hs m.Ref hn1, rfl, rfl, rfl⟩
        | way =>
          simp only [tie_hasNeedWay, hmt, mrefD]
          by_cases hn : s.needOf (wref m.Ref) = true
          · have hn' : (absState d).needOf (wref m.Ref) = true := by rw [← hn]; exact hs.needOf _
            exact ⟨d, ap, by simp [hn'], by simpa [depsSeq, hn] using hs, rfl, rfl, rfl⟩
          · have hn1 : s.needOf (wref m.Ref) = false := by simpa using hn
            have hn' : (absState d).needOf (wref m.Ref) = false := by rw [← hn1]; exact hs.needOf _
            exact ⟨{ d with dependentWays := GoMap.set d.dependentWays m.Ref () }, true, by simp [hn'],
              by simpa [depsSeq, hn1] using seq_dep_way d ap s hs m.Ref, rfl, rfl, rfl⟩
        | relation =>
          simp only [tie_hasNeedRelation, hmt, mrefD]
          by_cases hn : s.needOf (rref m.Ref) = true
          · have hn' : (absState d).needOf (rref m.Ref) = true := by rw [← hn]; exact hs.needOf _
            exact ⟨d, ap, by simp [hn'], by simpa [depsSeq, hn] using hs, rfl, rfl, rfl⟩
          · have hn1 : s.needOf (rref m.Ref) = false := by simpa using hn
            have hn' : (absState d).needOf (rref m.Ref) = false := by rw [← hn1]; exact hs.needOf _
            exact ⟨{ d with dependentRelations := GoMap.set d.dependentRelations m.Ref () }, true, by simp [hn'],
              by simpa [depsSeq, hn1] using seq_dep_rel d ap s hs m.Ref, rfl, rfl, rfl⟩
        | other => exact absurd hmt hty)
        _ true _ X hX hst
      exact ⟨d', ap', by simp [Ctl.stateE, Except.map], hs2, hsame.1, hsame.2.1, .inr hsame.2.2⟩
    · exact ⟨d, false, by simp [h1', h2, hk, Ctl.bind, Ctl.call, Ctl.stateE, Except.map],
        by simpa [h1', h2] using hs, rfl, rfl, .inl rfl⟩

/-! ## a worker of the interleaving model, left alone with one object, does what the regenerated function does -/

theorem worker_step (e : Env) {w : Nat} (hw : w < e.W) (c : PCfg) (o : Obj) (hc : c.ws w = .start o) :
    (finishW e w (Task.start o).size c).st = procSeq e c.st o := by
  rw [finishW_st e hw _ _ (by rw [hc]; exact Nat.le_refl _), hc]; rfl

/-- the three provided keep functions have the shape on everything the scanners deliver (`C18_provided_keeps_src` (1)) -/
theorem keepShapeS_bounds (b : Bounds) : KeepShapeS (KeepBounds b) (keepBounds (rectOf b)) := by
  intro d obj o ho ht; rw [tie_KeepBounds b d obj ht, ho]
theorem keepShapeS_tags (want : List (Nat × List Nat)) : KeepShapeS (KeepTags want) (keepTags want) := by
  intro d obj o ho ht
  rw [tie_KeepTags want d obj]
  cases obj <;> simp_all [Gen.Object.scanned, Gen.Object.toObj]
theorem keepShapeS_all : KeepShapeS KeepAll keepAll := fun d obj o _ _ => tie_KeepAll d obj o

/-- **tie_worker** (mechanism "processNode/Way/Relation, hasNeed*" of the property, copying versions, tied to the
interleaving model): worker `w` of the model holds the freshly dequeued object `o` (`Task.start o`) in a configuration whose
state the Go `Data` `d` represents (`needAnotherPass` = the model's flag).  Running the worker to the end of the object
without interference (`finishW`) yields exactly the state that the REGENERATED `processNode / processWay / processRelation`
(chosen by the dynamic type, as the worker's type switch does) leaves in `d`, and `needAnotherPass || result` is the flag. -/
theorem tie_worker (K : KeepFunc) (k : Keep) (hK : KeepShapeS K k) (W : Nat) {w : Nat} (hw : w < W) (c : PCfg)
    (obj : Object) (o : Obj) (ho : obj.scanned = some o) (ht : obj.Typed) (hc : c.ws w = .start o)
    (d : Data) (hs : SEq (absState d c.st.flag) c.st) (kt : Bool) :
    ∃ d' ap, (match obj with
        | .osmNode n => processNode d n K kt
        | .osmWay x => processWay d x K kt
        | .osmRelation r => processRelation d r K kt
        | _ => .error "not a scanned object") = .ok (d', ap) ∧
      SEq (absState d' (c.st.flag || ap)) (finishW ⟨true, k, W⟩ w (Task.start o).size c).st := by
  rw [worker_step ⟨true, k, W⟩ hw c o hc]
  cases obj with
  | osmNode n =>
    cases ho
    obtain ⟨d', ap, h1, h2, _⟩ := tie_processNode K k hK W d n kt _ (seq_unflag hs)
    exact ⟨d', ap, h1, seq_step rfl h2⟩
  | osmWay x =>
    cases ho
    obtain ⟨d', ap, h1, h2, _⟩ := tie_processWay K k hK W d x kt _ (seq_unflag hs)
    exact ⟨d', ap, h1, seq_step rfl h2⟩
  | osmRelation r =>
    cases ho
    obtain ⟨d', ap, h1, h2, _⟩ := tie_processRelation K k hK W d r ht kt _ (seq_unflag hs)
    exact ⟨d', ap, h1, seq_step rfl h2⟩
  | node _ => cases ho
  | way _ => cases ho
  | relation _ => cases ho
  | other => cases ho

/-! ## non-vacuity -/

/-- a relation whose NEGATIVE member ids are registered under the member's own `Ref`, in the map of the member's type -/
example : ((processRelation Data.empty ⟨-21, [⟨-3, .node⟩, ⟨-20, .relation⟩, ⟨1099511627777, .way⟩], []⟩ KeepAll true).toOption.map
    fun x => (x.1.Relations.map (·.1), x.1.dependentNodes.map (·.1), x.1.dependentWays.map (·.1),
      x.1.dependentRelations.map (·.1), x.2)) = some ([-21], [-3], [1099511627777], [-20], true) := by decide +kernel
/-- a way all of whose nodes are stored and registered already still reports its own store (another pass) -/
example : ((processWay ⟨[(1, ⟨1, 0, 0, []⟩)], [], [], [(1, ())], [], []⟩ ⟨10, [⟨1⟩], []⟩ KeepAll true).toOption.map
    fun x => (x.1.Ways.map (·.1), x.2)) = some ([10], true) := by decide +kernel
example : KeepShapeS (KeepBounds ⟨⟨0, 0⟩, ⟨2, 2⟩⟩) (keepBounds ⟨0, 0, 2, 2⟩) := keepShapeS_bounds _


/-- **C18_filter_provided_src** (clause "Filter by tags (or keep-all) is idempotent, closed under references and never
returns more than it was given", no hypothesis left about the keep function): for the REGENERATED `KeepTags(want)` and
`KeepAll()` the REGENERATED `Filter` loop, under every map iteration order, returns the input's objects whose key lies in
THE least closed set; closed under the references present in the input; entries of the input; passes the regenerated
`Check` when the input has no dangling reference; filtering again returns the same objects. -/
theorem C18_filter_provided_src (K : KeepFunc) (hK : (∃ want, K = KeepTags want) ∨ K = KeepAll) (d : Data)
    (hkm : KeysMatch d) (hm : MembersTypedD d) (hu : uniqueKeys (objsOf d)) :
    ∃ (k : Keep) (Kset : List Ref), IsLeastClosed (objsOf d) k (· ∈ Kset) ∧
      ∀ (orc : Oracle), orc.Valid →
        ∃ out, Gen.Filter (passFuel (objsOf d) + 1) orc d K = .ok out ∧
          (∀ o, o ∈ objsOf out ↔ o ∈ objsOf d ∧ o.key ∈ Kset) ∧ Sub out d ∧
          (∀ o ∈ objsOf out, ∀ r ∈ o.refs, Present (objsOf d) r → Present (objsOf out) r) ∧
          (noDangling (objsOf d) → ∀ orc', orc'.Valid → Check orc' out = none) ∧
          (∀ orc', orc'.Valid → ∃ out2, Gen.Filter (passFuel (objsOf out) + 1) orc' out K = .ok out2 ∧
            ∀ o, o ∈ objsOf out2 ↔ o ∈ objsOf out) := by
  rcases hK with ⟨want, rfl⟩ | rfl
  · obtain ⟨Kset, h⟩ := C18_filter_src _ _ (keepShape_tags want) (fun _ => rfl) d hkm hm hu
    exact ⟨keepTags want, Kset, h⟩
  · obtain ⟨Kset, h⟩ := C18_filter_src _ _ keepShape_all (fun _ => rfl) d hkm hm hu
    exact ⟨keepAll, Kset, h⟩


/-! ## GOMAXPROCS = 1: `extract`'s loop over the regenerated `processNode/Way/Relation` -/

/-- `whileS_loop` for any pass orders, loop condition and invariant of the `Data` -/
theorem whileS_loopG {ρ : Type} (e : Env) (hW : 0 < e.W) (doc : Doc) (order : Nat → List Obj)
    (hord : ∀ i, sameMem (order i) doc = true) (P : Data → Prop)
    (body : Nat → Bool × Data → Ctl ρ (Bool × Data))
    (hbody : ∀ (iter : Nat) (nap : Bool) (out : Data) (s : State), R out s → P out →
      ∃ nap' out', body iter (nap, out) = .fall (nap', out') ∧
        SEq (absState out' nap') ((order iter).foldl (procSeq e) { s with flag := false }) ∧ P out') :
    ∀ (n iter : Nat) (out : Data) (s s' : State), R out s → P out →
      loopG e doc n ((List.range' iter n).map fun i => (order i, ([] : List Nat))) s = .ok s' →
      ∃ out', whileS (fun x => x.1) body (n + 1) iter (true, out) = .fall (false, out') ∧ R out' s' ∧ P out'
  | 0, _, _, _, _, _, _, h => by simp [loopG] at h
  | n + 1, iter, out, s, s', hs, hsub, h => by
    rw [List.range'_succ, List.map_cons] at h
    simp only [loopG, nextPass, hord, if_true, List.tail_cons] at h
    rw [runPass_seq e hW] at h
    obtain ⟨nap', out1, hb, hs1, hsub1⟩ := hbody iter true out s hs hsub
    have hfl : nap' = (List.foldl (procSeq e) { s with flag := false } (order iter)).flag := hs1.flag
    have hR1 : R out1 (List.foldl (procSeq e) { s with flag := false } (order iter)) := by
      unfold R; rw [← hfl]; exact hs1
    rw [whileS]
    simp only [if_true, hb]
    cases hn : nap'
    · rw [hn] at hfl
      rw [← hfl] at h
      simp only [Bool.false_eq_true, if_false, Except.ok.injEq] at h
      subst h
      refine ⟨out1, ?_, hR1, hsub1⟩
      rw [whileS]; simp
    · rw [hn] at hfl
      rw [← hfl] at h
      simp only [if_true] at h
      exact whileS_loopG e hW doc order hord P body hbody n (iter + 1) out1 _ s' hR1 hsub1 h

/-- what a worker does with one scanned object: the type switch of `extract`'s worker loop (hand-written reading of the
untranslated loop; the three callees are the regenerated functions) -/
def processObj (d : Data) (obj : Object) (K : KeepFunc) (kt : Bool) : Except String (Data × Bool) :=
  match obj with
  | .osmNode n => processNode d n K kt
  | .osmWay x => processWay d x K kt
  | .osmRelation r => processRelation d r K kt
  | _ => .error "unknown type %T"

/-- one pass of `extract` with ONE worker: the scanned objects in file order, `needAnotherPass` = OR of the results -/
def extractPass (objs : List Object) (K : KeepFunc) (kt : Bool) (x : Bool × Data) : Ctl Data (Bool × Data) :=
  rangeS objs (fun obj x => Ctl.call (processObj x.2 obj K kt) (fun y =>
    if y.2 then Ctl.fall (true, y.1) else Ctl.fall (x.1, y.1))) (false, x.2)

/-- `for needAnotherPass { … }` of `extract` with one worker -/
def extractSeq (fuel : Nat) (objs : List Object) (K : KeepFunc) (kt : Bool) : Except String Data :=
  Ctl.value (Ctl.bind (whileS (fun x => x.1) (fun _ x => extractPass objs K kt x) fuel 0 (true, Data.empty))
    (fun x => Ctl.ret x.2 x))

def objOfScanned (obj : Object) : Obj := (obj.scanned).getD default
/-- the document a list of scanned objects denotes -/
def docOf (objs : List Object) : Doc := objs.map objOfScanned

theorem sameMem_self (doc : Doc) : sameMem doc doc = true := by
  simp [sameMem]

theorem filter_eq_imp {α : Type} (p q : α → Bool) : ∀ (l : List α), l.filter p = l.filter q → ∀ a ∈ l, p a = q a
  | [], _, a, ha => by simp at ha
  | x :: l, h, a, ha => by
    have hlen := congrArg List.length h
    by_cases hp : p x = true <;> by_cases hq : q x = true
    · simp only [List.filter_cons, hp, hq, if_true, List.cons.injEq, true_and] at h
      rcases List.mem_cons.1 ha with rfl | ha
      · rw [hp, hq]
      · exact filter_eq_imp p q l h a ha
    · exfalso
      have hq' : q x = false := by simpa using hq
      simp only [List.filter_cons, hp, hq', if_true, Bool.false_eq_true, if_false] at h
      have : x ∈ l.filter q := by rw [← h]; exact List.mem_cons_self
      have := (List.mem_filter.1 this).2
      -- x ∈ filter q, so q x = true
      rw [hq'] at this; exact Bool.false_ne_true this
    · exfalso
      have hp' : p x = false := by simpa using hp
      simp only [List.filter_cons, hp', hq, if_true, Bool.false_eq_true, if_false] at h
      have : x ∈ l.filter p := by rw [h]; exact List.mem_cons_self
      have := (List.mem_filter.1 this).2
      rw [hp'] at this; exact Bool.false_ne_true this
    · have hp' : p x = false := by simpa using hp
      have hq' : q x = false := by simpa using hq
      simp only [List.filter_cons, hp', hq', Bool.false_eq_true, if_false] at h
      rcases List.mem_cons.1 ha with rfl | ha
      · rw [hp', hq']
      · exact filter_eq_imp p q l h a ha

/-- every stored object is the copy of a scanned object of the document: same key, same references -/
structure CopyInv (doc : Doc) (out : Data) : Prop where
  keys : KeysMatch out
  typed : MembersTypedD out
  src : ∀ o ∈ objsOf out, ∃ o' ∈ doc, o'.key = o.key ∧ o'.refs = o.refs

theorem objsOf_nodes_set (d : Data) (k : Int) (n : Node) (o : Obj)
    (h : o ∈ objsOf { d with Nodes := GoMap.set d.Nodes k n }) : o = objNode n ∨ o ∈ objsOf d := by
  simp only [objsOf, List.mem_append, List.mem_map] at h ⊢
  rcases h with (⟨e, he, rfl⟩ | h) | h
  · rcases mem_set he with rfl | he
    · exact .inl rfl
    · exact .inr (.inl (.inl ⟨e, he, rfl⟩))
  · exact .inr (.inl (.inr h))
  · exact .inr (.inr h)

theorem objsOf_ways_set (d : Data) (k : Int) (w : Way) (o : Obj)
    (h : o ∈ objsOf { d with Ways := GoMap.set d.Ways k w }) : o = objWay w ∨ o ∈ objsOf d := by
  simp only [objsOf, List.mem_append, List.mem_map] at h ⊢
  rcases h with (h | ⟨e, he, rfl⟩) | h
  · exact .inr (.inl (.inl h))
  · rcases mem_set he with rfl | he
    · exact .inl rfl
    · exact .inr (.inl (.inr ⟨e, he, rfl⟩))
  · exact .inr (.inr h)

theorem objsOf_rels_set (d : Data) (k : Int) (r : Relation) (o : Obj)
    (h : o ∈ objsOf { d with Relations := GoMap.set d.Relations k r }) : o = objRel r ∨ o ∈ objsOf d := by
  simp only [objsOf, List.mem_append, List.mem_map] at h ⊢
  rcases h with h | ⟨e, he, rfl⟩
  · exact .inr (.inl h)
  · rcases mem_set he with rfl | he
    · exact .inl rfl
    · exact .inr (.inr ⟨e, he, rfl⟩)

theorem copyRelation_members (r : Relation) (kt : Bool) : (copyRelation r kt).Members = r.Members := by
  show r.Members.map (fun m => (⟨m.Ref, m.Typ⟩ : Member)) = r.Members
  exact List.map_id' r.Members

theorem copyInv_node {doc : Doc} {d : Data} (h : CopyInv doc d) (n : Node) (kt : Bool) (hn : objNode n ∈ doc) :
    CopyInv doc { d with Nodes := GoMap.set d.Nodes n.ID (copyNode n kt) } := by
  refine ⟨⟨fun e he => ?_, h.keys.ways, h.keys.rels⟩, h.typed, fun o ho => ?_⟩
  · rcases mem_set he with rfl | he
    · rfl
    · exact h.keys.nodes e he
  · rcases objsOf_nodes_set d n.ID (copyNode n kt) o (by exact ho) with rfl | ho
    · exact ⟨objNode n, hn, rfl, rfl⟩
    · exact h.src o ho

theorem copyInv_way {doc : Doc} {d d' : Data} (h : CopyInv doc d) (w : OsmWay) (kt : Bool) (hw : objOsmWay w ∈ doc)
    (hn : d'.Nodes = d.Nodes) (hr : d'.Relations = d.Relations)
    (hws : d'.Ways = d.Ways ∨ d'.Ways = GoMap.set d.Ways w.ID (copyWay w kt)) : CopyInv doc d' := by
  have hobj : ∀ o, o ∈ objsOf d' → o = objWay (copyWay w kt) ∨ o ∈ objsOf d := by
    intro o ho
    rcases hws with hws | hws
    · right; simpa [objsOf, hn, hr, hws] using ho
    · apply objsOf_ways_set d w.ID (copyWay w kt) o
      simpa [objsOf, hn, hr, hws] using ho
  refine ⟨⟨by rw [hn]; exact h.keys.nodes, fun e he => ?_, by rw [hr]; exact h.keys.rels⟩,
    by unfold MembersTypedD; rw [hr]; exact h.typed, fun o ho => ?_⟩
  · rcases hws with hws | hws <;> rw [hws] at he
    · exact h.keys.ways e he
    · rcases mem_set he with rfl | he
      · rfl
      · exact h.keys.ways e he
  · rcases hobj o ho with rfl | ho
    · refine ⟨objOsmWay w, hw, rfl, ?_⟩
      simp [objOsmWay, objWay, copyWay, List.map_map, Function.comp_def]
    · exact h.src o ho

theorem copyInv_rel {doc : Doc} {d d' : Data} (h : CopyInv doc d) (r : Relation) (hty : MembersTyped r) (kt : Bool)
    (hrd : objRel r ∈ doc)
    (hn : d'.Nodes = d.Nodes) (hw : d'.Ways = d.Ways)
    (hrs : d'.Relations = d.Relations ∨ d'.Relations = GoMap.set d.Relations r.ID (copyRelation r kt)) :
    CopyInv doc d' := by
  have hobj : ∀ o, o ∈ objsOf d' → o = objRel (copyRelation r kt) ∨ o ∈ objsOf d := by
    intro o ho
    rcases hrs with hrs | hrs
    · right; simpa [objsOf, hn, hw, hrs] using ho
    · apply objsOf_rels_set d r.ID (copyRelation r kt) o
      simpa [objsOf, hn, hw, hrs] using ho
  refine ⟨⟨by rw [hn]; exact h.keys.nodes, by rw [hw]; exact h.keys.ways, fun e he => ?_⟩, fun e he => ?_, fun o ho => ?_⟩
  · rcases hrs with hrs | hrs <;> rw [hrs] at he
    · exact h.keys.rels e he
    · rcases mem_set he with rfl | he
      · rfl
      · exact h.keys.rels e he
  · rcases hrs with hrs | hrs <;> rw [hrs] at he
    · exact h.typed e he
    · rcases mem_set he with rfl | he
      · show MembersTyped (copyRelation r kt)
        unfold MembersTyped; rw [copyRelation_members]; exact hty
      · exact h.typed e he
  · rcases hobj o ho with rfl | ho
    · refine ⟨objRel r, hrd, rfl, ?_⟩
      simp [objRel, copyRelation_members]
    · exact h.src o ho


theorem copyInv_empty (doc : Doc) : CopyInv doc Data.empty :=
  ⟨⟨fun e he => by simp [Data.empty] at he, fun e he => by simp [Data.empty] at he, fun e he => by simp [Data.empty] at he⟩,
    fun e he => by simp [Data.empty] at he, fun o ho => by simp [objsOf, Data.empty] at ho⟩

/-- core of the sequential composition: `extractSeq` simulates `runG ⟨true, k, 1⟩` with the empty schedule -/
theorem extract_seq_core (K : KeepFunc) (k : Keep) (hK : KeepShapeS K k) (objs : List Object) (kt : Bool)
    (hsc : ∀ obj ∈ objs, (obj.scanned).isSome = true ∧ obj.Typed) (s' : State)
    (hr : runG ⟨true, k, 1⟩ (docOf objs)
      ((List.range' 0 (passFuel (docOf objs))).map fun _ => (docOf objs, ([] : List Nat))) = .ok s') :
    ∃ out, extractSeq (passFuel (docOf objs) + 1) objs K kt = .ok out ∧ R out s' ∧ CopyInv (docOf objs) out := by
  let doc := docOf objs
  let e : Env := ⟨true, k, 1⟩
  have hR0 : R Data.empty State.init := ⟨fun r => Iff.rfl, fun r => Iff.rfl, rfl⟩
  obtain ⟨out, hw, hRo, hci⟩ := whileS_loopG e Nat.one_pos doc (fun _ => doc) (fun _ => sameMem_self doc)
    (CopyInv doc) (fun _ x => extractPass objs K kt x)
    (fun iter nap out s hs hci => by
      obtain ⟨n1, o1, e1, s1, c1⟩ := rangeS_pass (ρ := Data) e (CopyInv doc) objOfScanned (l := objs)
        (body := fun obj x => Ctl.call (processObj x.2 obj K kt) (fun y =>
          if y.2 then Ctl.fall (true, y.1) else Ctl.fall (x.1, y.1)))
        (fun obj hobj nap out s hs hci => by
          obtain ⟨hsome, hty⟩ := hsc obj hobj
          have hmem : objOfScanned obj ∈ doc := List.mem_map_of_mem hobj
          cases obj with
          | osmNode n =>
            obtain ⟨d', ap, h1, h2, h3⟩ := tie_processNode K k hK 1 out n kt _ (seq_unflag hs)
            refine ⟨nap || ap, d', ?_, seq_step hs.flag h2, ?_⟩
            · cases ap <;> simp [processObj, h1, Ctl.call]
            · rcases h3 with rfl | rfl
              · exact hci
              · exact copyInv_node hci n kt hmem
          | osmWay x =>
            obtain ⟨d', ap, h1, h2, h3, h4, h5⟩ := tie_processWay K k hK 1 out x kt _ (seq_unflag hs)
            refine ⟨nap || ap, d', ?_, seq_step hs.flag h2, copyInv_way hci x kt hmem h3 h4 h5⟩
            cases ap <;> simp [processObj, h1, Ctl.call]
          | osmRelation r =>
            obtain ⟨d', ap, h1, h2, h3, h4, h5⟩ := tie_processRelation K k hK 1 out r hty kt _ (seq_unflag hs)
            refine ⟨nap || ap, d', ?_, seq_step hs.flag h2, copyInv_rel hci r hty kt hmem h3 h4 h5⟩
            cases ap <;> simp [processObj, h1, Ctl.call]
          | node _ => simp [Gen.Object.scanned] at hsome
          | way _ => simp [Gen.Object.scanned] at hsome
          | relation _ => simp [Gen.Object.scanned] at hsome
          | other => simp [Gen.Object.scanned] at hsome)
        false out _ (seq_unflag hs) hci
      exact ⟨n1, o1, e1, s1, c1⟩)
    (passFuel doc) 0 Data.empty State.init s' hR0 (copyInv_empty doc) hr
  exact ⟨out, by unfold extractSeq; rw [hw]; rfl, hRo, hci⟩

/-- **C18_extract_seq_src** ("extraction returns exactly the least set …; the result passes Check whenever the document
itself has no dangling references", GOMAXPROCS = 1, composed from the REGENERATED `processNode / processWay /
processRelation`, `hasNeed*`, keep function and `Check`): `extract`'s loop read sequentially — one worker, the scanned
objects in file order, another pass while one of the calls returned true — terminates within `|doc| + 3` evaluations of the
loop condition for every keep function of the proved shape (`keepShapeS_bounds/tags/all`) and every list of scanned objects
with unique ids; the ids it has stored are, among the document's ids, exactly those of THE least closed set; every stored
object is the copy (same key, same references) of an object of the document, stored under its own id; and when the
document has no dangling reference the regenerated `Check` accepts the result under every map iteration order.
Hand-written here: the worker's type switch and the two loops (`processObj`, `extractPass`, `extractSeq`); regenerated:
everything they call. -/
theorem C18_extract_seq_src (K : KeepFunc) (k : Keep) (hK : KeepShapeS K k) (objs : List Object) (kt : Bool)
    (hsc : ∀ obj ∈ objs, (obj.scanned).isSome = true ∧ obj.Typed) (hu : uniqueKeys (docOf objs)) :
    ∃ (out : Data) (S : List Ref), extractSeq (passFuel (docOf objs) + 1) objs K kt = .ok out ∧
      IsLeastClosed (docOf objs) k (· ∈ S) ∧
      (∀ o ∈ docOf objs, (o.key ∈ (absState out).kept ↔ o.key ∈ S)) ∧
      CopyInv (docOf objs) out ∧
      (noDangling (docOf objs) → ∀ orc : Oracle, orc.Valid → Check orc out = none) := by
  let doc := docOf objs
  let sched : List (List Nat) := (List.range' 0 (passFuel doc)).map fun _ => []
  obtain ⟨S, hl, hrun⟩ := C18_complete k 1 Nat.one_pos doc hu sched
  have hps : sched.map (fun ch => (doc, ch)) =
      (List.range' 0 (passFuel doc)).map fun _ => (doc, ([] : List Nat)) := by
    simp only [sched, List.map_map]; rfl
  unfold extractRun at hrun
  rw [hps] at hrun
  cases hr : runG ⟨true, k, 1⟩ doc ((List.range' 0 (passFuel doc)).map fun _ => (doc, ([] : List Nat))) with
  | error err => rw [hr] at hrun; simp [Except.map] at hrun
  | ok s' =>
    rw [hr] at hrun
    have hres : result doc s' = doc.filter fun o => decide (o.key ∈ S) := Except.ok.inj hrun
    obtain ⟨out, hx, hRo, hci⟩ := extract_seq_core K k hK objs kt hsc s' hr
    have hiff : ∀ o ∈ doc, (o.key ∈ (absState out).kept ↔ o.key ∈ S) := fun o ho => by
      have h1 := filter_eq_imp _ _ doc hres o ho
      refine Iff.trans (hRo.kept o.key) ?_
      simp only [State.has] at h1
      constructor
      · intro h; simpa [h] using h1.symm
      · intro h; simpa [h] using h1
    refine ⟨out, S, hx, hl, hiff, hci, fun hnd orc hv => ?_⟩
    refine (tie_Check orc hv out hci.keys hci.typed).2 fun o ho r hr => ?_
    obtain ⟨o', ho', hk', hr'⟩ := hci.src o ho
    rw [← hr'] at hr
    have hoS : o'.key ∈ S := (hiff o' ho').1 (by
      rw [hk']; exact (present_abs out hci.keys _).2 ⟨o, ho, rfl⟩)
    have hp : Present doc r := hnd o' ho' r hr
    have hrS : r ∈ S := hl.1.refs o' ho' hoS r hr hp
    obtain ⟨o2, ho2, rfl⟩ := hp
    exact (present_abs out hci.keys _).1 ((hiff o2 ho2).2 hrS)


/-- non-vacuity / the shape of defect (i): the way before its nodes, one node inside the bounds — three passes, everything kept -/
example : ((extractSeq 6 [.osmWay ⟨1, [⟨1⟩, ⟨2⟩], []⟩, .osmNode ⟨1, 1, 1, []⟩, .osmNode ⟨2, 9, 9, []⟩]
    (KeepBounds ⟨⟨0, 0⟩, ⟨2, 2⟩⟩) true).toOption.map fun d => (d.Nodes.map (·.1), d.Ways.map (·.1))) =
    some ([2, 1], [1]) := by decide +kernel
example : ∀ obj ∈ [Object.osmWay ⟨1, [⟨1⟩, ⟨2⟩], []⟩, .osmNode ⟨1, 1, 1, []⟩],
    (obj.scanned).isSome = true ∧ obj.Typed := by
  intro obj h; simp at h; rcases h with rfl | rfl <;> exact ⟨rfl, trivial⟩

end GeomV.C18
