import GeomV.C18.TieLoop
/-!
# C18 — T1 tie for the COPYING `processNode / processWay / processRelation` (regenerated from extract.go)

These are the functions `extract`'s workers call.  `tie_processNode/Way/Relation`: the regenerated function (locks dropped:
its sequential meaning), run on a `Data` whose abstraction is (membership-)equal to a model state `s`, returns a `Data` whose
abstraction is equal to `procSeq ⟨true, k, W⟩ s o` — the model's `processX` run to completion with the FIXED loop condition
(every store raises the flag: fix 48f837f) — and its boolean result is that state's flag.  `tie_worker_*`: that is exactly
what a worker of the interleaving model does with one object when nobody interferes (`finishW`).  The calls
`copyNode/Way/Relation` are GenLib vocabulary.  `extract`'s own loop (goroutines, channel, errgroup) is not translated.
-/
set_option linter.unusedVariables false
set_option linter.unusedSimpArgs false
namespace GeomV.C18
open Gen

/-- the Go keep function `K` has the modelled shape `k` on the objects the scanners deliver to `extract`
(`*osm.Node`, `*osm.Way`, `*osm.Relation` with typed members) -/
def KeepShapeS (K : KeepFunc) (k : Keep) : Prop :=
  ∀ (d : Data) (obj : Object) (o : Obj), obj.scanned = some o → obj.Typed → K d obj = .ok (k.sel (absState d).has o)

theorem seq_store_node (d : Data) (f : Bool) (s : State) (hs : SEq (absState d f) s) (n : Node) (f' : Bool)
    (hf : f' = (s.flag || true)) :
    SEq (absState { d with Nodes := GoMap.set d.Nodes n.ID n } f')
      { s with kept := nref n.ID :: s.kept, flag := s.flag || true } := by
  refine ⟨fun r => ?_, hs.need, hf⟩
  have := hs.kept r
  simp only [absState, List.mem_append, mem_set_map, List.mem_cons] at this ⊢
  rw [← this]
  constructor
  · rintro (((h | h) | h) | h)
    · exact .inl h
    · exact .inr (.inl (.inl h))
    · exact .inr (.inl (.inr h))
    · exact .inr (.inr h)
  · rintro (h | ((h | h) | h))
    · exact .inl (.inl (.inl h))
    · exact .inl (.inl (.inr h))
    · exact .inl (.inr h)
    · exact .inr h

/-- **tie_processNode**: the REGENERATED `processNode` (copying version, used by `extract`) = the model's `processX`
run to completion with the FIXED loop condition (`fos = true`: every store raises the flag); its boolean result is the
flag; the only change of the object maps is `Nodes[n.ID] = copyNode(n, keepTags)`. -/
theorem tie_processNode (K : KeepFunc) (k : Keep) (hK : KeepShapeS K k) (W : Nat) (d : Data) (n : Node)
    (kt : Bool) (s : State) (hs : SEq (absState d false) s) :
    ∃ d' ap, processNode d n K kt = .ok (d', ap) ∧
      SEq (absState d' ap) (procSeq ⟨true, k, W⟩ s (objNode n)) ∧
      (d' = d ∨ d' = { d with Nodes := GoMap.set d.Nodes n.ID (copyNode n kt) }) := by
  unfold processNode procSeq
  have e1 : (absState d).has (nref n.ID) = s.has (nref n.ID) := hs.has _
  have e2 : (absState d).needOf (nref n.ID) = s.needOf (nref n.ID) := hs.needOf _
  have e3 : (absState d).has = s.has := hs.hasFn
  have hk := hK d (.osmNode n) _ rfl trivial
  rw [e3] at hk
  rw [tie_hasNeedNode, e1, e2]
  have ek : (objNode n).key = nref n.ID := rfl
  simp only [ek]
  by_cases h1 : s.has (nref n.ID) = true
  · exact ⟨d, false, by simp [h1, Ctl.bind, Ctl.stateE, Except.map], by simpa [h1] using hs, .inl rfl⟩
  · have h1' : s.has (nref n.ID) = false := by simpa using h1
    by_cases h2 : k.sel s.has (objNode n) = true ∨ s.needOf (nref n.ID) = true
    · refine ⟨{ d with Nodes := GoMap.set d.Nodes n.ID (copyNode n kt) }, true, ?_, ?_, .inr rfl⟩
      · simp [h1', h2, hk, Ctl.bind, Ctl.call, Ctl.stateE, Except.map]
      · simp only [h1', h2, Bool.or_eq_true, if_true, Bool.false_eq_true, if_false, storeSeq, depsSeq]
        have er : (objNode n).refs = [] := rfl
        simp only [er, depsSeq, ek]
        exact seq_store_node d false s hs (copyNode n kt) true (by simp)
    · exact ⟨d, false, by simp [h1', h2, hk, Ctl.bind, Ctl.call, Ctl.stateE, Except.map],
        by simpa [h1', h2] using hs, .inl rfl⟩

theorem seq_set_flag {d : Data} {s : State} {a : Bool} (h : SEq (absState d a) s) (f : Bool) :
    SEq (absState d f) { s with flag := f } := ⟨h.kept, h.need, rfl⟩

/-- **tie_processWay**: the REGENERATED `processWay` (copying version) = the model's `processX` run to completion with the
fixed loop condition; result bool = flag; `Ways[w.ID] = copyWay(w, keepTags)` is the only change of the object maps. -/
theorem tie_processWay (K : KeepFunc) (k : Keep) (hK : KeepShapeS K k) (W : Nat) (d : Data) (w : OsmWay)
    (kt : Bool) (s : State) (hs : SEq (absState d false) s) :
    ∃ d' ap, processWay d w K kt = .ok (d', ap) ∧
      SEq (absState d' ap) (procSeq ⟨true, k, W⟩ s (objOsmWay w)) ∧
      d'.Nodes = d.Nodes ∧ d'.Relations = d.Relations ∧
      (d'.Ways = d.Ways ∨ d'.Ways = GoMap.set d.Ways w.ID (copyWay w kt)) := by
  unfold processWay procSeq
  have e1 : (absState d).has (wref w.ID) = s.has (wref w.ID) := hs.has _
  have e2 : (absState d).needOf (wref w.ID) = s.needOf (wref w.ID) := hs.needOf _
  have e3 : (absState d).has = s.has := hs.hasFn
  have hk := hK d (.osmWay w) _ rfl trivial
  rw [e3] at hk
  rw [tie_hasNeedWay, e1, e2]
  have ek : (objOsmWay w).key = wref w.ID := rfl
  have er : (objOsmWay w).refs = w.Nodes.map (fun n => nref n.ID) := rfl
  simp only [ek]
  by_cases h1 : s.has (wref w.ID) = true
  · exact ⟨d, false, by simp [h1, Ctl.bind, Ctl.stateE, Except.map], by simpa [h1] using hs, rfl, rfl, .inl rfl⟩
  · have h1' : s.has (wref w.ID) = false := by simpa using h1
    by_cases h2 : k.sel s.has (objOsmWay w) = true ∨ s.needOf (wref w.ID) = true
    · simp only [h1', h2, hk, Bool.or_eq_true, Ctl.bind, Ctl.call, if_true, Bool.false_eq_true, if_false, storeSeq, er]
      generalize hX : rangeS w.Nodes _ ((_ : Data), true) = X
      have hst : SEq (absState { d with Ways := GoMap.set d.Ways w.ID (copyWay w kt) } true)
          { s with kept := wref w.ID :: s.kept, flag := s.flag || true } := by
        have := seq_set_flag (seq_store_way d s hs (copyWay w kt)) true
        refine ⟨this.kept, this.need, by rw [absFlag]; simp⟩
      obtain ⟨d', ap', rfl, hs2, hsame⟩ := rangeS_deps_of_eq (fun n : WayNode => nref n.ID) (fun n _ d ap s hs => by
        simp only [tie_hasNeedNode]
        by_cases hn : s.needOf (nref n.ID) = true
        · have hn' : (absState d).needOf (nref n.ID) = true := by rw [← hn]; exact hs.needOf _
          exact ⟨d, ap, by simp [hn'], by simpa [depsSeq, hn] using hs, rfl, rfl, rfl⟩
        · have hn1 : s.needOf (nref n.ID) = false := by simpa using hn
          have hn' : (absState d).needOf (nref n.ID) = false := by rw [← hn1]; exact hs.needOf _
          exact ⟨{ d with dependentNodes := GoMap.set d.dependentNodes n.ID () }, true, by simp [hn'],
            by simpa [depsSeq, hn1] using seq_dep_node d ap s hs n.ID hn1, rfl, rfl, rfl⟩)
        _ true _ X hX hst
      exact ⟨d', ap', by simp [Ctl.stateE, Except.map], hs2, hsame.1, hsame.2.2, .inr hsame.2.1⟩
    · exact ⟨d, false, by simp [h1', h2, hk, Ctl.bind, Ctl.call, Ctl.stateE, Except.map],
        by simpa [h1', h2] using hs, rfl, rfl, .inl rfl⟩

/-- **tie_processRelation**: the REGENERATED `processRelation` (copying version) = the model's `processX` run to
completion with the fixed loop condition: every typed member is looked up / registered in the `dependent*` map OF ITS
TYPE under the member's own `Ref`. -/
theorem tie_processRelation (K : KeepFunc) (k : Keep) (hK : KeepShapeS K k) (W : Nat) (d : Data) (r : Relation)
    (hr : MembersTyped r) (kt : Bool) (s : State) (hs : SEq (absState d false) s) :
    ∃ d' ap, processRelation d r K kt = .ok (d', ap) ∧
      SEq (absState d' ap) (procSeq ⟨true, k, W⟩ s (objRel r)) ∧
      d'.Nodes = d.Nodes ∧ d'.Ways = d.Ways ∧
      (d'.Relations = d.Relations ∨ d'.Relations = GoMap.set d.Relations r.ID (copyRelation r kt)) := by
  unfold processRelation procSeq
  have e1 : (absState d).has (rref r.ID) = s.has (rref r.ID) := hs.has _
  have e2 : (absState d).needOf (rref r.ID) = s.needOf (rref r.ID) := hs.needOf _
  have e3 : (absState d).has = s.has := hs.hasFn
  have hk := hK d (.osmRelation r) _ rfl hr
  rw [e3] at hk
  rw [tie_hasNeedRelation, e1, e2]
  have ek : (objRel r).key = rref r.ID := rfl
  have er : (objRel r).refs = r.Members.map mrefD := filterMap_mref _ hr
  simp only [ek]
  by_cases h1 : s.has (rref r.ID) = true
  · exact ⟨d, false, by simp [h1, Ctl.bind, Ctl.stateE, Except.map], by simpa [h1] using hs, rfl, rfl, .inl rfl⟩
  · have h1' : s.has (rref r.ID) = false := by simpa using h1
    by_cases h2 : k.sel s.has (objRel r) = true ∨ s.needOf (rref r.ID) = true
    · simp only [h1', h2, hk, Bool.or_eq_true, Ctl.bind, Ctl.call, if_true, Bool.false_eq_true, if_false, storeSeq, er]
      generalize hX : rangeS r.Members _ ((_ : Data), true) = X
      have hst : SEq (absState { d with Relations := GoMap.set d.Relations r.ID (copyRelation r kt) } true)
          { s with kept := rref r.ID :: s.kept, flag := s.flag || true } := by
        have := seq_set_flag (seq_store_rel d s hs (copyRelation r kt)) true
        refine ⟨this.kept, this.need, by rw [absFlag]; simp⟩
      obtain ⟨d', ap', rfl, hs2, hsame⟩ := rangeS_deps_of_eq mrefD (fun m hm d ap s hs => by
        have hty := hr m hm
        cases hmt : m.Typ with
        | node =>
          simp only [tie_hasNeedNode, hmt, mrefD]
          by_cases hn : s.needOf (nref m.Ref) = true
          · have hn' : (absState d).needOf (nref m.Ref) = true := by rw [← hn]; exact hs.needOf _
            exact ⟨d, ap, by simp [hn'], by simpa [depsSeq, hn] using hs, rfl, rfl, rfl⟩
          · have hn1 : s.needOf (nref m.Ref) = false := by simpa using hn
            have hn' : (absState d).needOf (nref m.Ref) = false := by rw [← hn1]; exact hs.needOf _
            exact ⟨{ d with dependentNodes := GoMap.set d.dependentNodes m.Ref () }, true, by simp [hn'],
              by simpa [depsSeq, hn1] using seq_dep_node d ap s hs m.Ref hn1, rfl, rfl, rfl⟩
        | way =>
          simp only [tie_hasNeedWay, hmt, mrefD]
          by_cases hn : s.needOf (wref m.Ref) = true
          · have hn' : (absState d).needOf (wref m.Ref) = true := by rw [← hn]; exact hs.needOf _
            exact ⟨d, ap, by simp [hn'], by simpa [depsSeq, hn] using hs, rfl, rfl, rfl⟩
          · have hn1 : s.needOf (wref m.Ref) = false := by simpa using hn
            have hn' : (absState d).needOf (wref m.Ref) = false := by rw [← hn1]; exact hs.needOf _
            exact ⟨{ d with dependentWays := GoMap.set d.dependentWays m.Ref () }, true, by simp [hn'],
              by simpa [depsSeq, hn1] using seq_dep_way d ap s hs m.Ref, rfl, rfl, rfl⟩
        | relation =>
          simp only [tie_hasNeedRelation, hmt, mrefD]
          by_cases hn : s.needOf (rref m.Ref) = true
          · have hn' : (absState d).needOf (rref m.Ref) = true := by rw [← hn]; exact hs.needOf _
            exact ⟨d, ap, by simp [hn'], by simpa [depsSeq, hn] using hs, rfl, rfl, rfl⟩
          · have hn1 : s.needOf (rref m.Ref) = false := by simpa using hn
            have hn' : (absState d).needOf (rref m.Ref) = false := by rw [← hn1]; exact hs.needOf _
            exact ⟨{ d with dependentRelations := GoMap.set d.dependentRelations m.Ref () }, true, by simp [hn'],
              by simpa [depsSeq, hn1] using seq_dep_rel d ap s hs m.Ref, rfl, rfl, rfl⟩
        | other => exact absurd hmt hty)
        _ true _ X hX hst
      exact ⟨d', ap', by simp [Ctl.stateE, Except.map], hs2, hsame.1, hsame.2.1, .inr hsame.2.2⟩
    · exact ⟨d, false, by simp [h1', h2, hk, Ctl.bind, Ctl.call, Ctl.stateE, Except.map],
        by simpa [h1', h2] using hs, rfl, rfl, .inl rfl⟩

/-! ## a worker of the interleaving model, left alone with one object, does what the regenerated function does -/

theorem worker_step (e : Env) {w : Nat} (hw : w < e.W) (c : PCfg) (o : Obj) (hc : c.ws w = .start o) :
    (finishW e w (Task.start o).size c).st = procSeq e c.st o := by
  rw [finishW_st e hw _ _ (by rw [hc]; exact Nat.le_refl _), hc]; rfl

/-- the three provided keep functions have the shape on everything the scanners deliver (`C18_provided_keeps_src` (1)) -/
theorem keepShapeS_bounds (b : Bounds) : KeepShapeS (KeepBounds b) (keepBounds (rectOf b)) := by
  intro d obj o ho ht; rw [tie_KeepBounds b d obj ht, ho]
theorem keepShapeS_tags (want : List (Nat × List Nat)) : KeepShapeS (KeepTags want) (keepTags want) := by
  intro d obj o ho ht
  rw [tie_KeepTags want d obj]
  cases obj <;> simp_all [Gen.Object.scanned, Gen.Object.toObj]
theorem keepShapeS_all : KeepShapeS KeepAll keepAll := fun d obj o _ _ => tie_KeepAll d obj o

/-- **tie_worker** (mechanism "processNode/Way/Relation, hasNeed*" of the property, copying versions, tied to the
interleaving model): worker `w` of the model holds the freshly dequeued object `o` (`Task.start o`) in a configuration whose
state the Go `Data` `d` represents (`needAnotherPass` = the model's flag).  Running the worker to the end of the object
without interference (`finishW`) yields exactly the state that the REGENERATED `processNode / processWay / processRelation`
(chosen by the dynamic type, as the worker's type switch does) leaves in `d`, and `needAnotherPass || result` is the flag. -/
theorem tie_worker (K : KeepFunc) (k : Keep) (hK : KeepShapeS K k) (W : Nat) {w : Nat} (hw : w < W) (c : PCfg)
    (obj : Object) (o : Obj) (ho : obj.scanned = some o) (ht : obj.Typed) (hc : c.ws w = .start o)
    (d : Data) (hs : SEq (absState d c.st.flag) c.st) (kt : Bool) :
    ∃ d' ap, (match obj with
        | .osmNode n => processNode d n K kt
        | .osmWay x => processWay d x K kt
        | .osmRelation r => processRelation d r K kt
        | _ => .error "not a scanned object") = .ok (d', ap) ∧
      SEq (absState d' (c.st.flag || ap)) (finishW ⟨true, k, W⟩ w (Task.start o).size c).st := by
  rw [worker_step ⟨true, k, W⟩ hw c o hc]
  cases obj with
  | osmNode n =>
    cases ho
    obtain ⟨d', ap, h1, h2, _⟩ := tie_processNode K k hK W d n kt _ (seq_unflag hs)
    exact ⟨d', ap, h1, seq_step rfl h2⟩
  | osmWay x =>
    cases ho
    obtain ⟨d', ap, h1, h2, _⟩ := tie_processWay K k hK W d x kt _ (seq_unflag hs)
    exact ⟨d', ap, h1, seq_step rfl h2⟩
  | osmRelation r =>
    cases ho
    obtain ⟨d', ap, h1, h2, _⟩ := tie_processRelation K k hK W d r ht kt _ (seq_unflag hs)
    exact ⟨d', ap, h1, seq_step rfl h2⟩
  | node _ => cases ho
  | way _ => cases ho
  | relation _ => cases ho
  | other => cases ho

/-! ## non-vacuity -/

/-- a relation whose NEGATIVE member ids are registered under the member's own `Ref`, in the map of the member's type -/
example : ((processRelation Data.empty ⟨-21, [⟨-3, .node⟩, ⟨-20, .relation⟩, ⟨1099511627777, .way⟩], []⟩ KeepAll true).toOption.map
    fun x => (x.1.Relations.map (·.1), x.1.dependentNodes.map (·.1), x.1.dependentWays.map (·.1),
      x.1.dependentRelations.map (·.1), x.2)) = some ([-21], [-3], [1099511627777], [-20], true) := by decide +kernel
/-- a way all of whose nodes are stored and registered already still reports its own store (another pass) -/
example : ((processWay ⟨[(1, ⟨1, 0, 0, []⟩)], [], [], [(1, ())], [], []⟩ ⟨10, [⟨1⟩], []⟩ KeepAll true).toOption.map
    fun x => (x.1.Ways.map (·.1), x.2)) = some ([10], true) := by decide +kernel
example : KeepShapeS (KeepBounds ⟨⟨0, 0⟩, ⟨2, 2⟩⟩) (keepBounds ⟨0, 0, 2, 2⟩) := keepShapeS_bounds _

end GeomV.C18
