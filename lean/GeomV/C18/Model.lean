/-!
# C18 model: encoding/osm extract / Filter / Check (core Lean only)

Go source modelled (encoding/osm/extract.go, keep.go, check.go), after the `fix:` commit that makes
`process{Node,Way,Relation}` report a store:

* `Data` = the three kept maps (`Nodes`, `Ways`, `Relations`) and the three `dependent*` maps.  The
  model keeps one kept set and one need set of typed references (`Ref = kind × id`).
* `hasNeedX(id)` (nested read locks, both held at the return) = ONE atomic read:
  `has = id ∈ kept`, `need = ¬has ∧ id ∈ dependent` (`State.has`, `State.needOf`).
* `processX(obj)` = a worker-local task that advances by ATOMIC steps, one per lock-protected region:
    start     : `hasNeedX(obj.ID)`; has → done; else evaluate `keep`
    keeping   : `KeepBounds` on a way/relation reads `has(ref)` for one reference per step, left to
                right, returning at the first hit (keep functions that do not read the state –
                `KeepTags`, `KeepAll`, `KeepBounds` on a node – are folded into `start`)
    storing   : `o.X[id] = copy` under the write lock (+ `anotherPass = true`: the fix)
    deps      : per reference `hasNeedY(ref)`; need → next reference
    depWrite  : `dependentY[ref] = {}` under the write lock, `anotherPass = true`
  A keep function is `Keep = (base, dyn)`: `base o` is the state-independent part, `dyn o` says
  whether the object is also selected by "one of my references is already kept".
* a pass of `extract` = `W` workers (`W = GOMAXPROCS`), a FIFO queue (the channel, fed in file order);
  a scheduler choice `w` lets worker `w` perform its next atomic step (or dequeue when idle).
  A schedule is a list of choices; when it is exhausted the pass is completed deterministically
  (workers finish in index order, then worker 0 handles the rest of the queue), so every finite
  interleaving of a pass is a schedule prefix and `runPass` is total.
* `extract` repeats passes while the flag `needAnotherPass` is set.  `Env.fos` ("flag on store") is
  the loop condition switch: `true` = fixed `extract`; `false` = the original condition, which is
  still what `Filter` / `process*NoCopy` use (flag only when a new dependency is registered).
* `Filter` = the same loop, one worker, no interleaving, but the objects of a pass arrive in Go map
  iteration order: any order with the same members, chosen afresh in each pass.
* `Check` = every reference of every stored object is stored.
-/
namespace GeomV.C18

inductive Kind | node | way | rel
deriving DecidableEq, Repr, Inhabited

structure Ref where
  kind : Kind
  id : Int
deriving DecidableEq, Repr, Inhabited

/-- one OSM element in the file: its typed id, the typed ids it references (way: its nodes,
relation: its members, node: none), a node's position (x = lon, y = lat; integer grid, so the
float comparisons of the Go code are exact), its tags (key,value codes) -/
structure Obj where
  key : Ref
  refs : List Ref
  x : Int
  y : Int
  tags : List (Nat × Nat)
deriving DecidableEq, Repr, Inhabited

abbrev Doc := List Obj

/-- `Data`: kept maps, dependent maps, and `needAnotherPass` of the running pass -/
structure State where
  kept : List Ref
  need : List Ref
  flag : Bool
deriving DecidableEq, Repr, Inhabited

def State.init : State := ⟨[], [], false⟩

/-- `has` result of `hasNeedX` -/
def State.has (s : State) (r : Ref) : Bool := decide (r ∈ s.kept)
/-- `need` result of `hasNeedX` (false when `has`) -/
def State.needOf (s : State) (r : Ref) : Bool := !s.has r && decide (r ∈ s.need)

/-- keep function: `base` ignores the state, `dyn o` = "also kept if one of `o.refs` is kept" -/
structure Keep where
  base : Obj → Bool
  dyn : Obj → Bool

/-- what the keep function answers when all its reads see the same kept set -/
def Keep.sel (k : Keep) (has : Ref → Bool) (o : Obj) : Bool :=
  k.base o || (k.dyn o && o.refs.any has)

/-- hasTag of extract.go: some tag whose key is wanted, with no values listed or a listed value -/
def hasTag (tags : List (Nat × Nat)) (want : List (Nat × List Nat)) : Bool :=
  tags.any fun t =>
    match want.find? (fun w => w.1 == t.1) with
    | none => false
    | some w => w.2.isEmpty || w.2.contains t.2

def keepAll : Keep := ⟨fun _ => true, fun _ => false⟩
def keepTags (want : List (Nat × List Nat)) : Keep := ⟨fun o => hasTag o.tags want, fun _ => false⟩
/-- `geom.Bounds` (Min, Max) -/
structure Rect where
  minX : Int
  minY : Int
  maxX : Int
  maxY : Int
deriving DecidableEq, Repr, Inhabited

/-- `(*Bounds).Empty` of bounds.go -/
def Rect.empty (b : Rect) : Bool := decide (b.maxX < b.minX) || decide (b.maxY < b.minY)

/-- `(*Bounds).Overlaps` of bounds.go -/
def Rect.overlaps (b b2 : Rect) : Bool :=
  !b.empty && !b2.empty && decide (b.minX ≤ b2.maxX) && decide (b.minY ≤ b2.maxY) &&
    decide (b.maxX ≥ b2.minX) && decide (b.maxY ≥ b2.minY)

/-- `geom.Point{X, Y}.Bounds()` = `NewBoundsPoint` -/
def pointRect (x y : Int) : Rect := ⟨x, y, x, y⟩

/-- KeepBounds(b): nodes by `b.Overlaps(Point{Lon, Lat}.Bounds())`, ways and relations by already
kept members -/
def keepBounds (b : Rect) : Keep :=
  ⟨fun o => o.key.kind == .node && b.overlaps (pointRect o.x o.y), fun o => o.key.kind != .node⟩

/-- worker-local control state of `processX(obj)` -/
inductive Task
  | idle
  | start (o : Obj)
  | keeping (o : Obj) (need : Bool) (rest : List Ref)
  | storing (o : Obj)
  | deps (o : Obj) (rest : List Ref)
  | depWrite (o : Obj) (r : Ref) (rest : List Ref)
deriving DecidableEq, Repr, Inhabited

def Task.isIdle : Task → Bool
  | .idle => true
  | _ => false

/-- number of atomic steps a task can still take (upper bound) -/
def Task.size : Task → Nat
  | .idle => 0
  | .start o => 3 * o.refs.length + 4
  | .keeping o _ rest => rest.length + 2 * o.refs.length + 3
  | .storing o => 2 * o.refs.length + 2
  | .deps _ rest => 2 * rest.length + 1
  | .depWrite _ _ rest => 2 * rest.length + 2

def afterKeep (o : Obj) (need : Bool) : Task := if need then .storing o else .idle

def mkKeeping (o : Obj) (need : Bool) : List Ref → Task
  | [] => afterKeep o need
  | r :: rest => .keeping o need (r :: rest)

def mkDeps (o : Obj) : List Ref → Task
  | [] => .idle
  | r :: rest => .deps o (r :: rest)

/-- loop condition switch and keep function and number of workers -/
structure Env where
  fos : Bool
  k : Keep
  W : Nat

/-- one atomic step of a task -/
def stepTask (e : Env) (s : State) : Task → State × Task
  | .idle => (s, .idle)
  | .start o =>
    if s.has o.key then (s, .idle)
    else if e.k.base o then (s, .storing o)
    else if e.k.dyn o then (s, mkKeeping o (s.needOf o.key) o.refs)
    else (s, afterKeep o (s.needOf o.key))
  | .keeping o need [] => (s, afterKeep o need)
  | .keeping o need (r :: rest) =>
    if s.has r then (s, .storing o) else (s, mkKeeping o need rest)
  | .storing o => ({ s with kept := o.key :: s.kept, flag := s.flag || e.fos }, mkDeps o o.refs)
  | .deps _ [] => (s, .idle)
  | .deps o (r :: rest) => if s.needOf r then (s, mkDeps o rest) else (s, .depWrite o r rest)
  | .depWrite o r rest => ({ s with need := r :: s.need, flag := true }, mkDeps o rest)

/-- configuration inside a pass -/
structure PCfg where
  st : State
  queue : List Obj
  ws : Nat → Task

def setW (ws : Nat → Task) (w : Nat) (t : Task) : Nat → Task := fun i => if i = w then t else ws i

/-- scheduler choice `w`: worker `w` dequeues (when idle) or performs its next atomic step -/
def pstep (e : Env) (w : Nat) (c : PCfg) : PCfg :=
  if w < e.W then
    if (c.ws w).isIdle then
      match c.queue with
      | [] => c
      | o :: q => { c with queue := q, ws := setW c.ws w (.start o) }
    else
      let r := stepTask e c.st (c.ws w)
      { c with st := r.1, ws := setW c.ws w r.2 }
  else c

/-- let worker `w` finish its current object (at most `n` steps) -/
def finishW (e : Env) (w : Nat) : Nat → PCfg → PCfg
  | 0, c => c
  | n+1, c => if (c.ws w).isIdle then c else finishW e w n (pstep e w c)

def drainWorkers (e : Env) (c : PCfg) : PCfg :=
  (List.range e.W).foldl (fun c w => finishW e w (c.ws w).size c) c

/-- worker 0 handles the rest of the queue (`q` is `c.queue`) -/
def drainQueue (e : Env) : List Obj → PCfg → PCfg
  | [], c => c
  | o :: q, c => drainQueue e q (finishW e 0 (Task.start o).size (pstep e 0 c))

def startPass (order : List Obj) (s : State) : PCfg :=
  { st := { s with flag := false }, queue := order, ws := fun _ => .idle }

def runChoices (e : Env) (choices : List Nat) (c : PCfg) : PCfg :=
  choices.foldl (fun c w => pstep e w c) c

def runPass (e : Env) (order : List Obj) (choices : List Nat) (s : State) : PCfg :=
  let c1 := runChoices e choices (startPass order s)
  let c2 := drainWorkers e c1
  drainQueue e c2.queue c2

inductive Fault | fuel
deriving DecidableEq, Repr

/-- same members (a pass order offered by the schedule is used only if it is a reordering) -/
def sameMem (a b : List Obj) : Bool := a.all (fun o => decide (o ∈ b)) && b.all (fun o => decide (o ∈ a))

/-- order and choices of the next pass -/
def nextPass (doc : Doc) : List (List Obj × List Nat) → List Obj × List Nat
  | [] => (doc, [])
  | p :: _ => if sameMem p.1 doc then p else (doc, p.2)

/-- `for needAnotherPass { … }` -/
def loopG (e : Env) (doc : Doc) : Nat → List (List Obj × List Nat) → State → Except Fault State
  | 0, _, _ => .error .fuel
  | n+1, ps, s =>
    let p := nextPass doc ps
    let c := runPass e p.1 p.2 s
    if c.st.flag then loopG e doc n ps.tail c.st else .ok c.st

def passFuel (doc : Doc) : Nat := doc.length + 2

def runG (e : Env) (doc : Doc) (ps : List (List Obj × List Nat)) : Except Fault State :=
  loopG e doc (passFuel doc) ps State.init

/-- the objects of `doc` that are in the kept maps, in file order (canonical form of `*Data`) -/
def result (doc : Doc) (s : State) : List Obj := doc.filter (fun o => s.has o.key)

/-- `extract` with the loop condition `fos`, keep function `k`, `W` workers; `sched` = the
scheduler choices of pass 1, pass 2, … -/
def extractRun (fos : Bool) (k : Keep) (W : Nat) (doc : Doc) (sched : List (List Nat)) : Except Fault (List Obj) :=
  (runG ⟨fos, k, W⟩ doc (sched.map fun ch => (doc, ch))).map (result doc)

/-- `(*Data).Filter(keep)`: sequential, original loop condition, `orders` = map iteration orders -/
def filterRun (k : Keep) (d : List Obj) (orders : List (List Obj)) : Except Fault (List Obj) :=
  (runG ⟨false, k, 1⟩ d (orders.map fun o => (o, []))).map (result d)

/-- `(*Data).Check()` on a set of stored objects -/
def check (objs : List Obj) : Bool :=
  objs.all fun o => o.refs.all fun r => objs.any fun o' => o'.key == r

end GeomV.C18
