import GeomV.C18.Drain
/-!
# C18 lemmas, part 3: invariants of the interleaving model

* `SInv`  (soundness): everything stored is in every closed set; every registered dependency is a
          reference of a stored object; every in-flight task is justified.
* `GInv`  (dependencies get registered): every stored object has all its references in the need
          set, or the worker that stored it is still registering them.
* `PInv`  (progress of a quiet pass): while the flag is down, every object of the pass is still
          queued, or in flight and so far unselected, or done: stored / not selected and not needed.
* `TInv`  (termination): a pass that raises the flag has stored an object that was not stored
          when the pass began.
-/
set_option linter.unusedSimpArgs false
set_option linter.unusedVariables false
namespace GeomV.C18

theorem has_iff (s : State) (r : Ref) : s.has r = true ↔ r ∈ s.kept := by simp [State.has]
theorem has_false_iff (s : State) (r : Ref) : s.has r = false ↔ r ∉ s.kept := by simp [State.has]
theorem needOf_iff (s : State) (r : Ref) : s.needOf r = true ↔ r ∉ s.kept ∧ r ∈ s.need := by
  simp [State.needOf, State.has]
theorem needOf_false_iff (s : State) (r : Ref) : s.needOf r = false ↔ (r ∈ s.need → r ∈ s.kept) := by
  simp [State.needOf, State.has]; constructor
  · intro h hn; exact Classical.byContradiction fun hk => by simp_all
  · intro h hk hn; exact hk (h hn)

theorem TStep.mono {e : Env} {s s' : State} {t t' : Task} (h : TStep e s t s' t') :
    (∀ r ∈ s.kept, r ∈ s'.kept) ∧ (∀ r ∈ s.need, r ∈ s'.need) := by
  cases h <;> simp_all

theorem TStep.flag_mono {e : Env} {s s' : State} {t t' : Task} (h : TStep e s t s' t') :
    s.flag = true → s'.flag = true := by
  cases h <;> simp_all

/-! ## soundness -/

def TSound (doc : Doc) (k : Keep) (C : Ref → Prop) (s : State) : Task → Prop
  | .idle => True
  | .start o => o ∈ doc
  | .keeping o need rest =>
    o ∈ doc ∧ k.dyn o = true ∧ (need = true → o.key ∈ s.need) ∧ (∀ r ∈ rest, r ∈ o.refs)
  | .storing o => o ∈ doc ∧ C o.key
  | .deps o rest => o ∈ doc ∧ o.key ∈ s.kept ∧ (∀ r ∈ rest, r ∈ o.refs)
  | .depWrite o r rest => o ∈ doc ∧ o.key ∈ s.kept ∧ r ∈ o.refs ∧ (∀ r ∈ rest, r ∈ o.refs)

theorem TSound.mono {doc : Doc} {k : Keep} {C : Ref → Prop} {s s' : State}
    (hk : ∀ r ∈ s.kept, r ∈ s'.kept) (hn : ∀ r ∈ s.need, r ∈ s'.need) :
    ∀ {t : Task}, TSound doc k C s t → TSound doc k C s' t
  | .idle, h => h
  | .start _, h => h
  | .keeping _ _ _, ⟨h1, h2, h3, h4⟩ => ⟨h1, h2, fun hh => hn _ (h3 hh), h4⟩
  | .storing _, h => h
  | .deps _ _, ⟨h1, h2, h3⟩ => ⟨h1, hk _ h2, h3⟩
  | .depWrite _ _ _, ⟨h1, h2, h3, h4⟩ => ⟨h1, hk _ h2, h3, h4⟩

/-- the state part of the soundness invariant -/
structure SState (doc : Doc) (C : Ref → Prop) (s : State) : Prop where
  kept : ∀ r ∈ s.kept, C r ∧ Present doc r
  need : ∀ r ∈ s.need, ∃ o ∈ doc, o.key ∈ s.kept ∧ r ∈ o.refs

theorem SState.C_of_need {doc : Doc} {k : Keep} {C : Ref → Prop} {s : State} (hC : Closed doc k C)
    (hs : SState doc C s) {o : Obj} (ho : o ∈ doc) (hn : o.key ∈ s.need) : C o.key := by
  obtain ⟨o', ho', hk', hr⟩ := hs.need _ hn
  exact hC.refs o' ho' (hs.kept _ hk').1 _ hr ⟨o, ho, rfl⟩

theorem TSound.afterKeep {doc : Doc} {k : Keep} {C : Ref → Prop} {s : State} (hC : Closed doc k C)
    (hs : SState doc C s) {o : Obj} (ho : o ∈ doc) {need : Bool} (hn : need = true → o.key ∈ s.need) :
    TSound doc k C s (afterKeep o need) := by
  unfold GeomV.C18.afterKeep
  split
  · rename_i h; exact ⟨ho, hs.C_of_need hC ho (hn h)⟩
  · trivial

theorem TSound.mkKeeping {doc : Doc} {k : Keep} {C : Ref → Prop} {s : State} (hC : Closed doc k C)
    (hs : SState doc C s) {o : Obj} (ho : o ∈ doc) (hd : k.dyn o = true) {need : Bool}
    (hn : need = true → o.key ∈ s.need) {rest : List Ref} (hr : ∀ r ∈ rest, r ∈ o.refs) :
    TSound doc k C s (mkKeeping o need rest) := by
  cases rest with
  | nil => exact TSound.afterKeep hC hs ho hn
  | cons r rest => exact ⟨ho, hd, hn, hr⟩

theorem TSound.mkDeps {doc : Doc} {k : Keep} {C : Ref → Prop} {s : State} {o : Obj} (ho : o ∈ doc)
    (hk : o.key ∈ s.kept) {rest : List Ref} (hr : ∀ r ∈ rest, r ∈ o.refs) :
    TSound doc k C s (mkDeps o rest) := by
  cases rest with
  | nil => trivial
  | cons r rest => exact ⟨ho, hk, hr⟩

theorem TStep.sound {doc : Doc} {e : Env} {C : Ref → Prop} (hC : Closed doc e.k C)
    {s s' : State} {t t' : Task} (h : TStep e s t s' t') (hs : SState doc C s)
    (ht : TSound doc e.k C s t) : SState doc C s' ∧ TSound doc e.k C s' t' := by
  cases h with
  | startHas _ => exact ⟨hs, trivial⟩
  | startBase _ hb => exact ⟨hs, ht, hC.sel _ ht (.inl hb)⟩
  | startDyn _ _ hd =>
    exact ⟨hs, TSound.mkKeeping hC hs ht hd (fun h => ((needOf_iff _ _).1 h).2) (fun _ h => h)⟩
  | startStat _ _ _ => exact ⟨hs, TSound.afterKeep hC hs ht (fun h => ((needOf_iff _ _).1 h).2)⟩
  | keepNil => exact ⟨hs, TSound.afterKeep hC hs ht.1 ht.2.2.1⟩
  | @keepHit o need r rest hh =>
    obtain ⟨ho, hd, hn, hr⟩ := ht
    refine ⟨hs, ho, hC.sel _ ho (.inr ⟨hd, r, hr r (by simp), (hs.kept r ((has_iff _ _).1 hh)).1⟩)⟩
  | keepMiss _ =>
    obtain ⟨ho, hd, hn, hr⟩ := ht
    exact ⟨hs, TSound.mkKeeping hC hs ho hd hn (fun r h => hr r (by simp [h]))⟩
  | @store o =>
    obtain ⟨ho, hc⟩ := ht
    refine ⟨⟨?_, ?_⟩, TSound.mkDeps ho (by simp) (fun _ h => h)⟩
    · intro r hr
      rcases List.mem_cons.1 hr with rfl | hr
      · exact ⟨hc, o, ho, rfl⟩
      · exact hs.kept r hr
    · intro r hr
      obtain ⟨o', ho', hk', hr'⟩ := hs.need r hr
      exact ⟨o', ho', by simp [hk'], hr'⟩
  | depsNil => exact ⟨hs, trivial⟩
  | depsSkip _ => exact ⟨hs, TSound.mkDeps ht.1 ht.2.1 (fun r h => ht.2.2 r (by simp [h]))⟩
  | depsGo _ => exact ⟨hs, ht.1, ht.2.1, ht.2.2 _ (by simp), fun r h => ht.2.2 r (by simp [h])⟩
  | @depWrite o r rest =>
    obtain ⟨ho, hk, hr, hrest⟩ := ht
    refine ⟨⟨hs.kept, ?_⟩, TSound.mkDeps (s := { s with need := r :: s.need, flag := true }) ho hk hrest⟩
    intro r' hr'
    rcases List.mem_cons.1 hr' with rfl | hr'
    · exact ⟨o, ho, hk, hr⟩
    · exact hs.need r' hr'

structure SInv (doc : Doc) (k : Keep) (C : Ref → Prop) (c : PCfg) : Prop where
  state : SState doc C c.st
  queue : ∀ o ∈ c.queue, o ∈ doc
  tasks : ∀ i, TSound doc k C c.st (c.ws i)

theorem SInv.step {doc : Doc} {e : Env} {C : Ref → Prop} (hC : Closed doc e.k C) :
    ∀ c c', PStep e c c' → SInv doc e.k C c → SInv doc e.k C c' := by
  intro c c' h hI
  cases h with
  | @deq w o q hw hi hq =>
    refine ⟨hI.state, fun o' ho' => hI.queue o' (by simp [hq, ho']), fun i => ?_⟩
    by_cases hiw : i = w
    · simp [setW, hiw]; exact hI.queue o (by simp [hq])
    · simp [setW, hiw]; exact hI.tasks i
  | @task w t s' t' hw hwt hT =>
    have h1 := hT.sound hC hI.state (hwt ▸ hI.tasks w)
    refine ⟨h1.1, hI.queue, fun i => ?_⟩
    by_cases hiw : i = w
    · simp [setW, hiw]; exact h1.2
    · simp [setW, hiw]; exact (hI.tasks i).mono hT.mono.1 hT.mono.2

theorem SInv.start {doc : Doc} {k : Keep} {C : Ref → Prop} {s : State} (hs : SState doc C s)
    {order : List Obj} (ho : ∀ o ∈ order, o ∈ doc) : SInv doc k C (startPass order s) :=
  ⟨⟨hs.kept, hs.need⟩, ho, fun _ => trivial⟩

/-! ## registered dependencies -/

def InFlight (s : State) (o : Obj) : Task → Prop
  | .deps o' rest => o' = o ∧ ∀ r ∈ o.refs, r ∈ s.need ∨ r ∈ rest
  | .depWrite o' r0 rest => o' = o ∧ ∀ r ∈ o.refs, r ∈ s.need ∨ r = r0 ∨ r ∈ rest
  | _ => False

theorem InFlight.mono {s s' : State} (hn : ∀ r ∈ s.need, r ∈ s'.need) {o : Obj} :
    ∀ {t : Task}, InFlight s o t → InFlight s' o t
  | .deps _ _, ⟨h1, h2⟩ => ⟨h1, fun r hr => (h2 r hr).imp (hn r) id⟩
  | .depWrite _ _ _, ⟨h1, h2⟩ => ⟨h1, fun r hr => (h2 r hr).imp (hn r) id⟩

def Registered (s : State) (o : Obj) : Prop := ∀ r ∈ o.refs, r ∈ s.need

theorem inflight_mkDeps {s : State} {o : Obj} {rest : List Ref}
    (h : ∀ r ∈ o.refs, r ∈ s.need ∨ r ∈ rest) : Registered s o ∨ InFlight s o (mkDeps o rest) := by
  cases rest with
  | nil => left; intro r hr; simpa using h r hr
  | cons r rest => right; exact ⟨rfl, h⟩

def GInv (doc : Doc) (c : PCfg) : Prop :=
  ∀ o ∈ doc, o.key ∈ c.st.kept → Registered c.st o ∨ ∃ i, InFlight c.st o (c.ws i)

theorem GInv.step {doc : Doc} {e : Env} (hu : uniqueKeys doc) :
    ∀ c c', PStep e c c' → (∀ i o, c.ws i = .storing o → o ∈ doc) → GInv doc c → GInv doc c' := by
  intro c c' h hst hG
  cases h with
  | @deq w o q hw hi hq =>
    intro o' ho' hk'
    rcases hG o' ho' hk' with h | ⟨i, h⟩
    · exact .inl h
    · refine .inr ⟨i, ?_⟩
      have hiw : i ≠ w := by
        rintro rfl
        cases hti : c.ws i <;> simp [hti, Task.isIdle, InFlight] at hi h
      simpa [setW, hiw] using h
  | @task w t s' t' hw hwt hT =>
    intro o' ho' hk'
    -- the case where `o'` was stored before this step and its witness is another worker
    have other : ∀ i, i ≠ w → InFlight c.st o' (c.ws i) →
        Registered s' o' ∨ ∃ i, InFlight s' o' (setW c.ws w t' i) := fun i hiw h =>
      .inr ⟨i, by simpa [setW, hiw] using h.mono hT.mono.2⟩
    have reg : Registered c.st o' → Registered s' o' ∨ ∃ i, InFlight s' o' (setW c.ws w t' i) :=
      fun h => .inl fun r hr => hT.mono.2 r (h r hr)
    have mine : Registered s' o' ∨ InFlight s' o' t' →
        Registered s' o' ∨ ∃ i, InFlight s' o' (setW c.ws w t' i) := fun h =>
      h.imp id fun h => ⟨w, by simpa [setW] using h⟩
    show Registered s' o' ∨ ∃ i, InFlight s' o' (setW c.ws w t' i)
    -- old witness
    have old : o'.key ∈ c.st.kept → (∀ h : InFlight c.st o' t, Registered s' o' ∨ InFlight s' o' t') →
        Registered s' o' ∨ ∃ i, InFlight s' o' (setW c.ws w t' i) := by
      intro hk hme
      rcases hG o' ho' hk with h | ⟨i, h⟩
      · exact reg h
      · by_cases hiw : i = w
        · subst hiw; rw [hwt] at h; exact mine (hme h)
        · exact other i hiw h
    cases hT with
    | startHas _ => exact old hk' (fun h => by simp [InFlight] at h)
    | startBase _ _ => exact old hk' (fun h => by simp [InFlight] at h)
    | startDyn _ _ _ => exact old hk' (fun h => by simp [InFlight] at h)
    | startStat _ _ _ => exact old hk' (fun h => by simp [InFlight] at h)
    | keepNil => exact old hk' (fun h => by simp [InFlight] at h)
    | keepHit _ => exact old hk' (fun h => by simp [InFlight] at h)
    | keepMiss _ => exact old hk' (fun h => by simp [InFlight] at h)
    | @store o =>
      by_cases hk : o'.key ∈ c.st.kept
      · exact old hk (fun h => by simp [InFlight] at h)
      · have hkey : o'.key = o.key := by simpa [hk] using hk'
        have : o' = o := hu o' ho' o (hst w o hwt) hkey
        subst this
        exact mine (inflight_mkDeps (fun r hr => .inr hr))
    | depsNil =>
      refine old hk' (fun h => .inl ?_)
      intro r hr; simpa using h.2 r hr
    | @depsSkip o r rest hn =>
      refine old hk' (fun h => ?_)
      obtain ⟨rfl, h2⟩ := h
      refine inflight_mkDeps (fun r' hr' => ?_)
      rcases h2 r' hr' with h | h
      · exact .inl h
      · rcases List.mem_cons.1 h with rfl | h
        · exact .inl ((needOf_iff _ _).1 hn).2
        · exact .inr h
    | @depsGo o r rest hn =>
      refine old hk' (fun h => .inr ?_)
      obtain ⟨rfl, h2⟩ := h
      refine ⟨rfl, fun r' hr' => ?_⟩
      rcases h2 r' hr' with h | h
      · exact .inl h
      · rcases List.mem_cons.1 h with rfl | h
        · exact .inr (.inl rfl)
        · exact .inr (.inr h)
    | @depWrite o r rest =>
      refine old hk' (fun h => ?_)
      obtain ⟨rfl, h2⟩ := h
      refine inflight_mkDeps (fun r' hr' => ?_)
      rcases h2 r' hr' with h | rfl | h
      · exact .inl (by simp [h])
      · exact .inl (by simp)
      · exact .inr h

/-! ## progress of a quiet pass -/

def Static (k : Keep) : Prop := ∀ o, k.dyn o = false

/-- the loop condition is adequate for the keep function: either every store raises the flag
(fixed `extract`), or the keep function does not read the state (`KeepTags`, `KeepAll`) -/
def Mode (e : Env) : Prop := e.fos = true ∨ Static e.k

def Done (e : Env) (s : State) (o : Obj) : Prop :=
  s.has o.key = true ∨ (e.k.sel s.has o = false ∧ s.needOf o.key = false)

def Busy (e : Env) (s : State) (o : Obj) : Task → Prop
  | .start o' => o' = o
  | .keeping o' need rest =>
    o' = o ∧ need = s.needOf o.key ∧ s.has o.key = false ∧ e.k.base o = false ∧ e.k.dyn o = true ∧
      ∃ pre, o.refs = pre ++ rest ∧ ∀ r ∈ pre, s.has r = false
  | .storing o' => o' = o
  | _ => False

def PInv (e : Env) (order : List Obj) (c : PCfg) : Prop :=
  c.st.flag = false → ∀ o ∈ order, o ∈ c.queue ∨ (∃ i, Busy e c.st o (c.ws i)) ∨ Done e c.st o

theorem sel_static {k : Keep} (hk : Static k) (has : Ref → Bool) (o : Obj) : k.sel has o = k.base o := by
  simp [Keep.sel, hk o]

/-- what a step can do to the state while the flag stays down -/
theorem TStep.quiet {e : Env} {s s' : State} {t t' : Task} (h : TStep e s t s' t') (hm : Mode e)
    (hf : s'.flag = false) : s' = s ∨ (Static e.k ∧ s'.need = s.need ∧ ∃ r, s'.kept = r :: s.kept) := by
  cases h with
  | store =>
    rcases hm with hm | hm
    · simp [hm] at hf
    · exact .inr ⟨hm, rfl, _, rfl⟩
  | depWrite => simp at hf
  | _ => exact .inl rfl

theorem Done.stable {e : Env} {s s' : State} {o : Obj}
    (h : s' = s ∨ (Static e.k ∧ s'.need = s.need ∧ ∃ r, s'.kept = r :: s.kept)) :
    Done e s o → Done e s' o := by
  rcases h with rfl | ⟨hk, hn, r, hr⟩
  · exact id
  · intro hd
    by_cases hh : s'.has o.key = true
    · exact .inl hh
    · right
      have hh' : o.key ∉ s'.kept := by simpa [State.has] using hh
      have hh0 : o.key ∉ s.kept := fun h => hh' (by simp [hr, h])
      rcases hd with hd | ⟨hd1, hd2⟩
      · exact absurd ((has_iff _ _).1 hd) hh0
      · refine ⟨by rw [sel_static hk] at hd1 ⊢; exact hd1, ?_⟩
        rw [needOf_false_iff] at hd2 ⊢
        intro h; rw [hn] at h; exact absurd (hd2 h) hh0

theorem Busy.stable {e : Env} {s s' : State} {o : Obj}
    (h : s' = s ∨ (Static e.k ∧ s'.need = s.need ∧ ∃ r, s'.kept = r :: s.kept)) :
    ∀ {t : Task}, Busy e s o t → Busy e s' o t := by
  rcases h with rfl | ⟨hk, hn, r, hr⟩
  · exact id
  · intro t hb
    cases t with
    | keeping o' need rest => have := hb.2.2.2.2.1; simp [hk o] at this
    | start _ => exact hb
    | storing _ => exact hb
    | idle => exact hb
    | deps _ _ => exact hb
    | depWrite _ _ _ => exact hb

theorem done_of_unselected {e : Env} {s : State} {o : Obj} (hb : e.k.base o = false)
    (hd : e.k.dyn o = false ∨ ∀ r ∈ o.refs, s.has r = false) (hn : s.needOf o.key = false) :
    Done e s o := by
  refine .inr ⟨?_, hn⟩
  rcases hd with hd | hd
  · simp [Keep.sel, hb, hd]
  · simp only [Keep.sel, hb, Bool.false_or, Bool.and_eq_false_iff]
    right
    simpa using hd

theorem PInv.step {e : Env} (hm : Mode e) (order : List Obj) :
    ∀ c c', PStep e c c' → PInv e order c → PInv e order c' := by
  intro c c' h hP
  cases h with
  | @deq w o q hw hi hq =>
    intro hf o' ho'
    rcases hP hf o' ho' with h | ⟨i, h⟩ | h
    · rw [hq] at h
      rcases List.mem_cons.1 h with rfl | h
      · exact .inr (.inl ⟨w, by simp [setW, Busy]⟩)
      · exact .inl h
    · have hiw : i ≠ w := by
        rintro rfl
        cases hti : c.ws i <;> simp [hti, Task.isIdle, Busy] at hi h
      exact .inr (.inl ⟨i, by simpa [setW, hiw] using h⟩)
    · exact .inr (.inr h)
  | @task w t s' t' hw hwt hT =>
    intro hf o' ho'
    have hf0 : c.st.flag = false := by
      cases hc : c.st.flag with
      | false => rfl
      | true => have := hT.flag_mono hc; simp [this] at hf
    have hq := hT.quiet hm hf
    show o' ∈ c.queue ∨ (∃ i, Busy e s' o' (setW c.ws w t' i)) ∨ Done e s' o'
    have mine : Busy e s' o' t' ∨ Done e s' o' →
        o' ∈ c.queue ∨ (∃ i, Busy e s' o' (setW c.ws w t' i)) ∨ Done e s' o' := fun h =>
      .inr (h.imp (fun h => ⟨w, by simpa [setW] using h⟩) id)
    have old : (∀ h : Busy e c.st o' t, Busy e s' o' t' ∨ Done e s' o') →
        o' ∈ c.queue ∨ (∃ i, Busy e s' o' (setW c.ws w t' i)) ∨ Done e s' o' := by
      intro hme
      rcases hP hf0 o' ho' with h | ⟨i, h⟩ | h
      · exact .inl h
      · by_cases hiw : i = w
        · subst hiw; rw [hwt] at h; exact mine (hme h)
        · exact .inr (.inl ⟨i, by simpa [setW, hiw] using h.stable hq⟩)
      · exact .inr (.inr (h.stable hq))
    have after : ∀ {o : Obj} {need : Bool}, need = c.st.needOf o.key → e.k.base o = false →
        (e.k.dyn o = false ∨ ∀ r ∈ o.refs, c.st.has r = false) →
        Busy e c.st o (afterKeep o need) ∨ Done e c.st o := by
      intro o need hn hb hd
      by_cases hn' : c.st.needOf o.key = true
      · left; simp [afterKeep, hn, hn', Busy]
      · right; exact done_of_unselected hb hd (by simpa using hn')
    cases hT with
    | @startHas o hh =>
      refine old (fun h => ?_)
      have h : o = o' := h
      subst h; exact .inr (.inl hh)
    | @startBase o _ _ =>
      refine old (fun h => ?_)
      have h : o = o' := h
      subst h; exact .inl rfl
    | @startDyn o hh hb hd =>
      refine old (fun h => ?_)
      have h : o = o' := h
      subst h
      cases hr : o.refs with
      | nil => simpa [mkKeeping] using after rfl hb (.inr (by simp [hr]))
      | cons r rest => exact .inl ⟨rfl, rfl, hh, hb, hd, [], by simp [hr], by simp⟩
    | @startStat o hh hb hd =>
      refine old (fun h => ?_)
      have h : o = o' := h
      subst h
      exact after rfl hb (.inl hd)
    | @keepNil o need =>
      refine old (fun h => ?_)
      obtain ⟨rfl, hn, hh, hb, hd, pre, hpre, hall⟩ := h
      exact after hn hb (.inr (by simpa [hpre] using hall))
    | @keepHit o need r rest _ =>
      refine old (fun h => ?_)
      obtain ⟨rfl, _⟩ := h
      exact .inl rfl
    | @keepMiss o need r rest hr =>
      refine old (fun h => ?_)
      obtain ⟨rfl, hn, hh, hb, hd, pre, hpre, hall⟩ := h
      have hall' : ∀ x ∈ pre ++ [r], c.st.has x = false := by
        intro x hx
        rcases List.mem_append.1 hx with hx | hx
        · exact hall x hx
        · simp at hx; subst hx; exact hr
      cases rest with
      | nil => simpa [mkKeeping] using after hn hb (.inr (by simpa [hpre] using hall'))
      | cons r2 rest =>
        exact .inl ⟨rfl, hn, hh, hb, hd, pre ++ [r], by simp [hpre], hall'⟩
    | @store o =>
      refine old (fun h => ?_)
      have h : o = o' := h
      subst h
      exact .inr (.inl (by simp [State.has]))
    | depsNil => exact old (fun h => by simp [Busy] at h)
    | depsSkip _ => exact old (fun h => by simp [Busy] at h)
    | depsGo _ => exact old (fun h => by simp [Busy] at h)
    | depWrite => simp at hf

/-! ## termination measure -/

def TT (K0 : List Ref) (s : State) : Task → Prop
  | .keeping o _ _ => o.key ∉ K0
  | .storing o => o.key ∉ K0
  | .deps o _ => o.key ∈ s.kept ∧ o.key ∉ K0
  | .depWrite o _ _ => o.key ∈ s.kept ∧ o.key ∉ K0
  | _ => True

theorem TT.mono {K0 : List Ref} {s s' : State} (hk : ∀ r ∈ s.kept, r ∈ s'.kept) :
    ∀ {t : Task}, TT K0 s t → TT K0 s' t
  | .idle, h => h
  | .start _, h => h
  | .keeping _ _ _, h => h
  | .storing _, h => h
  | .deps _ _, ⟨h1, h2⟩ => ⟨hk _ h1, h2⟩
  | .depWrite _ _ _, ⟨h1, h2⟩ => ⟨hk _ h1, h2⟩

structure TInv (K0 : List Ref) (c : PCfg) : Prop where
  sub : ∀ r ∈ K0, r ∈ c.st.kept
  grow : c.st.flag = true → ∃ r ∈ c.st.kept, r ∉ K0
  tasks : ∀ i, TT K0 c.st (c.ws i)

theorem TT.afterKeep {K0 : List Ref} {s : State} {o : Obj} (h : o.key ∉ K0) (need : Bool) :
    TT K0 s (afterKeep o need) := by
  unfold GeomV.C18.afterKeep; split
  · exact h
  · trivial

theorem TT.mkKeeping {K0 : List Ref} {s : State} {o : Obj} (h : o.key ∉ K0) (need : Bool)
    (rest : List Ref) : TT K0 s (mkKeeping o need rest) := by
  cases rest with
  | nil => exact TT.afterKeep h need
  | cons _ _ => exact h

theorem TT.mkDeps {K0 : List Ref} {s : State} {o : Obj} (h1 : o.key ∈ s.kept) (h2 : o.key ∉ K0)
    (rest : List Ref) : TT K0 s (mkDeps o rest) := by
  cases rest with
  | nil => trivial
  | cons _ _ => exact ⟨h1, h2⟩

theorem TInv.step {e : Env} (K0 : List Ref) :
    ∀ c c', PStep e c c' → TInv K0 c → TInv K0 c' := by
  intro c c' h hI
  cases h with
  | @deq w o q hw hi hq =>
    refine ⟨hI.sub, hI.grow, fun i => ?_⟩
    by_cases hiw : i = w
    · simp [setW, hiw, TT]
    · simp [setW, hiw]; exact hI.tasks i
  | @task w t s' t' hw hwt hT =>
    have ht := hwt ▸ hI.tasks w
    have key : (∀ r ∈ K0, r ∈ s'.kept) ∧ (s'.flag = true → ∃ r ∈ s'.kept, r ∉ K0) ∧ TT K0 s' t' := by
      have notin : ∀ {o : Obj}, c.st.has o.key = false → o.key ∉ K0 := fun hh hk =>
        ((has_false_iff _ _).1 hh) (hI.sub _ hk)
      cases hT with
      | startHas _ => exact ⟨hI.sub, hI.grow, trivial⟩
      | startBase hh _ => exact ⟨hI.sub, hI.grow, notin hh⟩
      | startDyn hh _ _ => exact ⟨hI.sub, hI.grow, TT.mkKeeping (notin hh) _ _⟩
      | startStat hh _ _ => exact ⟨hI.sub, hI.grow, TT.afterKeep (notin hh) _⟩
      | keepNil => exact ⟨hI.sub, hI.grow, TT.afterKeep ht _⟩
      | keepHit _ => exact ⟨hI.sub, hI.grow, ht⟩
      | keepMiss _ => exact ⟨hI.sub, hI.grow, TT.mkKeeping ht _ _⟩
      | @store o =>
        exact ⟨fun r hr => by simp [hI.sub r hr], fun _ => ⟨o.key, by simp, ht⟩,
          TT.mkDeps (by simp) ht _⟩
      | depsNil => exact ⟨hI.sub, hI.grow, trivial⟩
      | depsSkip _ => exact ⟨hI.sub, hI.grow, TT.mkDeps ht.1 ht.2 _⟩
      | depsGo _ => exact ⟨hI.sub, hI.grow, ht⟩
      | @depWrite o r rest =>
        exact ⟨hI.sub, fun _ => ⟨o.key, ht.1, ht.2⟩,
          TT.mkDeps (s := { c.st with need := r :: c.st.need, flag := true }) ht.1 ht.2 _⟩
    refine ⟨key.1, key.2.1, fun i => ?_⟩
    by_cases hiw : i = w
    · simp [setW, hiw]; exact key.2.2
    · simp [setW, hiw]; exact (hI.tasks i).mono hT.mono.1

end GeomV.C18
