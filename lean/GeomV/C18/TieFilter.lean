import GeomV.C18.Tie
import GeomV.C18.Seq
/-!
# C18 — T1 tie for `process{Node,Way,Relation}NoCopy` (regenerated from extract.go) and the Filter clause

`tie_processNodeNoCopy / WayNoCopy / RelationNoCopy`: the regenerated function, run on a `Data` whose abstraction is
(membership-)equal to a model state `s`, returns a `Data` whose abstraction is equal to `procSeq ⟨false, k, W⟩ s o`
— the model's `processX` run to completion with the ORIGINAL loop condition (flag only on a new dependency) — and
its boolean result is that state's flag; stored objects are only added, under their own ids.  `Seq.runPass_seq`
shows that `procSeq` folded over the pass order IS the model's pass with one worker, which is what `filterRun`
(the model of `Filter`, theorem `C18_filter`: idempotent, closed, sub-list, order independent) executes.
-/
set_option linter.unusedSimpArgs false
set_option linter.unusedVariables false
namespace GeomV.C18
open Gen

/-- same kept set, same need set, same flag -/
structure SEq (s s' : State) : Prop where
  kept : ∀ r, r ∈ s.kept ↔ r ∈ s'.kept
  need : ∀ r, r ∈ s.need ↔ r ∈ s'.need
  flag : s.flag = s'.flag

theorem SEq.has {s s' : State} (h : SEq s s') (r : Ref) : s.has r = s'.has r := by
  simp [State.has, h.kept r]
theorem SEq.needOf {s s' : State} (h : SEq s s') (r : Ref) : s.needOf r = s'.needOf r := by
  simp [State.needOf, State.has, h.kept r, h.need r]
theorem SEq.hasFn {s s' : State} (h : SEq s s') : s.has = s'.has := funext h.has

/-- the Go keep function `K` has the modelled shape `k` on the object types `Filter` passes (`*Node`, `*Way`, `*Relation`) -/
def KeepShape (K : KeepFunc) (k : Keep) : Prop :=
  ∀ (d : Data) (obj : Object) (o : Obj), obj.toObj = some o → K d obj = .ok (k.sel (absState d).has o)

theorem keepShape_tags (want : List (Nat × List Nat)) : KeepShape (KeepTags want) (keepTags want) := by
  intro d obj o ho
  rw [tie_KeepTags, ho]
theorem keepShape_all : KeepShape KeepAll keepAll := fun d obj o _ => tie_KeepAll d obj o

theorem mem_set_map {V : Type} (m : GoMap Int V) (k : Int) (v : V) (f : Int → Ref) (x : Ref) :
    x ∈ (GoMap.set m k v).map (fun e => f e.1) ↔ x = f k ∨ x ∈ m.map (fun e => f e.1) := by
  simp only [GoMap.set, List.map_cons, List.mem_cons, List.mem_map, List.mem_filter]
  constructor
  · rintro (h | ⟨e, ⟨he, _⟩, rfl⟩)
    · exact .inl h
    · exact .inr ⟨e, he, rfl⟩
  · rintro (h | ⟨e, he, rfl⟩)
    · exact .inl h
    · by_cases hk : e.1 = k
      · exact .inl (by rw [hk])
      · exact .inr ⟨e, ⟨he, by simpa using hk⟩, rfl⟩

theorem absFlag (d : Data) (f : Bool) : (absState d f).flag = f := rfl
theorem absKept (d : Data) (f : Bool) : (absState d f).kept = (absState d).kept := rfl
theorem absNeed (d : Data) (f : Bool) : (absState d f).need = (absState d).need := rfl
theorem absHas (d : Data) (f : Bool) : (absState d f).has = (absState d).has := rfl
theorem absNeedOf (d : Data) (f : Bool) : (absState d f).needOf = (absState d).needOf := rfl

/-! ## processNodeNoCopy -/

theorem tie_processNodeNoCopy (K : KeepFunc) (k : Keep) (hK : KeepShape K k) (W : Nat) (d : Data) (n : Node)
    (kt : Bool) (fl : Bool) (s : State) (hs : SEq (absState d fl) s) :
    ∃ d', processNodeNoCopy d n K kt = .ok (d', ()) ∧
      SEq (absState d' fl) (procSeq ⟨false, k, W⟩ s (objNode n)) ∧
      (d' = d ∨ d' = { d with Nodes := GoMap.set d.Nodes n.ID n }) := by
  unfold processNodeNoCopy procSeq
  have e1 : (absState d).has (nref n.ID) = s.has (nref n.ID) := hs.has _
  have e2 : (absState d).needOf (nref n.ID) = s.needOf (nref n.ID) := hs.needOf _
  have e3 : (absState d).has = s.has := hs.hasFn
  have hk := hK d (.node n) _ rfl
  rw [e3] at hk
  rw [tie_hasNeedNode, e1, e2]
  have ek : (objNode n).key = nref n.ID := rfl
  simp only [ek]
  by_cases h1 : s.has (nref n.ID) = true
  · exact ⟨d, by simp [h1, Ctl.bind, Ctl.stateE, Except.map], by simpa [h1] using hs, .inl rfl⟩
  · have h1' : s.has (nref n.ID) = false := by simpa using h1
    by_cases h2 : k.sel s.has (objNode n) = true ∨ s.needOf (nref n.ID) = true
    · refine ⟨{ d with Nodes := GoMap.set d.Nodes n.ID n }, ?_, ?_, .inr rfl⟩
      · simp [h1', h2, hk, Ctl.bind, Ctl.call, Ctl.stateE, Except.map]
      · simp only [h1', h2, Bool.or_eq_true, if_true, Bool.false_eq_true, if_false, storeSeq, depsSeq, Bool.or_false]
        have er : (objNode n).refs = [] := rfl
        simp only [er, depsSeq, ek]
        refine ⟨fun r => ?_, fun r => hs.need r, hs.flag⟩
        have := hs.kept r
        simp only [absState, List.mem_append, mem_set_map, List.mem_cons] at this ⊢
        rw [← this]
        constructor
        · rintro (((h | h) | h) | h)
          · exact .inl h
          · exact .inr (.inl (.inl h))
          · exact .inr (.inl (.inr h))
          · exact .inr (.inr h)
        · rintro (h | ((h | h) | h))
          · exact .inl (.inl (.inl h))
          · exact .inl (.inl (.inr h))
          · exact .inl (.inr h)
          · exact .inr h
    · exact ⟨d, by simp [h1', h2, hk, Ctl.bind, Ctl.call, Ctl.stateE, Except.map], by simpa [h1', h2] using hs, .inl rfl⟩

/-! ## the dependency loops -/

/-- the three object maps are untouched -/
def SameObjs (d' d : Data) : Prop := d'.Nodes = d.Nodes ∧ d'.Ways = d.Ways ∧ d'.Relations = d.Relations

theorem depsSeq_cons (s : State) (r : Ref) (rest : List Ref) : depsSeq s (r :: rest) = depsSeq (depsSeq s [r]) rest := rfl

theorem rangeS_deps_of_eq {α : Type} {l : List α} {body : α → Data × Bool → Ctl Unit (Data × Bool)}
    (refOf : α → Ref)
    (hb : ∀ a ∈ l, ∀ (d : Data) (ap : Bool) (s : State), SEq (absState d ap) s →
      ∃ d' ap', body a (d, ap) = .fall (d', ap') ∧ SEq (absState d' ap') (depsSeq s [refOf a]) ∧ SameObjs d' d) :
    ∀ (d : Data) (ap : Bool) (s : State) (X : Ctl Unit (Data × Bool)), rangeS l body (d, ap) = X →
      SEq (absState d ap) s →
      ∃ d' ap', X = .fall (d', ap') ∧ SEq (absState d' ap') (depsSeq s (l.map refOf)) ∧ SameObjs d' d := by
  induction l with
  | nil =>
    intro d ap s X h hs
    exact ⟨d, ap, h.symm, hs, rfl, rfl, rfl⟩
  | cons a l ih =>
    intro d ap s X h hs
    obtain ⟨d1, ap1, h1, hs1, hsame1⟩ := hb a List.mem_cons_self d ap s hs
    rw [rangeS, h1] at h
    obtain ⟨d2, ap2, h2, hs2, hsame2⟩ := ih (fun a ha => hb a (List.mem_cons_of_mem _ ha)) d1 ap1 _ X h hs1
    refine ⟨d2, ap2, h2, ?_, ?_⟩
    · rw [List.map_cons, depsSeq_cons]; exact hs2
    · exact ⟨hsame2.1.trans hsame1.1, hsame2.2.1.trans hsame1.2.1, hsame2.2.2.trans hsame1.2.2⟩

theorem seq_dep_node (d : Data) (ap : Bool) (s : State) (hs : SEq (absState d ap) s) (n : Int)
    (hn : s.needOf (nref n) = false) :
    SEq (absState { d with dependentNodes := GoMap.set d.dependentNodes n () } true)
      { s with need := nref n :: s.need, flag := true } := by
  refine ⟨hs.kept, fun r => ?_, rfl⟩
  have := hs.need r
  simp only [absState, List.mem_append, mem_set_map, List.mem_cons] at this ⊢
  rw [← this]
  constructor
  · rintro (((h | h) | h) | h)
    · exact .inl h
    · exact .inr (.inl (.inl h))
    · exact .inr (.inl (.inr h))
    · exact .inr (.inr h)
  · rintro (h | ((h | h) | h))
    · exact .inl (.inl (.inl h))
    · exact .inl (.inl (.inr h))
    · exact .inl (.inr h)
    · exact .inr h

theorem seq_dep_way (d : Data) (ap : Bool) (s : State) (hs : SEq (absState d ap) s) (n : Int) :
    SEq (absState { d with dependentWays := GoMap.set d.dependentWays n () } true)
      { s with need := wref n :: s.need, flag := true } := by
  refine ⟨hs.kept, fun r => ?_, rfl⟩
  have := hs.need r
  simp only [absState, List.mem_append, mem_set_map, List.mem_cons] at this ⊢
  rw [← this]
  constructor
  · rintro ((h | (h | h)) | h)
    · exact .inr (.inl (.inl h))
    · exact .inl h
    · exact .inr (.inl (.inr h))
    · exact .inr (.inr h)
  · rintro (h | ((h | h) | h))
    · exact .inl (.inr (.inl h))
    · exact .inl (.inl h)
    · exact .inl (.inr (.inr h))
    · exact .inr h

theorem seq_dep_rel (d : Data) (ap : Bool) (s : State) (hs : SEq (absState d ap) s) (n : Int) :
    SEq (absState { d with dependentRelations := GoMap.set d.dependentRelations n () } true)
      { s with need := rref n :: s.need, flag := true } := by
  refine ⟨hs.kept, fun r => ?_, rfl⟩
  have := hs.need r
  simp only [absState, List.mem_append, mem_set_map, List.mem_cons] at this ⊢
  rw [← this]
  constructor
  · rintro (h | (h | h))
    · exact .inr (.inl h)
    · exact .inl h
    · exact .inr (.inr h)
  · rintro (h | (h | h))
    · exact .inr (.inl h)
    · exact .inl h
    · exact .inr (.inr h)

theorem seq_store_way (d : Data) (s : State) (hs : SEq (absState d false) s) (w : Way) :
    SEq (absState { d with Ways := GoMap.set d.Ways w.ID w } false)
      { s with kept := wref w.ID :: s.kept, flag := s.flag || false } := by
  refine ⟨fun r => ?_, hs.need, by rw [Bool.or_false]; exact hs.flag⟩
  have := hs.kept r
  simp only [absState, List.mem_append, mem_set_map, List.mem_cons] at this ⊢
  rw [← this]
  constructor
  · rintro ((h | (h | h)) | h)
    · exact .inr (.inl (.inl h))
    · exact .inl h
    · exact .inr (.inl (.inr h))
    · exact .inr (.inr h)
  · rintro (h | ((h | h) | h))
    · exact .inl (.inr (.inl h))
    · exact .inl (.inl h)
    · exact .inl (.inr (.inr h))
    · exact .inr h

/-! ## processWayNoCopy -/

theorem tie_processWayNoCopy (K : KeepFunc) (k : Keep) (hK : KeepShape K k) (W : Nat) (d : Data) (w : Way)
    (kt : Bool) (s : State) (hs : SEq (absState d false) s) :
    ∃ d' ap, processWayNoCopy d w K kt = .ok (d', ap) ∧
      SEq (absState d' ap) (procSeq ⟨false, k, W⟩ s (objWay w)) ∧
      d'.Nodes = d.Nodes ∧ d'.Relations = d.Relations ∧
      (d'.Ways = d.Ways ∨ d'.Ways = GoMap.set d.Ways w.ID w) := by
  unfold processWayNoCopy procSeq
  have e1 : (absState d).has (wref w.ID) = s.has (wref w.ID) := hs.has _
  have e2 : (absState d).needOf (wref w.ID) = s.needOf (wref w.ID) := hs.needOf _
  have e3 : (absState d).has = s.has := hs.hasFn
  have hk := hK d (.way w) _ rfl
  rw [e3] at hk
  rw [tie_hasNeedWay, e1, e2]
  have ek : (objWay w).key = wref w.ID := rfl
  simp only [ek]
  by_cases h1 : s.has (wref w.ID) = true
  · exact ⟨d, false, by simp [h1, Ctl.bind, Ctl.stateE, Except.map], by simpa [h1] using hs, rfl, rfl, .inl rfl⟩
  · have h1' : s.has (wref w.ID) = false := by simpa using h1
    by_cases h2 : k.sel s.has (objWay w) = true ∨ s.needOf (wref w.ID) = true
    · simp only [h1', h2, hk, Bool.or_eq_true, Ctl.bind, Ctl.call, if_true, Bool.false_eq_true, if_false, storeSeq]
      generalize hX : rangeS w.Nodes _ ((_ : Data), (default : Bool)) = X
      obtain ⟨d', ap', rfl, hs2, hsame⟩ := rangeS_deps_of_eq nref (fun n _ d ap s hs => by
        simp only [tie_hasNeedNode]
        by_cases hn : s.needOf (nref n) = true
        · have hn' : (absState d).needOf (nref n) = true := by rw [← hn]; exact hs.needOf _
          exact ⟨d, ap, by simp [hn'], by simpa [depsSeq, hn] using hs, rfl, rfl, rfl⟩
        · have hn1 : s.needOf (nref n) = false := by simpa using hn
          have hn' : (absState d).needOf (nref n) = false := by rw [← hn1]; exact hs.needOf _
          exact ⟨{ d with dependentNodes := GoMap.set d.dependentNodes n () }, true, by simp [hn'],
            by simpa [depsSeq, hn1] using seq_dep_node d ap s hs n hn1, rfl, rfl, rfl⟩)
        _ false _ X hX (seq_store_way d s hs w)
      exact ⟨d', ap', by simp [Ctl.stateE, Except.map], hs2, hsame.1, hsame.2.2, .inr hsame.2.1⟩
    · exact ⟨d, false, by simp [h1', h2, hk, Ctl.bind, Ctl.call, Ctl.stateE, Except.map],
        by simpa [h1', h2] using hs, rfl, rfl, .inl rfl⟩

/-! ## processRelationNoCopy -/

def mrefD (m : Member) : Ref :=
  match m.Typ with
  | .node => nref m.Ref
  | .way => wref m.Ref
  | _ => rref m.Ref

theorem filterMap_mref (l : List Member) (h : ∀ m ∈ l, m.Typ ≠ .other) : l.filterMap mref = l.map mrefD := by
  induction l with
  | nil => rfl
  | cons m l ih =>
    have hm := h m List.mem_cons_self
    have ih' := ih (fun m hm => h m (List.mem_cons_of_mem _ hm))
    cases hmt : m.Typ <;> simp_all [List.filterMap_cons, mref, mrefD]

theorem seq_store_rel (d : Data) (s : State) (hs : SEq (absState d false) s) (r : Relation) :
    SEq (absState { d with Relations := GoMap.set d.Relations r.ID r } false)
      { s with kept := rref r.ID :: s.kept, flag := s.flag || false } := by
  refine ⟨fun x => ?_, hs.need, by rw [Bool.or_false]; exact hs.flag⟩
  have := hs.kept x
  simp only [absState, List.mem_append, mem_set_map, List.mem_cons] at this ⊢
  rw [← this]
  constructor
  · rintro (h | (h | h))
    · exact .inr (.inl h)
    · exact .inl h
    · exact .inr (.inr h)
  · rintro (h | (h | h))
    · exact .inr (.inl h)
    · exact .inl h
    · exact .inr (.inr h)

theorem tie_processRelationNoCopy (K : KeepFunc) (k : Keep) (hK : KeepShape K k) (W : Nat) (d : Data) (r : Relation)
    (hr : MembersTyped r) (kt : Bool) (s : State) (hs : SEq (absState d false) s) :
    ∃ d' ap, processRelationNoCopy d r K kt = .ok (d', ap) ∧
      SEq (absState d' ap) (procSeq ⟨false, k, W⟩ s (objRel r)) ∧
      d'.Nodes = d.Nodes ∧ d'.Ways = d.Ways ∧
      (d'.Relations = d.Relations ∨ d'.Relations = GoMap.set d.Relations r.ID r) := by
  unfold processRelationNoCopy procSeq
  have e1 : (absState d).has (rref r.ID) = s.has (rref r.ID) := hs.has _
  have e2 : (absState d).needOf (rref r.ID) = s.needOf (rref r.ID) := hs.needOf _
  have e3 : (absState d).has = s.has := hs.hasFn
  have hk := hK d (.relation r) _ rfl
  rw [e3] at hk
  rw [tie_hasNeedRelation, e1, e2]
  have ek : (objRel r).key = rref r.ID := rfl
  have er : (objRel r).refs = r.Members.map mrefD := filterMap_mref _ hr
  simp only [ek]
  by_cases h1 : s.has (rref r.ID) = true
  · exact ⟨d, false, by simp [h1, Ctl.bind, Ctl.stateE, Except.map], by simpa [h1] using hs, rfl, rfl, .inl rfl⟩
  · have h1' : s.has (rref r.ID) = false := by simpa using h1
    by_cases h2 : k.sel s.has (objRel r) = true ∨ s.needOf (rref r.ID) = true
    · simp only [h1', h2, hk, Bool.or_eq_true, Ctl.bind, Ctl.call, if_true, Bool.false_eq_true, if_false, storeSeq, er]
      generalize hX : rangeS r.Members _ ((_ : Data), (default : Bool)) = X
      obtain ⟨d', ap', rfl, hs2, hsame⟩ := rangeS_deps_of_eq mrefD (fun m hm d ap s hs => by
        have hty := hr m hm
        cases hmt : m.Typ with
        | node =>
          simp only [tie_hasNeedNode, hmt, mrefD]
          by_cases hn : s.needOf (nref m.Ref) = true
          · have hn' : (absState d).needOf (nref m.Ref) = true := by rw [← hn]; exact hs.needOf _
            exact ⟨d, ap, by simp [hn'], by simpa [depsSeq, hn] using hs, rfl, rfl, rfl⟩
          · have hn1 : s.needOf (nref m.Ref) = false := by simpa using hn
            have hn' : (absState d).needOf (nref m.Ref) = false := by rw [← hn1]; exact hs.needOf _
            exact ⟨{ d with dependentNodes := GoMap.set d.dependentNodes m.Ref () }, true, by simp [hn'],
              by simpa [depsSeq, hn1] using seq_dep_node d ap s hs m.Ref hn1, rfl, rfl, rfl⟩
        | way =>
          simp only [tie_hasNeedWay, hmt, mrefD]
          by_cases hn : s.needOf (wref m.Ref) = true
          · have hn' : (absState d).needOf (wref m.Ref) = true := by rw [← hn]; exact hs.needOf _
            exact ⟨d, ap, by simp [hn'], by simpa [depsSeq, hn] using hs, rfl, rfl, rfl⟩
          · have hn1 : s.needOf (wref m.Ref) = false := by simpa using hn
            have hn' : (absState d).needOf (wref m.Ref) = false := by rw [← hn1]; exact hs.needOf _
            exact ⟨{ d with dependentWays := GoMap.set d.dependentWays m.Ref () }, true, by simp [hn'],
              by simpa [depsSeq, hn1] using seq_dep_way d ap s hs m.Ref, rfl, rfl, rfl⟩
        | relation =>
          simp only [tie_hasNeedRelation, hmt, mrefD]
          by_cases hn : s.needOf (rref m.Ref) = true
          · have hn' : (absState d).needOf (rref m.Ref) = true := by rw [← hn]; exact hs.needOf _
            exact ⟨d, ap, by simp [hn'], by simpa [depsSeq, hn] using hs, rfl, rfl, rfl⟩
          · have hn1 : s.needOf (rref m.Ref) = false := by simpa using hn
            have hn' : (absState d).needOf (rref m.Ref) = false := by rw [← hn1]; exact hs.needOf _
            exact ⟨{ d with dependentRelations := GoMap.set d.dependentRelations m.Ref () }, true, by simp [hn'],
              by simpa [depsSeq, hn1] using seq_dep_rel d ap s hs m.Ref, rfl, rfl, rfl⟩
        | other => exact absurd hmt hty)
        _ false _ X hX (seq_store_rel d s hs r)
      exact ⟨d', ap', by simp [Ctl.stateE, Except.map], hs2, hsame.1, hsame.2.1, .inr hsame.2.2⟩
    · exact ⟨d, false, by simp [h1', h2, hk, Ctl.bind, Ctl.call, Ctl.stateE, Except.map],
        by simpa [h1', h2] using hs, rfl, rfl, .inl rfl⟩

/-- non-vacuity of `KeepShape` and `MembersTyped` -/
example : KeepShape (KeepTags [(1, [])]) (keepTags [(1, [])]) := keepShape_tags _
example : MembersTyped ⟨1, [⟨5, .node⟩, ⟨6, .relation⟩], []⟩ := by
  intro m hm; simp at hm; rcases hm with rfl | rfl <;> simp

end GeomV.C18
