import GeomV.C18.Proofs
/-!
# C18 — the sequential meaning of the interleaving model (one worker, no interleaving)

`procSeq e s o` is `processX(o)` run to completion on state `s` in ONE piece (big step).  `finishW_st` /
`runPass_seq` prove that the interleaving model with one worker and an empty schedule — which is what
`filterRun` (the model of `Filter`) and the GOMAXPROCS=1 correspondence run use — performs exactly
`order.foldl (procSeq e)`.  Tie.lean proves the REGENERATED `process*NoCopy` equal to `procSeq`.
-/
set_option linter.unusedSimpArgs false
set_option linter.unusedVariables false
namespace GeomV.C18

/-- the dependency loop of `processWay/Relation[NoCopy]`, run to completion -/
def depsSeq (s : State) : List Ref → State
  | [] => s
  | r :: rest => depsSeq (if s.needOf r then s else { s with need := r :: s.need, flag := true }) rest

def storeSeq (e : Env) (s : State) (o : Obj) : State :=
  depsSeq { s with kept := o.key :: s.kept, flag := s.flag || e.fos } o.refs

/-- `processX(o)` run to completion -/
def procSeq (e : Env) (s : State) (o : Obj) : State :=
  if s.has o.key then s else if e.k.sel s.has o || s.needOf o.key then storeSeq e s o else s

def bigStep (e : Env) (s : State) : Task → State
  | .idle => s
  | .start o => procSeq e s o
  | .keeping o need rest => if rest.any s.has || need then storeSeq e s o else s
  | .storing o => storeSeq e s o
  | .deps _ rest => depsSeq s rest
  | .depWrite _ r rest => depsSeq { s with need := r :: s.need, flag := true } rest

theorem bs_idle (e : Env) (s : State) : bigStep e s .idle = s := rfl
theorem bs_start (e : Env) (s : State) (o : Obj) : bigStep e s (.start o) = procSeq e s o := rfl
theorem bs_keeping (e : Env) (s : State) (o : Obj) (need : Bool) (rest : List Ref) :
    bigStep e s (.keeping o need rest) = if rest.any s.has || need then storeSeq e s o else s := rfl
theorem bs_storing (e : Env) (s : State) (o : Obj) : bigStep e s (.storing o) = storeSeq e s o := rfl
theorem bs_deps (e : Env) (s : State) (o : Obj) (rest : List Ref) : bigStep e s (.deps o rest) = depsSeq s rest := rfl
theorem bs_depWrite (e : Env) (s : State) (o : Obj) (r : Ref) (rest : List Ref) :
    bigStep e s (.depWrite o r rest) = depsSeq { s with need := r :: s.need, flag := true } rest := rfl

theorem bigStep_afterKeep (e : Env) (s : State) (o : Obj) (need : Bool) :
    bigStep e s (afterKeep o need) = if need then storeSeq e s o else s := by
  cases need <;> simp [afterKeep, bs_idle, bs_storing]

theorem bigStep_mkKeeping (e : Env) (s : State) (o : Obj) (need : Bool) (rest : List Ref) :
    bigStep e s (mkKeeping o need rest) = if rest.any s.has || need then storeSeq e s o else s := by
  cases rest with
  | nil => simp [mkKeeping, bigStep_afterKeep]
  | cons r rest => simp [mkKeeping, bs_keeping]

theorem bigStep_mkDeps (e : Env) (s : State) (o : Obj) (rest : List Ref) :
    bigStep e s (mkDeps o rest) = depsSeq s rest := by
  cases rest <;> simp [mkDeps, bs_idle, bs_deps, depsSeq]

/-- one atomic step does not change where the task ends when nobody interferes -/
theorem bigStep_step (e : Env) (s : State) (t : Task) :
    bigStep e (stepTask e s t).1 (stepTask e s t).2 = bigStep e s t := by
  cases t with
  | idle => rfl
  | start o =>
    simp only [stepTask, bs_start, procSeq, Keep.sel]
    by_cases h1 : s.has o.key = true
    · simp [h1, bs_idle]
    · have h1' : s.has o.key = false := by simpa using h1
      by_cases h2 : e.k.base o = true
      · simp [h1', h2, bs_storing]
      · have h2' : e.k.base o = false := by simpa using h2
        by_cases h3 : e.k.dyn o = true
        · simp [h1', h2', h3, bigStep_mkKeeping]
        · have h3' : e.k.dyn o = false := by simpa using h3
          simp [h1', h2', h3', bigStep_afterKeep]
  | keeping o need rest =>
    cases rest with
    | nil => simp [stepTask, bs_keeping, bigStep_afterKeep]
    | cons r rest =>
      simp only [stepTask]
      by_cases h : s.has r = true
      · simp [h, bs_storing, bs_keeping]
      · have h' : s.has r = false := by simpa using h
        simp [h', bs_keeping, bigStep_mkKeeping]
  | storing o => simp [stepTask, bs_storing, bigStep_mkDeps, storeSeq]
  | deps o rest =>
    cases rest with
    | nil => simp [stepTask, bs_deps, bs_idle, depsSeq]
    | cons r rest =>
      simp only [stepTask]
      by_cases h : s.needOf r = true
      · simp [h, bs_deps, bigStep_mkDeps, depsSeq]
      · have h' : s.needOf r = false := by simpa using h
        simp [h', bs_deps, bs_depWrite, depsSeq]
  | depWrite o r rest => simp [stepTask, bs_depWrite, bigStep_mkDeps]

theorem finishW_st (e : Env) {w : Nat} (hw : w < e.W) :
    ∀ (n : Nat) (c : PCfg), (c.ws w).size ≤ n → (finishW e w n c).st = bigStep e c.st (c.ws w)
  | 0, c, h => by
    have hi := isIdle_of_size_zero (t := c.ws w) (by simpa using h)
    cases ht : c.ws w <;> simp [ht, Task.isIdle] at hi
    simp [finishW, bs_idle]
  | n+1, c, h => by
    unfold finishW
    split
    · rename_i hi
      cases ht : c.ws w <;> simp [ht, Task.isIdle] at hi
      simp [bs_idle]
    · rename_i hb
      have hb' : (c.ws w).isIdle = false := by simpa using hb
      have hlt := (stepTask_spec e c.st _ hb').size_lt
      rw [finishW_st e hw n _ (by rw [pstep_busy hw hb']; simp [setW]; omega), pstep_busy hw hb']
      simp only [setW, if_true]
      exact bigStep_step e c.st (c.ws w)

theorem drainQueue_st (e : Env) (hW : 0 < e.W) : ∀ (q : List Obj) (c : PCfg), c.queue = q → AllIdle c →
    (drainQueue e q c).st = q.foldl (procSeq e) c.st
  | [], c, _, _ => rfl
  | o :: q, c, hq, hi => by
    simp only [drainQueue, List.foldl_cons]
    have h1 := pstep_deq hW (hi 0) hq
    have hst : (finishW e 0 (Task.start o).size (pstep e 0 c)).st = procSeq e c.st o := by
      rw [finishW_st e hW _ _ (by rw [h1]; simp [setW]), h1]
      simp [setW, bs_start]
    rw [drainQueue_st e hW q _ ?_ ?_, hst]
    · rw [finishW_queue, h1]
    · intro i
      by_cases h0 : i = 0
      · subst h0
        refine finishW_idle e hW _ _ ?_
        rw [h1]; simp [setW]
      · rw [finishW_ws_other e h0, pstep_ws_other e c h0]; exact hi i

theorem finishW_allIdle (e : Env) (w : Nat) (n : Nat) (c : PCfg) (h : (c.ws w).isIdle = true) :
    finishW e w n c = c := by
  cases n <;> simp [finishW, h]

theorem drainWorkers_idle (e : Env) (c : PCfg) (h : AllIdle c) : drainWorkers e c = c := by
  unfold drainWorkers
  generalize List.range e.W = l
  induction l with
  | nil => rfl
  | cons w l ih => simp [List.foldl_cons, finishW_allIdle e w _ c (h w), ih]

/-- **one worker, empty schedule**: a pass of the interleaving model = the objects processed one after the
other, each to completion -/
theorem runPass_seq (e : Env) (hW : 0 < e.W) (order : List Obj) (s : State) :
    (runPass e order [] s).st = order.foldl (procSeq e) { s with flag := false } := by
  unfold runPass
  simp only [runChoices, List.foldl_nil]
  rw [drainWorkers_idle e _ (fun _ => rfl)]
  exact drainQueue_st e hW order _ rfl (fun _ => rfl)

end GeomV.C18
