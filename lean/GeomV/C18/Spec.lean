import GeomV.C18.Model
/-!
# C18 specification

"extraction returns exactly the LEAST set of nodes, ways and relations that contains every object the
keep function selects and every node, way or relation those objects reference, transitively".

`Closed doc k C`  : `C` contains every object of the document that `k` selects *given `C`*
                    (for `KeepBounds`: a way/relation one of whose members is in `C`), and every
                    reference of an object in `C` that is present in the document.
`IsLeastClosed`   : `C` is closed and is contained in every closed set.  (Least closed sets are
                    unique as sets: `IsLeastClosed.unique` in Proofs.)

The specification only uses the data types `Ref`, `Obj`, `Keep` of the model file, none of its
transition functions.  `closure` computes the least closed set by Kleene iteration; the judge
re-checks `closedB` on every case, `closure_least` (Proofs) shows the iteration never leaves
the least closed set.

`noDangling doc` : every reference in the document names an object of the document.
`checkOK objs`   : the audit the property asks `Check` to pass: every reference of a returned
                   object is returned.
-/
namespace GeomV.C18

/-- `k` selects `o` when the objects in `C` are the ones already taken -/
def Selects (k : Keep) (C : Ref → Prop) (o : Obj) : Prop :=
  k.base o = true ∨ (k.dyn o = true ∧ ∃ r ∈ o.refs, C r)

def Present (doc : Doc) (r : Ref) : Prop := ∃ o ∈ doc, o.key = r

structure Closed (doc : Doc) (k : Keep) (C : Ref → Prop) : Prop where
  sel : ∀ o ∈ doc, Selects k C o → C o.key
  refs : ∀ o ∈ doc, C o.key → ∀ r ∈ o.refs, Present doc r → C r

def IsLeastClosed (doc : Doc) (k : Keep) (C : Ref → Prop) : Prop :=
  Closed doc k C ∧ ∀ C', Closed doc k C' → ∀ r, C r → C' r

/-- the element ids are unique in the document (an OSM file lists each element once) -/
def uniqueKeys (doc : Doc) : Prop := ∀ o ∈ doc, ∀ o' ∈ doc, o.key = o'.key → o = o'

def noDangling (doc : Doc) : Prop := ∀ o ∈ doc, ∀ r ∈ o.refs, Present doc r

def checkOK (objs : List Obj) : Prop := ∀ o ∈ objs, ∀ r ∈ o.refs, Present objs r

/-! ## the provided keep functions, specified from their documentation (not from the Go bodies)

* by bounds `[minX, maxX] × [minY, maxY]`: a NODE is selected iff its position lies in the CLOSED
  rectangle (all four edges and corners included; a one-point rectangle selects the nodes at that
  point; an inverted rectangle is empty); a way / relation is selected iff one of its members is kept.
* by tags: an object is selected iff it carries a tag whose key is wanted and whose value is one of
  the values listed for that key (no values listed = any value).
* all: every object is selected.
The judge computes `closure doc (specKeep ks)` and compares the implementation's id sets with it;
`specKeep_bounds/tags/all` (Proofs) show the model's keep functions coincide with these. -/

inductive KeepSpec
  | all
  | tags (want : List (Nat × List Nat))
  | bounds (minX minY maxX maxY : Int)

def inClosedRect (minX minY maxX maxY x y : Int) : Prop :=
  minX ≤ x ∧ x ≤ maxX ∧ minY ≤ y ∧ y ≤ maxY

instance (a b c d x y : Int) : Decidable (inClosedRect a b c d x y) :=
  inferInstanceAs (Decidable (_ ∧ _ ∧ _ ∧ _))

/-- tag `t = (key, value)` is wanted: its key is listed, with no values (any) or with this value -/
def wantsTag (want : List (Nat × List Nat)) (t : Nat × Nat) : Bool :=
  want.any fun w => w.1 == t.1 && (w.2.isEmpty || w.2.contains t.2)

/-- the state-independent part of the selection -/
def KeepSpec.selectsBase : KeepSpec → Obj → Bool
  | .all, _ => true
  | .tags want, o => o.tags.any (wantsTag want)
  | .bounds a b c d, o => o.key.kind == .node && decide (inClosedRect a b c d o.x o.y)

/-- whether "one of my members is kept" also selects the object -/
def KeepSpec.byMembers : KeepSpec → Obj → Bool
  | .bounds _ _ _ _, o => o.key.kind != .node
  | _, _ => false

/-- the keep function the documentation describes (used by the judge) -/
def specKeep (ks : KeepSpec) : Keep := ⟨ks.selectsBase, ks.byMembers⟩

/-! ## executable closure (used by the judge) -/

def presentB (doc : Doc) (r : Ref) : Bool := doc.any fun o => o.key == r

/-- one Kleene round: add the selected objects and the present references of the members -/
def closeStep (doc : Doc) (k : Keep) (S : List Ref) : List Ref :=
  let has := fun r => decide (r ∈ S)
  let selected := (doc.filter (k.sel has)).map (·.key)
  let deps := ((doc.filter (fun o => has o.key)).flatMap (·.refs)).filter (presentB doc)
  selected ++ deps ++ S

def closureIter (doc : Doc) (k : Keep) : Nat → List Ref → List Ref
  | 0, S => S
  | n+1, S => closureIter doc k n (closeStep doc k S)

def closure (doc : Doc) (k : Keep) : List Ref := closureIter doc k (doc.length + 1) []

/-- decidable form of `Closed doc k (· ∈ S)` -/
def closedB (doc : Doc) (k : Keep) (S : List Ref) : Bool :=
  doc.all fun o =>
    (!(k.sel (fun r => decide (r ∈ S)) o) || decide (o.key ∈ S)) &&
    (!(decide (o.key ∈ S)) || o.refs.all fun r => !(presentB doc r) || decide (r ∈ S))

/-- decidable form of `ClosedD doc k (· ∈ S)` (Dup.lean): the closure clauses for documents that repeat an id —
every selected element's id is in `S`; every id in `S` has a version in the document whose present references are in `S` -/
def closedDB (doc : Doc) (k : Keep) (S : List Ref) : Bool :=
  (doc.all fun o => !(k.sel (fun r => decide (r ∈ S)) o) || decide (o.key ∈ S)) &&
  (S.all fun r => doc.any fun o => o.key == r && o.refs.all fun r' => !(presentB doc r') || decide (r' ∈ S))

def uniqueKeysB (doc : Doc) : Bool :=
  doc.all fun o => doc.all fun o' => !(o.key == o'.key) || o == o'

def noDanglingB (doc : Doc) : Bool := doc.all fun o => o.refs.all (presentB doc)

def checkOKB (objs : List Obj) : Bool := objs.all fun o => o.refs.all (presentB objs)

end GeomV.C18
