import GeomV.C18.Spec
/-!
# C18 model, part 2: the observers of an extraction result (core Lean only)

Go source modelled: encoding/osm/geom.go (`(*Data).Geom`, `nodeToPoint`, `wayToGeom`, `wayIsClosed`,
`wayToPolygon`, `wayToLineString`, `tagsToMap`, the type decision of `relationToGeom`), tags.go
(`(*Data).CountTags`, `CountTags(ctx, rs)`, `Tags.Less`), extract.go (`copyNode/Way/Relation`).

`(*Data).Geom` is the one place outside `extract` that reads the `dependent*` maps: an item is produced for
every stored object that is NOT a registered dependency (`_, ok := o.dependentX[id]; !ok` — the raw map,
not `hasNeedX`).  So what `Geom` returns depends on the need set the workers built, not only on the kept
set; `C18_need_exact` / `C18_observers_schedule_independent` (ProofsObs) show that the need set at the end
is exactly the set of references of the stored objects, whatever the schedule.

Everything here is a function of two lists: the stored objects (`result`) and the roots (`roots`).
-/
namespace GeomV.C18

/-- `Geom`'s test `_, ok := o.dependentX[id]; !ok` on a stored object -/
def isRoot (s : State) (o : Obj) : Bool := s.has o.key && !decide (o.key ∈ s.need)

/-- the stored objects `Geom` makes an item of, in file order -/
def roots (doc : Doc) (s : State) : List Obj := doc.filter (isRoot s)

/-- what an observer gets from `*Data`: the stored objects and `Geom`'s roots -/
def observe (doc : Doc) (s : State) : List Obj × List Obj := (result doc s, roots doc s)

/-- `extract` observed at the stored objects AND at the roots -/
def extractObs (fos : Bool) (k : Keep) (W : Nat) (doc : Doc) (sched : List (List Nat)) :
    Except Fault (List Obj × List Obj) :=
  (runG ⟨fos, k, W⟩ doc (sched.map fun ch => (doc, ch))).map (observe doc)

/-- Spec of the roots, from the stored objects alone: stored and referenced by no stored object -/
def specRoots (kept : List Obj) : List Obj :=
  kept.filter fun o => !(kept.any fun o' => o'.refs.contains o.key)

/-! ## geometry items -/

/-- `nodes[id]` + `nodeToPoint`: position of a stored node, `none` when absent (the point is skipped) -/
def nodeAt (kept : List Obj) (r : Ref) : Option (Int × Int) :=
  (kept.find? fun o => o.key == r).map fun o => (o.x, o.y)

/-- `wayToLineString` / ring of `wayToPolygon`: the positions of the way's nodes that are stored -/
def wayPoints (kept : List Obj) (w : Obj) : List (Int × Int) := w.refs.filterMap (nodeAt kept)

/-- `wayIsClosed`: `way.Nodes[0] == way.Nodes[len-1]` (ids); callers guard `len > 0` -/
def wayClosed (w : Obj) : Bool :=
  match w.refs.head?, w.refs.getLast? with
  | some a, some b => a == b
  | _, _ => false

inductive RelKind | pg | ml | mp | gc
deriving DecidableEq, Repr

/-- the type decision of `relationToGeom`: all members closed stored non-empty ways → Polygon (also for
no members at all); all members ways otherwise → MultiLineString; all nodes → MultiPoint; else collection -/
def relKind (kept : List Obj) (r : Obj) : RelKind :=
  let isPoly := fun (m : Ref) => m.kind == .way &&
    match kept.find? (fun o => o.key == m) with
    | some w => !w.refs.isEmpty && wayClosed w
    | none => false
  let nPoly := (r.refs.filter isPoly).length
  let nLine := (r.refs.filter fun m => m.kind == .way && !isPoly m).length
  let nNode := (r.refs.filter fun m => m.kind == .node).length
  if nPoly == r.refs.length then .pg
  else if nLine == r.refs.length then .ml
  else if nNode == r.refs.length then .mp
  else .gc

/-- `tagsToMap`: values grouped by key in order of occurrence (keys listed in order of first occurrence;
the Go map has no order — the driver prints keys sorted) -/
def tagsToMap (tags : List (Nat × Nat)) : List (Nat × List Nat) :=
  tags.foldl (fun m t =>
    if m.any (fun e => e.1 == t.1) then m.map fun e => if e.1 == t.1 then (e.1, e.2 ++ [t.2]) else e
    else m ++ [(t.1, [t.2])]) []

inductive GItem
  | node (x y : Int) (tags : List (Nat × List Nat))
  | line (pts : List (Int × Int)) (tags : List (Nat × List Nat))
  | poly (ring : List (Int × Int)) (tags : List (Nat × List Nat))
  | rel (kind : RelKind) (tags : List (Nat × List Nat))
deriving DecidableEq, Repr

inductive Fault2 | indexOutOfRange
deriving DecidableEq, Repr

/-- the rings `relationToPolygon` hands to `op.FixOrientation`: one per member way, made of the positions of
the way's stored nodes -/
def relRings (kept : List Obj) (r : Obj) : List (List (Int × Int)) :=
  r.refs.filterMap fun m => (kept.find? fun o => o.key == m).map (wayPoints kept)

/-- does `relationToGeom(r, …, idStack)` panic?  Returns the answer and the `idStack` afterwards (ONE Go map
shared by the whole recursion below a root; the root itself is not entered in it, so a self-reference is
followed once).  Polygon: `op.FixOrientation` → `orientation` indexes `r[0]` and `r[len(r)-2]` of every
ring, so a ring with fewer than two points (a one-node way, a way none of whose nodes is stored) is an
index-out-of-range panic.  Collection: member relations not yet on the stack are entered on it and
converted recursively (absent ones are skipped); ways and nodes cannot panic. -/
def relWalk (kept : List Obj) : Nat → Obj → List Ref → Bool × List Ref
  | 0, _, st => (false, st)
  | f+1, r, st =>
    match relKind kept r with
    | .pg => ((relRings kept r).any (fun ring => ring.length < 2), st)
    | .gc => r.refs.foldl (fun (acc : Bool × List Ref) m =>
        if acc.1 then acc
        else if m.kind != .rel then acc
        else if acc.2.contains m then acc
        else match kept.find? (fun o => o.key == m) with
          | none => (false, m :: acc.2)
          | some r' => relWalk kept f r' (m :: acc.2)) (false, st)
    | _ => (false, st)

/-- `(*Data).Geom`: relations, ways (only those with at least one node id), nodes among the roots; a panic
while converting any root relation is a panic of the whole call (quirk carried by the model, see `relWalk`) -/
def geomItems (kept rts : List Obj) : Except Fault2 (List GItem) :=
  if rts.any (fun o => o.key.kind == .rel && (relWalk kept (kept.length + 1) o []).1) then
    .error .indexOutOfRange
  else .ok <| rts.filterMap fun o =>
    match o.key.kind with
    | .rel => some (.rel (relKind kept o) (tagsToMap o.tags))
    | .way =>
      if o.refs.isEmpty then none
      else if wayClosed o then some (.poly (wayPoints kept o) (tagsToMap o.tags))
      else some (.line (wayPoints kept o) (tagsToMap o.tags))
    | .node => some (.node o.x o.y (tagsToMap o.tags))

/-! ## CountTags -/

structure TagCount where
  key : Nat
  val : Nat
  total : Nat
  node : Nat
  closedWay : Nat
  openWay : Nat
  rel : Nat
deriving DecidableEq, Repr

inductive OType | node | closedWay | openWay | rel
deriving DecidableEq, Repr

/-- the `ObjectType` under which the tags of `o` are counted; `wayIsClosed` is called UNGUARDED on every
way (also one without tags), so a way without node ids is `index out of range [0] with length 0` -/
def otype (o : Obj) : Except Fault2 OType :=
  match o.key.kind with
  | .node => .ok .node
  | .rel => .ok .rel
  | .way => if o.refs.isEmpty then .error .indexOutOfRange else .ok (if wayClosed o then .closedWay else .openWay)

def TagCount.bump (t : TagCount) : OType → TagCount
  | .node => { t with total := t.total + 1, node := t.node + 1 }
  | .closedWay => { t with total := t.total + 1, closedWay := t.closedWay + 1 }
  | .openWay => { t with total := t.total + 1, openWay := t.openWay + 1 }
  | .rel => { t with total := t.total + 1, rel := t.rel + 1 }

/-- `addTag` -/
def addTag (tab : List TagCount) (k v : Nat) (ty : OType) : List TagCount :=
  if tab.any (fun t => t.key == k && t.val == v) then
    tab.map fun t => if t.key == k && t.val == v then t.bump ty else t
  else tab ++ [(TagCount.mk k v 0 0 0 0 0).bump ty]

/-- the strings the harness renders tag codes as; `Tags.Less` compares these -/
def keyStr (k : Nat) : String := "k" ++ toString k
/-- value code 0 is the EMPTY tag value (`<tag k="k1" v=""/>`) -/
def valStr (v : Nat) : String := if v = 0 then "" else "v" ++ toString v

/-- `Tags.Less` -/
def tagLess (a b : TagCount) : Bool :=
  if a.total < b.total then true
  else if a.total > b.total then false
  else if keyStr a.key < keyStr b.key then true
  else if keyStr a.key > keyStr b.key then false
  else valStr a.val < valStr b.val

/-- `CountTags`: count over the given objects (stored objects for the method, the whole file for the
function), then `sort.Sort(sort.Reverse(&tagList))` (no two rows compare equal: (key, value) is unique) -/
def countTags (objs : List Obj) : Except Fault2 (List TagCount) := do
  let tab ← objs.foldlM (fun tab o => do
    let ty ← otype o
    pure (o.tags.foldl (fun tab t => addTag tab t.1 t.2 ty) tab)) []
  pure (tab.mergeSort fun a b => tagLess b a)

/-! ## copies made by `extract` (`copyNode`, `copyWay`, `copyRelation`) -/

/-- the stored copy of `o`: id, position / node ids / members always; tags only when `keepTags` -/
def copyObj (keepTags : Bool) (o : Obj) : Obj := if keepTags then o else { o with tags := [] }

/-! ## cancelled extraction -/

/-- `extract` whose context is cancelled by the `n`-th rewind of the input (`n ≥ 1`; `i` = passes already
made): the scanner created after that rewind yields nothing and `scanner.Err()` is `ctx.Err()`, so `extract`
returns `nil, err` — modelled as `.ok none`; `.ok (some s)` is a normal return with `*Data = s`. -/
def loopGC (e : Env) (doc : Doc) (n : Nat) : Nat → Nat → List (List Obj × List Nat) → State → Except Fault (Option State)
  | 0, _, _, _ => .error .fuel
  | f+1, i, ps, s =>
    if i + 1 = n then .ok none
    else
      let p := nextPass doc ps
      let c := runPass e p.1 p.2 s
      if c.st.flag then loopGC e doc n f (i + 1) ps.tail c.st else .ok (some c.st)

def extractCancelRun (k : Keep) (W : Nat) (doc : Doc) (n : Nat) (sched : List (List Nat)) :
    Except Fault (Option (List Obj)) :=
  (loopGC ⟨true, k, W⟩ doc n (passFuel doc) 0 (sched.map fun ch => (doc, ch)) State.init).map
    (Option.map (result doc))

end GeomV.C18
