import GeomV.C18.Spec
/-!
# C18 lemmas, part 1: the specification (closure iteration) and the transition relation
-/
set_option linter.unusedSimpArgs false
set_option linter.unusedVariables false
namespace GeomV.C18

/-! ## Spec: Bool ↔ Prop bridges -/

theorem presentB_iff (doc : Doc) (r : Ref) : presentB doc r = true ↔ Present doc r := by
  simp [presentB, Present]

theorem sel_iff (k : Keep) (S : List Ref) (o : Obj) :
    k.sel (fun r => decide (r ∈ S)) o = true ↔ Selects k (· ∈ S) o := by
  simp [Keep.sel, Selects]

theorem Selects.mono {k : Keep} {C C' : Ref → Prop} (h : ∀ r, C r → C' r) {o : Obj} :
    Selects k C o → Selects k C' o := by
  rintro (hb | ⟨hd, r, hr, hc⟩)
  · exact .inl hb
  · exact .inr ⟨hd, r, hr, h r hc⟩

/-- the Kleene iteration never leaves a closed set -/
theorem closeStep_sub {doc : Doc} {k : Keep} {C : Ref → Prop} (hC : Closed doc k C)
    {S : List Ref} (hS : ∀ r ∈ S, C r) : ∀ r ∈ closeStep doc k S, C r := by
  intro r hr
  simp only [closeStep, List.mem_append, List.mem_map, List.mem_filter, List.mem_flatMap] at hr
  rcases hr with (⟨o, ⟨ho, hsel⟩, rfl⟩ | ⟨⟨o, ⟨ho, hk⟩, hro⟩, hp⟩) | hr
  · exact hC.sel o ho (((sel_iff k S o).1 hsel).mono hS)
  · exact hC.refs o ho (hS _ (by simpa using hk)) r hro ((presentB_iff doc r).1 hp)
  · exact hS r hr

theorem closureIter_sub {doc : Doc} {k : Keep} {C : Ref → Prop} (hC : Closed doc k C) :
    ∀ (n : Nat) (S : List Ref), (∀ r ∈ S, C r) → ∀ r ∈ closureIter doc k n S, C r
  | 0, S, hS => hS
  | n+1, S, hS => closureIter_sub hC n _ (closeStep_sub hC hS)

/-- `closure` is below every closed set -/
theorem closure_least (doc : Doc) (k : Keep) (C : Ref → Prop) (hC : Closed doc k C) :
    ∀ r ∈ closure doc k, C r :=
  closureIter_sub hC _ [] (by simp)

/-- the run-time check `closedB` (evaluated by the judge on every case) is `Closed` -/
theorem closure_closed (doc : Doc) (k : Keep) (S : List Ref) (h : closedB doc k S = true) :
    Closed doc k (· ∈ S) := by
  simp only [closedB, List.all_eq_true, Bool.and_eq_true, Bool.or_eq_true, Bool.not_eq_true',
    decide_eq_true_eq, decide_eq_false_iff_not] at h
  constructor
  · intro o ho hs
    rcases (h o ho).1 with h1 | h1
    · have := (sel_iff k S o).2 hs; simp [this] at h1
    · exact h1
  · intro o ho hk r hr hp
    rcases (h o ho).2 with h1 | h1
    · exact absurd hk h1
    · rcases h1 r hr with h2 | h2
      · have := (presentB_iff doc r).2 hp; simp [this] at h2
      · exact h2

/-- when the check succeeds, `closure` IS the least closed set -/
theorem closure_isLeast (doc : Doc) (k : Keep) (h : closedB doc k (closure doc k) = true) :
    IsLeastClosed doc k (· ∈ closure doc k) :=
  ⟨closure_closed doc k _ h, fun C hC r hr => closure_least doc k C hC r hr⟩

theorem IsLeastClosed.unique {doc : Doc} {k : Keep} {C C' : Ref → Prop}
    (h : IsLeastClosed doc k C) (h' : IsLeastClosed doc k C') : ∀ r, C r ↔ C' r :=
  fun r => ⟨h.2 C' h'.1 r, h'.2 C h.1 r⟩

/-! ## the atomic transitions as a relation -/

inductive TStep (e : Env) : State → Task → State → Task → Prop
  | startHas {s o} : s.has o.key = true → TStep e s (.start o) s .idle
  | startBase {s o} : s.has o.key = false → e.k.base o = true → TStep e s (.start o) s (.storing o)
  | startDyn {s o} : s.has o.key = false → e.k.base o = false → e.k.dyn o = true →
      TStep e s (.start o) s (mkKeeping o (s.needOf o.key) o.refs)
  | startStat {s o} : s.has o.key = false → e.k.base o = false → e.k.dyn o = false →
      TStep e s (.start o) s (afterKeep o (s.needOf o.key))
  | keepNil {s o need} : TStep e s (.keeping o need []) s (afterKeep o need)
  | keepHit {s o need r rest} : s.has r = true → TStep e s (.keeping o need (r :: rest)) s (.storing o)
  | keepMiss {s o need r rest} : s.has r = false →
      TStep e s (.keeping o need (r :: rest)) s (mkKeeping o need rest)
  | store {s o} : TStep e s (.storing o)
      { s with kept := o.key :: s.kept, flag := s.flag || e.fos } (mkDeps o o.refs)
  | depsNil {s o} : TStep e s (.deps o []) s .idle
  | depsSkip {s o r rest} : s.needOf r = true → TStep e s (.deps o (r :: rest)) s (mkDeps o rest)
  | depsGo {s o r rest} : s.needOf r = false → TStep e s (.deps o (r :: rest)) s (.depWrite o r rest)
  | depWrite {s o r rest} : TStep e s (.depWrite o r rest)
      { s with need := r :: s.need, flag := true } (mkDeps o rest)

theorem stepTask_spec (e : Env) (s : State) (t : Task) (ht : t.isIdle = false) :
    TStep e s t (stepTask e s t).1 (stepTask e s t).2 := by
  cases t with
  | idle => simp [Task.isIdle] at ht
  | start o =>
    simp only [stepTask]
    by_cases h1 : s.has o.key = true
    · simp [h1]; exact .startHas h1
    · have h1' : s.has o.key = false := by simpa using h1
      by_cases h2 : e.k.base o = true
      · simp [h1', h2]; exact .startBase h1' h2
      · have h2' : e.k.base o = false := by simpa using h2
        by_cases h3 : e.k.dyn o = true
        · simp [h1', h2', h3]; exact .startDyn h1' h2' h3
        · have h3' : e.k.dyn o = false := by simpa using h3
          simp [h1', h2', h3']; exact .startStat h1' h2' h3'
  | keeping o need rest =>
    cases rest with
    | nil => simp only [stepTask]; exact .keepNil
    | cons r rest =>
      simp only [stepTask]
      by_cases h1 : s.has r = true
      · simp [h1]; exact .keepHit h1
      · have h1' : s.has r = false := by simpa using h1
        simp [h1']; exact .keepMiss h1'
  | storing o => simp only [stepTask]; exact .store
  | deps o rest =>
    cases rest with
    | nil => simp only [stepTask]; exact .depsNil
    | cons r rest =>
      simp only [stepTask]
      by_cases h1 : s.needOf r = true
      · simp [h1]; exact .depsSkip h1
      · have h1' : s.needOf r = false := by simpa using h1
        simp [h1']; exact .depsGo h1'
  | depWrite o r rest => simp only [stepTask]; exact .depWrite

/-- one scheduler step: a dequeue or an atomic task step of one worker -/
inductive PStep (e : Env) : PCfg → PCfg → Prop
  | deq {c : PCfg} {w o q} : w < e.W → (c.ws w).isIdle = true → c.queue = o :: q →
      PStep e c { c with queue := q, ws := setW c.ws w (.start o) }
  | task {c : PCfg} {w t s' t'} : w < e.W → c.ws w = t → TStep e c.st t s' t' →
      PStep e c { c with st := s', ws := setW c.ws w t' }

theorem pstep_spec (e : Env) (w : Nat) (c : PCfg) : pstep e w c = c ∨ PStep e c (pstep e w c) := by
  unfold pstep
  by_cases hw : w < e.W
  · simp only [hw, if_true]
    by_cases hi : (c.ws w).isIdle = true
    · simp only [hi, if_true]
      cases hq : c.queue with
      | nil => left; rfl
      | cons o q => right; exact .deq hw hi hq
    · have hi' : (c.ws w).isIdle = false := by simpa using hi
      simp only [hi', Bool.false_eq_true, if_false]
      right; exact .task hw rfl (stepTask_spec e c.st _ hi')
  · simp [hw]

/-- anything preserved by `PStep` is preserved by a whole pass -/
theorem finishW_ind {e : Env} {I : PCfg → Prop} (hI : ∀ c c', PStep e c c' → I c → I c')
    (w : Nat) : ∀ (n : Nat) (c : PCfg), I c → I (finishW e w n c)
  | 0, c, h => h
  | n+1, c, h => by
    unfold finishW
    split
    · exact h
    · refine finishW_ind hI w n _ ?_
      rcases pstep_spec e w c with h' | h'
      · rw [h']; exact h
      · exact hI _ _ h' h

theorem pstep_ind {e : Env} {I : PCfg → Prop} (hI : ∀ c c', PStep e c c' → I c → I c')
    (w : Nat) (c : PCfg) (h : I c) : I (pstep e w c) := by
  rcases pstep_spec e w c with h' | h'
  · rw [h']; exact h
  · exact hI _ _ h' h

theorem foldl_ind {α : Type} {I : PCfg → Prop} (f : PCfg → α → PCfg) (hf : ∀ c a, I c → I (f c a)) :
    ∀ (l : List α) (c : PCfg), I c → I (l.foldl f c)
  | [], c, h => h
  | a :: l, c, h => foldl_ind f hf l _ (hf c a h)

theorem drainQueue_ind {e : Env} {I : PCfg → Prop} (hI : ∀ c c', PStep e c c' → I c → I c') :
    ∀ (q : List Obj) (c : PCfg), I c → I (drainQueue e q c)
  | [], c, h => h
  | o :: q, c, h => drainQueue_ind hI q _ (finishW_ind hI 0 _ _ (pstep_ind hI 0 c h))

theorem runPass_ind {e : Env} {I : PCfg → Prop} (hI : ∀ c c', PStep e c c' → I c → I c')
    (order : List Obj) (ch : List Nat) (s : State) (h : I (startPass order s)) :
    I (runPass e order ch s) := by
  unfold runPass
  refine drainQueue_ind hI _ _ ?_
  unfold drainWorkers
  refine foldl_ind _ (fun c w hc => finishW_ind hI w _ c hc) _ _ ?_
  unfold runChoices
  exact foldl_ind _ (fun c w hc => pstep_ind hI w c hc) _ _ h

end GeomV.C18
