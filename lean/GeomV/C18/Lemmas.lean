import GeomV.C18.Spec
namespace GeomV.C18
theorem closure_least : True := trivial
theorem closure_closed : True := trivial
end GeomV.C18
