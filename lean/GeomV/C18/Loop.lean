import GeomV.C18.Inv
/-!
# C18 lemmas, part 4: from one pass to the whole loop
-/
set_option linter.unusedSimpArgs false
set_option linter.unusedVariables false
namespace GeomV.C18

theorem closed_univ (doc : Doc) (k : Keep) : Closed doc k (fun _ => True) :=
  ⟨fun _ _ _ => trivial, fun _ _ _ _ _ _ => trivial⟩

theorem nextPass_mem (doc : Doc) (ps : List (List Obj × List Nat)) :
    ∀ o, o ∈ (nextPass doc ps).1 ↔ o ∈ doc := by
  intro o
  cases ps with
  | nil => simp [nextPass]
  | cons p ps =>
    simp only [nextPass]
    split
    · rename_i h
      simp only [sameMem, Bool.and_eq_true, List.all_eq_true, decide_eq_true_eq] at h
      exact ⟨h.1 o, h.2 o⟩
    · simp

/-- what holds of the state between passes -/
structure LInv (doc : Doc) (C : Ref → Prop) (s : State) : Prop where
  sound : SState doc C s
  reg : ∀ o ∈ doc, o.key ∈ s.kept → Registered s o

theorem LInv.init (doc : Doc) (C : Ref → Prop) : LInv doc C State.init :=
  ⟨⟨by simp [State.init], by simp [State.init]⟩, by simp [State.init]⟩

/-- everything we know about the configuration at the end of a pass -/
structure PassEnd (e : Env) (doc : Doc) (C : Ref → Prop) (s : State) (c : PCfg) : Prop where
  sinv : SInv doc e.k C c
  ginv : GInv doc c
  pinv : PInv e doc c
  tinv : TInv s.kept c
  queue : c.queue = []
  idle : AllIdle c

theorem passEnd {e : Env} {doc : Doc} {C : Ref → Prop} (hC : Closed doc e.k C) (hm : Mode e)
    (hW : 0 < e.W) (hu : uniqueKeys doc) {order : List Obj} (ho : ∀ o, o ∈ order ↔ o ∈ doc)
    (ch : List Nat) {s : State} (hs : LInv doc C s) : PassEnd e doc C s (runPass e order ch s) := by
  have hfin := runPass_final e hW order ch s
  have h1 : SInv doc e.k C (runPass e order ch s) ∧ GInv doc (runPass e order ch s) := by
    refine runPass_ind (I := fun c => SInv doc e.k C c ∧ GInv doc c) ?_ order ch s ?_
    · intro c c' hstep hI
      refine ⟨SInv.step hC c c' hstep hI.1, GInv.step hu c c' hstep ?_ hI.2⟩
      intro i o hio
      have := hI.1.tasks i
      rw [hio] at this
      exact this.1
    · refine ⟨SInv.start ⟨hs.sound.kept, hs.sound.need⟩ (fun o h => (ho o).1 h), ?_⟩
      intro o hod hk
      exact .inl (hs.reg o hod hk)
  have h2 : PInv e doc (runPass e order ch s) := by
    refine runPass_ind (I := PInv e doc) (PInv.step hm doc) order ch s ?_
    intro _ o hod
    exact .inl ((ho o).2 hod)
  have h3 : TInv s.kept (runPass e order ch s) := by
    refine runPass_ind (I := TInv s.kept) (TInv.step s.kept) order ch s ?_
    exact ⟨fun r hr => hr, fun h => by simp [startPass] at h, fun _ => trivial⟩
  exact ⟨h1.1, h1.2, h2, h3, hfin.1, hfin.2⟩

theorem PassEnd.linv {e : Env} {doc : Doc} {C : Ref → Prop} {s : State} {c : PCfg}
    (h : PassEnd e doc C s c) : LInv doc C c.st := by
  refine ⟨h.sinv.state, fun o ho hk => ?_⟩
  rcases h.ginv o ho hk with hr | ⟨i, hi⟩
  · exact hr
  · have := h.idle i
    cases hti : c.ws i <;> simp [hti, Task.isIdle, InFlight] at this hi

/-- a pass that leaves the flag down ends in a closed set -/
theorem PassEnd.closed {e : Env} {doc : Doc} {C : Ref → Prop} {s : State} {c : PCfg}
    (h : PassEnd e doc C s c) (hf : c.st.flag = false) : Closed doc e.k (· ∈ c.st.kept) := by
  have done : ∀ o ∈ doc, Done e c.st o := by
    intro o ho
    rcases h.pinv hf o ho with hq | ⟨i, hi⟩ | hd
    · simp [h.queue] at hq
    · have := h.idle i
      cases hti : c.ws i <;> simp [hti, Task.isIdle, Busy] at this hi
    · exact hd
  have hl := h.linv
  constructor
  · intro o ho hsel
    rcases done o ho with hd | ⟨hd, _⟩
    · exact (has_iff _ _).1 hd
    · have : e.k.sel c.st.has o = true := (sel_iff e.k c.st.kept o).2 hsel
      simp [this] at hd
  · intro o ho hk r hr hp
    have hn : r ∈ c.st.need := hl.reg o ho hk r hr
    obtain ⟨o', ho', rfl⟩ := hp
    rcases done o' ho' with hd | ⟨_, hd⟩
    · exact (has_iff _ _).1 hd
    · exact (needOf_false_iff _ _).1 hd hn

/-- number of document objects not yet stored -/
def mu (doc : Doc) (s : State) : Nat := (doc.filter fun o => !s.has o.key).length

theorem filter_length_lt {α : Type} (p q : α → Bool) (hpq : ∀ x, q x = true → p x = true) :
    ∀ (l : List α), (∃ x ∈ l, p x = true ∧ q x = false) → (l.filter q).length < (l.filter p).length
  | [], h => by simp at h
  | a :: l, h => by
    have hle : ∀ (l : List α), (l.filter q).length ≤ (l.filter p).length := by
      intro l
      induction l with
      | nil => simp
      | cons b l ih =>
        simp only [List.filter_cons]
        by_cases hq : q b = true
        · simp [hq, hpq b hq]; exact ih
        · by_cases hp : p b = true
          · simp [hq, hp]; omega
          · simp [hq, hp]; exact ih
    obtain ⟨x, hx, hpx, hqx⟩ := h
    simp only [List.filter_cons]
    rcases List.mem_cons.1 hx with rfl | hx
    · have := hle l
      simp [hpx, hqx]; omega
    · have ih := filter_length_lt p q hpq l ⟨x, hx, hpx, hqx⟩
      by_cases hq : q a = true
      · simp [hq, hpq a hq]; exact ih
      · by_cases hp : p a = true
        · simp [hq, hp]; omega
        · simp [hq, hp]; exact ih

theorem PassEnd.mu_lt {e : Env} {doc : Doc} {C : Ref → Prop} {s : State} {c : PCfg}
    (h : PassEnd e doc C s c) (hf : c.st.flag = true) : mu doc c.st < mu doc s := by
  obtain ⟨r, hr, hr0⟩ := h.tinv.grow hf
  obtain ⟨o, ho, rfl⟩ := (h.sinv.state.kept r hr).2
  refine filter_length_lt _ _ ?_ doc ⟨o, ho, ?_, ?_⟩
  · intro x hx
    simp only [Bool.not_eq_true', has_false_iff] at hx ⊢
    exact fun hk => hx (h.tinv.sub _ hk)
  · simpa [State.has] using hr0
  · simpa [State.has] using hr

theorem mu_le (doc : Doc) (s : State) : mu doc s ≤ doc.length := List.length_filter_le _ _

/-- the loop: invariants are kept, it ends in a closed set, and it ends -/
theorem loopG_spec {e : Env} {doc : Doc} {C : Ref → Prop} (hC : Closed doc e.k C) (hm : Mode e)
    (hW : 0 < e.W) (hu : uniqueKeys doc) :
    ∀ (n : Nat) (ps : List (List Obj × List Nat)) (s : State), LInv doc C s → mu doc s < n →
      ∃ s', loopG e doc n ps s = .ok s' ∧ LInv doc C s' ∧ Closed doc e.k (· ∈ s'.kept)
  | 0, _, _, _, h => by omega
  | n+1, ps, s, hs, hmu => by
    have hp := passEnd hC hm hW hu (nextPass_mem doc ps) (nextPass doc ps).2 hs
    simp only [loopG]
    by_cases hf : (runPass e (nextPass doc ps).1 (nextPass doc ps).2 s).st.flag = true
    · simp only [hf, if_true]
      exact loopG_spec hC hm hW hu n ps.tail _ hp.linv (by have := hp.mu_lt hf; omega)
    · have hf' : (runPass e (nextPass doc ps).1 (nextPass doc ps).2 s).st.flag = false := by
        simpa using hf
      simp only [hf', Bool.false_eq_true, if_false]
      exact ⟨_, rfl, hp.linv, hp.closed hf'⟩

theorem runG_spec {e : Env} {doc : Doc} {C : Ref → Prop} (hC : Closed doc e.k C) (hm : Mode e)
    (hW : 0 < e.W) (hu : uniqueKeys doc) (ps : List (List Obj × List Nat)) :
    ∃ s', runG e doc ps = .ok s' ∧ LInv doc C s' ∧ Closed doc e.k (· ∈ s'.kept) :=
  loopG_spec hC hm hW hu _ ps _ (LInv.init doc C) (by have := mu_le doc State.init; simp [passFuel]; omega)

/-- the loop returns the least closed set -/
theorem runG_least {e : Env} {doc : Doc} (hm : Mode e) (hW : 0 < e.W) (hu : uniqueKeys doc)
    (ps : List (List Obj × List Nat)) :
    ∃ s, runG e doc ps = .ok s ∧ IsLeastClosed doc e.k (· ∈ s.kept) := by
  obtain ⟨s, hs, _, hcl⟩ := runG_spec (closed_univ doc e.k) hm hW hu ps
  refine ⟨s, hs, hcl, fun C' hC' r hr => ?_⟩
  obtain ⟨s', hs', hl, _⟩ := runG_spec hC' hm hW hu ps
  rw [hs] at hs'
  cases hs'
  exact (hl.sound.kept r hr).1

end GeomV.C18
