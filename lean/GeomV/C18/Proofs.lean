import GeomV.C18.Lemmas
