import GeomV.C18.Loop
/-!
# C18 — property theorems (interleaving model of encoding/osm extract / Filter / Check)

Quantifiers: every document `doc : List Obj` (any element order, any reference structure – shared
nodes, cycles, relations of relations, dangling references), every keep function of the shape
`base o || (dyn o && one of o's references is already kept)` (KeepTags, KeepAll, KeepBounds are
instances), every number of workers `W ≥ 1`, every schedule (a list of scheduler choices per pass;
each atomic step = one lock-protected region of extract.go).  No bound on sizes.

* `closure_least`, `closure_closed`   the executable spec `closure` used by the judge: below every
                                      closed set, and closed whenever the run-time check says so.
* `C18_sound`                 every configuration reachable under ANY interleaving (also with the
                              original loop condition) has kept ⊆ every closed set (⊆ the closure).
* `C18_complete`              fixed `extract` terminates and returns exactly the least closed set.
* `C18_terminates`            ... within `|doc| + 2` passes (the fuel is never exhausted).
* `C18_schedule_independent`  the result does not depend on the schedule nor on `W` (GOMAXPROCS).
* `C18_check`                 no dangling reference in the document → `Check` passes on the result.
* `C18_filter`                `Filter` (original loop condition, Go map order = any order per pass) with a
                              state-independent keep function (by tags, keep-all): terminates, returns a
                              sub-list of its input that is the least closed set, hence closed under
                              references; independent of map order; idempotent.
* `C18_original_condition_incomplete_seq / _par`  the negation for the loop condition before the
                              fix: concrete document + schedule where `extract` stops early.
-/
set_option linter.unusedSimpArgs false
set_option linter.unusedVariables false
namespace GeomV.C18

/-! ## soundness over all reachable configurations -/

/-- configurations reachable by `extract`/`Filter` under any interleaving and any pass orders -/
inductive Reach (e : Env) (doc : Doc) : PCfg → Prop
  | init (order : List Obj) : (∀ o, o ∈ order ↔ o ∈ doc) → Reach e doc (startPass order State.init)
  | step {c c' : PCfg} : Reach e doc c → PStep e c c' → Reach e doc c'
  | next {c : PCfg} (order : List Obj) : (∀ o, o ∈ order ↔ o ∈ doc) → Reach e doc c →
      c.queue = [] → AllIdle c → c.st.flag = true → Reach e doc (startPass order c.st)

theorem Reach.sinv {e : Env} {doc : Doc} {C : Ref → Prop} (hC : Closed doc e.k C) {c : PCfg}
    (h : Reach e doc c) : SInv doc e.k C c := by
  induction h with
  | init order ho => exact SInv.start ⟨by simp [State.init], by simp [State.init]⟩ (fun o h => (ho o).1 h)
  | step _ hs ih => exact SInv.step hC _ _ hs ih
  | next order ho _ _ _ _ ih => exact SInv.start ⟨ih.state.kept, ih.state.need⟩ (fun o h => (ho o).1 h)

/-- **C18_sound** (clause "returns … the least set": nothing outside it is ever stored).  For every
loop condition, keep function, worker count and interleaving, every reachable kept set is inside
every closed set — in particular inside the closure — and consists of objects of the document. -/
theorem C18_sound (e : Env) (doc : Doc) (c : PCfg) (h : Reach e doc c)
    (C : Ref → Prop) (hC : Closed doc e.k C) : ∀ r ∈ c.st.kept, C r ∧ Present doc r :=
  (h.sinv hC).state.kept

/-- the passes executed by `runG` are reachable configurations (so `C18_sound` speaks about them) -/
theorem loopG_reach {e : Env} {doc : Doc} (hW : 0 < e.W) :
    ∀ (n : Nat) (ps : List (List Obj × List Nat)) (s s' : State),
      Reach e doc (startPass (nextPass doc ps).1 s) → loopG e doc n ps s = .ok s' →
      ∃ c, Reach e doc c ∧ c.st = s'
  | 0, _, _, _, _, h => by simp [loopG] at h
  | n+1, ps, s, s', hr, h => by
    simp only [loopG] at h
    have hr' : Reach e doc (runPass e (nextPass doc ps).1 (nextPass doc ps).2 s) :=
      runPass_ind (I := Reach e doc) (fun c c' hs hc => hc.step hs) _ _ _ hr
    have hfin := runPass_final e hW (nextPass doc ps).1 (nextPass doc ps).2 s
    by_cases hf : (runPass e (nextPass doc ps).1 (nextPass doc ps).2 s).st.flag = true
    · simp only [hf, if_true] at h
      exact loopG_reach hW n ps.tail _ s'
        (Reach.next _ (nextPass_mem doc ps.tail) hr' hfin.1 hfin.2 hf) h
    · have hf' : (runPass e (nextPass doc ps).1 (nextPass doc ps).2 s).st.flag = false := by
        simpa using hf
      simp only [hf', Bool.false_eq_true, if_false] at h
      cases h
      exact ⟨_, hr', rfl⟩

theorem C18_sound_run (e : Env) (hW : 0 < e.W) (doc : Doc) (ps : List (List Obj × List Nat))
    (s : State) (h : runG e doc ps = .ok s) (C : Ref → Prop) (hC : Closed doc e.k C) :
    ∀ r ∈ s.kept, C r ∧ Present doc r := by
  obtain ⟨c, hc, rfl⟩ := loopG_reach hW _ ps _ s (Reach.init _ (nextPass_mem doc ps)) h
  exact C18_sound e doc c hc C hC

/-! ## completeness, termination, schedule independence -/

theorem extractRun_eq {fos : Bool} {k : Keep} {W : Nat} {doc : Doc} {sched : List (List Nat)}
    {s : State} (h : runG ⟨fos, k, W⟩ doc (sched.map fun ch => (doc, ch)) = .ok s) :
    extractRun fos k W doc sched = .ok (doc.filter fun o => decide (o.key ∈ s.kept)) := by
  simp [extractRun, h, Except.map, result, State.has]

/-- **C18_complete** (clause "returns exactly the least set that contains every selected object and
everything they reference, transitively").  The fixed `extract` (a store requests another pass)
terminates and its result is the document filtered by THE least closed set, for every keep function
of the modelled shape, every `W ≥ 1` and every schedule. -/
theorem C18_complete (k : Keep) (W : Nat) (hW : 0 < W) (doc : Doc) (hu : uniqueKeys doc)
    (sched : List (List Nat)) :
    ∃ K : List Ref, IsLeastClosed doc k (· ∈ K) ∧
      extractRun true k W doc sched = .ok (doc.filter fun o => decide (o.key ∈ K)) := by
  obtain ⟨s, hs, hl⟩ := runG_least (e := ⟨true, k, W⟩) (.inl rfl) hW hu (sched.map fun ch => (doc, ch))
  exact ⟨s.kept, hl, extractRun_eq hs⟩

/-- the same for the ORIGINAL loop condition when the keep function does not read the state
(KeepTags, KeepAll): those were complete before the fix as well. -/
theorem C18_complete_static (k : Keep) (hk : Static k) (W : Nat) (hW : 0 < W) (doc : Doc)
    (hu : uniqueKeys doc) (sched : List (List Nat)) :
    ∃ K : List Ref, IsLeastClosed doc k (· ∈ K) ∧
      extractRun false k W doc sched = .ok (doc.filter fun o => decide (o.key ∈ K)) := by
  obtain ⟨s, hs, hl⟩ := runG_least (e := ⟨false, k, W⟩) (.inr hk) hW hu (sched.map fun ch => (doc, ch))
  exact ⟨s.kept, hl, extractRun_eq hs⟩

/-- **C18_terminates**: the pass loop of the fixed `extract` never needs more than `|doc| + 2`
passes (the model's fuel is not exhausted), whatever the schedule. -/
theorem C18_terminates (k : Keep) (W : Nat) (hW : 0 < W) (doc : Doc) (hu : uniqueKeys doc)
    (sched : List (List Nat)) : ∃ r, extractRun true k W doc sched = .ok r := by
  obtain ⟨K, _, h⟩ := C18_complete k W hW doc hu sched
  exact ⟨_, h⟩

theorem filter_least_eq {doc : Doc} {k : Keep} {K K' : List Ref}
    (h : IsLeastClosed doc k (· ∈ K)) (h' : IsLeastClosed doc k (· ∈ K')) :
    (doc.filter fun o => decide (o.key ∈ K)) = doc.filter fun o => decide (o.key ∈ K') := by
  apply List.filter_congr
  intro o _
  have := h.unique h' o.key
  simp [this]

/-- **C18_schedule_independent** (clause "does not depend on goroutine interleaving or GOMAXPROCS").
Any two runs of the fixed `extract` on the same document and keep function — different worker counts,
different schedules — return the same value. -/
theorem C18_schedule_independent (k : Keep) (doc : Doc) (hu : uniqueKeys doc)
    (W₁ W₂ : Nat) (h₁ : 0 < W₁) (h₂ : 0 < W₂) (s₁ s₂ : List (List Nat)) :
    extractRun true k W₁ doc s₁ = extractRun true k W₂ doc s₂ := by
  obtain ⟨K₁, hl₁, e₁⟩ := C18_complete k W₁ h₁ doc hu s₁
  obtain ⟨K₂, hl₂, e₂⟩ := C18_complete k W₂ h₂ doc hu s₂
  rw [e₁, e₂, filter_least_eq hl₁ hl₂]

/-! ## Check -/

theorem check_of_closed {doc : Doc} {k : Keep} {K : List Ref} (hcl : Closed doc k (· ∈ K))
    (hd : noDangling doc) : check (doc.filter fun o => decide (o.key ∈ K)) = true := by
  simp only [check, List.all_eq_true, List.any_eq_true, List.mem_filter, decide_eq_true_eq,
    beq_iff_eq]
  rintro o ⟨ho, hk⟩ r hr
  have hp := hd o ho r hr
  have hrK := hcl.refs o ho hk r hr hp
  obtain ⟨o', ho', rfl⟩ := hp
  exact ⟨o', ⟨ho', hrK⟩, rfl⟩

/-- **C18_check** (clause "the result passes Check whenever the document itself has no dangling
references"), for every schedule and worker count. -/
theorem C18_check (k : Keep) (W : Nat) (hW : 0 < W) (doc : Doc) (hu : uniqueKeys doc)
    (hd : noDangling doc) (sched : List (List Nat)) :
    ∃ r, extractRun true k W doc sched = .ok r ∧ check r = true := by
  obtain ⟨K, hl, h⟩ := C18_complete k W hW doc hu sched
  exact ⟨_, h, check_of_closed hl.1 hd⟩

/-! ## Filter -/

theorem filterRun_eq {k : Keep} {d : List Obj} {orders : List (List Obj)} {s : State}
    (h : runG ⟨false, k, 1⟩ d (orders.map fun o => (o, [])) = .ok s) :
    filterRun k d orders = .ok (d.filter fun o => decide (o.key ∈ s.kept)) := by
  simp [filterRun, h, Except.map, result, State.has]

theorem filterRun_least (k : Keep) (hk : Static k) (d : List Obj) (hu : uniqueKeys d)
    (orders : List (List Obj)) :
    ∃ K : List Ref, IsLeastClosed d k (· ∈ K) ∧
      filterRun k d orders = .ok (d.filter fun o => decide (o.key ∈ K)) := by
  obtain ⟨s, hs, hl⟩ := runG_least (e := ⟨false, k, 1⟩) (.inr hk) Nat.one_pos hu
    (orders.map fun o => (o, []))
  exact ⟨s.kept, hl, filterRun_eq hs⟩

theorem uniqueKeys_filter {d : List Obj} (hu : uniqueKeys d) (p : Obj → Bool) :
    uniqueKeys (d.filter p) := fun o ho o' ho' h =>
  hu o (List.mem_filter.1 ho).1 o' (List.mem_filter.1 ho').1 h

/-- selecting again from a least closed selection changes nothing (state-independent keep) -/
theorem least_restrict {d : List Obj} {k : Keep} (hk : Static k) {K K' : List Ref}
    (hK : IsLeastClosed d k (· ∈ K))
    (hK' : Closed (d.filter fun o => decide (o.key ∈ K)) k (· ∈ K')) :
    ∀ o ∈ d, o.key ∈ K → o.key ∈ K' := by
  have hcl : Closed d k (fun r => r ∈ K' ∧ r ∈ K) := by
    constructor
    · intro o ho hsel
      have hb : k.base o = true := by
        rcases hsel with hb | ⟨hd, _⟩
        · exact hb
        · simp [hk o] at hd
      have hoK : o.key ∈ K := hK.1.sel o ho (.inl hb)
      exact ⟨hK'.sel o (by simp [ho, hoK]) (.inl hb), hoK⟩
    · rintro o ho ⟨hoK', hoK⟩ r hr hp
      have hrK : r ∈ K := hK.1.refs o ho hoK r hr hp
      refine ⟨hK'.refs o (by simp [ho, hoK]) hoK' r hr ?_, hrK⟩
      obtain ⟨o', ho', rfl⟩ := hp
      exact ⟨o', by simp [ho', hrK], rfl⟩
  intro o ho hoK
  exact (hK.2 _ hcl _ hoK).1

/-- **C18_filter** (clause "Filter by tags (or keep-all) is idempotent, closed under references and
never returns more than it was given").  `Filter` is modelled with its own (original) loop
condition and an arbitrary visiting order in every pass (Go map iteration).  For a keep function
that does not read the state and an input `d` with unique ids:
(1) it terminates and returns a sub-list of `d` that is the least closed selection — so it is closed
under the references present in `d`, and passes `Check` when `d` has no dangling reference;
(2) the result does not depend on the map iteration orders;
(3) filtering the result again returns the result. -/
theorem C18_filter (k : Keep) (hk : Static k) (d : List Obj) (hu : uniqueKeys d)
    (orders : List (List Obj)) :
    ∃ f, filterRun k d orders = .ok f ∧ List.Sublist f d ∧
      (∃ K : List Ref, IsLeastClosed d k (· ∈ K) ∧ f = d.filter fun o => decide (o.key ∈ K)) ∧
      (∀ o ∈ f, ∀ r ∈ o.refs, Present d r → Present f r) ∧
      (noDangling d → check f = true) ∧
      (∀ orders', filterRun k d orders' = .ok f) ∧
      (∀ orders', filterRun k f orders' = .ok f) := by
  obtain ⟨K, hl, h⟩ := filterRun_least k hk d hu orders
  refine ⟨_, h, List.filter_sublist, ⟨K, hl, rfl⟩, ?_, check_of_closed hl.1, ?_, ?_⟩
  · intro o ho r hr hp
    simp only [List.mem_filter, decide_eq_true_eq] at ho
    have hrK := hl.1.refs o ho.1 ho.2 r hr hp
    obtain ⟨o', ho', rfl⟩ := hp
    exact ⟨o', by simp [ho', hrK], rfl⟩
  · intro orders'
    obtain ⟨K', hl', h'⟩ := filterRun_least k hk d hu orders'
    rw [h', filter_least_eq hl' hl]
  · intro orders'
    obtain ⟨K', hl', h'⟩ := filterRun_least k hk _ (uniqueKeys_filter hu _) orders'
    rw [h']
    congr 1
    rw [List.filter_eq_self]
    intro o ho
    simp only [List.mem_filter, decide_eq_true_eq] at ho
    simpa using least_restrict hk hl hl'.1 o ho.1 ho.2

/-! ## the provided keep functions select what their documentation says (Spec.KeepSpec) -/

/-- KeepBounds(b) on a node = position in the CLOSED rectangle (edges, corners, one-point and
inverted rectangles included): `b.Overlaps(Point.Bounds())` with its `Empty` guards is exactly that. -/
theorem overlaps_point (b : Rect) (x y : Int) :
    b.overlaps (pointRect x y) = decide (inClosedRect b.minX b.minY b.maxX b.maxY x y) := by
  obtain ⟨a, b', c, d⟩ := b
  rw [Bool.eq_iff_iff]
  show ((!(decide (c < a) || decide (d < b')) && !(decide (x < x) || decide (y < y)) && decide (a ≤ x) &&
      decide (b' ≤ y) && decide (c ≥ x) && decide (d ≥ y)) = true) ↔
    (decide (a ≤ x ∧ x ≤ c ∧ b' ≤ y ∧ y ≤ d) = true)
  simp only [Bool.and_eq_true, Bool.not_eq_true', Bool.or_eq_false_iff, decide_eq_true_iff,
    decide_eq_false_iff_not]
  constructor <;> intro h <;> omega

theorem specKeep_bounds (b : Rect) : keepBounds b = specKeep (.bounds b.minX b.minY b.maxX b.maxY) := by
  unfold keepBounds specKeep
  congr 1
  funext o
  simp only [KeepSpec.selectsBase, overlaps_point]

theorem specKeep_all : keepAll = specKeep .all := rfl

/-- keys of a Go `map[string][]string` are distinct -/
def uniqueWant (want : List (Nat × List Nat)) : Prop := (want.map (·.1)).Nodup

theorem find_of_unique {want : List (Nat × List Nat)} (hu : uniqueWant want) {w : Nat × List Nat}
    (hw : w ∈ want) : want.find? (fun w' => w'.1 == w.1) = some w := by
  induction want with
  | nil => simp at hw
  | cons a l ih =>
    simp only [uniqueWant, List.map_cons, List.nodup_cons] at hu
    rcases List.mem_cons.1 hw with rfl | hw'
    · simp
    · have hne : (a.1 == w.1) = false := by
        simp only [beq_eq_false_iff_ne, ne_eq]
        exact fun h => hu.1 (by rw [h]; exact List.mem_map_of_mem hw')
      rw [List.find?_cons, hne]
      exact ih hu.2 hw'

/-- KeepTags(want) = "carries a wanted key with one of its listed values (none listed = any)" -/
theorem specKeep_tags (want : List (Nat × List Nat)) (hu : uniqueWant want) :
    keepTags want = specKeep (.tags want) := by
  unfold keepTags specKeep
  congr 1
  funext o
  simp only [hasTag, KeepSpec.selectsBase]
  congr 1
  funext t
  rw [Bool.eq_iff_iff]
  simp only [wantsTag, List.any_eq_true, Bool.and_eq_true, beq_iff_eq]
  constructor
  · intro h
    cases hf : want.find? (fun w => w.1 == t.1) with
    | none => simp [hf] at h
    | some w =>
      simp only [hf] at h
      exact ⟨w, List.mem_of_find?_eq_some hf, by simpa using List.find?_some hf, h⟩
  · rintro ⟨w, hw, hk, hv⟩
    have := find_of_unique hu hw
    rw [hk] at this
    simp only [this]
    exact hv

/-- **C18_provided_keeps**: for the three provided keep functions, stated with their DOCUMENTED
selection: the fixed `extract` returns `doc` filtered by the least set closed for `specKeep ks` —
for by-bounds that is the closed rectangle, every edge and corner included. -/
theorem C18_provided_keeps (ks : KeepSpec) (k : Keep)
    (hk : (∃ b : Rect, ks = .bounds b.minX b.minY b.maxX b.maxY ∧ k = keepBounds b) ∨
          (∃ want, uniqueWant want ∧ ks = .tags want ∧ k = keepTags want) ∨ (ks = .all ∧ k = keepAll))
    (W : Nat) (hW : 0 < W) (doc : Doc) (hu : uniqueKeys doc) (sched : List (List Nat)) :
    ∃ K : List Ref, IsLeastClosed doc (specKeep ks) (· ∈ K) ∧
      extractRun true k W doc sched = .ok (doc.filter fun o => decide (o.key ∈ K)) := by
  have : k = specKeep ks := by
    rcases hk with ⟨b, rfl, rfl⟩ | ⟨want, hw, rfl, rfl⟩ | ⟨rfl, rfl⟩
    · exact specKeep_bounds b
    · exact specKeep_tags want hw
    · exact specKeep_all
  subst this
  exact C18_complete _ W hW doc hu sched

theorem static_keepAll : Static keepAll := fun _ => rfl
theorem static_keepTags (want : List (Nat × List Nat)) : Static (keepTags want) := fun _ => rfl

/-! ## the original loop condition is incomplete (negation on the model, concrete witnesses) -/

def n1 : Obj := ⟨⟨.node, 1⟩, [], 1, 1, []⟩   -- on the north-east corner of `box`
def n2 : Obj := ⟨⟨.node, 2⟩, [], 5, 5, []⟩   -- outside
def w1 : Obj := ⟨⟨.way, 1⟩, [⟨.node, 1⟩, ⟨.node, 2⟩], 0, 0, []⟩
def w1' : Obj := ⟨⟨.way, 1⟩, [⟨.node, 1⟩], 0, 0, []⟩
def box : Rect := ⟨0, 0, 1, 1⟩

def keys : Except Fault (List Obj) → Option (List Ref)
  | .ok r => some (r.map (·.key))
  | .error _ => none

/-- **sequential** witness (DESIGN 1.1 (i)): the way precedes its nodes in the file; one worker.
With the original condition (`fos = false`) `extract` keeps only `n1`; the least closed set (and the
fixed `extract`) has all three objects. -/
theorem C18_original_condition_incomplete_seq :
    keys (extractRun false (keepBounds box) 1 [w1, n1, n2] []) = some [⟨.node, 1⟩] ∧
    keys (extractRun true (keepBounds box) 1 [w1, n1, n2] []) = some [⟨.way, 1⟩, ⟨.node, 1⟩, ⟨.node, 2⟩] ∧
    (⟨.way, 1⟩ : Ref) ∈ closure [w1, n1, n2] (keepBounds box) := by
  decide

/-- **concurrent** witness (DESIGN 1.1 (ii)): nodes first, two workers.  Worker 0 dequeues `n1` and
decides to keep it; before it stores, worker 1 dequeues `w1'`, reads "w1' not stored", then reads
"n1 not kept" and drops `w1'`; then worker 0 stores `n1`.  The original condition ends the loop with `{n1}`; the sequential schedule gives `{n1, w1'}`.
So the original `extract` is schedule dependent. -/
theorem C18_original_condition_incomplete_par :
    keys (extractRun false (keepBounds box) 2 [n1, w1'] [[0, 0, 1, 1, 1, 0]]) = some [⟨.node, 1⟩] ∧
    keys (extractRun false (keepBounds box) 2 [n1, w1'] []) = some [⟨.node, 1⟩, ⟨.way, 1⟩] ∧
    keys (extractRun true (keepBounds box) 2 [n1, w1'] [[0, 0, 1, 1, 1, 0]]) = some [⟨.node, 1⟩, ⟨.way, 1⟩] := by
  decide

/-! ## non-vacuity of the hypotheses -/

example : uniqueKeys [w1, n1, n2] := by
  intro o ho o' ho' h
  simp at ho ho'
  rcases ho with rfl | rfl | rfl <;> rcases ho' with rfl | rfl | rfl <;> first | rfl | (simp [w1, n1, n2] at h)
example : noDangling [w1, n1, n2] := by
  intro o ho r hr
  simp at ho
  rcases ho with rfl | rfl | rfl <;> simp [w1, n1, n2, Present] at hr ⊢
  rcases hr with rfl | rfl <;> simp
example : Closed [w1, n1, n2] (keepBounds box) (fun _ => True) := closed_univ _ _
example : Mode ⟨true, keepBounds box, 4⟩ := .inl rfl
example : ∃ c, Reach ⟨true, keepBounds box, 2⟩ [w1, n1, n2] c :=
  ⟨_, Reach.init [w1, n1, n2] (fun _ => Iff.rfl)⟩

/-- a node ON the north-east corner is selected; just outside it is not (non-vacuity of the edge case) -/
example : (keepBounds box).base n1 = true ∧ (keepBounds box).base (⟨⟨.node, 3⟩, [], 2, 1, []⟩ : Obj) = false := by decide

end GeomV.C18
