import GeomV.C18.Gen
import GeomV.C18.Proofs
/-!
# C18 — T1 tie: the functions REGENERATED from the Go source (Gen.lean) equal the model's / the Spec's

`Gen.lean` is rewritten from `encoding/osm/{keep,check,extract}.go`, `bounds.go`, `point.go` of the tree under test
on every run (harness/cmd/c18/t1.go).  This file proves, for the regenerated text:

* `tie_Overlaps_point`   `b.Overlaps(Point{X,Y}.Bounds())` (bounds.go `Empty`, `Overlaps`, `NewBoundsPoint`, point.go
                         `Bounds`) = the model's `Rect.overlaps … (pointRect x y)` = the CLOSED rectangle of the Spec.
* `tie_hasTag`           `hasTag` = the model's `hasTag`.
* `tie_hasNeedNode/Way/Relation`  `hasNeedX(id)` = `(State.has, State.needOf)` of the abstracted state.
* `tie_KeepAll/KeepTags/KeepBounds`  the three PROVIDED keep functions, on every dynamic type the scanners deliver,
                         return exactly `Keep.sel k has o = k.base o || (k.dyn o && o.refs.any has)` for the model's
                         `keepAll/keepTags/keepBounds` — incl. KeepBounds' rectangle test on nodes and its node / way /
                         relation member cases.  So the shape hypothesis of `C18_complete` is DISCHARGED for the
                         provided functions (`C18_provided_keeps_src`), not assumed.
* `tie_Check`            `Check` = `none` iff the Spec's `checkOK` (no dangling reference) holds of the stored objects,
                         for every map iteration order.
-/
set_option linter.unusedSimpArgs false
set_option linter.unusedVariables false
namespace GeomV.C18
open Gen

/-! ## abstraction of the Go data -/

def nref (i : Int) : Ref := ⟨.node, i⟩
def wref (i : Int) : Ref := ⟨.way, i⟩
def rref (i : Int) : Ref := ⟨.rel, i⟩

/-- a typed member as a model reference -/
def mref (m : Member) : Option Ref :=
  match m.Typ with
  | .node => some (nref m.Ref)
  | .way => some (wref m.Ref)
  | .relation => some (rref m.Ref)
  | .other => none

def tagsOf (t : Tags) : List (Nat × Nat) := t.map fun t => (t.Key, t.Value)

def objNode (n : Node) : Obj := ⟨nref n.ID, [], n.Lon, n.Lat, tagsOf n.Tags⟩
def objOsmWay (w : OsmWay) : Obj := ⟨wref w.ID, w.Nodes.map (fun n => nref n.ID), 0, 0, tagsOf w.Tags⟩
def objWay (w : Way) : Obj := ⟨wref w.ID, w.Nodes.map nref, 0, 0, tagsOf w.Tags⟩
def objRel (r : Relation) : Obj := ⟨rref r.ID, r.Members.filterMap mref, 0, 0, tagsOf r.Tags⟩

/-- every member has one of the three known types (what the XML/PBF scanners deliver) -/
def MembersTyped (r : Relation) : Prop := ∀ m ∈ r.Members, m.Typ ≠ .other

/-- the model object of an `interface{}` value; `none` for anything else -/
def Gen.Object.toObj : Object → Option Obj
  | .osmNode n | .node n => some (objNode n)
  | .osmWay w => some (objOsmWay w)
  | .way w => some (objWay w)
  | .osmRelation r | .relation r => some (objRel r)
  | .other => none

/-- the objects the scanners deliver (`*osm.Node`, `*osm.Way`, `*osm.Relation`) -/
def Gen.Object.scanned : Object → Option Obj
  | .osmNode n => some (objNode n)
  | .osmWay w => some (objOsmWay w)
  | .osmRelation r => some (objRel r)
  | _ => none

def Gen.Object.Typed : Object → Prop
  | .osmRelation r | .relation r => MembersTyped r
  | _ => True

/-- kept / dependent maps as the model's state (the pass flag is not part of `Data`) -/
def absState (d : Data) (flag : Bool := false) : State :=
  ⟨d.Nodes.map (fun e => nref e.1) ++ d.Ways.map (fun e => wref e.1) ++ d.Relations.map (fun e => rref e.1),
   d.dependentNodes.map (fun e => nref e.1) ++ d.dependentWays.map (fun e => wref e.1) ++
     d.dependentRelations.map (fun e => rref e.1), flag⟩

def rectOf (b : Bounds) : Rect := ⟨b.Min.X, b.Min.Y, b.Max.X, b.Max.Y⟩

/-! ## bounds.go -/

theorem tie_Empty (b : Bounds) : Bounds.Empty b = (rectOf b).empty := rfl

theorem tie_Overlaps (b b2 : Bounds) : Bounds.Overlaps b b2 = (rectOf b).overlaps (rectOf b2) := rfl

theorem tie_PointBounds (x y : Int) : rectOf (Point.Bounds ⟨x, y⟩) = pointRect x y := rfl

/-- KeepBounds' rectangle test, as regenerated from bounds.go / point.go, is membership in the CLOSED rectangle -/
theorem tie_Overlaps_point (b : Bounds) (x y : Int) :
    Bounds.Overlaps b (Point.Bounds ⟨x, y⟩) = decide (inClosedRect b.Min.X b.Min.Y b.Max.X b.Max.Y x y) := by
  rw [tie_Overlaps, tie_PointBounds, overlaps_point]; rfl

/-! ## loops -/

theorem rangeS_unit_quiet {α ρ : Type} (l : List α) (body : α → Unit → Ctl ρ Unit)
    (h : ∀ a ∈ l, body a () = .fall () ∨ body a () = .cont ()) : rangeS l body () = .fall () := by
  induction l with
  | nil => rfl
  | cons a l ih =>
    have ih' := ih (fun a ha => h a (List.mem_cons_of_mem _ ha))
    rcases h a (List.mem_cons_self) with h1 | h1 <;> simp [rangeS, h1, ih']

/-- a loop whose body returns `r` at the elements satisfying `p` and falls through elsewhere -/
theorem rangeS_find {α ρ : Type} (l : List α) (p : α → Bool) (r : α → ρ) :
    rangeS l (fun a () => if p a then (Ctl.ret (r a) () : Ctl ρ Unit) else .fall ()) () =
      match l.find? p with
      | some a => .ret (r a) ()
      | none => .fall () := by
  induction l with
  | nil => rfl
  | cons a l ih =>
    by_cases h : p a = true
    · simp [rangeS, h]
    · have h' : p a = false := by simpa using h
      simp [rangeS, h', ih]

/-- a loop whose body returns `true` at the elements satisfying `p` and is quiet elsewhere -/
theorem rangeS_any {α : Type} (l : List α) (body : α → Unit → Ctl Bool Unit) (p : α → Bool)
    (h : ∀ a ∈ l, (p a = true → body a () = .ret true ()) ∧
      (p a = false → body a () = .fall () ∨ body a () = .cont ())) :
    rangeS l body () = if l.any p then .ret true () else .fall () := by
  induction l with
  | nil => rfl
  | cons a l ih =>
    have ih' := ih (fun a ha => h a (List.mem_cons_of_mem _ ha))
    have ha := h a List.mem_cons_self
    by_cases hp : p a = true
    · simp [rangeS, ha.1 hp, hp]
    · have hp' : p a = false := by simpa using hp
      rcases ha.2 hp' with h1 | h1 <;> simp [rangeS, h1, hp', ih']

/-! ## hasTag -/

theorem get2_some {K V : Type} [BEq K] [Inhabited V] {m : GoMap K V} {k : K} {e : K × V}
    (h : m.find? (fun e => e.1 == k) = some e) : GoMap.get2 m k = (e.2, true) := by
  simp [GoMap.get2, h]

theorem get2_none {K V : Type} [BEq K] [Inhabited V] {m : GoMap K V} {k : K}
    (h : m.find? (fun e => e.1 == k) = none) : GoMap.get2 m k = (default, false) := by
  simp [GoMap.get2, h]

theorem get2_ok {K V : Type} [BEq K] [Inhabited V] (m : GoMap K V) (k : K) :
    (GoMap.get2 m k).2 = m.any (fun e => e.1 == k) := by
  cases h : m.find? (fun e => e.1 == k) with
  | some e =>
    rw [get2_some h]
    have h1 := List.find?_some h
    have h2 := List.mem_of_find?_eq_some h
    exact (List.any_eq_true.2 ⟨e, h2, h1⟩).symm
  | none =>
    rw [get2_none h]
    rw [List.find?_eq_none] at h
    symm
    rw [Bool.eq_false_iff]
    intro hc
    obtain ⟨e, he, h1⟩ := List.any_eq_true.1 hc
    exact h e he h1

theorem tie_hasTag (tags : Tags) (want : List (Nat × List Nat)) :
    Gen.hasTag tags want = GeomV.C18.hasTag (tagsOf tags) want := by
  unfold Gen.hasTag GeomV.C18.hasTag
  rw [rangeS_any tags _ (fun t => match want.find? (fun w => w.1 == t.Key) with
      | none => false
      | some w => w.2.isEmpty || w.2.contains t.Value)]
  · have e : (List.any (tagsOf tags) fun t => match want.find? (fun w => w.1 == t.1) with
        | none => false
        | some w => w.2.isEmpty || w.2.contains t.2) = tags.any (fun t => match want.find? (fun w => w.1 == t.Key) with
        | none => false
        | some w => w.2.isEmpty || w.2.contains t.Value) := by
      simp only [tagsOf, List.any_map, Function.comp_def]
    refine Eq.trans ?_ e.symm
    generalize (tags.any _) = b
    cases b <;> rfl
  · intro t _
    cases hf : List.find? (fun e => e.1 == t.Key) want with
    | none => simp [get2_none hf, Ctl.bind]
    | some w =>
      obtain ⟨wk, wv⟩ := w
      simp only [get2_some hf, Bool.not_true, Bool.false_eq_true, if_false, Ctl.bind]
      cases wv with
      | nil => simp [Ctl.bind]
      | cons v0 vs =>
        have hlen : ((v0 :: vs).length == 0) = false := by simp
        simp only [hlen, Bool.false_eq_true, if_false, Ctl.bind, List.isEmpty_cons, Bool.false_or]
        rw [rangeS_any (v0 :: vs) _ (fun v => t.Value == v)]
        · have : ((v0 :: vs).any fun v => t.Value == v) = (v0 :: vs).contains t.Value := by
            rw [Bool.eq_iff_iff, List.any_eq_true]
            simp only [List.contains_eq_mem, decide_eq_true_eq, beq_iff_eq]
            constructor
            · rintro ⟨v, hv, h⟩; rw [h]; exact hv
            · intro h; exact ⟨_, h, rfl⟩
          rw [this]
          cases (v0 :: vs).contains t.Value <;> simp
        · intro v _
          by_cases hv : (t.Value == v) = true <;> simp [hv]

/-! ## hasNeedX -/

theorem mem_abs_kept_node (d : Data) (id : Int) :
    nref id ∈ (absState d).kept ↔ (d.Nodes.any fun e => e.1 == id) = true := by
  simp [absState, nref, wref, rref]
theorem mem_abs_kept_way (d : Data) (id : Int) :
    wref id ∈ (absState d).kept ↔ (d.Ways.any fun e => e.1 == id) = true := by
  simp [absState, nref, wref, rref]
theorem mem_abs_kept_rel (d : Data) (id : Int) :
    rref id ∈ (absState d).kept ↔ (d.Relations.any fun e => e.1 == id) = true := by
  simp [absState, nref, wref, rref]
theorem mem_abs_need_node (d : Data) (id : Int) :
    nref id ∈ (absState d).need ↔ (d.dependentNodes.any fun e => e.1 == id) = true := by
  simp [absState, nref, wref, rref]
theorem mem_abs_need_way (d : Data) (id : Int) :
    wref id ∈ (absState d).need ↔ (d.dependentWays.any fun e => e.1 == id) = true := by
  simp [absState, nref, wref, rref]
theorem mem_abs_need_rel (d : Data) (id : Int) :
    rref id ∈ (absState d).need ↔ (d.dependentRelations.any fun e => e.1 == id) = true := by
  simp [absState, nref, wref, rref]

theorem hasNeed_aux (a b : Bool) (P Q : Prop) [Decidable P] [Decidable Q] (ha : P ↔ a = true) (hb : Q ↔ b = true) :
    (Ctl.stateD (ρ := Unit) (σ := Bool × Bool)
      (Ctl.bind (if a then Ctl.ret () (true, false) else Ctl.fall (false, false)) fun (has, need) =>
        Ctl.bind (if b then Ctl.fall (has, true) else Ctl.fall (has, need)) fun (has, need) =>
          Ctl.ret () (has, need))) = (decide P, !decide P && decide Q) := by
  cases a <;> cases b <;> simp_all [Ctl.bind, Ctl.stateD]

/-- `hasNeedNode(id)` regenerated = the model's atomic read `(has, need)` -/
theorem tie_hasNeedNode (d : Data) (id : Int) :
    hasNeedNode d id = ((absState d).has (nref id), (absState d).needOf (nref id)) := by
  unfold hasNeedNode State.has State.needOf State.has
  have h1 := get2_ok d.Nodes id
  have h2 := get2_ok d.dependentNodes id
  rw [← hasNeed_aux _ _ _ _ (mem_abs_kept_node d id) (mem_abs_need_node d id), ← h1, ← h2]
  rcases GoMap.get2 d.Nodes id with ⟨x, ok⟩
  rcases GoMap.get2 d.dependentNodes id with ⟨y, ok'⟩
  rfl

theorem tie_hasNeedWay (d : Data) (id : Int) :
    hasNeedWay d id = ((absState d).has (wref id), (absState d).needOf (wref id)) := by
  unfold hasNeedWay State.has State.needOf State.has
  have h1 := get2_ok d.Ways id
  have h2 := get2_ok d.dependentWays id
  rw [← hasNeed_aux _ _ _ _ (mem_abs_kept_way d id) (mem_abs_need_way d id), ← h1, ← h2]
  rcases GoMap.get2 d.Ways id with ⟨x, ok⟩
  rcases GoMap.get2 d.dependentWays id with ⟨y, ok'⟩
  rfl

theorem tie_hasNeedRelation (d : Data) (id : Int) :
    hasNeedRelation d id = ((absState d).has (rref id), (absState d).needOf (rref id)) := by
  unfold hasNeedRelation State.has State.needOf State.has
  have h1 := get2_ok d.Relations id
  have h2 := get2_ok d.dependentRelations id
  rw [← hasNeed_aux _ _ _ _ (mem_abs_kept_rel d id) (mem_abs_need_rel d id), ← h1, ← h2]
  rcases GoMap.get2 d.Relations id with ⟨x, ok⟩
  rcases GoMap.get2 d.dependentRelations id with ⟨y, ok'⟩
  rfl

/-! ## keep.go: the three provided keep functions have exactly the modelled shape -/

theorem sel_keepAll (has : Ref → Bool) (o : Obj) : keepAll.sel has o = true := rfl
theorem sel_keepTags (want : List (Nat × List Nat)) (has : Ref → Bool) (o : Obj) :
    (keepTags want).sel has o = GeomV.C18.hasTag o.tags want := by simp [Keep.sel, keepTags]

/-- `KeepAll()`: `true` on every object, never reads the data -/
theorem tie_KeepAll (d : Data) (obj : Object) (o : Obj) :
    KeepAll d obj = .ok (keepAll.sel (absState d).has o) := rfl

/-- `KeepTags(tags)`: on all six object types `hasTag` of the object's tags (`base`, no `dyn` part);
anything else panics -/
theorem tie_KeepTags (want : List (Nat × List Nat)) (d : Data) (obj : Object) :
    KeepTags want d obj = match obj.toObj with
      | some o => .ok ((keepTags want).sel (absState d).has o)
      | none => .error "osm: invalid object type %T" := by
  cases obj <;> simp only [Gen.Object.toObj, sel_keepTags, KeepTags, Ctl.value, tie_hasTag] <;> rfl

theorem kind_wn : (Kind.way == Kind.node) = false := by decide
theorem kind_rn : (Kind.rel == Kind.node) = false := by decide
theorem kind_wn' : (Kind.way != Kind.node) = true := by decide
theorem kind_rn' : (Kind.rel != Kind.node) = true := by decide

def optAny {β : Type} (q : β → Bool) : Option β → Bool
  | some b => q b
  | none => false

theorem any_filterMap {α β : Type} (f : α → Option β) (q : β → Bool) (l : List α) :
    (l.filterMap f).any q = l.any (fun a => optAny q (f a)) := by
  induction l with
  | nil => rfl
  | cons a l ih =>
    cases h : f a <;> simp [List.filterMap_cons, h, ih, optAny]

/-- `KeepBounds(b)` on the object types the scanners deliver (`*osm.Node`, `*osm.Way`, `*osm.Relation` with
typed members): exactly `base o || (dyn o && o.refs.any has)` of the model's `keepBounds` — the closed
rectangle test on a node; "a node id of the way is stored"; "a node / way / relation member is stored in
the map of ITS type".  On any other object type it panics. -/
theorem tie_KeepBounds (b : Bounds) (d : Data) (obj : Object) (ht : obj.Typed) :
    KeepBounds b d obj = match obj.scanned with
      | some o => .ok ((keepBounds (rectOf b)).sel (absState d).has o)
      | none => .error "osm: invalid object type %T" := by
  cases obj with
  | osmNode n =>
    simp only [Gen.Object.scanned, KeepBounds, Ctl.bind, Ctl.value, Keep.sel, keepBounds, objNode, nref,
      tie_Overlaps, tie_PointBounds]
    simp
  | osmWay w =>
    simp only [Gen.Object.scanned, KeepBounds]
    rw [rangeS_any w.Nodes _ (fun n => (absState d).has (nref n.ID))]
    · have : (keepBounds (rectOf b)).sel (absState d).has (objOsmWay w) =
          w.Nodes.any (fun n => (absState d).has (nref n.ID)) := by
        simp [Keep.sel, keepBounds, objOsmWay, wref, List.any_map, Function.comp_def, kind_wn, kind_wn']
      rw [this]
      cases w.Nodes.any (fun n => (absState d).has (nref n.ID)) <;> rfl
    · intro n _
      simp only [tie_hasNeedNode]
      cases (absState d).has (nref n.ID) <;> simp
  | osmRelation r =>
    simp only [Gen.Object.scanned, KeepBounds]
    rw [rangeS_any r.Members _ (fun m => optAny (absState d).has (mref m))]
    · have : (keepBounds (rectOf b)).sel (absState d).has (objRel r) =
          r.Members.any (fun m => optAny (absState d).has (mref m)) := by
        simp only [Keep.sel, keepBounds, objRel, rref, any_filterMap, kind_rn, kind_rn', Bool.false_and, Bool.false_or, Bool.true_and]
      rw [this]
      cases r.Members.any (fun m => optAny (absState d).has (mref m)) <;> rfl
    · intro m hm
      have hty := ht m hm
      simp only [tie_hasNeedNode, tie_hasNeedWay, tie_hasNeedRelation, mref]
      cases hmt : m.Typ with
      | node => cases hh : (absState d).has (nref m.Ref) <;> simp [hh, optAny]
      | way => cases hh : (absState d).has (wref m.Ref) <;> simp [hh, optAny]
      | relation => cases hh : (absState d).has (rref m.Ref) <;> simp [hh, optAny]
      | other => exact absurd hmt hty
  | node n => rfl
  | way w => rfl
  | relation r => rfl
  | other => rfl

/-- an untyped member makes KeepBounds panic exactly when no earlier member is stored (the Go `default:` case) -/
example : KeepBounds ⟨⟨0, 0⟩, ⟨1, 1⟩⟩ Data.empty (.osmRelation ⟨1, [⟨5, .other⟩], []⟩) =
    .error "unknown member type %v" := rfl

/-- **C18_provided_keeps_src** (quantifier "any of the provided keep functions (by tags, by bounds, all)").
For each of the three Go keep functions AS REGENERATED FROM keep.go there is a model keep function `k` with
(1) the Go function, called on any `Data` and any object the scanners deliver, returns exactly
`k.base o || (k.dyn o && some reference of o is stored)` — the shape the interleaving model assumes;
(2) `k` is the documented selector `specKeep ks` (closed rectangle / tag-value / all);
(3) hence the fixed `extract` with it returns the document filtered by THE least closed set for `specKeep ks`,
for every worker count and schedule.  The shape is proved, not assumed. -/
theorem C18_provided_keeps_src (ks : KeepSpec) (K : KeepFunc)
    (hK : (∃ b : Bounds, ks = .bounds b.Min.X b.Min.Y b.Max.X b.Max.Y ∧ K = KeepBounds b) ∨
          (∃ want, uniqueWant want ∧ ks = .tags want ∧ K = KeepTags want) ∨ (ks = .all ∧ K = KeepAll)) :
    ∃ k : Keep,
      (∀ (d : Data) (obj : Object) (o : Obj), obj.scanned = some o → obj.Typed →
        K d obj = .ok (k.sel (absState d).has o)) ∧
      k = specKeep ks ∧
      ∀ (W : Nat), 0 < W → ∀ (doc : Doc), uniqueKeys doc → ∀ (sched : List (List Nat)),
        ∃ S : List Ref, IsLeastClosed doc (specKeep ks) (· ∈ S) ∧
          extractRun true k W doc sched = .ok (doc.filter fun o => decide (o.key ∈ S)) := by
  rcases hK with ⟨b, rfl, rfl⟩ | ⟨want, hw, rfl, rfl⟩ | ⟨rfl, rfl⟩
  · refine ⟨keepBounds (rectOf b), ?_, specKeep_bounds (rectOf b), fun W hW doc hu sched => ?_⟩
    · intro d obj o ho ht
      rw [tie_KeepBounds b d obj ht, ho]
    · obtain ⟨S, h1, h2⟩ := C18_complete (keepBounds (rectOf b)) W hW doc hu sched
      exact ⟨S, by rw [specKeep_bounds (rectOf b)] at h1; exact h1, h2⟩
  · refine ⟨keepTags want, ?_, specKeep_tags want hw, fun W hW doc hu sched => ?_⟩
    · intro d obj o ho ht
      rw [tie_KeepTags want d obj]
      cases obj <;> simp_all [Gen.Object.scanned, Gen.Object.toObj]
    · obtain ⟨S, h1, h2⟩ := C18_complete (keepTags want) W hW doc hu sched
      exact ⟨S, by rw [specKeep_tags want hw] at h1; exact h1, h2⟩
  · refine ⟨keepAll, fun d obj o _ _ => tie_KeepAll d obj o, specKeep_all, fun W hW doc hu sched => ?_⟩
    exact C18_complete keepAll W hW doc hu sched

/-! ## check.go -/

/-- the stored objects of a `Data` as model objects -/
def objsOf (d : Data) : List Obj :=
  d.Nodes.map (fun e => objNode e.2) ++ d.Ways.map (fun e => objWay e.2) ++ d.Relations.map (fun e => objRel e.2)

/-- every object is stored under its own id (all stores of extract.go / Filter are `m[x.ID] = x`) -/
structure KeysMatch (d : Data) : Prop where
  nodes : ∀ e ∈ d.Nodes, e.2.ID = e.1
  ways : ∀ e ∈ d.Ways, e.2.ID = e.1
  rels : ∀ e ∈ d.Relations, e.2.ID = e.1

def MembersTypedD (d : Data) : Prop := ∀ e ∈ d.Relations, MembersTyped e.2

theorem mem_mapOrder {K V : Type} {orc : Oracle} (hv : orc.Valid) (i s : Nat) (m : GoMap K V) (e : K × V) :
    e ∈ mapOrder orc i s m ↔ e ∈ m := by
  simp only [mapOrder, List.mem_filterMap, hv i s m.length]
  constructor
  · rintro ⟨j, _, h⟩; exact List.mem_of_getElem? h
  · intro h
    obtain ⟨j, hj, h⟩ := List.getElem_of_mem h
    exact ⟨j, hj, by simp [hj, h]⟩

/-- outcome of a statement of `Check`: falls through or returns an error -/
def Good (c : Ctl (Option String) Unit) : Prop := c = .fall () ∨ ∃ msg, c = .ret (some msg) ()

theorem good_range {α : Type} (l : List α) (body : α → Unit → Ctl (Option String) Unit)
    (h : ∀ a ∈ l, Good (body a ())) :
    Good (rangeS l body ()) ∧ (rangeS l body () = .fall () ↔ ∀ a ∈ l, body a () = .fall ()) := by
  induction l with
  | nil => exact ⟨.inl rfl, by simp [rangeS]⟩
  | cons a l ih =>
    have ih' := ih (fun a ha => h a (List.mem_cons_of_mem _ ha))
    rcases h a List.mem_cons_self with h1 | ⟨msg, h1⟩
    · simp only [rangeS, h1, List.forall_mem_cons, true_and]
      exact ih'
    · simp only [rangeS, h1, List.forall_mem_cons]
      exact ⟨.inr ⟨msg, rfl⟩, by simp⟩

theorem good_range_of_eq {α : Type} {l : List α} {body : α → Unit → Ctl (Option String) Unit}
    {L : Ctl (Option String) Unit} (h : rangeS l body () = L) (P : α → Prop)
    (hb : ∀ a ∈ l, Good (body a ()) ∧ (body a () = .fall () ↔ P a)) :
    Good L ∧ (L = .fall () ↔ ∀ a ∈ l, P a) := by
  subst h
  have := good_range l body (fun a ha => (hb a ha).1)
  refine ⟨this.1, this.2.trans ?_⟩
  exact forall_congr' fun a => ⟨fun h ha => ((hb a ha).2).1 (h ha), fun h ha => ((hb a ha).2).2 (h ha)⟩

theorem good_bind {c : Ctl (Option String) Unit} {f : Unit → Ctl (Option String) Unit}
    (hc : Good c) (hf : Good (f ())) :
    Good (c.bind f) ∧ (c.bind f = .fall () ↔ c = .fall () ∧ f () = .fall ()) := by
  rcases hc with rfl | ⟨msg, rfl⟩
  · simp [Ctl.bind, hf]
  · simp [Ctl.bind, Good]

theorem check3 {L1 L2 L3 : Ctl (Option String) Unit} (g1 : Good L1) (g2 : Good L2) (g3 : Good L3) :
    Ctl.total (L1.bind fun _ => L2.bind fun _ => L3.bind fun _ => Ctl.ret none ()) = none ↔
      L1 = .fall () ∧ L2 = .fall () ∧ L3 = .fall () := by
  rcases g1 with rfl | ⟨m1, rfl⟩ <;> rcases g2 with rfl | ⟨m2, rfl⟩ <;> rcases g3 with rfl | ⟨m3, rfl⟩ <;>
    simp [Ctl.bind, Ctl.total]

theorem good_lookup {V : Type} [Inhabited V] (m : GoMap Int V) (k : Int) (e1 e2 : String) :
    let c : Ctl (Option String) Unit :=
      (let (x, ok) := GoMap.get2 m k;
        if (!ok) then Ctl.ret (some e1) () else (if isNil x then Ctl.ret (some e2) () else Ctl.fall ()))
    Good c ∧ (c = .fall () ↔ (GoMap.get2 m k).2 = true) := by
  rcases h : GoMap.get2 m k with ⟨x, ok⟩
  cases ok <;> simp [Good, isNil]

theorem present_node (d : Data) (hk : KeysMatch d) (n : Int) :
    Present (objsOf d) (nref n) ↔ (GoMap.get2 d.Nodes n).2 = true := by
  rw [get2_ok]
  simp only [Present, objsOf, List.mem_append, List.mem_map, List.any_eq_true, beq_iff_eq]
  constructor
  · rintro ⟨o, ((⟨e, he, rfl⟩ | ⟨e, he, rfl⟩) | ⟨e, he, rfl⟩), h⟩ <;>
      simp [objNode, objWay, objRel, nref, wref, rref] at h
    exact ⟨e, he, by rw [← hk.nodes e he, h]⟩
  · rintro ⟨e, he, h⟩
    exact ⟨_, .inl (.inl ⟨e, he, rfl⟩), by simp [objNode, nref, hk.nodes e he, h]⟩

theorem present_way (d : Data) (hk : KeysMatch d) (n : Int) :
    Present (objsOf d) (wref n) ↔ (GoMap.get2 d.Ways n).2 = true := by
  rw [get2_ok]
  simp only [Present, objsOf, List.mem_append, List.mem_map, List.any_eq_true, beq_iff_eq]
  constructor
  · rintro ⟨o, ((⟨e, he, rfl⟩ | ⟨e, he, rfl⟩) | ⟨e, he, rfl⟩), h⟩ <;>
      simp [objNode, objWay, objRel, nref, wref, rref] at h
    exact ⟨e, he, by rw [← hk.ways e he, h]⟩
  · rintro ⟨e, he, h⟩
    exact ⟨_, .inl (.inr ⟨e, he, rfl⟩), by simp [objWay, wref, hk.ways e he, h]⟩

theorem present_rel (d : Data) (hk : KeysMatch d) (n : Int) :
    Present (objsOf d) (rref n) ↔ (GoMap.get2 d.Relations n).2 = true := by
  rw [get2_ok]
  simp only [Present, objsOf, List.mem_append, List.mem_map, List.any_eq_true, beq_iff_eq]
  constructor
  · rintro ⟨o, ((⟨e, he, rfl⟩ | ⟨e, he, rfl⟩) | ⟨e, he, rfl⟩), h⟩ <;>
      simp [objNode, objWay, objRel, nref, wref, rref] at h
    exact ⟨e, he, by rw [← hk.rels e he, h]⟩
  · rintro ⟨e, he, h⟩
    exact ⟨_, .inr ⟨e, he, rfl⟩, by simp [objRel, rref, hk.rels e he, h]⟩

theorem checkOK_objsOf (d : Data) :
    checkOK (objsOf d) ↔
      (∀ e ∈ d.Ways, ∀ n ∈ e.2.Nodes, Present (objsOf d) (nref n)) ∧
      (∀ e ∈ d.Relations, ∀ m ∈ e.2.Members, ∀ r, mref m = some r → Present (objsOf d) r) := by
  simp only [checkOK, objsOf, List.mem_append, List.mem_map]
  constructor
  · intro h
    refine ⟨fun e he n hn => h _ (.inl (.inr ⟨e, he, rfl⟩)) _ (by simp [objWay]; exact ⟨n, hn, rfl⟩),
      fun e he m hm r hr => h _ (.inr ⟨e, he, rfl⟩) _ (by simp [objRel]; exact ⟨m, hm, hr⟩)⟩
  · rintro ⟨hw, hr⟩ o ((⟨e, he, rfl⟩ | ⟨e, he, rfl⟩) | ⟨e, he, rfl⟩) r hrr
    · simp [objNode] at hrr
    · simp only [objWay, List.mem_map] at hrr
      obtain ⟨n, hn, rfl⟩ := hrr
      exact hw e he n hn
    · simp only [objRel, List.mem_filterMap] at hrr
      obtain ⟨m, hm, hmr⟩ := hrr
      exact hr e he m hm r hmr

/-- **tie_Check** (clause "the result passes Check …"): `Check` AS REGENERATED FROM check.go returns nil exactly when
the Spec's closure audit `checkOK` ("every reference of a stored object is stored" — no dangling reference inside the
result) holds of the stored objects, whatever the iteration order of the three maps.  So a `Check` that rejects a
closed result, or accepts a result with a dangling reference, contradicts the SPEC (not merely the model). -/
theorem tie_Check (orc : Oracle) (hv : orc.Valid) (d : Data) (hk : KeysMatch d) (hm : MembersTypedD d) :
    Check orc d = none ↔ checkOK (objsOf d) := by
  unfold Check
  generalize h1 : rangeS (mapOrder orc 0 0 d.Nodes) _ () = L1
  generalize h2 : rangeS (mapOrder orc 0 1 d.Ways) _ () = L2
  generalize h3 : rangeS (mapOrder orc 0 2 d.Relations) _ () = L3
  have g1 := good_range_of_eq h1 (fun _ => True) (fun a _ => ⟨.inl rfl, by simp [isNil]⟩)
  have g2 := good_range_of_eq h2 (fun a => ∀ n ∈ a.2.Nodes, Present (objsOf d) (nref n)) (fun a _ =>
    good_range_of_eq rfl (fun n => Present (objsOf d) (nref n)) (fun n _ => by
      rw [present_node d hk]; exact good_lookup d.Nodes n _ _))
  have g3 := good_range_of_eq h3 (fun a => ∀ m ∈ a.2.Members, ∀ r, mref m = some r → Present (objsOf d) r)
    (fun a ha => good_range_of_eq rfl (fun m => ∀ r, mref m = some r → Present (objsOf d) r) (fun m hmm => by
      have hty : m.Typ ≠ .other := hm a ((mem_mapOrder hv _ _ _ _).1 ha) m hmm
      cases hmt : m.Typ with
      | node =>
        simp only [mref, hmt, Option.some.injEq, forall_eq', present_node d hk]
        exact good_lookup d.Nodes m.Ref _ _
      | way =>
        simp only [mref, hmt, Option.some.injEq, forall_eq', present_way d hk]
        exact good_lookup d.Ways m.Ref _ _
      | relation =>
        simp only [mref, hmt, Option.some.injEq, forall_eq', present_rel d hk]
        exact good_lookup d.Relations m.Ref _ _
      | other => exact absurd hmt hty))
  rw [check3 g1.1 g2.1 g3.1, g1.2, g2.2, g3.2, checkOK_objsOf]
  simp only [mem_mapOrder hv, implies_true, true_and]

theorem checkOK_of_check {objs : List Obj} (h : check objs = true) : checkOK objs := by
  intro o ho r hr
  simp only [check, List.all_eq_true, List.any_eq_true, beq_iff_eq] at h
  exact h o ho r hr

theorem checkOK_congr {a b : List Obj} (h : ∀ o, o ∈ a ↔ o ∈ b) : checkOK a ↔ checkOK b := by
  simp only [checkOK, Present, h]

/-- **C18_check_src** (clause "the result passes Check whenever the document itself has no dangling references"),
with the REGENERATED `Check`: whenever the document has no dangling reference, every `Data` that stores exactly
the objects the fixed `extract` returns (each under its own id) passes the regenerated `Check`, for every worker
count, schedule and map iteration order. -/
theorem C18_check_src (k : Keep) (W : Nat) (hW : 0 < W) (doc : Doc) (hu : uniqueKeys doc) (hd : noDangling doc)
    (sched : List (List Nat)) :
    ∃ r, extractRun true k W doc sched = .ok r ∧
      ∀ (d : Data) (orc : Oracle), orc.Valid → KeysMatch d → MembersTypedD d → (∀ o, o ∈ objsOf d ↔ o ∈ r) →
        Check orc d = none := by
  obtain ⟨r, hr, hc⟩ := C18_check k W hW doc hu hd sched
  exact ⟨r, hr, fun d orc hv hk hm hmem =>
    (tie_Check orc hv d hk hm).2 ((checkOK_congr hmem).2 (checkOK_of_check hc))⟩

/-- non-vacuity: a Data with a dangling way reference is rejected, the closed one is accepted -/
example : Check Oracle.id ⟨[(1, ⟨1, 0, 0, []⟩)], [(7, ⟨7, [1, 2], []⟩)], [], [], [], []⟩ =
    some "node %v is referenced by way %v but does not exist" := rfl
example : Check Oracle.id ⟨[(1, ⟨1, 0, 0, []⟩), (2, ⟨2, 0, 0, []⟩)], [(7, ⟨7, [1, 2], []⟩)], [], [], [], []⟩ = none := rfl
example : Oracle.id.Valid := fun _ _ n j => by simp [Oracle.id]

end GeomV.C18
