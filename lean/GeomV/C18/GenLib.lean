/-!
# C18 — vocabulary of the T1 translation (harness/cmd/c18/t1.go → Gen.lean)   (core Lean only)

`Gen.lean` is REGENERATED on every run from the Go source of the tree under test
(`encoding/osm/{keep,check,extract}.go`, `bounds.go`, `point.go`).  The translator is statement-level
and syntax directed; this file fixes the meaning of the Go constructs it emits.

* Go values: `osm.NodeID/WayID/RelationID`, `Member.Ref` = `Int`; tag keys/values (strings) = `Nat` codes
  (only `==` is used on them); `Lat/Lon` and `geom.Point`/`geom.Bounds` coordinates = `Int` (the integer grid
  of the check: `<`, `<=`, `>=` exact, no NaN — as in Model.lean); `osm.Type` = `MType` (`other` = any string
  that is not "node"/"way"/"relation").
* pointers to objects (`*Node`, `*osm.Way`, …) = the object (non-nil: every store of extract.go / Filter is
  a fresh `copyX` result or a value ranged from such a map); `p == nil` on such a value = `isNil p = false`.
  An `interface{}` object = `Object` with one constructor per dynamic type the type switches know
  (`other` = anything else).
* Go `map[K]V` = association list `GoMap K V` (first entry of a key is the binding; `set` removes older
  entries).  Ranging over a map visits the entries in an order chosen by an `Oracle` (per loop iteration
  `iter` of an enclosing `for cond {}` and per range site), a list of indices into the entries.
* control: a statement list denotes a `Ctl ρ σ` over the tuple `σ` of the variables the function assigns
  (receiver data, named results, locals): `fall` = ran to the end, `cont` = `continue`, `ret` = `return`,
  `panic`.  Locks/unlocks/defers of unlocks are dropped (sequential meaning of the function; the
  interleaving meaning is Model.lean's, tied by the lock skeleton).  `for cond {}` = `whileS` with fuel.
-/
namespace GeomV.C18.Gen

inductive MType | node | way | relation | other
deriving DecidableEq, Repr, Inhabited

structure Tag where
  Key : Nat
  Value : Nat
deriving DecidableEq, Repr, Inhabited

abbrev Tags := List Tag

/-- `osm.Member` and `Member` (the fields the code reads) -/
structure Member where
  Ref : Int
  Typ : MType  -- Go field `Type` (a Lean keyword)
deriving DecidableEq, Repr, Inhabited

/-- `osm.Node` and `Node` -/
structure Node where
  ID : Int
  Lat : Int
  Lon : Int
  Tags : Tags
deriving DecidableEq, Repr, Inhabited

/-- `osm.WayNode` -/
structure WayNode where
  ID : Int
deriving DecidableEq, Repr, Inhabited

/-- `osm.Way` (Nodes is `[]WayNode`) -/
structure OsmWay where
  ID : Int
  Nodes : List WayNode
  Tags : Tags
deriving DecidableEq, Repr, Inhabited

/-- `Way` (Nodes is `[]osm.NodeID`) -/
structure Way where
  ID : Int
  Nodes : List Int
  Tags : Tags
deriving DecidableEq, Repr, Inhabited

/-- `osm.Relation` and `Relation` -/
structure Relation where
  ID : Int
  Members : List Member
  Tags : Tags
deriving DecidableEq, Repr, Inhabited

/-- dynamic type of an `interface{}` object -/
inductive Object
  | osmNode (n : Node) | node (n : Node)
  | osmWay (w : OsmWay) | way (w : Way)
  | osmRelation (r : Relation) | relation (r : Relation)
  | other
deriving Repr, Inhabited

abbrev GoMap (K V : Type) := List (K × V)

namespace GoMap
variable {K V : Type} [BEq K]
/-- `v, ok := m[k]` (zero value when absent) -/
def get2 [Inhabited V] (m : GoMap K V) (k : K) : V × Bool :=
  match m.find? (fun e => e.1 == k) with
  | some e => (e.2, true)
  | none => (default, false)
/-- `m[k] = v` -/
def set (m : GoMap K V) (k : K) (v : V) : GoMap K V := (k, v) :: m.filter (fun e => !(e.1 == k))
end GoMap

structure Data where
  Nodes : GoMap Int Node
  Ways : GoMap Int Way
  Relations : GoMap Int Relation
  dependentNodes : GoMap Int Unit
  dependentWays : GoMap Int Unit
  dependentRelations : GoMap Int Unit
deriving Repr, Inhabited

/-- `&Data{Nodes: make(…), …}` with every field a fresh map -/
def Data.empty : Data := ⟨[], [], [], [], [], []⟩

/-- `p == nil` for a pointer that is an object here -/
def isNil {α : Type} (_ : α) : Bool := false

structure Point where
  X : Int
  Y : Int
deriving DecidableEq, Repr, Inhabited

structure Bounds where
  Min : Point
  Max : Point
deriving DecidableEq, Repr, Inhabited

/-- map iteration order: indices into the entry list, per (`for`-iteration, range site, length) -/
structure Oracle where
  ord : Nat → Nat → Nat → List Nat

def Oracle.Valid (orc : Oracle) : Prop := ∀ i s n, ∀ j, j ∈ orc.ord i s n ↔ j < n

/-- the identity order -/
def Oracle.id : Oracle := ⟨fun _ _ n => List.range n⟩

def mapOrder {K V : Type} (orc : Oracle) (iter site : Nat) (m : GoMap K V) : List (K × V) :=
  (orc.ord iter site m.length).filterMap (fun j => m[j]?)

inductive Ctl (ρ σ : Type)
  | fall (s : σ)
  | cont (s : σ)
  | ret (r : ρ) (s : σ)
  | panic (msg : String)

namespace Ctl
variable {ρ σ : Type}

/-- `stmt; rest` -/
def bind : Ctl ρ σ → (σ → Ctl ρ σ) → Ctl ρ σ
  | .fall s, f => f s
  | .cont s, _ => .cont s
  | .ret r s, _ => .ret r s
  | .panic m, _ => .panic m

/-- a call that may panic, inside a statement -/
def call {α : Type} : Except String α → (α → Ctl ρ σ) → Ctl ρ σ
  | .ok a, f => f a
  | .error m, _ => .panic m

/-- result of a function whose every path ends in `return e` and that has no `panic` -/
def total [Inhabited ρ] : Ctl ρ σ → ρ
  | .ret r _ => r
  | _ => default

/-- result of a function with explicit `return e` that may panic -/
def value : Ctl ρ σ → Except String ρ
  | .ret r _ => .ok r
  | .panic m => .error m
  | _ => .error "missing return"

/-- final variables of a function with named results / a mutated receiver, no `panic` -/
def stateD [Inhabited σ] : Ctl ρ σ → σ
  | .fall s | .cont s | .ret _ s => s
  | .panic _ => default

/-- final variables of a function with named results / a mutated receiver that may panic -/
def stateE : Ctl ρ σ → Except String σ
  | .fall s | .cont s | .ret _ s => .ok s
  | .panic m => .error m
end Ctl

/-- `for _, a := range l { body }` -/
def rangeS {α ρ σ : Type} (l : List α) (body : α → σ → Ctl ρ σ) (s : σ) : Ctl ρ σ :=
  match l with
  | [] => .fall s
  | a :: l =>
    match body a s with
    | .fall s' | .cont s' => rangeS l body s'
    | .ret r s' => .ret r s'
    | .panic m => .panic m

/-- `for cond { body }`; `iter` counts the iterations; fuel exhausted = "panic" -/
def whileS {ρ σ : Type} (cond : σ → Bool) (body : Nat → σ → Ctl ρ σ) : Nat → Nat → σ → Ctl ρ σ
  | 0, _, _ => .panic "fuel"
  | fuel+1, iter, s =>
    if cond s then
      match body iter s with
      | .fall s' | .cont s' => whileS cond body fuel (iter+1) s'
      | .ret r s' => .ret r s'
      | .panic m => .panic m
    else .fall s

abbrev KeepFunc := Data → Object → Except String Bool

/-! `copyNode / copyWay / copyRelation` of extract.go are VOCABULARY (hand-written here, not regenerated: they are
struct literals, `make` and indexed stores, outside the translator's subset): the copy keeps the id, the position, the
node ids / the members `(Ref, Type)` in order, and the tags iff `keepTags`.  Tied by the call skeleton (pregen) and by the
exact comparison of the stored objects with the document's objects on every P line (`keepTags` true and false). -/

/-- `copyNode` of extract.go -/
def copyNode (n : Node) (keepTags : Bool) : Node := ⟨n.ID, n.Lat, n.Lon, if keepTags then n.Tags else []⟩
/-- `copyWay` of extract.go -/
def copyWay (w : OsmWay) (keepTags : Bool) : Way := ⟨w.ID, w.Nodes.map (·.ID), if keepTags then w.Tags else []⟩
/-- `copyRelation` of extract.go -/
def copyRelation (r : Relation) (keepTags : Bool) : Relation :=
  ⟨r.ID, r.Members.map (fun m => ⟨m.Ref, m.Typ⟩), if keepTags then r.Tags else []⟩

end GeomV.C18.Gen
