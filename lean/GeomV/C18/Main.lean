import GeomV.C18.Observe
/-!
Driver for C18: `geomv_c18 judge` reads `x <keep> <runs> <seed> | <objs> => seq=… par=… filt=… filt2=…`
(format in harness/cmd/c18/main.go) and prints one verdict per line:
  OK <class> | DIFF <class> <why> (implementation ≠ model) | SPEC <class> <why> (answer violates Spec)
Spec verdicts use only Spec.lean (`closure`, `closedB`, `noDanglingB`, `checkOKB`) on the implementation's
answers; model verdicts compare the sequential run exactly (passes, keep calls, ids, Check) and the
steered runs with model runs under pseudo-random schedules; tiny documents are additionally explored
exhaustively (all interleavings of 2 workers) in the model.
-/
namespace GeomV.C18

/-! ## parsing -/

def splitC (sep : Char) (cs : List Char) : List (List Char) :=
  let r := cs.foldr (fun c (acc : List Char × List (List Char)) =>
    if c == sep then ([], acc.1 :: acc.2) else (c :: acc.1, acc.2)) ([], [])
  r.1 :: r.2

def natOf (cs : List Char) : Option Nat :=
  if cs.isEmpty then none
  else cs.foldlM (fun n c => if c.isDigit then some (n * 10 + (c.toNat - 48)) else none) 0

def intOf : List Char → Option Int
  | '-' :: cs => (natOf cs).map fun n => -(n : Int)
  | cs => (natOf cs).map Int.ofNat

def kindOf : Char → Option Kind
  | 'n' => some .node | 'w' => some .way | 'r' => some .rel | _ => none

def parseTags (cs : List Char) : Option (List (Nat × Nat)) :=
  if cs == ['-'] then some []
  else (splitC ';' cs).mapM fun kv =>
    match splitC '=' kv with
    | [k, v] => do some ((← natOf k), (← natOf v))
    | _ => none

def parseRefs (kind : Kind) (cs : List Char) : Option (List Ref) :=
  if cs == ['-'] then some []
  else (splitC ',' cs).mapM fun t =>
    match kind, t with
    | .way, t => (intOf t).map fun i => ⟨.node, i⟩
    | _, c :: t => do some ⟨(← kindOf c), (← intOf t)⟩
    | _, [] => none

def parseXY (cs : List Char) : Option (Int × Int) :=
  match splitC ',' cs with
  | [a, b] => do some ((← intOf a), (← intOf b))
  | _ => none

def parseObj (tok : String) : Option Obj :=
  match splitC ':' tok.toList with
  | [c :: idc, mid, tg] => do
    let kind ← kindOf c
    let id ← intOf idc
    let tags ← parseTags tg
    match kind with
    | .node => do
      let (x, y) ← parseXY mid
      some ⟨⟨kind, id⟩, [], x, y, tags⟩
    | _ => do some ⟨⟨kind, id⟩, (← parseRefs kind mid), 0, 0, tags⟩
  | _ => none

/-- keep token → (model keep function, documented spec of it, class name) -/
def parseKeep (tok : String) : Option (Keep × KeepSpec × String) :=
  if tok == "all" then some (keepAll, .all, "all")
  else match splitC ':' tok.toList with
    | [['b','o','u','n','d','s'], spec] =>
      match (splitC ',' spec).mapM intOf with
      | some [a, b, c, d] =>
        let shape := if c < a || d < b then "inverted" else if a == c && b == d then "point"
          else if a == c || b == d then "flat" else "box"
        some (keepBounds ⟨a, b, c, d⟩, .bounds a b c d, "bounds-" ++ shape)
      | _ => none
    | [['t','a','g','s'], spec] => do
      let want ← (splitC ';' spec).mapM fun kv =>
        match splitC '=' kv with
        | [k, vs] => do
          let k ← natOf k
          let vals ← if vs.isEmpty then some [] else (splitC '|' vs).mapM natOf
          some (k, vals)
        | _ => none
      some (keepTags want, .tags want, "tags")
    | _ => none

def hasSub (s sub : String) : Bool := (s.splitOn sub).length > 1

/-! ## canonical id strings -/

def kindRank : Kind → Nat | .node => 0 | .way => 1 | .rel => 2
def kindChar : Kind → String | .node => "n" | .way => "w" | .rel => "r"
def refLe (a b : Ref) : Bool := kindRank a.kind < kindRank b.kind || (a.kind == b.kind && a.id ≤ b.id)
def refStr (r : Ref) : String := kindChar r.kind ++ toString r.id

def idsStr (rs : List Ref) : String :=
  let rs := (rs.mergeSort refLe).eraseDups
  if rs.isEmpty then "-" else ",".intercalate (rs.map refStr)

def keptStr (doc : Doc) (s : State) : String := idsStr ((result doc s).map (·.key))

/-! ## instrumented sequential run (GOMAXPROCS = 1): passes and keep calls -/

/-- one sequential pass through `order`, exactly as `drainQueue` does it, counting keep calls
(`keep` is called once for every object that is not yet stored) -/
def seqPass (e : Env) (order : List Obj) (s : State) : PCfg × Nat :=
  let rec go : List Obj → PCfg → Nat → PCfg × Nat
    | [], c, n => (c, n)
    | o :: q, c, n =>
      go q (finishW e 0 (Task.start o).size (pstep e 0 c)) (if c.st.has o.key then n else n + 1)
  go order (startPass order s) 0

def seqLoop (e : Env) (doc : Doc) : Nat → State → Nat → Nat → Option (State × Nat × Nat)
  | 0, _, _, _ => none
  | f+1, s, passes, calls =>
    let (c, n) := seqPass e doc s
    if c.st.flag then seqLoop e doc f c.st (passes + 1) (calls + n) else some (c.st, passes + 1, calls + n)

/-! ## pseudo-random schedules -/

def lcg (s : Nat) : Nat := (s * 6364136223846793005 + 1442695040888963407) % 2^64

def randChoices (W : Nat) : Nat → Nat → List Nat × Nat
  | 0, s => ([], s)
  | n+1, s =>
    let s := lcg s
    -- bursts: a worker tends to run several steps in a row, sometimes very long
    let w := (s / 2^33) % W
    let burst := [1, 1, 2, 3, 5, 9][(s / 2^40) % 6]!
    let (rest, s') := randChoices W n s
    (List.replicate burst w ++ rest, s')

def randSched (W passes len seed : Nat) : List (List Nat) :=
  (List.range passes).map fun i => (randChoices W len (lcg (seed + 7919 * i))).1

/-! ## exhaustive exploration of one pass (all interleavings, W = 2) -/

structure Key where
  st : State
  queue : List Obj
  t0 : Task
  t1 : Task
deriving DecidableEq

def Key.toCfg (k : Key) : PCfg := ⟨k.st, k.queue, fun i => if i = 0 then k.t0 else if i = 1 then k.t1 else .idle⟩
def Key.ofCfg (c : PCfg) : Key := ⟨c.st, c.queue, c.ws 0, c.ws 1⟩
def Key.final (k : Key) : Bool := k.queue.isEmpty && k.t0.isIdle && k.t1.isIdle

/-- states at the end of a pass over all interleavings of 2 workers (none if the cap is hit) -/
def explorePass (e : Env) (order : List Obj) (s : State) (cap : Nat) : Option (List State) :=
  let rec go : Nat → List Key → List Key → List State → Option (List State)
    | 0, _, _, _ => none
    | _, [], _, fin => some fin
    | f+1, k :: work, seen, fin =>
      if k.final then go f work seen (if fin.contains k.st then fin else k.st :: fin)
      else
        let succ := [0, 1].filterMap fun w =>
          let k' := Key.ofCfg (pstep e w k.toCfg)
          if k' = k || seen.contains k' then none else some k'
        let succ := succ.eraseDups
        go f (succ ++ work) (succ ++ seen) fin
  let k0 := Key.ofCfg (startPass order s)
  go cap [k0] [k0] []

/-- kept-id strings of all terminal states of the whole loop over all interleavings -/
def exploreAll (e : Env) (doc : Doc) (cap : Nat) : Option (List String) :=
  let rec go : Nat → List State → List State → List String → Option (List String)
    | 0, _, _, _ => none
    | _, [], _, out => some out
    | f+1, s :: work, seen, out =>
      match explorePass e doc s cap with
      | none => none
      | some ends =>
        let fins := (ends.filter (!·.flag)).map (keptStr doc)
        let next := (ends.filter (·.flag)).filter fun s' => !seen.contains s'
        go f (next ++ work) (next ++ seen) ((fins ++ out).eraseDups)
  go 200 [State.init] [State.init] []

/-! ## judge -/

def okIds : Except Fault (List Obj) → Option String
  | .ok r => some (idsStr (r.map (·.key)))
  | .error _ => none

structure Impl where
  seqPasses : Nat
  seqCalls : Nat
  seqIds : String
  seqChk : String
  parRuns : Nat
  parIds : List String
  parDigs : List String
  seqDig : String
  parChkFails : Nat
  filt : Option (List String × String × List String)   -- none: skipped
  filtPanic : Bool

def splitS (sep : Char) (s : String) : List String := (splitC sep s.toList).map String.ofList

def fieldOf (pre : String) (toks : List String) : Option String :=
  (toks.find? (·.startsWith pre)).map fun t => String.ofList (t.toList.drop pre.length)

def parseImpl (rhs : List String) : Option Impl := do
  let seq ← fieldOf "seq=" rhs
  let par ← fieldOf "par=" rhs
  let filt ← fieldOf "filt=" rhs
  match splitS '/' seq, splitS '/' par with
  | [p, c, ids, chk], [runs, pids, fails] =>
    let f : Option (Option (List String × String × List String) × Bool) :=
      if filt == "skip" then some (none, false)
      else if filt.startsWith "panic" then some (none, true)
      else match splitS '/' filt, fieldOf "filt2=" rhs with
        | [ids1, chk1], some ids2 => some (some (splitS ';' ids1, chk1, splitS ';' ids2), false)
        | _, _ => none
    let (fl, fp) ← f
    let pl := if pids == "none" then [] else splitS ';' pids
    some ⟨← natOf p.toList, ← natOf c.toList, ids, chk, ← natOf runs.toList,
          pl.map (fun t => (splitS '~' t).headD ""), pl.map (fun t => ((splitS '~' t).drop 1).headD ""),
          (fieldOf "dig=" rhs).getD "", ← natOf fails.toList, fl, fp⟩
  | _, _ => none

def sizeClass (n : Nat) : String := if n ≤ 6 then "tiny" else if n ≤ 25 then "small" else "large"

/-! ## histories (several extractions on one reader) and cancelled extractions -/

/-- Spec answer for one extraction: ids of the least closed set for the DOCUMENTED keep function -/
def specIds (doc : Doc) (ks : KeepSpec) : Option String :=
  let C := closure doc (specKeep ks)
  if closedB doc (specKeep ks) C then some (idsStr (C.filter (presentB doc))) else none

/-- model answer for one sequential extraction: ids, Check, number of passes (= rewinds of the input) -/
def modelSeq (doc : Doc) (k : Keep) : Option (String × String × Nat) :=
  match seqLoop ⟨true, k, 1⟩ doc (passFuel doc) State.init 0 0 with
  | some (s, passes, _) => some (keptStr doc s, if check (result doc s) then "ok" else "fail", passes)
  | none => none

/-- every extraction of a history is judged on its own: the reader's position and earlier calls
must not matter (`extract` rewinds the input at the start of EVERY pass) -/
def judgeHist (keepToks : List String) (doc : Doc) (rhs : List String) : String :=
  let dang := !noDanglingB doc
  let cls := s!"history-{keepToks.length}-{if dang then "dangling" else "closed"}"
  if !uniqueKeysB doc then s!"OK {cls}-skipped" else
  match fieldOf "hist=" rhs, keepToks.mapM parseKeep with
  | some h, some keeps =>
    let parts := splitS ';' h
    if parts.length != keeps.length then s!"DIFF {cls} unparsable-implementation-answer" else
    let verdicts := (List.zip (List.zip keeps parts) (List.range keeps.length)).map fun (((k, ks, _), part), i) =>
      match specIds doc ks, modelSeq doc k with
      | some want, some (mIds, mChk, _) =>
        match splitS '/' part with
        | [ids, chk] =>
          if ids != want then
            some s!"SPEC {cls} extraction-{i+1}-of-a-history-on-one-reader-is-not-the-least-closed-set got={ids} want={want}"
          else if !dang && chk != "ok" then some s!"SPEC {cls} Check-fails-on-extraction-{i+1}-of-a-history"
          else if (ids, chk) != (mIds, mChk) then some s!"DIFF {cls} extraction-{i+1} model={mIds}/{mChk} impl={part}"
          else none
        | _ => some s!"SPEC {cls} extraction-{i+1}-of-a-history-on-one-reader-fails: {part}"
      | _, _ => some s!"DIFF {cls} spec-or-model-failed"
    match verdicts.filterMap id with
    | [] => s!"OK {cls}"
    | vs => (vs.find? (·.startsWith "SPEC")).getD (vs.headD "")
  | _, _ =>
    match rhs with
    | "timeout" :: _ => s!"SPEC {cls} extraction-does-not-return"
    | "crash" :: w => s!"SPEC {cls} extraction-crashes-the-process {" ".intercalate w}"
    | _ => "BAD parse"

/-- Spec for a cancelled extraction: EITHER a non-nil error OR exactly the least closed set — never a
silent partial result.  Model: the input is rewound once per pass, so cancelling on the n-th rewind
makes pass n scan nothing: an error is expected iff the extraction needs at least n passes. -/
def judgeCancel (n : Nat) (keepTok : String) (doc : Doc) (rhs : List String) : String :=
  let dang := !noDanglingB doc
  if !uniqueKeysB doc then "OK cancel-skipped" else
  match parseKeep keepTok, fieldOf "cancel=" rhs with
  | some (k, ks, _), some ans =>
    match specIds doc ks, modelSeq doc k with
    | some want, some (mIds, mChk, passes) =>
      let hit := decide (n ≤ passes)
      let cls := s!"cancel-{if hit then "during" else "after"}-{if dang then "dangling" else "closed"}"
      if ans.startsWith "err:" then
        if hit then s!"OK {cls}" else s!"DIFF {cls} error-although-the-context-was-never-cancelled-during-the-run {ans}"
      else match splitS '/' ans with
        | ["ok", ids, chk] =>
          if ids != want then
            s!"SPEC {cls} nil-error-with-a-partial-result-after-cancellation got={ids} want={want}"
          else if !dang && chk != "ok" then s!"SPEC {cls} nil-error-and-Check-fails-after-cancellation"
          else if hit then s!"DIFF {cls} model-expects-an-error-impl-returned-the-closure"
          else if (ids, chk) != (mIds, mChk) then s!"DIFF {cls} model={mIds}/{mChk} impl={ans}"
          else s!"OK {cls}"
        | _ => s!"SPEC {cls} cancelled-extraction-{ans}"
    | _, _ => "DIFF cancel spec-or-model-failed"
  | _, _ =>
    match rhs with
    | "timeout" :: _ => "SPEC cancel extraction-does-not-return"
    | "crash" :: w => s!"SPEC cancel extraction-crashes-the-process {" ".intercalate w}"
    | _ => "BAD parse"

/-! ## `p` lines: PBF input, the other entry points, and the observers (Geom, CountTags, stored objects) -/

def tagsStr (t : List (Nat × Nat)) : String :=
  if t.isEmpty then "-" else ";".intercalate (t.map fun kv => s!"{kv.1}={kv.2}")

/-- the object token of the case line (harness `contentOf` renders stored objects in the same form) -/
def objStr (o : Obj) : String :=
  match o.key.kind with
  | .node => s!"n{o.key.id}:{o.x},{o.y}:{tagsStr o.tags}"
  | .way =>
    let rs := if o.refs.isEmpty then "-" else ",".intercalate (o.refs.map fun r => toString r.id)
    s!"w{o.key.id}:{rs}:{tagsStr o.tags}"
  | .rel =>
    let rs := if o.refs.isEmpty then "-" else ",".intercalate (o.refs.map refStr)
    s!"r{o.key.id}:{rs}:{tagsStr o.tags}"

def sortObjs (objs : List Obj) : List Obj := objs.mergeSort fun a b => refLe a.key b.key

def strSort (l : List String) : List String := l.mergeSort fun a b => !(decide (b < a))

def tagMapStr (m : List (Nat × List Nat)) : String :=
  if m.isEmpty then "{}" else
  -- the harness (tagMapTok) sorts the KEYS ("k1" < "k12"), not the rendered rows ("k12=…" < "k1=…")
  let ms := m.mergeSort fun a b => !(decide (keyStr b.1 < keyStr a.1))
  let rows := ms.map fun e => keyStr e.1 ++ "=" ++ "|".intercalate (e.2.map valStr)
  "{" ++ "&".intercalate rows ++ "}"

def ptsStr (ps : List (Int × Int)) : String := ";".intercalate (ps.map fun p => s!"{p.1}_{p.2}")

def gitemStr : GItem → String
  | .node x y t => s!"N{x}_{y}{tagMapStr t}"
  | .line ps t => s!"L{ptsStr ps}{tagMapStr t}"
  | .poly ps t => s!"G{ptsStr ps}{tagMapStr t}"
  | .rel k t =>
    let ks := match k with | .pg => "pg" | .ml => "ml" | .mp => "mp" | .gc => "gc"
    s!"R{ks}{tagMapStr t}"

def geomStr (kept rts : List Obj) : String :=
  match geomItems kept rts with
  | .error _ => "panic"
  | .ok items =>
    let l := strSort (items.map gitemStr)
    if l.isEmpty then "-" else ",".intercalate l

def countStr : Except Fault2 (List TagCount) → String
  | .error _ => "panic"
  | .ok [] => "-"
  | .ok l => ",".intercalate (l.map fun t =>
      s!"{keyStr t.key}={valStr t.val}:{t.total}:{t.node}:{t.closedWay}:{t.openWay}:{t.rel}")

/-- implementation's CountTags answer in the model's vocabulary (a panic only counts as THE modelled one) -/
def normCount (s : String) : String :=
  if s.startsWith "panic:" && hasSub s "index_out_of_range" then "panic" else s

def parseContent (s : String) : Option (List Obj) :=
  if s == "-" then some [] else (splitS '+' s).mapM parseObj

/-- compare stored objects with the expected ones: `some (true, _)` = reference lists / ids differ (Spec),
`some (false, _)` = only tags or positions differ (model) -/
def contentBad (what : String) (got : String) (want : List Obj) : Option (Bool × String) :=
  match parseContent got with
  | none => some (false, s!"{what}-unparsable {got}")
  | some g =>
    if g.map (fun o => (o.key, o.refs)) != want.map (fun o => (o.key, o.refs)) then
      some (true, s!"{what}: a-stored-object-does-not-reference-what-the-document's-object-references got={got} want={"+".intercalate (want.map objStr)}")
    else if g != want then some (false, s!"{what}: tags-or-positions got={got} want={"+".intercalate (want.map objStr)}")
    else none

def judgePbf (keepTok : String) (doc : Doc) (rhs : List String) : String :=
  let dang := !noDanglingB doc
  let emptyWay := doc.any fun o => o.key.kind == .way && o.refs.isEmpty
  match parseKeep keepTok with
  | none => "BAD parse"
  | some (k, ks, kname) =>
  let cls := s!"pbf-{kname}-{if dang then "dangling" else "closed"}{if emptyWay then "-emptyway" else ""}"
  if !uniqueKeysB doc then s!"OK {cls}-skipped" else
  match fieldOf "pbf=" rhs with
  | none =>
    match rhs with
    | "crash" :: w => s!"SPEC {cls} extraction-crashes-the-process {" ".intercalate w}"
    | "timeout" :: _ => s!"SPEC {cls} extraction-does-not-return"
    | _ => "BAD parse"
  | some pbf =>
  match splitS '/' pbf with
  | [passes, ids, chk] =>
    let C := closure doc (specKeep ks)
    if !closedB doc (specKeep ks) C then s!"DIFF {cls} spec-iteration-did-not-reach-a-closed-set" else
    let want := idsStr (C.filter (presentB doc))
    let kept := doc.filter fun o => decide (o.key ∈ C)
    let f := fun (n : String) => (fieldOf n rhs).getD "missing"
    -- Spec
    if ids != want then s!"SPEC {cls} ExtractPBF-is-not-the-least-closed-set got={ids} want={want}"
    else if !dang && chk != "ok" then s!"SPEC {cls} Check-fails-on-ExtractPBF-of-document-without-dangling-references"
    else
    let par := splitS ';' (f "pbfpar=")
    if par.any (fun t => (splitS '~' t).headD "" != want) then
      s!"SPEC {cls} result-depends-on-schedule (ExtractPBF) got={";".intercalate par} want={want}"
    else if par.any (fun t => ((splitS '~' t).drop 1).headD "" != f "seqdig=") then
      s!"SPEC {cls} result-depends-on-schedule (same ids; stored objects / Geom / CountTags differ) got={";".intercalate par} seq={f "seqdig="}"
    else
    match splitS '|' (f "file=") with
    | [fo, fp, ft] =>
      if fo != want || fp != want then s!"SPEC {cls} ExtractFile-is-not-the-least-closed-set osm={fo} pbf={fp} want={want}"
      else if f "tag=" != "skip" && f "tag=" != want then s!"SPEC {cls} ExtractTag-is-not-the-least-closed-set got={f "tag="} want={want}"
      else
      let wantObjs := sortObjs kept
      let cb := [contentBad "ExtractPBF" (f "content=") wantObjs, contentBad "ExtractXML" (f "xcontent=") wantObjs,
                 contentBad "keepTags=false" (f "nt=") (wantObjs.map (copyObj false))].filterMap id
      match cb.find? (·.1) with
      | some (_, w) => s!"SPEC {cls} {w}"
      | none =>
      -- Model
      match cb with
      | (_, w) :: _ => s!"DIFF {cls} {w}"
      | [] =>
      if ft != "err" then s!"DIFF {cls} ExtractFile-accepts-extension-.txt {ft}" else
      match seqLoop ⟨true, k, 1⟩ doc (passFuel doc) State.init 0 0 with
      | none => s!"DIFF {cls} model-out-of-fuel"
      | some (s, mpasses, _) =>
        if observe doc s != (kept, specRoots kept) then s!"DIFF {cls} model-observation-differs-from-spec (kept, roots)"
        else if toString mpasses != passes then s!"DIFF {cls} passes model={mpasses} impl={passes}"
        else
        let g := geomStr kept (roots doc s)
        if normCount (f "geom=") != g then s!"DIFF {cls} Geom model={g} impl={f "geom="}"
        else if normCount (f "dcount=") != countStr (countTags kept) then
          s!"DIFF {cls} Data.CountTags model={countStr (countTags kept)} impl={f "dcount="}"
        else if normCount (f "count=") != countStr (countTags doc) then
          s!"DIFF {cls} CountTags model={countStr (countTags doc)} impl={f "count="}"
        else s!"OK {cls}"
    | _ => s!"DIFF {cls} unparsable-implementation-answer"
  | _ => s!"SPEC {cls} ExtractPBF-fails {pbf}"

/-- truncated input: an error, or exactly the closure of the objects that lie completely before the cut —
never a nil error with another set.  Model: a PBF file cut at a block boundary is a well-formed shorter file
(answer = closure of the prefix); any other cut, and every cut of an XML file (the root element stays open),
is a scanner error that `extract` returns. -/
def judgeTrunc (fmt keepTok : String) (doc : Doc) (rhs : List String) : String :=
  match parseKeep keepTok, fieldOf "trunc=" rhs, (fieldOf "n=" rhs).bind (·.toNat?), fieldOf "clean=" rhs with
  | some (k, ks, _), some ans, some n, some clean =>
    let pre := doc.take n
    let cls := s!"truncated-{if fmt == "x" then "xml" else "pbf"}-{if clean == "1" then "at-boundary" else "inside"}"
    if !uniqueKeysB pre then s!"OK {cls}-skipped" else
    if ans == "skip" then s!"OK {cls}-skipped" else
    match specIds pre ks, modelSeq pre k with
    | some want, some (mIds, mChk, _) =>
      if ans == "err" then
        if clean == "1" then s!"DIFF {cls} error-on-a-well-formed-shorter-file" else s!"OK {cls}"
      else match splitS '/' ans with
        | ["ok", ids, chk] =>
          if ids != want then s!"SPEC {cls} nil-error-with-a-partial-result-on-truncated-input got={ids} want={want} (closure of the {n} objects before the cut)"
          else if noDanglingB pre && chk != "ok" then s!"SPEC {cls} nil-error-and-Check-fails-on-truncated-input"
          else if clean == "2" then s!"OK {cls}-accepted-by-the-scanner"
          else if clean != "1" then s!"DIFF {cls} model-expects-a-scanner-error-impl-returned-the-closure-of-the-prefix"
          else if (ids, chk) != (mIds, mChk) then s!"DIFF {cls} model={mIds}/{mChk} impl={ans}"
          else s!"OK {cls}"
        | _ => s!"SPEC {cls} truncated-input-{ans}"
    | _, _ => s!"DIFF {cls} spec-or-model-failed"
  | _, _, _, _ =>
    match rhs with
    | "timeout" :: _ => "SPEC truncated extraction-does-not-return"
    | "crash" :: w => s!"SPEC truncated extraction-crashes-the-process {" ".intercalate w}"
    | _ => "BAD parse"

def tokens (line : String) : List String := (line.splitOn " ").filter (· ≠ "")

/-- `<bounds>`, `<note>`, `<user>` elements of the file: the scanner yields them, the worker's empty
`case *osm.Note, *osm.Bounds, *osm.User:` skips them — they are not objects of the document -/
def isExtra (t : String) : Bool := t == "B" || t == "N" || t == "U"
def parseDoc (objToks : List String) : Option Doc := (objToks.filter (!isExtra ·)).mapM parseObj

/-! ## `d` lines: documents that REPEAT an id (Dup.lean).  Spec = the clauses that hold for every document:
ids inside the full closure, `closedDB` (every selected element in, every stored id has a version whose present
references are stored), every stored object IS an element of the document, Check passes when nothing dangles.
Model (exact, GOMAXPROCS=1): ids, number of passes, and WHICH version is stored (the first element of the id that is
selected or requested while the id is not yet stored). -/

def seqStoredPass (e : Env) : List Obj → PCfg → List Obj → PCfg × List Obj
  | [], c, a => (c, a)
  | o :: q, c, a =>
    let c' := finishW e 0 (Task.start o).size (pstep e 0 c)
    seqStoredPass e q c' (if !c.st.has o.key && c'.st.has o.key then a ++ [o] else a)

def seqStored (e : Env) (doc : Doc) : Nat → State → List Obj → Nat → Option (State × List Obj × Nat)
  | 0, _, _, _ => none
  | f+1, s, acc, passes =>
    let (c, a) := seqStoredPass e doc (startPass doc s) acc
    if c.st.flag then seqStored e doc f c.st a (passes + 1) else some (c.st, a, passes + 1)

def parseIds (s : String) : Option (List Ref) :=
  if s == "-" then some [] else (splitS ',' s).mapM fun t =>
    match t.toList with
    | c :: rest => do let k ← kindOf c; let i ← intOf rest; pure ⟨k, i⟩
    | [] => none

def judgeDup (keepTok : String) (doc : Doc) (rhs : List String) : String :=
  let dang := !noDanglingB doc
  let cls := s!"dupids-{if uniqueKeysB doc then "unique" else "repeated"}-{if dang then "dangling" else "closed"}"
  match parseKeep keepTok, fieldOf "dup=" rhs, fieldOf "content=" rhs, fieldOf "par=" rhs with
  | some (k, ks, _), some sq, some content, some par =>
    let C := closure doc (specKeep ks)
    if !closedB doc (specKeep ks) C then s!"DIFF {cls} spec-iteration-did-not-reach-a-closed-set" else
    let runs := (splitS '/' sq).take 2 :: ((splitS ';' par).map fun r => splitS '/' r)
    let specBad := runs.filterMap fun r =>
      match r with
      | [ids, chk] =>
        match parseIds ids with
        | none => some s!"unparsable-ids {ids}"
        | some S =>
          if S.any (fun r => !decide (r ∈ C)) then some s!"an-id-outside-the-closure-is-stored got={ids}"
          else if !closedDB doc (specKeep ks) S then
            some s!"result-is-not-closed-(selected-element-missing-or-no-version-of-a-stored-id-has-its-references-stored) got={ids}"
          else if !dang && chk != "ok" then some s!"Check-fails got={ids}"
          else none
      | _ => some s!"extraction-fails {"/".intercalate r}"
    match specBad with
    | w :: _ => s!"SPEC {cls} {w}"
    | [] =>
    match parseContent content with
    | none => s!"DIFF {cls} content-unparsable {content}"
    | some got =>
      if got.any (fun g => !(doc.any fun o => o.key == g.key && o.refs == g.refs)) then
        s!"SPEC {cls} a-stored-object-is-not-an-element-of-the-document got={content}"
      else
      match seqStored ⟨true, k, 1⟩ doc (passFuel doc) State.init [] 0 with
      | none => s!"DIFF {cls} model-out-of-fuel"
      | some (s, stored, passes) =>
        let mIds := keptStr doc s
        let want := sortObjs stored
        match splitS '/' sq with
        | [ids, _, p] =>
          if ids != mIds || p != toString passes then s!"DIFF {cls} sequential-run model={mIds}/{passes} impl={ids}/{p}"
          else if got != want then
            s!"DIFF {cls} stored-version model={"+".intercalate (want.map objStr)} impl={content}"
          else s!"OK {cls}"
        | _ => s!"DIFF {cls} unparsable-implementation-answer"
  | _, _, _, _ =>
    match rhs with
    | "timeout" :: _ => s!"SPEC {cls} extraction-does-not-return"
    | "crash" :: w => s!"SPEC {cls} extraction-crashes-the-process {" ".intercalate w}"
    | _ => "BAD parse"

def judgeLine (line : String) : String :=
  let toks := tokens line
  let lhs := toks.takeWhile (· ≠ "=>")
  let rhs := toks.drop (lhs.length + 1)
  match lhs with
  | "h" :: _pos :: rest =>
    let keepToks := rest.takeWhile (· ≠ "|")
    match parseDoc (rest.drop (keepToks.length + 1)) with
    | some doc => judgeHist keepToks doc rhs
    | none => "BAD parse"
  | "t" :: fmt :: _cut :: keepTok :: "|" :: objToks =>
    match parseDoc objToks with
    | some doc => judgeTrunc fmt keepTok doc rhs
    | none => "BAD parse"
  | "p" :: _variant :: keepTok :: "|" :: objToks =>
    match parseDoc objToks with
    | some doc => judgePbf keepTok doc rhs
    | none => "BAD parse"
  | "d" :: keepTok :: "|" :: objToks =>
    match parseDoc objToks with
    | some doc => judgeDup keepTok doc rhs
    | none => "BAD parse"
  | "c" :: n :: keepTok :: "|" :: objToks =>
    match parseDoc objToks with
    | some doc => judgeCancel (n.toNat?.getD 0) keepTok doc rhs
    | none => "BAD parse"
  | "x" :: keepTok :: _runs :: seedTok :: "|" :: objToks =>
    match parseKeep keepTok, parseDoc objToks with
    | some (k, ks, kname), some doc =>
      let dang := !noDanglingB doc
      let onEdge : Bool := match ks with
        | .bounds a b c d => doc.any fun o => o.key.kind == .node && decide (inClosedRect a b c d o.x o.y) &&
            (o.x == a || o.x == c || o.y == b || o.y == d)
        | _ => false
      let nExtra := (objToks.filter isExtra).length
      let deep := (doc.filter fun o => o.key.kind == .rel).length ≥ 30 && doc.length ≤ (doc.filter fun o => o.key.kind == .rel).length + 8
      let kname := kname ++ (if nExtra > 0 then "-extra" else "") ++ (if deep then "-deepchain" else "")
      let cls := s!"{kname}{if onEdge then "-edge" else ""}-{if dang then "dangling" else "closed"}-{sizeClass doc.length}"
      if !uniqueKeysB doc then s!"OK {cls}-skipped" else
      match rhs with
      | "timeout" :: w => s!"SPEC {cls} extraction-does-not-return (hangs; must not depend on GOMAXPROCS) {" ".intercalate w}"
      | "panic" :: w => s!"SPEC {cls} extraction-panics {" ".intercalate w}"
      | "error" :: w => s!"SPEC {cls} extraction-returns-error {" ".intercalate w}"
      | "crash" :: w => s!"SPEC {cls} extraction-crashes-the-process {" ".intercalate w}"
      | _ =>
      match parseImpl rhs with
      | none => s!"DIFF {cls} unparsable-implementation-answer"
      | some im =>
        -- Spec
        -- the Spec side uses the DOCUMENTED selection of the keep function (Spec.specKeep), not the model's
        let C := closure doc (specKeep ks)
        if !closedB doc (specKeep ks) C then s!"DIFF {cls} spec-iteration-did-not-reach-a-closed-set" else
        let want := idsStr (C.filter (presentB doc))
        let wantObjs := doc.filter fun o => decide (o.key ∈ C)
        if im.seqIds != want then
          s!"SPEC {cls} sequential-extract-is-not-the-least-closed-set got={im.seqIds} want={want}"
        else if im.parIds.any (· != want) then
          s!"SPEC {cls} result-depends-on-schedule runs={im.parRuns} got={";".intercalate im.parIds} want={want}"
        else if im.parDigs.any (· != im.seqDig) then
          s!"SPEC {cls} result-depends-on-schedule (same ids; stored objects / Geom / CountTags differ) runs={im.parRuns} digests={";".intercalate im.parDigs} seq={im.seqDig}"
        else if !dang && (im.seqChk != "ok" || im.parChkFails != 0) then
          s!"SPEC {cls} Check-fails-on-extract-of-document-without-dangling-references"
        else if im.filtPanic then s!"SPEC {cls} Filter-panics"
        else
        let filtBad : Option String := match im.filt with
          | none => none
          | some (f1, chk1, f2) =>
            if f1.any (· != want) then some s!"Filter-is-not-the-least-closed-set got={";".intercalate f1} want={want}"
            else if f2 != f1 then some s!"Filter-not-idempotent got={";".intercalate f2} want={want}"
            else if !dang && chk1 != "ok" then some "Check-fails-on-Filter-result"
            else match (fieldOf "fdig=" rhs).map (splitS '|') with
              | some [d1, d2] =>
                -- what Geom / CountTags / the stored objects show of a Filter result must not depend on the Go map
                -- order (4 runs), and filtering again must not change it (idempotent as a value, not only as an id set)
                if hasSub d1 ";" || hasSub d2 ";" then some s!"Filter-result-depends-on-map-iteration-order (same ids; stored objects / Geom / CountTags differ) {d1}|{d2}"
                else if d1 != d2 then some s!"Filter-not-idempotent (same ids; stored objects / Geom / CountTags differ) {d1}|{d2}"
                else none
              | _ => none
        match filtBad with
        | some w => s!"SPEC {cls} {w}"
        | none =>
        -- Model
        let e1 : Env := ⟨true, k, 1⟩
        match seqLoop e1 doc (passFuel doc) State.init 0 0 with
        | none => s!"DIFF {cls} model-out-of-fuel"
        | some (s, passes, calls) =>
          let mIds := keptStr doc s
          let mChk := if check (result doc s) then "ok" else "fail"
          if okIds (extractRun true k 1 doc []) != some mIds then s!"DIFF {cls} instrumented-run-differs-from-model-run"
          else if (mIds, passes, calls, mChk) != (im.seqIds, im.seqPasses, im.seqCalls, im.seqChk) then
            s!"DIFF {cls} sequential-run model={passes}/{calls}/{mIds}/{mChk} impl={im.seqPasses}/{im.seqCalls}/{im.seqIds}/{im.seqChk}"
          else if (mChk == "ok") != checkOKB wantObjs then s!"DIFF {cls} model-check-differs-from-spec-audit"
          else
          let seed := (seedTok.toNat?.getD 0)
          let budget := 4 * (doc.foldl (fun n (o : Obj) => n + 3 * o.refs.length + 4) 0) / 3
          let parBad := [(2, 1), (2, 2), (3, 3), (4, 4), (16, 5)].filterMap fun (W, i) =>
            match okIds (extractRun true k W doc (randSched W 12 budget (seed + i))) with
            | some ids => if ids == mIds then none else some s!"W={W}:{ids}"
            | none => some s!"W={W}:fuel"
          if !parBad.isEmpty then s!"DIFF {cls} model-depends-on-schedule {" ".intercalate parBad} seq={mIds}"
          else if im.parIds.any (· != mIds) then s!"DIFF {cls} steered-runs model={mIds} impl={";".intercalate im.parIds}"
          else
          let filtDiff : Option String := match im.filt with
            | none => none
            | some (f1, _, f2) =>
              -- Filter input = KeepAll extraction = whole document (ids unique); Go visits nodes, ways, relations
              let byKind := doc.mergeSort fun a b => kindRank a.key.kind ≤ kindRank b.key.kind
              let rev := (doc.reverse).mergeSort fun a b => kindRank a.key.kind ≤ kindRank b.key.kind
              match filterRun k doc [byKind, rev, byKind], filterRun k doc [rev] with
              | .ok r1, .ok r2 =>
                let s1 := idsStr (r1.map (·.key))
                match okIds (filterRun k r1 [r1.reverse]) with
                | some s3 =>
                  if r1 != r2 then some "model-Filter-depends-on-map-order"
                  else if f1.any (· != s1) then some s!"Filter model={s1} impl={";".intercalate f1}"
                  else if f2.any (· != s3) then some s!"Filter-twice model={s3} impl={";".intercalate f2}"
                  else none
                | none => some "model-Filter-out-of-fuel"
              | _, _ => some "model-Filter-out-of-fuel"
          match filtDiff with
          | some w => s!"DIFF {cls} {w}"
          | none =>
          -- exhaustive exploration of the model for tiny documents
          if doc.length ≤ 5 && (doc.foldl (fun n (o : Obj) => n + o.refs.length) 0) ≤ 6 then
            match exploreAll ⟨true, k, 2⟩ doc 30000 with
            | none => s!"OK {cls}"
            | some outs =>
              if outs.all (· == mIds) then s!"OK {cls}-exhaustive"
              else s!"DIFF {cls} model-interleaving-reaches {";".intercalate outs} seq={mIds}"
          else s!"OK {cls}"
    | _, _ => "BAD parse"
  | _ => "BAD line"

partial def forEachLine (f : String → IO Unit) : IO Unit := do
  let h ← IO.getStdin
  let rec loop : IO Unit := do
    let line ← h.getLine
    if line.isEmpty then return ()
    let l := (line.trimAscii).toString
    if l ≠ "" then f l
    loop
  loop

/-- `explore` mode: print, for each tiny document, the outcomes reachable in the ORIGINAL loop
condition (fos = false) over all interleavings of two workers (used for notes / counter-schedules) -/
def exploreLine (line : String) : String :=
  match tokens line with
  | "x" :: keepTok :: _ :: _ :: "|" :: objToks =>
    match parseKeep keepTok, parseDoc (objToks.takeWhile (· ≠ "=>")) with
    | some (k, _, _), some doc =>
      let show_ := fun (o : Option (List String)) => match o with | none => "cap" | some l => ";".intercalate l
      s!"fixed={show_ (exploreAll ⟨true, k, 2⟩ doc 30000)} original={show_ (exploreAll ⟨false, k, 2⟩ doc 30000)} closure={idsStr ((closure doc k).filter (presentB doc))}"
    | _, _ => "BAD parse"
  | _ => "BAD line"

end GeomV.C18

open GeomV.C18 in
def main (args : List String) : IO Unit := do
  let out ← IO.getStdout
  match args with
  | ["judge"] => forEachLine fun l => out.putStrLn (judgeLine l)
  | ["explore"] => forEachLine fun l => out.putStrLn (exploreLine l)
  | _ => IO.eprintln "usage: geomv_c18 judge|explore"
