import GeomV.C18.Proofs
import GeomV.C18.Observe
/-!
# C18 — property theorems, part 2: the result as seen through `(*Data).Geom` / `CountTags`

`Geom` reads the `dependent*` maps (an item for every stored object that is not a registered dependency), so
"the result does not depend on goroutine interleaving or GOMAXPROCS" has to hold for the need set as well,
not only for the kept maps.

* `C18_need_exact`                        at the end of the fixed `extract` (any schedule, any W ≥ 1) the need set is
                                          EXACTLY the set of references of the stored objects;
* `C18_roots_spec`                        hence `Geom`'s roots = stored objects referenced by no stored object
                                          (`specRoots`, a function of the result alone);
* `C18_observers_schedule_independent`    (stored objects, roots) — and with them everything `Geom` and `CountTags`
                                          compute — do not depend on the schedule nor on W;
* `C18_filter_observers`                  the same for `Filter` (state-independent keep, any map orders);
* `C18_cancel_no_partial_result`          cancelled by the n-th rewind: the context error, or exactly the least closed set;
* `C18_geom_no_dropped_point`             document without dangling references: every way of the result gets ALL its
                                          points in `Geom` (`nodeToPoint(nil)` never fires).
-/
set_option linter.unusedSimpArgs false
set_option linter.unusedVariables false
namespace GeomV.C18

/-- the need set is exactly the references of the stored objects -/
def NeedExact (doc : Doc) (s : State) : Prop :=
  ∀ r, r ∈ s.need ↔ ∃ o ∈ doc, o.key ∈ s.kept ∧ r ∈ o.refs

theorem LInv.needExact {doc : Doc} {C : Ref → Prop} {s : State} (h : LInv doc C s) : NeedExact doc s :=
  fun r => ⟨h.sound.need r, fun ⟨o, ho, hk, hr⟩ => h.reg o ho hk r hr⟩

/-- the loop ends with the least closed set in the kept maps AND the exact need set -/
theorem runG_final {e : Env} {doc : Doc} (hm : Mode e) (hW : 0 < e.W) (hu : uniqueKeys doc)
    (ps : List (List Obj × List Nat)) :
    ∃ s, runG e doc ps = .ok s ∧ IsLeastClosed doc e.k (· ∈ s.kept) ∧ NeedExact doc s := by
  obtain ⟨s, hs, hl⟩ := runG_least hm hW hu ps
  obtain ⟨s', hs', hinv, _⟩ := runG_spec (closed_univ doc e.k) hm hW hu ps
  rw [hs] at hs'
  cases hs'
  exact ⟨s, hs, hl, hinv.needExact⟩

/-- **C18_need_exact** (clause "does not depend on goroutine interleaving or GOMAXPROCS", for the
`dependent*` maps that `Geom` reads).  Fixed `extract`, any keep function of the modelled shape, any
`W ≥ 1`, any schedule: the run ends, the kept maps hold the least closed set, and an id is a registered
dependency iff a stored object references it. -/
theorem C18_need_exact (k : Keep) (W : Nat) (hW : 0 < W) (doc : Doc) (hu : uniqueKeys doc)
    (sched : List (List Nat)) :
    ∃ s, runG ⟨true, k, W⟩ doc (sched.map fun ch => (doc, ch)) = .ok s ∧
      IsLeastClosed doc k (· ∈ s.kept) ∧
      ∀ r, r ∈ s.need ↔ ∃ o ∈ doc, o.key ∈ s.kept ∧ r ∈ o.refs :=
  runG_final (e := ⟨true, k, W⟩) (.inl rfl) hW hu _

/-- **C18_roots_spec**: with the exact need set, `Geom`'s roots (stored, not a registered dependency) are
the stored objects that no stored object references — a function of the stored objects alone. -/
theorem C18_roots_spec (doc : Doc) (s : State) (h : NeedExact doc s) :
    roots doc s = specRoots (result doc s) := by
  unfold roots specRoots result
  rw [List.filter_filter]
  apply List.filter_congr
  intro o ho
  simp only [isRoot, State.has]
  by_cases hk : o.key ∈ s.kept
  · simp only [hk, decide_true, Bool.true_and, Bool.and_true]
    congr 1
    rw [Bool.eq_iff_iff]
    simp only [decide_eq_true_eq, List.any_eq_true, List.mem_filter, List.contains_iff_mem]
    rw [h o.key]
    constructor
    · rintro ⟨o', ho', hk', hr⟩; exact ⟨o', ⟨ho', hk'⟩, hr⟩
    · rintro ⟨o', ⟨ho', hk'⟩, hr⟩; exact ⟨o', ho', hk', hr⟩
  · simp [hk]

theorem observe_eq {doc : Doc} {s : State} (h : NeedExact doc s) :
    observe doc s = (doc.filter (fun o => decide (o.key ∈ s.kept)),
      specRoots (doc.filter fun o => decide (o.key ∈ s.kept))) := by
  have : result doc s = doc.filter (fun o => decide (o.key ∈ s.kept)) := by simp [result, State.has]
  simp only [observe, C18_roots_spec doc s h, this]

theorem runObs_least {e : Env} {doc : Doc} (hm : Mode e) (hW : 0 < e.W) (hu : uniqueKeys doc)
    (ps : List (List Obj × List Nat)) :
    ∃ K : List Ref, IsLeastClosed doc e.k (· ∈ K) ∧
      (runG e doc ps).map (observe doc) =
        .ok (doc.filter (fun o => decide (o.key ∈ K)), specRoots (doc.filter fun o => decide (o.key ∈ K))) := by
  obtain ⟨s, hs, hl, hn⟩ := runG_final hm hW hu ps
  exact ⟨s.kept, hl, by simp [hs, Except.map, observe_eq hn]⟩

/-- **C18_observers_schedule_independent** (clause "does not depend on goroutine interleaving or
GOMAXPROCS", observed at `(*Data).Geom` / `CountTags` / the stored objects).  The pair (stored objects,
roots of `Geom`) returned by the fixed `extract` is the same for all worker counts and all schedules, and
it is (document filtered by the least closed set, its unreferenced members). -/
theorem C18_observers_schedule_independent (k : Keep) (doc : Doc) (hu : uniqueKeys doc)
    (W₁ W₂ : Nat) (h₁ : 0 < W₁) (h₂ : 0 < W₂) (s₁ s₂ : List (List Nat)) :
    extractObs true k W₁ doc s₁ = extractObs true k W₂ doc s₂ ∧
    ∃ K : List Ref, IsLeastClosed doc k (· ∈ K) ∧
      extractObs true k W₁ doc s₁ =
        .ok (doc.filter (fun o => decide (o.key ∈ K)), specRoots (doc.filter fun o => decide (o.key ∈ K))) := by
  obtain ⟨K₁, hl₁, e₁⟩ := runObs_least (e := ⟨true, k, W₁⟩) (.inl rfl) h₁ hu (s₁.map fun ch => (doc, ch))
  obtain ⟨K₂, hl₂, e₂⟩ := runObs_least (e := ⟨true, k, W₂⟩) (.inl rfl) h₂ hu (s₂.map fun ch => (doc, ch))
  refine ⟨?_, K₁, hl₁, e₁⟩
  unfold extractObs
  rw [e₁, e₂, filter_least_eq hl₁ hl₂]

/-- `Filter` observed at the stored objects and the roots -/
def filterObs (k : Keep) (d : List Obj) (orders : List (List Obj)) : Except Fault (List Obj × List Obj) :=
  (runG ⟨false, k, 1⟩ d (orders.map fun o => (o, []))).map (observe d)

/-- **C18_filter_observers**: `Filter` with a state-independent keep function: what `Geom`/`CountTags` see of
its result does not depend on the Go map iteration orders. -/
theorem C18_filter_observers (k : Keep) (hk : Static k) (d : List Obj) (hu : uniqueKeys d)
    (o₁ o₂ : List (List Obj)) : filterObs k d o₁ = filterObs k d o₂ := by
  obtain ⟨K₁, hl₁, e₁⟩ := runObs_least (e := ⟨false, k, 1⟩) (.inr hk) Nat.one_pos hu (o₁.map fun o => (o, []))
  obtain ⟨K₂, hl₂, e₂⟩ := runObs_least (e := ⟨false, k, 1⟩) (.inr hk) Nat.one_pos hu (o₂.map fun o => (o, []))
  unfold filterObs
  rw [e₁, e₂, filter_least_eq hl₁ hl₂]

/-- on a result that passes `Check`, every node id of every way is found (`nodes[id]` is never nil) -/
theorem wayPoints_length {kept : List Obj} (hc : check kept = true) {w : Obj} (hw : w ∈ kept) :
    (wayPoints kept w).length = w.refs.length := by
  simp only [check, List.all_eq_true, List.any_eq_true, beq_iff_eq] at hc
  have hall : ∀ r ∈ w.refs, (nodeAt kept r).isSome = true := by
    intro r hr
    obtain ⟨o', ho', hk⟩ := hc w hw r hr
    simp only [nodeAt, Option.isSome_map, List.find?_isSome]
    exact ⟨o', ho', by simp [hk]⟩
  unfold wayPoints
  generalize w.refs = l at hall
  induction l with
  | nil => rfl
  | cons a l ih =>
    have ha := hall a (by simp)
    obtain ⟨p, hp⟩ := Option.isSome_iff_exists.1 ha
    rw [List.filterMap_cons, hp]
    simp only [List.length_cons]
    rw [ih (fun r hr => hall r (by simp [hr]))]

/-- **C18_geom_no_dropped_point** ("the result passes Check whenever the document has no dangling
references", observed at `Geom`): for such a document the line/ring `Geom` builds for ANY way of the result
has one point per node id of the way — `nodeToPoint(nil)` (a silently skipped point) never happens, for
every schedule and worker count. -/
theorem C18_geom_no_dropped_point (k : Keep) (W : Nat) (hW : 0 < W) (doc : Doc) (hu : uniqueKeys doc)
    (hd : noDangling doc) (sched : List (List Nat)) :
    ∃ r, extractRun true k W doc sched = .ok r ∧
      ∀ w ∈ r, (wayPoints r w).length = w.refs.length := by
  obtain ⟨r, hr, hc⟩ := C18_check k W hW doc hu hd sched
  exact ⟨r, hr, fun w hw => wayPoints_length hc hw⟩

/-! ## cancellation -/

theorem loopGC_spec (e : Env) (doc : Doc) (n : Nat) :
    ∀ (f i : Nat) (ps : List (List Obj × List Nat)) (s : State),
      loopGC e doc n f i ps s = .ok none ∨ loopGC e doc n f i ps s = (loopG e doc f ps s).map some
  | 0, _, _, _ => .inr rfl
  | f+1, i, ps, s => by
    simp only [loopGC, loopG]
    by_cases hn : i + 1 = n
    · simp [hn]
    · simp only [hn, if_false]
      by_cases hf : (runPass e (nextPass doc ps).1 (nextPass doc ps).2 s).st.flag = true
      · simp only [hf, if_true]
        exact loopGC_spec e doc n f (i + 1) ps.tail _
      · simp only [hf, if_false]
        exact .inr rfl

/-- **C18_cancel_no_partial_result** ("returns exactly the least set", on the error path): an extraction whose
context is cancelled by the n-th rewind of its input, for every n, keep function, `W ≥ 1` and schedule,
EITHER returns the context error OR returns exactly the least closed set — never a nil error with a partial
result. -/
theorem C18_cancel_no_partial_result (k : Keep) (W : Nat) (hW : 0 < W) (doc : Doc) (hu : uniqueKeys doc)
    (n : Nat) (sched : List (List Nat)) :
    extractCancelRun k W doc n sched = .ok none ∨
    ∃ K : List Ref, IsLeastClosed doc k (· ∈ K) ∧
      extractCancelRun k W doc n sched = .ok (some (doc.filter fun o => decide (o.key ∈ K))) := by
  obtain ⟨K, hl, h⟩ := C18_complete k W hW doc hu sched
  rcases loopGC_spec ⟨true, k, W⟩ doc n (passFuel doc) 0 (sched.map fun ch => (doc, ch)) State.init with h0 | h1
  · left; simp [extractCancelRun, h0, Except.map]
  · right
    refine ⟨K, hl, ?_⟩
    unfold extractCancelRun
    rw [h1]
    unfold extractRun runG at h
    cases hr : loopG ⟨true, k, W⟩ doc (passFuel doc) (sched.map fun ch => (doc, ch)) State.init with
    | error err => rw [hr] at h; simp [Except.map] at h
    | ok s =>
      rw [hr] at h
      simp only [Except.map] at h ⊢
      injection h with h
      simp [h]

/-! ## concrete witnesses (non-vacuity, and the quirks the model carries) -/

/-- a closed way that nothing references is a root; its nodes are not; a relation cycle has no root -/
example : (specRoots [n1, n2, w1]).map (·.key) = [⟨.way, 1⟩] := by decide

/-- `CountTags` panics (index out of range) on a way without node ids, tags or not -/
example : countTags [⟨⟨.way, 7⟩, [], 0, 0, []⟩] = .error .indexOutOfRange := rfl

/-- a one-node way counts as a CLOSED way (`Nodes[0] == Nodes[len-1]`) -/
example : otype ⟨⟨.way, 7⟩, [⟨.node, 1⟩], 0, 0, []⟩ = .ok .closedWay := rfl

/-- cancelling on the first rewind gives the error, cancelling on a rewind that never happens gives the set -/
example : (extractCancelRun (keepBounds box) 1 [w1, n1, n2] 1 []).toOption = some none := by decide
example : (extractCancelRun (keepBounds box) 1 [w1, n1, n2] 9 []).toOption.join.map (·.map (·.key)) =
    some [⟨.way, 1⟩, ⟨.node, 1⟩, ⟨.node, 2⟩] := by decide

end GeomV.C18
