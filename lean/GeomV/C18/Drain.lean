import GeomV.C18.Lemmas
/-!
# C18 lemmas, part 2: every pass ends with an empty queue and all workers idle
-/
set_option linter.unusedSimpArgs false
set_option linter.unusedVariables false
namespace GeomV.C18

theorem size_afterKeep (o : Obj) (need : Bool) : (afterKeep o need).size ≤ 2 * o.refs.length + 2 := by
  unfold afterKeep; split <;> simp [Task.size]

theorem size_mkKeeping (o : Obj) (need : Bool) (rest : List Ref) :
    (mkKeeping o need rest).size ≤ rest.length + 2 * o.refs.length + 3 := by
  cases rest with
  | nil => have := size_afterKeep o need; simp [mkKeeping]; omega
  | cons r rest => simp [mkKeeping, Task.size]

theorem size_mkDeps (o : Obj) (rest : List Ref) : (mkDeps o rest).size ≤ 2 * rest.length + 1 := by
  cases rest <;> simp [mkDeps, Task.size]

theorem TStep.size_lt {e : Env} {s s' : State} {t t' : Task} (h : TStep e s t s' t') :
    t'.size < t.size := by
  cases h with
  | startHas _ => simp [Task.size]
  | startBase _ _ => simp [Task.size]; omega
  | @startDyn o _ _ _ =>
    have := size_mkKeeping o (s.needOf o.key) o.refs
    show _ < 3 * o.refs.length + 4; omega
  | @startStat o _ _ _ =>
    have := size_afterKeep o (s.needOf o.key)
    show _ < 3 * o.refs.length + 4; omega
  | @keepNil o need =>
    have := size_afterKeep o need
    show _ < ([] : List Ref).length + 2 * o.refs.length + 3; simp; omega
  | keepHit _ => simp [Task.size]; omega
  | @keepMiss o need r rest _ =>
    have := size_mkKeeping o need rest
    show _ < (r :: rest).length + 2 * o.refs.length + 3; simp; omega
  | @store o =>
    have := size_mkDeps o o.refs
    show _ < 2 * o.refs.length + 2; omega
  | depsNil => simp [Task.size]
  | @depsSkip o r rest _ =>
    have := size_mkDeps o rest
    show _ < 2 * (r :: rest).length + 1; simp; omega
  | depsGo _ => simp [Task.size]; omega
  | @depWrite o r rest =>
    have := size_mkDeps o rest
    show _ < 2 * rest.length + 2; omega

theorem isIdle_of_size_zero {t : Task} (h : t.size = 0) : t.isIdle = true := by
  cases t <;> simp [Task.size] at h <;> rfl

theorem pstep_busy {e : Env} {w : Nat} {c : PCfg} (hw : w < e.W) (hb : (c.ws w).isIdle = false) :
    pstep e w c = { c with st := (stepTask e c.st (c.ws w)).1,
                           ws := setW c.ws w (stepTask e c.st (c.ws w)).2 } := by
  simp [pstep, hw, hb]

theorem pstep_deq {e : Env} {w : Nat} {c : PCfg} {o : Obj} {q : List Obj} (hw : w < e.W)
    (hi : (c.ws w).isIdle = true) (hq : c.queue = o :: q) :
    pstep e w c = { c with queue := q, ws := setW c.ws w (.start o) } := by
  simp [pstep, hw, hi, hq]

theorem pstep_ws_other (e : Env) {w i : Nat} (c : PCfg) (h : i ≠ w) : (pstep e w c).ws i = c.ws i := by
  rcases pstep_spec e w c with h' | h'
  · rw [h']
  · unfold pstep
    by_cases hw : w < e.W
    · by_cases hi : (c.ws w).isIdle = true
      · cases hq : c.queue with
        | nil => simp [hw, hi, hq]
        | cons o q => simp [hw, hi, hq, setW, h]
      · simp [hw, hi, setW, h]
    · simp [hw]

theorem finishW_ws_other (e : Env) {w i : Nat} (h : i ≠ w) :
    ∀ (n : Nat) (c : PCfg), (finishW e w n c).ws i = c.ws i
  | 0, c => rfl
  | n+1, c => by
    unfold finishW
    split
    · rfl
    · rw [finishW_ws_other e h n, pstep_ws_other e c h]

theorem finishW_queue (e : Env) (w : Nat) : ∀ (n : Nat) (c : PCfg), (finishW e w n c).queue = c.queue
  | 0, c => rfl
  | n+1, c => by
    unfold finishW
    split
    · rfl
    · rename_i hb
      rw [finishW_queue e w n]
      by_cases hw : w < e.W
      · rw [pstep_busy hw (by simpa using hb)]
      · simp [pstep, hw]

theorem finishW_idle (e : Env) {w : Nat} (hw : w < e.W) :
    ∀ (n : Nat) (c : PCfg), (c.ws w).size ≤ n → ((finishW e w n c).ws w).isIdle = true
  | 0, c, h => isIdle_of_size_zero (by simpa [finishW] using h)
  | n+1, c, h => by
    unfold finishW
    split
    · assumption
    · rename_i hb
      have hb' : (c.ws w).isIdle = false := by simpa using hb
      refine finishW_idle e hw n _ ?_
      rw [pstep_busy hw hb']
      have := (stepTask_spec e c.st _ hb').size_lt
      simp [setW]; omega

theorem finishW_keeps_idle (e : Env) (w i : Nat) (n : Nat) (c : PCfg)
    (h : (c.ws i).isIdle = true) : ((finishW e w n c).ws i).isIdle = true := by
  by_cases hiw : i = w
  · subst hiw
    cases n with
    | zero => exact h
    | succ n => unfold finishW; simp [h]
  · rw [finishW_ws_other e hiw]; exact h

theorem drainFold_keeps_idle (e : Env) (i : Nat) : ∀ (l : List Nat) (c : PCfg),
    (c.ws i).isIdle = true →
    ((l.foldl (fun c w => finishW e w (c.ws w).size c) c).ws i).isIdle = true
  | [], c, h => h
  | w :: l, c, h => drainFold_keeps_idle e i l _ (finishW_keeps_idle e w i _ c h)

theorem drainFold_idle (e : Env) : ∀ (l : List Nat) (c : PCfg), (∀ w ∈ l, w < e.W) →
    ∀ i ∈ l, ((l.foldl (fun c w => finishW e w (c.ws w).size c) c).ws i).isIdle = true
  | [], c, _, i, hi => by simp at hi
  | w :: l, c, hl, i, hi => by
    simp only [List.foldl_cons]
    rcases List.mem_cons.1 hi with rfl | hi'
    · exact drainFold_keeps_idle e i l _ (finishW_idle e (hl i (by simp)) _ c (Nat.le_refl _))
    · exact drainFold_idle e l _ (fun w hw => hl w (by simp [hw])) i hi'

theorem drainFold_queue (e : Env) : ∀ (l : List Nat) (c : PCfg),
    (l.foldl (fun c w => finishW e w (c.ws w).size c) c).queue = c.queue
  | [], c => rfl
  | w :: l, c => by simp only [List.foldl_cons]; rw [drainFold_queue e l, finishW_queue]

/-- configurations in which workers beyond `W` do not exist -/
def OutIdle (e : Env) (c : PCfg) : Prop := ∀ i, e.W ≤ i → (c.ws i).isIdle = true

theorem OutIdle.step {e : Env} : ∀ c c', PStep e c c' → OutIdle e c → OutIdle e c' := by
  intro c c' h hc i hi
  cases h with
  | @deq w o q hw _ _ =>
    have : i ≠ w := by omega
    simp [setW, this]; exact hc i hi
  | @task w t s' t' hw _ _ =>
    have : i ≠ w := by omega
    simp [setW, this]; exact hc i hi

def AllIdle (c : PCfg) : Prop := ∀ i, (c.ws i).isIdle = true

theorem drainWorkers_allIdle (e : Env) (c : PCfg) (h : OutIdle e c) : AllIdle (drainWorkers e c) := by
  intro i
  unfold drainWorkers
  by_cases hi : i < e.W
  · exact drainFold_idle e _ c (fun w hw => by simpa using hw) i (by simpa using hi)
  · exact drainFold_keeps_idle e i _ c (h i (by omega))

theorem drainQueue_final (e : Env) (hW : 0 < e.W) : ∀ (q : List Obj) (c : PCfg), c.queue = q →
    AllIdle c → (drainQueue e q c).queue = [] ∧ AllIdle (drainQueue e q c)
  | [], c, hq, hi => ⟨hq, hi⟩
  | o :: q, c, hq, hi => by
    simp only [drainQueue]
    have h1 := pstep_deq hW (hi 0) hq
    refine drainQueue_final e hW q _ ?_ ?_
    · rw [finishW_queue, h1]
    · intro i
      by_cases h0 : i = 0
      · subst h0
        refine finishW_idle e hW _ _ ?_
        rw [h1]; simp [setW]
      · rw [finishW_ws_other e h0, pstep_ws_other e c h0]; exact hi i

/-- a pass ends with the queue empty and every worker idle -/
theorem runPass_final (e : Env) (hW : 0 < e.W) (order : List Obj) (ch : List Nat) (s : State) :
    (runPass e order ch s).queue = [] ∧ AllIdle (runPass e order ch s) := by
  unfold runPass
  refine drainQueue_final e hW _ _ rfl (drainWorkers_allIdle e _ ?_)
  unfold runChoices
  refine foldl_ind (I := OutIdle e) _ (fun c w hc => pstep_ind OutIdle.step w c hc) _ _ ?_
  intro i _; rfl

end GeomV.C18
