import GeomV.C18.TieFilter
/-!
# C18 — T1 tie for the LOOP of `Filter` (regenerated from extract.go): `Gen.Filter = filterRun`

`Gen.Filter` is the statement-level translation of `(*Data).Filter`: `for needAnotherPass { needAnotherPass = false;
range o.Nodes {processNodeNoCopy}; range o.Ways {if processWayNoCopy {needAnotherPass = true}}; range o.Relations {…} }`
with the three Go map ranges visiting the entries in an ORACLE order (any order, chosen afresh per pass and per map).
`tie_Filter` proves that, for every valid oracle, it returns a `Data` whose stored objects are exactly the objects
`filterRun` (the model of `Filter`: the interleaving model with one worker and the original loop condition, the
objects of each pass arriving in the order the oracle chose) returns — so `C18_filter` (idempotent, closed under
references, sub-list, independent of the map orders, least closed selection) speaks about the regenerated Go loop.
-/
set_option linter.unusedSimpArgs false
set_option linter.unusedVariables false
namespace GeomV.C18
open Gen

/-! ## the pass flag is write-only in `procSeq` under the original loop condition -/

theorem has_flag (s : State) (f : Bool) : ({ s with flag := f } : State).has = s.has := rfl
theorem needOf_flag (s : State) (f : Bool) : ({ s with flag := f } : State).needOf = s.needOf := rfl

theorem depsSeq_flag (rs : List Ref) : ∀ (s : State) (f : Bool),
    depsSeq { s with flag := f } rs = { depsSeq { s with flag := false } rs with flag := f || (depsSeq { s with flag := false } rs).flag }
  := by
  induction rs with
  | nil => intro s f; simp [depsSeq]
  | cons r rest ih =>
    intro s f
    simp only [depsSeq, needOf_flag]
    by_cases h : s.needOf r = true
    · simp only [h, if_true]; exact ih s f
    · have h' : s.needOf r = false := by simpa using h
      simp only [h', Bool.false_eq_true, if_false]
      have a := ih { s with need := r :: s.need } true
      have b := ih { s with need := r :: s.need } false
      simp only [] at a b
      rw [a]
      cases f <;> simp

theorem procSeq_flag (e : Env) (s : State) (f : Bool) (o : Obj) :
    procSeq e { s with flag := f } o =
      { procSeq e { s with flag := false } o with flag := f || (procSeq e { s with flag := false } o).flag } := by
  simp only [procSeq, has_flag, needOf_flag]
  by_cases h1 : s.has o.key = true
  · simp [h1]
  · have h1' : s.has o.key = false := by simpa using h1
    by_cases h2 : (e.k.sel s.has o || s.needOf o.key) = true
    · simp only [h1', h2, if_true, Bool.false_eq_true, if_false, storeSeq]
      rw [depsSeq_flag o.refs { s with kept := o.key :: s.kept } (f || e.fos),
        depsSeq_flag o.refs { s with kept := o.key :: s.kept } (false || e.fos)]
      simp [Bool.or_assoc]
    · simp [h1', h2]

/-- `SEq` of the abstraction with an arbitrary flag, from `SEq` with the flag forced to `false` -/
theorem seq_reflag {d : Data} {a : Bool} {s : State} (f : Bool) (h : SEq (absState d a) s) :
    SEq (absState d (f || a)) { s with flag := f || s.flag } :=
  ⟨h.kept, h.need, by have := h.flag; simp only [absFlag] at this ⊢; rw [this]⟩

theorem seq_unflag {d : Data} {a : Bool} {s : State} (h : SEq (absState d a) s) :
    SEq (absState d false) { s with flag := false } := ⟨h.kept, h.need, rfl⟩

/-! ## one pass: the three map ranges = a fold of `procSeq` -/

/-- every stored entry of `out` is an entry of `d` (Filter stores the values it ranges over, uncopied) -/
structure Sub (out d : Data) : Prop where
  nodes : ∀ e ∈ out.Nodes, e ∈ d.Nodes
  ways : ∀ e ∈ out.Ways, e ∈ d.Ways
  rels : ∀ e ∈ out.Relations, e ∈ d.Relations

theorem mem_set {V : Type} {m : GoMap Int V} {k : Int} {v : V} {e : Int × V} (h : e ∈ GoMap.set m k v) :
    e = (k, v) ∨ e ∈ m := by
  simp only [GoMap.set, List.mem_cons, List.mem_filter] at h
  rcases h with h | h
  · exact .inl h
  · exact .inr h.1

def envF (k : Keep) : Env := ⟨false, k, 1⟩

theorem rangeS_pass {α ρ : Type} (e : Env) (P : Data → Prop) (objOf : α → Obj) {l : List α}
    {body : α → Bool × Data → Ctl ρ (Bool × Data)}
    (hb : ∀ a ∈ l, ∀ (nap : Bool) (out : Data) (s : State), SEq (absState out nap) s → P out →
      ∃ nap' out', body a (nap, out) = .fall (nap', out') ∧
        SEq (absState out' nap') (procSeq e s (objOf a)) ∧ P out') :
    ∀ (nap : Bool) (out : Data) (s : State), SEq (absState out nap) s → P out →
      ∃ nap' out', rangeS l body (nap, out) = .fall (nap', out') ∧
        SEq (absState out' nap') ((l.map objOf).foldl (procSeq e) s) ∧ P out' := by
  induction l with
  | nil => intro nap out s hs hp; exact ⟨nap, out, rfl, hs, hp⟩
  | cons a l ih =>
    intro nap out s hs hp
    obtain ⟨nap1, out1, h1, hs1, hp1⟩ := hb a List.mem_cons_self nap out s hs hp
    obtain ⟨nap2, out2, h2, hs2, hp2⟩ :=
      ih (fun a ha => hb a (List.mem_cons_of_mem _ ha)) nap1 out1 _ hs1 hp1
    refine ⟨nap2, out2, ?_, ?_, hp2⟩
    · rw [rangeS, h1]; exact h2
    · simpa [List.map_cons, List.foldl_cons] using hs2

theorem step_node (K : KeepFunc) (k : Keep) (hK : KeepShape K k) (d : Data) (hkm : KeysMatch d)
    (a : Int × Node) (ha : a ∈ d.Nodes) (nap : Bool) (out : Data) (s : State)
    (hs : SEq (absState out nap) s) (hsub : Sub out d) :
    ∃ d', processNodeNoCopy out a.2 K false = .ok (d', ()) ∧
      SEq (absState d' nap) (procSeq (envF k) s (objNode a.2)) ∧ Sub d' d := by
  obtain ⟨d', h1, h2, h3⟩ := tie_processNodeNoCopy K k hK 1 out a.2 false nap s hs
  refine ⟨d', h1, h2, ?_⟩
  rcases h3 with rfl | rfl
  · exact hsub
  · refine ⟨fun e he => ?_, hsub.ways, hsub.rels⟩
    rcases mem_set he with rfl | he
    · rw [hkm.nodes a ha]; exact ha
    · exact hsub.nodes e he

theorem seq_step {d' : Data} {ap nap : Bool} {s : State} {e : Env} {o : Obj}
    (hf : nap = s.flag) (h : SEq (absState d' ap) (procSeq e { s with flag := false } o)) :
    SEq (absState d' (nap || ap)) (procSeq e s o) := by
  have := seq_reflag nap h
  have e2 := procSeq_flag e s s.flag o
  rw [hf] at this ⊢
  rw [show ({ s with flag := s.flag } : State) = s from rfl] at e2
  rw [e2]; exact this

theorem step_way (K : KeepFunc) (k : Keep) (hK : KeepShape K k) (d : Data) (hkm : KeysMatch d)
    (a : Int × Way) (ha : a ∈ d.Ways) (nap : Bool) (out : Data) (s : State)
    (hs : SEq (absState out nap) s) (hsub : Sub out d) :
    ∃ d' ap, processWayNoCopy out a.2 K false = .ok (d', ap) ∧
      SEq (absState d' (nap || ap)) (procSeq (envF k) s (objWay a.2)) ∧ Sub d' d := by
  obtain ⟨d', ap, h1, h2, hn, hr, hw⟩ := tie_processWayNoCopy K k hK 1 out a.2 false _ (seq_unflag hs)
  refine ⟨d', ap, h1, seq_step hs.flag h2, ?_⟩
  refine ⟨by rw [hn]; exact hsub.nodes, fun e he => ?_, by rw [hr]; exact hsub.rels⟩
  rcases hw with hw | hw <;> rw [hw] at he
  · exact hsub.ways e he
  · rcases mem_set he with rfl | he
    · rw [hkm.ways a ha]; exact ha
    · exact hsub.ways e he

theorem step_rel (K : KeepFunc) (k : Keep) (hK : KeepShape K k) (d : Data) (hkm : KeysMatch d)
    (hm : MembersTypedD d)
    (a : Int × Relation) (ha : a ∈ d.Relations) (nap : Bool) (out : Data) (s : State)
    (hs : SEq (absState out nap) s) (hsub : Sub out d) :
    ∃ d' ap, processRelationNoCopy out a.2 K false = .ok (d', ap) ∧
      SEq (absState d' (nap || ap)) (procSeq (envF k) s (objRel a.2)) ∧ Sub d' d := by
  obtain ⟨d', ap, h1, h2, hn, hw, hr⟩ :=
    tie_processRelationNoCopy K k hK 1 out a.2 (hm a ha) false _ (seq_unflag hs)
  refine ⟨d', ap, h1, seq_step hs.flag h2, ?_⟩
  refine ⟨by rw [hn]; exact hsub.nodes, by rw [hw]; exact hsub.ways, fun e he => ?_⟩
  rcases hr with hr | hr <;> rw [hr] at he
  · exact hsub.rels e he
  · rcases mem_set he with rfl | he
    · rw [hkm.rels a ha]; exact ha
    · exact hsub.rels e he

/-- the order in which pass `i` of `Filter` visits the stored objects: the oracle's order of the three maps -/
def passOrder (orc : Oracle) (i : Nat) (d : Data) : List Obj :=
  (mapOrder orc i 0 d.Nodes).map (fun e => objNode e.2) ++ (mapOrder orc i 1 d.Ways).map (fun e => objWay e.2) ++
    (mapOrder orc i 2 d.Relations).map (fun e => objRel e.2)

theorem mem_passOrder {orc : Oracle} (hv : orc.Valid) (i : Nat) (d : Data) (o : Obj) :
    o ∈ passOrder orc i d ↔ o ∈ objsOf d := by
  simp only [passOrder, objsOf, List.mem_append, List.mem_map, mem_mapOrder hv]

theorem sameMem_passOrder {orc : Oracle} (hv : orc.Valid) (i : Nat) (d : Data) :
    sameMem (passOrder orc i d) (objsOf d) = true := by
  simp only [sameMem, Bool.and_eq_true, List.all_eq_true, decide_eq_true_eq]
  exact ⟨fun o ho => (mem_passOrder hv i d o).1 ho, fun o ho => (mem_passOrder hv i d o).2 ho⟩

/-- body of `for needAnotherPass { … }` of the regenerated `Filter`, pattern-matching lambdas written with projections -/
def passBody (orc : Oracle) (o : Data) (keep : KeepFunc) (iter : Nat) (x : Bool × Data) : Ctl Data (Bool × Data) :=
  Ctl.bind (rangeS (mapOrder orc iter 0 o.Nodes) (fun kv x =>
      Ctl.call (processNodeNoCopy x.2 kv.2 keep false) (fun y => Ctl.fall (x.1, y.1))) (false, x.2)) (fun x =>
  Ctl.bind (rangeS (mapOrder orc iter 1 o.Ways) (fun kv x =>
      Ctl.call (processWayNoCopy x.2 kv.2 keep false) (fun y =>
        if y.2 then Ctl.fall (true, y.1) else Ctl.fall (x.1, y.1))) x) (fun x =>
  rangeS (mapOrder orc iter 2 o.Relations) (fun kv x =>
      Ctl.call (processRelationNoCopy x.2 kv.2 keep false) (fun y =>
        if y.2 then Ctl.fall (true, y.1) else Ctl.fall (x.1, y.1))) x))

def FilterNF (fuel : Nat) (orc : Oracle) (o : Data) (keep : KeepFunc) : Except String Data :=
  Ctl.value (Ctl.bind (whileS (fun x => x.1) (passBody orc o keep) fuel 0 (true, Data.empty)) (fun x => Ctl.ret x.2 x))

/-- the regenerated `Filter` IS this normal form (definitional unfolding only) -/
theorem Filter_nf (fuel : Nat) (orc : Oracle) (o : Data) (keep : KeepFunc) :
    Gen.Filter fuel orc o keep = FilterNF fuel orc o keep := rfl

/-- kept and need sets agree (the pass flag is not part of `Data`) -/
def R (out : Data) (s : State) : Prop := SEq (absState out s.flag) s

theorem passBody_spec (K : KeepFunc) (k : Keep) (hK : KeepShape K k) (orc : Oracle) (hv : orc.Valid) (d : Data)
    (hkm : KeysMatch d) (hm : MembersTypedD d) (iter : Nat) (nap : Bool) (out : Data) (s : State)
    (hs : R out s) (hsub : Sub out d) :
    ∃ nap' out', passBody orc d K iter (nap, out) = .fall (nap', out') ∧
      SEq (absState out' nap') ((passOrder orc iter d).foldl (procSeq (envF k)) { s with flag := false }) ∧
      Sub out' d := by
  have h0 : SEq (absState out false) { s with flag := false } := seq_unflag hs
  obtain ⟨n1, o1, e1, s1, p1⟩ := rangeS_pass (ρ := Data) (envF k) (fun x => Sub x d) (fun e : Int × Node => objNode e.2)
    (l := mapOrder orc iter 0 d.Nodes)
    (body := fun kv x => Ctl.call (processNodeNoCopy x.2 kv.2 K false) (fun y => Ctl.fall (x.1, y.1)))
    (fun a ha nap out s hs hsub => by
      obtain ⟨d', h1, h2, h3⟩ := step_node K k hK d hkm a ((mem_mapOrder hv _ _ _ _).1 ha) nap out s hs hsub
      exact ⟨nap, d', by simp only [h1, Ctl.call], h2, h3⟩) false out _ h0 hsub
  obtain ⟨n2, o2, e2, s2, p2⟩ := rangeS_pass (ρ := Data) (envF k) (fun x => Sub x d) (fun e : Int × Way => objWay e.2)
    (l := mapOrder orc iter 1 d.Ways)
    (body := fun kv x => Ctl.call (processWayNoCopy x.2 kv.2 K false) (fun y =>
      if y.2 then Ctl.fall (true, y.1) else Ctl.fall (x.1, y.1)))
    (fun a ha nap out s hs hsub => by
      obtain ⟨d', ap, h1, h2, h3⟩ := step_way K k hK d hkm a ((mem_mapOrder hv _ _ _ _).1 ha) nap out s hs hsub
      refine ⟨nap || ap, d', ?_, h2, h3⟩
      cases ap <;> simp [h1, Ctl.call]) n1 o1 _ s1 p1
  obtain ⟨n3, o3, e3, s3, p3⟩ := rangeS_pass (ρ := Data) (envF k) (fun x => Sub x d) (fun e : Int × Relation => objRel e.2)
    (l := mapOrder orc iter 2 d.Relations)
    (body := fun kv x => Ctl.call (processRelationNoCopy x.2 kv.2 K false) (fun y =>
      if y.2 then Ctl.fall (true, y.1) else Ctl.fall (x.1, y.1)))
    (fun a ha nap out s hs hsub => by
      obtain ⟨d', ap, h1, h2, h3⟩ := step_rel K k hK d hkm hm a ((mem_mapOrder hv _ _ _ _).1 ha) nap out s hs hsub
      refine ⟨nap || ap, d', ?_, h2, h3⟩
      cases ap <;> simp [h1, Ctl.call]) n2 o2 _ s2 p2
  refine ⟨n3, o3, ?_, ?_, p3⟩
  · simp only [passBody, e1, e2, e3, Ctl.bind]
  · simpa only [passOrder, List.foldl_append] using s3

/-! ## the loop: `for needAnotherPass` = `loopG` -/

theorem whileS_loop {ρ : Type} (k : Keep) (orc : Oracle) (hv : orc.Valid) (d : Data)
    (body : Nat → Bool × Data → Ctl ρ (Bool × Data))
    (hbody : ∀ (iter : Nat) (nap : Bool) (out : Data) (s : State), R out s → Sub out d →
      ∃ nap' out', body iter (nap, out) = .fall (nap', out') ∧
        SEq (absState out' nap') ((passOrder orc iter d).foldl (procSeq (envF k)) { s with flag := false }) ∧
        Sub out' d) :
    ∀ (n iter : Nat) (out : Data) (s s' : State), R out s → Sub out d →
      loopG (envF k) (objsOf d) n ((List.range' iter n).map fun i => (passOrder orc i d, ([] : List Nat))) s = .ok s' →
      ∃ out', whileS (fun x => x.1) body (n + 1) iter (true, out) = .fall (false, out') ∧ R out' s' ∧ Sub out' d
  | 0, _, _, _, _, _, _, h => by simp [loopG] at h
  | n + 1, iter, out, s, s', hs, hsub, h => by
    rw [List.range'_succ, List.map_cons] at h
    simp only [loopG, nextPass, sameMem_passOrder hv, if_true, List.tail_cons] at h
    rw [runPass_seq (envF k) Nat.one_pos] at h
    obtain ⟨nap', out1, hb, hs1, hsub1⟩ := hbody iter true out s hs hsub
    have hfl : nap' = (List.foldl (procSeq (envF k)) { s with flag := false } (passOrder orc iter d)).flag := hs1.flag
    have hR1 : R out1 (List.foldl (procSeq (envF k)) { s with flag := false } (passOrder orc iter d)) := by
      unfold R; rw [← hfl]; exact hs1
    rw [whileS]
    simp only [if_true, hb]
    cases hn : nap'
    · rw [hn] at hfl
      rw [← hfl] at h
      simp only [Bool.false_eq_true, if_false, Except.ok.injEq] at h
      subst h
      refine ⟨out1, ?_, hR1, hsub1⟩
      rw [whileS]; simp
    · rw [hn] at hfl
      rw [← hfl] at h
      simp only [if_true] at h
      exact whileS_loop k orc hv d body hbody n (iter + 1) out1 _ s' hR1 hsub1 h

/-! ## the result -/

theorem present_abs (d : Data) (hk : KeysMatch d) (r : Ref) : r ∈ (absState d).kept ↔ Present (objsOf d) r := by
  obtain ⟨kind, id⟩ := r
  cases kind
  · show nref id ∈ _ ↔ Present _ (nref id)
    rw [mem_abs_kept_node, present_node d hk, get2_ok]
  · show wref id ∈ _ ↔ Present _ (wref id)
    rw [mem_abs_kept_way, present_way d hk, get2_ok]
  · show rref id ∈ _ ↔ Present _ (rref id)
    rw [mem_abs_kept_rel, present_rel d hk, get2_ok]

theorem keysMatch_sub {out d : Data} (h : Sub out d) (hk : KeysMatch d) : KeysMatch out :=
  ⟨fun e he => hk.nodes e (h.nodes e he), fun e he => hk.ways e (h.ways e he), fun e he => hk.rels e (h.rels e he)⟩

theorem objsOf_sub {out d : Data} (h : Sub out d) (o : Obj) (ho : o ∈ objsOf out) : o ∈ objsOf d := by
  simp only [objsOf, List.mem_append, List.mem_map] at ho ⊢
  rcases ho with (⟨e, he, rfl⟩ | ⟨e, he, rfl⟩) | ⟨e, he, rfl⟩
  · exact .inl (.inl ⟨e, h.nodes e he, rfl⟩)
  · exact .inl (.inr ⟨e, h.ways e he, rfl⟩)
  · exact .inr ⟨e, h.rels e he, rfl⟩

theorem closed_congr {a b : List Obj} (h : ∀ o, o ∈ a ↔ o ∈ b) {k : Keep} {C : Ref → Prop} (hc : Closed a k C) :
    Closed b k C :=
  ⟨fun o ho hs => hc.sel o ((h o).2 ho) hs, fun o ho hC r hr hp => hc.refs o ((h o).2 ho) hC r hr (by
    obtain ⟨o', ho', e⟩ := hp; exact ⟨o', (h o').2 ho', e⟩)⟩

/-- the map iteration orders the oracle chooses for the passes of one `Filter` call -/
def filterOrders (orc : Oracle) (d : Data) : List (List Obj) :=
  (List.range' 0 (passFuel (objsOf d))).map fun i => passOrder orc i d

/-- **tie_Filter** (clause "Filter by tags (or keep-all) is idempotent, closed under references and never returns more
than it was given", LOOP level): `(*Data).Filter` AS REGENERATED FROM extract.go (the `for needAnotherPass` loop, the three
map ranges in ANY iteration order — a fresh oracle order per pass and per map —, the OR of the `process*NoCopy` results),
run with a keep function of the modelled shape that does not read the state (`KeepTags`, `KeepAll`: `keepShape_tags`,
`keepShape_all`) on a `Data` that stores every object under its own id, terminates within `|objects| + 3` evaluations of
the loop condition and returns a `Data` whose stored objects are EXACTLY the objects `filterRun` — the model `C18_filter`
is about — returns for the same orders; the result stores (uncopied) entries of the input, each under its own id. -/
theorem tie_Filter (K : KeepFunc) (k : Keep) (hK : KeepShape K k) (hk : Static k) (orc : Oracle) (hv : orc.Valid)
    (d : Data) (hkm : KeysMatch d) (hm : MembersTypedD d) (hu : uniqueKeys (objsOf d)) :
    ∃ out f, Gen.Filter (passFuel (objsOf d) + 1) orc d K = .ok out ∧
      filterRun k (objsOf d) (filterOrders orc d) = .ok f ∧
      (∀ o, o ∈ objsOf out ↔ o ∈ f) ∧ Sub out d ∧ KeysMatch out := by
  obtain ⟨Kset, _, hf⟩ := filterRun_least k hk (objsOf d) hu (filterOrders orc d)
  have hps : (filterOrders orc d).map (fun o => (o, ([] : List Nat))) =
      (List.range' 0 (passFuel (objsOf d))).map fun i => (passOrder orc i d, ([] : List Nat)) := by
    simp only [filterOrders, List.map_map]; rfl
  unfold filterRun at hf ⊢
  rw [hps] at hf ⊢
  cases hr : runG ⟨false, k, 1⟩ (objsOf d)
      ((List.range' 0 (passFuel (objsOf d))).map fun i => (passOrder orc i d, ([] : List Nat))) with
  | error err => rw [hr] at hf; simp [Except.map] at hf
  | ok s' =>
    have hR0 : R Data.empty State.init := ⟨fun r => Iff.rfl, fun r => Iff.rfl, rfl⟩
    have hS0 : Sub Data.empty d := ⟨fun e he => by simp [Data.empty] at he, fun e he => by simp [Data.empty] at he,
      fun e he => by simp [Data.empty] at he⟩
    obtain ⟨out, hw, hRo, hsub⟩ := whileS_loop k orc hv d (passBody orc d K)
      (fun iter nap out s hs hsub => passBody_spec K k hK orc hv d hkm hm iter nap out s hs hsub)
      (passFuel (objsOf d)) 0 Data.empty State.init s' hR0 hS0 hr
    have hko := keysMatch_sub hsub hkm
    refine ⟨out, result (objsOf d) s', ?_, rfl, fun o => ?_, hsub, hko⟩
    · rw [Filter_nf]; unfold FilterNF; rw [hw]; rfl
    · simp only [result, List.mem_filter, State.has, decide_eq_true_eq]
      constructor
      · intro ho
        refine ⟨objsOf_sub hsub o ho, (hRo.kept o.key).1 ((present_abs out hko _).2 ⟨o, ho, rfl⟩)⟩
      · rintro ⟨hod, hkept⟩
        obtain ⟨o', ho', hkey⟩ := (present_abs out hko _).1 ((hRo.kept o.key).2 hkept)
        have := hu o' (objsOf_sub hsub o' ho') o hod hkey
        rw [← this]; exact ho'

/-- **C18_filter_src**: the Filter clause for the REGENERATED loop.  For a keep function of the shape of `KeepTags` /
`KeepAll`, every map iteration order (oracle) gives the same stored objects: the objects of the input whose key lies in
THE least closed set; the result is closed under the references present in the input, a sub-multiset of the input
(entries of the input, uncopied), passes the regenerated `Check` when the input has no dangling reference, and filtering
it again (any oracle) returns the same objects. -/
theorem C18_filter_src (K : KeepFunc) (k : Keep) (hK : KeepShape K k) (hk : Static k) (d : Data)
    (hkm : KeysMatch d) (hm : MembersTypedD d) (hu : uniqueKeys (objsOf d)) :
    ∃ Kset : List Ref, IsLeastClosed (objsOf d) k (· ∈ Kset) ∧
      ∀ (orc : Oracle), orc.Valid →
        ∃ out, Gen.Filter (passFuel (objsOf d) + 1) orc d K = .ok out ∧
          (∀ o, o ∈ objsOf out ↔ o ∈ objsOf d ∧ o.key ∈ Kset) ∧ Sub out d ∧
          (∀ o ∈ objsOf out, ∀ r ∈ o.refs, Present (objsOf d) r → Present (objsOf out) r) ∧
          (noDangling (objsOf d) → ∀ orc', orc'.Valid → Check orc' out = none) ∧
          (∀ orc', orc'.Valid → ∃ out2, Gen.Filter (passFuel (objsOf out) + 1) orc' out K = .ok out2 ∧
            ∀ o, o ∈ objsOf out2 ↔ o ∈ objsOf out) := by
  obtain ⟨f, hf0, _, ⟨Kset, hl, hfK⟩, hclosed, hchk, hindep, hidem⟩ := C18_filter k hk (objsOf d) hu []
  refine ⟨Kset, hl, fun orc hv => ?_⟩
  obtain ⟨out, f', h1, h2, hmem, hsub, hko⟩ := tie_Filter K k hK hk orc hv d hkm hm hu
  have hff : f' = f := by
    have := hindep (filterOrders orc d); rw [h2] at this; exact Except.ok.inj this
  subst hff
  have hmo : MembersTypedD out := fun e he => hm e (hsub.rels e he)
  have huo : uniqueKeys (objsOf out) := fun o ho o' ho' hk' =>
    hu o (objsOf_sub hsub o ho) o' (objsOf_sub hsub o' ho') hk'
  refine ⟨out, h1, fun o => ?_, hsub, ?_, ?_, ?_⟩
  · rw [hmem, hfK]; simp
  · intro o ho r hr hp
    obtain ⟨o', ho', hk'⟩ := hclosed o ((hmem o).1 ho) r hr hp
    exact ⟨o', (hmem o').2 ho', hk'⟩
  · intro hnd orc' hv'
    exact (tie_Check orc' hv' out hko hmo).2 ((checkOK_congr hmem).2 (checkOK_of_check (hchk hnd)))
  · intro orc' hv'
    obtain ⟨out2, f2, g1, g2, gmem, _, _⟩ := tie_Filter K k hK hk orc' hv' out hko hmo huo
    refine ⟨out2, g1, fun o => ?_⟩
    -- filterRun on the stored objects of `out` (same members as `f`, possibly another order) selects everything
    obtain ⟨K2, hl2, hf2⟩ := filterRun_least k hk (objsOf out) huo (filterOrders orc' out)
    rw [g2] at hf2
    have hf2' := Except.ok.inj hf2
    rw [gmem, hf2']
    simp only [List.mem_filter, decide_eq_true_eq, and_iff_left_iff_imp]
    intro ho
    -- `o ∈ objsOf out` has its key in the least closed set of `objsOf out` (`least_restrict`)
    have hmemf : ∀ o, o ∈ objsOf out ↔ o ∈ (objsOf d).filter fun o => decide (o.key ∈ Kset) := fun o => by
      rw [hmem, hfK]
    have hcl := closed_congr hmemf hl2.1
    have hof := (hmemf o).1 ho
    simp only [List.mem_filter, decide_eq_true_eq] at hof
    exact least_restrict hk hl hcl o hof.1 hof.2

/-! ## non-vacuity -/

/-- a `Data` with a tagged way, its two nodes, an untagged node and a relation of the untagged node -/
def exData : Data :=
  ⟨[(1, ⟨1, 0, 0, []⟩), (2, ⟨2, 0, 0, []⟩), (3, ⟨3, 0, 0, []⟩)], [(7, ⟨7, [1, 2], [⟨1, 1⟩]⟩)],
   [(9, ⟨9, [⟨3, .node⟩], []⟩)], [], [], []⟩

example : KeysMatch exData := ⟨by simp [exData], by simp [exData], by simp [exData]⟩
example : MembersTypedD exData := by
  intro e he; simp [exData] at he; subst he; intro m hm; simp at hm; subst hm; simp
example : uniqueKeys (objsOf exData) := by
  intro o ho o' ho' h
  simp [objsOf, exData, objNode, objWay, objRel, nref, wref, rref] at ho ho'
  rcases ho with rfl | rfl | rfl | rfl | rfl <;> rcases ho' with rfl | rfl | rfl | rfl | rfl <;> simp_all
example : Static (keepTags [(1, [1])]) := fun _ => rfl
/-- the regenerated loop on it (identity order, KeepTags k1=v1): the way and its two nodes, in 2 passes + the final test -/
example : ((Gen.Filter 3 Oracle.id exData (KeepTags [(1, [1])])).toOption.map
      fun d => (d.Nodes.map (·.1), d.Ways.map (·.1), d.Relations.map (·.1))) = some ([2, 1], [7], []) := by decide +kernel
/-- one unit of fuel less: the loop has not finished (fuel is not what makes it stop) -/
example : (Gen.Filter 2 Oracle.id exData (KeepTags [(1, [1])])).toOption.isNone = true := by decide +kernel

end GeomV.C18
