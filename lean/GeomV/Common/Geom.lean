/-
Shared geometry values and the line protocol used between the Go harness and the Lean drivers.
Core Lean only (no Mathlib) so that drivers link as `lean_exe`.
-/
namespace GeomV

structure Pt (α : Type) where
  x : α
  y : α
deriving Repr, DecidableEq, Inhabited

/-- Mirrors the eight Go types of package geom (`*Bounds` included) plus the nil interface. -/
inductive Geom (α : Type) where
  | point (p : Pt α)
  | multiPoint (ps : List (Pt α))
  | lineString (ps : List (Pt α))
  | multiLineString (ls : List (List (Pt α)))
  | polygon (rs : List (List (Pt α)))
  | multiPolygon (ps : List (List (List (Pt α))))
  | collection (gs : List (Geom α))
  | bounds (mn mx : Pt α)
  | nil
deriving Repr, Inhabited

namespace Geom
variable {α : Type}

mutual
def beq [DecidableEq α] : Geom α → Geom α → Bool
  | point a, point b => a = b
  | multiPoint a, multiPoint b => a = b
  | lineString a, lineString b => a = b
  | multiLineString a, multiLineString b => a = b
  | polygon a, polygon b => a = b
  | multiPolygon a, multiPolygon b => a = b
  | collection a, collection b => beqList a b
  | bounds a b, bounds c d => a = c ∧ b = d
  | nil, nil => true
  | _, _ => false
def beqList [DecidableEq α] : List (Geom α) → List (Geom α) → Bool
  | [], [] => true
  | a :: as, b :: bs => beq a b && beqList as bs
  | _, _ => false
end

mutual
def map {β : Type} (f : α → β) : Geom α → Geom β
  | point p => point ⟨f p.x, f p.y⟩
  | multiPoint ps => multiPoint (ps.map fun p => ⟨f p.x, f p.y⟩)
  | lineString ps => lineString (ps.map fun p => ⟨f p.x, f p.y⟩)
  | multiLineString ls => multiLineString (ls.map fun l => l.map fun p => ⟨f p.x, f p.y⟩)
  | polygon ls => polygon (ls.map fun l => l.map fun p => ⟨f p.x, f p.y⟩)
  | multiPolygon ps => multiPolygon (ps.map fun ls => ls.map fun l => l.map fun p => ⟨f p.x, f p.y⟩)
  | collection gs => collection (mapList f gs)
  | bounds a b => bounds ⟨f a.x, f a.y⟩ ⟨f b.x, f b.y⟩
  | nil => nil
def mapList {β : Type} (f : α → β) : List (Geom α) → List (Geom β)
  | [] => []
  | g :: gs => map f g :: mapList f gs
end

mutual
/-- nesting depth of collections (fuel needed by parsers/decoders) -/
def depth : Geom α → Nat
  | collection gs => depthList gs + 1
  | _ => 0
def depthList : List (Geom α) → Nat
  | [] => 0
  | g :: gs => max (depth g) (depthList gs)
end

end Geom

/-! ## Hex and tokens -/

def hexDigitVal (c : Char) : Option Nat :=
  if '0' ≤ c ∧ c ≤ '9' then some (c.toNat - '0'.toNat)
  else if 'a' ≤ c ∧ c ≤ 'f' then some (c.toNat - 'a'.toNat + 10)
  else if 'A' ≤ c ∧ c ≤ 'F' then some (c.toNat - 'A'.toNat + 10)
  else none

def hexToNat (s : String) : Option Nat :=
  if s.isEmpty then none else
  s.toList.foldl (fun acc c => do let a ← acc; let d ← hexDigitVal c; pure (a * 16 + d)) (some 0)

def hexDigitChar (n : Nat) : Char :=
  if n < 10 then Char.ofNat (n + '0'.toNat) else Char.ofNat (n - 10 + 'a'.toNat)

def natToHex (width : Nat) (n : Nat) : String :=
  let rec go : Nat → Nat → List Char → List Char
    | 0, _, acc => acc
    | w+1, n, acc => go w (n / 16) (hexDigitChar (n % 16) :: acc)
  String.ofList (go width n [])

def u64Hex (u : UInt64) : String := natToHex 16 u.toNat
def parseU64 (s : String) : Option UInt64 := (hexToNat s).map (·.toUInt64)

def hexToBytes (s : String) : Option (List UInt8) :=
  let rec go : List Char → Option (List UInt8)
    | [] => some []
    | [_] => none
    | a :: b :: r => do
      let x ← hexDigitVal a; let y ← hexDigitVal b; let t ← go r
      pure ((x * 16 + y).toUInt8 :: t)
  go s.toList

def bytesToHex (bs : List UInt8) : String :=
  String.ofList (bs.foldr (fun b acc => hexDigitChar (b.toNat / 16) :: hexDigitChar (b.toNat % 16) :: acc) [])

abbrev Tok := List String

def tokens (line : String) : Tok :=
  (line.splitOn " ").filter (· ≠ "") |>.map (fun s => (s.trimAscii).toString) |>.filter (· ≠ "")

/-! ## Geom ⇄ tokens. Coordinates are 16-hex-digit IEEE-754 bit patterns. -/

abbrev BGeom := Geom UInt64

namespace Proto

def ptToks (p : Pt UInt64) : Tok := [u64Hex p.x, u64Hex p.y]
def ptsToks (ps : List (Pt UInt64)) : Tok := toString ps.length :: ps.flatMap ptToks
def ptssToks (ls : List (List (Pt UInt64))) : Tok := toString ls.length :: ls.flatMap ptsToks
def ptsssToks (ls : List (List (List (Pt UInt64)))) : Tok := toString ls.length :: ls.flatMap ptssToks

mutual
def geomToks : BGeom → Tok
  | .point p => "P" :: ptToks p
  | .multiPoint ps => "MP" :: ptsToks ps
  | .lineString ps => "LS" :: ptsToks ps
  | .multiLineString ls => "MLS" :: ptssToks ls
  | .polygon ls => "PG" :: ptssToks ls
  | .multiPolygon ps => "MPG" :: ptsssToks ps
  | .collection gs => "GC" :: toString (listLen gs) :: geomsToks gs
  | .bounds a b => "B" :: (ptToks a ++ ptToks b)
  | .nil => ["NIL"]
def geomsToks : List BGeom → Tok
  | [] => []
  | g :: gs => geomToks g ++ geomsToks gs
def listLen : List BGeom → Nat
  | [] => 0
  | _ :: gs => listLen gs + 1
end

def geomStr (g : BGeom) : String := " ".intercalate (geomToks g)

def pPt : Tok → Option (Pt UInt64 × Tok)
  | a :: b :: r => do let x ← parseU64 a; let y ← parseU64 b; pure (⟨x, y⟩, r)
  | _ => none

def pMany {β : Type} (p : Tok → Option (β × Tok)) : Nat → Tok → Option (List β × Tok)
  | 0, t => some ([], t)
  | n+1, t => do let (a, t) ← p t; let (as, t) ← pMany p n t; pure (a :: as, t)

def pCounted {β : Type} (p : Tok → Option (β × Tok)) : Tok → Option (List β × Tok)
  | c :: t => if c = "nil" then some ([], t) else do let n ← c.toNat?; pMany p n t
  | [] => none

def pPts := pCounted pPt
def pPtss := pCounted pPts
def pPtsss := pCounted pPtss

/-- Parse one geometry; `fuel` bounds collection nesting. -/
def pGeom : Nat → Tok → Option (BGeom × Tok)
  | 0, _ => none
  | fuel+1, tag :: t =>
    match tag with
    | "P" => do let (p, t) ← pPt t; pure (.point p, t)
    | "MP" => do let (p, t) ← pPts t; pure (.multiPoint p, t)
    | "LS" => do let (p, t) ← pPts t; pure (.lineString p, t)
    | "MLS" => do let (p, t) ← pPtss t; pure (.multiLineString p, t)
    | "PG" => do let (p, t) ← pPtss t; pure (.polygon p, t)
    | "MPG" => do let (p, t) ← pPtsss t; pure (.multiPolygon p, t)
    | "GC" => do let (p, t) ← pCounted (pGeom fuel) t; pure (.collection p, t)
    | "B" => do let (a, t) ← pPt t; let (b, t) ← pPt t; pure (.bounds a b, t)
    | "NIL" => some (.nil, t)
    | _ => none
  | _+1, [] => none

end Proto

/-! ## Exact value of a finite double -/

/-- The exact rational value of an IEEE-754 binary64 bit pattern (`none` for NaN/±Inf). -/
def bitsToRat (u : UInt64) : Option Rat :=
  let n : Nat := u.toNat
  let neg : Bool := n / 2^63 == 1
  let e : Nat := (n / 2^52) % 2048
  let m : Nat := n % 2^52
  let sg (k : Nat) : Int := if neg then -(Int.ofNat k) else Int.ofNat k
  if e = 2047 then none
  else if e = 0 then some (mkRat (sg m) (2^1074))
  else if e ≥ 1075 then some (mkRat (sg ((2^52 + m) * 2^(e - 1075))) 1)
  else some (mkRat (sg (2^52 + m)) (2^(1075 - e)))

def bitsToFloat (u : UInt64) : Float := Float.ofBits u

/-- Splits a protocol line `lhs => rhs` at the first `=>` token. -/
def splitArrow (t : Tok) : Tok × Tok :=
  let l := t.takeWhile (· ≠ "=>")
  (l, (t.drop (l.length + 1)))

/-- Read all lines of stdin, feed each to `f`, print results; flush at end. -/
partial def forEachLine (f : String → IO Unit) : IO Unit := do
  let h ← IO.getStdin
  let rec loop : IO Unit := do
    let line ← h.getLine
    if line.isEmpty then return ()
    let l := (line.trimAscii).toString
    if l ≠ "" then f l
    loop
  loop

end GeomV
