import GeomV.C11.Model
/-
C12 — executable model of the nearest-neighbour code of /repo/index/rtree/rtree.go
(`nearestNeighbor`, `NearestNeighbors`/`nearestNeighbors`, `insertNearest`, `sortEntries`,
`pruneEntries`) and of `minDist`/`minMaxDist` in geom.go, on the tree model of C11.  Core only.

Distances: the Go code compares `math.Sqrt(minDist(p, bb))`; the model compares the squared
distances (`sqrt` is monotone, and strictly monotone on the exactly representable squares that
the correspondence runs use).  `math.MaxFloat64` (the initial distance) is `none`.
`sort.Sort` in `sortEntries` is not stable: the model takes the visiting order as a parameter
`order` (any list of indices); the theorems need it to be a permutation of the indices only.
-/
set_option linter.unusedVariables false
namespace GeomV.C12
open GeomV.C11
variable {O : Type}

def sq (x : Rat) : Rat := x * x

/-- geom.go `minDist`: squared distance from `p` to the box -/
def minDist (px py : Rat) (r : Box) : Rat :=
  (if px < r.minX then sq (px - r.minX) else if px > r.maxX then sq (px - r.maxX) else 0) +
  (if py < r.minY then sq (py - r.minY) else if py > r.maxY then sq (py - r.maxY) else 0)

/-- geom.go `minMaxDist` (as repaired by ef912a0: the nearer face `rm` and the farther face `rM` of each
axis are told apart by their distances from `p`, not by the midpoint; each candidate is the direct
sum of two squares, no `S − d1² + d2²`) -/
def minMaxDist (px py : Rat) (r : Box) : Rat :=
  let rmX := if ratAbs (px - r.minX) ≤ ratAbs (px - r.maxX) then r.minX else r.maxX
  let rmY := if ratAbs (py - r.minY) ≤ ratAbs (py - r.maxY) then r.minY else r.maxY
  let rMX := if ratAbs (px - r.minX) ≥ ratAbs (px - r.maxX) then r.minX else r.maxX
  let rMY := if ratAbs (py - r.minY) ≥ ratAbs (py - r.maxY) then r.minY else r.maxY
  let dx := sq (px - rmX) + sq (py - rMY)
  let dy := sq (py - rmY) + sq (px - rMX)
  if dy < dx then dy else dx

/-- `dist < d` where `d` may still be `math.MaxFloat64` -/
def better (d : Rat) : Option (Rat × O) → Bool
  | none => true
  | some (x, _) => d < x

/-- `pruneEntries`: the smallest MINMAXDIST over the entries -/
def minMinMaxDist (px py : Rat) : List Box → Option Rat
  | [] => none
  | b :: bs =>
    let m := minMaxDist px py b
    match minMinMaxDist px py bs with
    | none => some m
    | some x => some (if x < m then x else m)

/-- the branches visited by the non-leaf case: indices in visiting order (`sortEntries`), with
those removed whose MINDIST exceeds the smallest MINMAXDIST when `prune` (`pruneEntries`) -/
def branches (order : List Rat → List Nat) (prune : Bool) (px py : Rat) (bs : List Box) : List Nat :=
  let ds := bs.map (minDist px py)
  let idx := order ds
  if prune then
    match minMinMaxDist px py bs with
    | none => []
    | some mmd => idx.filter fun i => match ds[i]? with | some d => d ≤ mmd | none => true
  else idx

/-- rtree.go `nearestNeighbor`; the state is the pair (d, nearest), `none` = (MaxFloat64, nil) -/
def nnNode (order : List Rat → List Nat) (px py : Rat) :
    Node O → Option (Rat × O) → Except Fault (Option (Rat × O))
  | .mk leaf _ es, st =>
    if leaf then
      es.foldlM (fun st e =>
        match e with
        | .obj b o => let d := minDist px py b; pure (if better d st then some (d, o) else st)
        | .child b _ => if better (minDist px py b) st then throw Fault.nilObj else pure st) st
    else
      (branches order true px py (es.map Entry.bb)).foldlM (fun st (i : Nat) =>
        match h : es[i]? with
        | some (.child _ c) => nnNode order px py c st
        | some (.obj _ _) => throw Fault.nilDeref
        | none => throw Fault.choice) st
termination_by n => sizeOf n
decreasing_by have := Entry.sizeOf_child_lt_get h; simp_wf; omega

/-- rtree.go `NearestNeighbor` -/
def nearestNeighbor (order : List Rat → List Nat) (t : Tree O) (px py : Rat) : Except Fault O := do
  match ← nnNode order px py t.root none with
  | none => throw .nnNil
  | some (_, o) => pure o

/-- rtree.go `insertNearest` on the two parallel arrays (`none` = (MaxFloat64, nil)) -/
def insertNearest (k : Nat) (l : List (Option (Rat × O))) (d : Rat) (o : O) : List (Option (Rat × O)) :=
  let i := (l.takeWhile fun c => match c with | some (x, _) => decide (d ≥ x) | none => false).length
  if i ≥ k then l
  else l.take i ++ [some (d, o)] ++ (l.drop i).take (k - 1 - i)

/-- rtree.go `nearestNeighbors` (as repaired: MINMAXDIST pruning only for k = 1) -/
def knnNode (order : List Rat → List Nat) (k : Nat) (px py : Rat) :
    Node O → List (Option (Rat × O)) → Except Fault (List (Option (Rat × O)))
  | .mk leaf _ es, st =>
    if leaf then
      es.foldlM (fun st e =>
        match e with
        | .obj b o => pure (insertNearest k st (minDist px py b) o)
        | .child b _ => throw Fault.nilObj) st
    else
      (branches order (k == 1) px py (es.map Entry.bb)).foldlM (fun st (i : Nat) =>
        match h : es[i]? with
        | some (.child _ c) => knnNode order k px py c st
        | some (.obj _ _) => throw Fault.nilDeref
        | none => throw Fault.choice) st
termination_by n => sizeOf n
decreasing_by have := Entry.sizeOf_child_lt_get h; simp_wf; omega

/-- rtree.go `NearestNeighbors`: the `k` result slots (`none` = nil) -/
def nearestNeighbors (order : List Rat → List Nat) (t : Tree O) (k : Nat) (px py : Rat) :
    Except Fault (List (Option O)) := do
  let r ← knnNode order k px py t.root (List.replicate k none)
  pure (r.map fun c => c.map (·.2))

/-- rtree.go `NearestNeighbors` with Go's signed `k int`: `make([]float64, k)` panics for k < 0
("makeslice: len out of range"; rendered as `Fault.indexRange`), k = 0 yields the empty slice -/
def nearestNeighborsInt (order : List Rat → List Nat) (t : Tree O) (k : Int) (px py : Rat) :
    Except Fault (List (Option O)) :=
  if k < 0 then throw Fault.indexRange else nearestNeighbors order t k.toNat px py

/-! ### `sortEntries` / `pruneEntries` literally: two parallel slices and `sort.Sort`

`sort.Sort` receives the `entrySlice` as a `sort.Interface`: it can read `Len()` and `Less(i, j)`
(= `dists[i] < dists[j]`) and can change the data through `Swap(i, j)` only.  Whatever algorithm
it runs is therefore a program `sorter : List Rat → List (Nat × Nat)` from the initial distances to
a sequence of `Swap` calls.  `swapOrder` is the visiting order (`order` above) that such a program
induces; `C12_sort_contract` (ProofsExt.lean) shows that it is a permutation of the indices, that the
distances stay paired with their entries, and that `pruneEntriesLit ∘ sortEntriesLit` is `branches`. -/

/-- `s[i], s[j] = s[j], s[i]` (Go panics when an index is out of range) -/
def swapL {α : Type} (l : List α) (i j : Nat) : Except Fault (List α) :=
  match l[i]?, l[j]? with
  | some a, some b => pure ((l.set i b).set j a)
  | _, _ => throw Fault.indexRange

def swapsL {α : Type} (sw : List (Nat × Nat)) (l : List α) : Except Fault (List α) :=
  sw.foldlM (fun l ij => swapL l ij.1 ij.2) l

/-- rtree.go `entrySlice.Swap`: both slices -/
def swapBoth {α : Type} (s : List α × List Rat) (ij : Nat × Nat) : Except Fault (List α × List Rat) := do
  let e ← swapL s.1 ij.1 ij.2
  let d ← swapL s.2 ij.1 ij.2
  pure (e, d)

/-- rtree.go `sortEntries` with `sort.Sort` = the swap program `sorter` -/
def sortEntriesLit (sorter : List Rat → List (Nat × Nat)) (px py : Rat) (es : List (Entry O)) :
    Except Fault (List (Entry O) × List Rat) :=
  let ds := es.map fun e => minDist px py e.bb
  (sorter ds).foldlM swapBoth (es, ds)

/-- rtree.go `pruneEntries` on the sorted entries and their distances (same length, see
`C12_sort_contract`) -/
def pruneEntriesLit (px py : Rat) (es : List (Entry O)) (ds : List Rat) : List (Entry O) :=
  match minMinMaxDist px py (es.map Entry.bb) with
  | none => []
  | some mmd => ((es.zip ds).filter fun p => decide (p.2 ≤ mmd)).map (·.1)

/-- the visiting order induced by a swap program (the identity if the program leaves the range,
where Go panics) -/
def swapOrder (sorter : List Rat → List (Nat × Nat)) (ds : List Rat) : List Nat :=
  match swapsL (sorter ds) (List.range ds.length) with
  | .ok idx => idx
  | .error _ => List.range ds.length

/-- the swap program of Go's `insertionSort` (what `sort.Sort` runs for at most 12 elements):
`for i := 1; i < n; i++ { for j := i; j > 0 && Less(j, j-1); j-- { Swap(j, j-1) } }` -/
def insertionSwaps (ds : List Rat) : List (Nat × Nat) :=
  let inner (st : List Rat × List (Nat × Nat)) (i : Nat) : List Rat × List (Nat × Nat) :=
    (List.range i).foldl (fun (st : (List Rat × List (Nat × Nat)) × Bool) (c : Nat) =>
      let j := i - c
      if st.2 then
        match st.1.1[j]?, st.1.1[j - 1]? with
        | some a, some b =>
          if a < b then (((st.1.1.set j b).set (j - 1) a, st.1.2 ++ [(j, j - 1)]), true) else (st.1, false)
        | _, _ => (st.1, false)
      else st) (st, true) |>.1
  ((List.range ds.length).drop 1).foldl inner (ds, []) |>.2

/-! ### histories with interleaved queries

The model is functional: a query takes the tree and returns an answer; nothing it computes can
reach a later call (`C12_history`). -/

inductive Step (O : Type) where
  | op (o : Op O)
  | nn (px py : Rat)
  | knn (k : Nat) (px py : Rat)

inductive Answer (O : Type) where
  | nn (r : Except Fault O)
  | knn (r : Except Fault (List (Option O)))

def evalQ (order : List Rat → List Nat) (t : Tree O) : Step O → Option (Answer O)
  | .op _ => none
  | .nn x y => some (.nn (nearestNeighbor order t x y))
  | .knn k x y => some (.knn (nearestNeighbors order t k x y))

/-- a history of operations and queries: final tree and the answers in order (a panic inside a
query is an answer; a panic inside Insert/Delete ends the history) -/
def runSteps [DecidableEq O] [Bounded O] (H : Heur) (order : List Rat → List Nat) :
    Tree O → List (Step O) → Except Fault (Tree O × List (Answer O))
  | t, [] => pure (t, [])
  | t, .op o :: r => do let (t', _) ← t.step H o; runSteps H order t' r
  | t, q :: r =>
    match evalQ order t q with
    | some a => do let (t', as) ← runSteps H order t r; pure (t', a :: as)
    | none => runSteps H order t r

def opsOf : List (Step O) → List (Op O)
  | [] => []
  | .op o :: r => o :: opsOf r
  | _ :: r => opsOf r

def numQ : List (Step O) → Nat
  | [] => 0
  | .op _ :: r => numQ r
  | _ :: r => numQ r + 1

/-- the visiting order of `sort.Sort` for at most 12 entries (insertion sort, stable):
indices sorted by key, ties in index order -/
def stableOrder (ds : List Rat) : List Nat :=
  let ins (acc : List (Rat × Nat)) (x : Rat × Nat) : List (Rat × Nat) :=
    let pre := acc.takeWhile fun y => decide (y.1 ≤ x.1)
    pre ++ [x] ++ acc.drop pre.length
  (ds.zipIdx.foldl ins []).map (·.2)

end GeomV.C12
