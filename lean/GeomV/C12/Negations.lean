import GeomV.C12.ProofsExt
/-
C12 — negations proved on the model with concrete witnesses (kernel evaluation, `decide +kernel`):
the code before fix `ef18d0f` violates the Spec; the validity hypothesis of `C12_nn` is necessary.
-/
set_option linter.unusedVariables false
namespace GeomV.C12
open GeomV.C11
variable {O : Type}

/-! ### negations: the code before `ef18d0f`, and the hypothesis `hv` -/

/-- `nearestNeighbors` as it was before fix `ef18d0f`: `pruneEntries` for every k -/
def knnNodeOld (order : List Rat → List Nat) (k : Nat) (px py : Rat) :
    Node O → List (Option (Rat × O)) → Except Fault (List (Option (Rat × O)))
  | .mk leaf _ es, st =>
    if leaf then
      es.foldlM (fun st e =>
        match e with
        | .obj b o => pure (insertNearest k st (minDist px py b) o)
        | .child b _ => throw Fault.nilObj) st
    else
      (branches order true px py (es.map Entry.bb)).foldlM (fun st (i : Nat) =>
        match h : es[i]? with
        | some (.child _ c) => knnNodeOld order k px py c st
        | some (.obj _ _) => throw Fault.nilDeref
        | none => throw Fault.choice) st
termination_by n => sizeOf n
decreasing_by have := Entry.sizeOf_child_lt_get h; simp_wf; omega

def nearestNeighborsOld (order : List Rat → List Nat) (t : C11.Tree O) (k : Nat) (px py : Rat) :
    Except Fault (List (Option O)) := do
  let r ← knnNodeOld order k px py t.root (List.replicate k none)
  pure (r.map fun c => c.map (·.2))

/-- numbered objects with their own box -/
abbrev Ob := Nat × Box
instance : Bounded Ob := ⟨fun o => o.2⟩
def ptE (i : Nat) (x y : Rat) : Entry Ob := .obj ⟨x, y, x, y⟩ (i, ⟨x, y, x, y⟩)

/-- two leaves: {(0,0), (10,0)} and {(4,1), (20,1)} -/
def witTree : C11.Tree Ob :=
  ⟨2, 4, .mk false 2 [.child ⟨0, 0, 10, 0⟩ (.mk true 1 [ptE 0 0 0, ptE 1 10 0]),
                      .child ⟨4, 1, 20, 1⟩ (.mk true 1 [ptE 2 4 1, ptE 3 20 1])], 4, 2⟩

/-- **C12_old_prune_unsound** — the negation on the code before `ef18d0f` (MINMAXDIST pruning for
every k): on a well-formed tree of four points, `NearestNeighbors(2, (0,0))` of the old code answers
[(0,0), (10,0)] — it pruned the leaf that holds (4,1), the true second neighbour — which violates the
Spec; the repaired model answers [(0,0), (4,1)]. -/
theorem C12_old_prune_unsound :
    witTree.WF = true ∧ (∀ o ∈ witTree.abs, (Bounded.bounds o).valid = true) ∧
    (∃ res, nearestNeighborsOld stableOrder witTree 2 0 0 = .ok res ∧
      res.map (·.map (·.1)) = [some 0, some 1] ∧ specKNN witTree.abs 2 0 0 res = false) ∧
    (∃ res, nearestNeighbors stableOrder witTree 2 0 0 = .ok res ∧
      res.map (·.map (·.1)) = [some 0, some 2] ∧ specKNN witTree.abs 2 0 0 res = true) := by
  refine ⟨by decide +kernel, by decide +kernel, ?_, ?_⟩
  · exact ⟨[some (0, ⟨0, 0, 0, 0⟩), some (1, ⟨10, 0, 10, 0⟩)], by decide +kernel, by decide +kernel, by decide +kernel⟩
  · exact ⟨[some (0, ⟨0, 0, 0, 0⟩), some (2, ⟨4, 1, 4, 1⟩)], by decide +kernel, by decide +kernel, by decide +kernel⟩

/-- a stored object whose box is inverted in x (min 10 > max 0), alone in its leaf, and the point (4,5) -/
def invTree : C11.Tree Ob :=
  ⟨2, 4, .mk false 2 [.child ⟨10, 0, 0, 0⟩ (.mk true 1 [.obj ⟨10, 0, 0, 0⟩ (0, ⟨10, 0, 0, 0⟩)]),
                      .child ⟨4, 5, 4, 5⟩ (.mk true 1 [ptE 1 4 5])], 2, 2⟩

/-- **C12_valid_needed** — the hypothesis "the box of every stored object contains a point" of
`C12_nn` cannot be dropped: with an inverted `*geom.Bounds` stored (min.X = 10 > max.X = 0) the tree
is still well-formed in the sense of C11, but MINMAXDIST of its leaf (16) undercuts that leaf's own
MINDIST (36) and the MINDIST of the leaf of (4,5) (25): `pruneEntries` drops BOTH children and
`NearestNeighbor((4,0))` panics ("nearest neighbor is nil") on a tree that stores two objects. -/
theorem C12_valid_needed :
    invTree.WF = true ∧ invTree.abs.length = 2 ∧
    (∃ o ∈ invTree.abs, (Bounded.bounds o).valid = false) ∧
    branches stableOrder true 4 0 (invTree.root.entries.map Entry.bb) = [] ∧
    nearestNeighbor stableOrder invTree 4 0 = .error Fault.nnNil := by
  refine ⟨by decide +kernel, by decide +kernel, ⟨(0, ⟨10, 0, 0, 0⟩), by decide +kernel, by decide +kernel⟩,
    by decide +kernel, by decide +kernel⟩

end GeomV.C12
