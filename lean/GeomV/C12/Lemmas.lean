import Mathlib.Tactic.Ring
import GeomV.C11.LemmasTree
import GeomV.C12.Model
import GeomV.C12.Spec
/-
Helper lemmas for C12: one-dimensional distance facts, MINDIST / MINMAXDIST, the fold of
`nearestNeighbor`.
-/
set_option linter.unusedVariables false
set_option linter.unusedSimpArgs false
namespace GeomV.C12
open GeomV.C11
variable {O : Type}

/-- one coordinate of `minDist` -/
def d1 (p lo hi : Rat) : Rat := if p < lo then sq (p - lo) else if p > hi then sq (p - hi) else 0

theorem minDist_eq (px py : Rat) (r : Box) :
    minDist px py r = d1 px r.minX r.maxX + d1 py r.minY r.maxY := rfl

theorem sq_nonneg' (x : Rat) : 0 ≤ sq x := by unfold sq; nlinarith [mul_self_nonneg x]

theorem sq_le_sq_of_abs {a b : Rat} (h1 : -b ≤ a) (h2 : a ≤ b) : sq a ≤ sq b := by
  unfold sq; nlinarith

theorem d1_nonneg (p lo hi : Rat) : 0 ≤ d1 p lo hi := by
  unfold d1; split_ifs <;> first | exact sq_nonneg' _ | exact le_refl _

/-- the distance to an interval is at most the distance to any of its points -/
theorem d1_le_point {p lo hi c : Rat} (h1 : lo ≤ c) (h2 : c ≤ hi) : d1 p lo hi ≤ sq (p - c) := by
  unfold d1; split_ifs with a b
  · unfold sq; nlinarith
  · unfold sq; nlinarith
  · exact sq_nonneg' _

/-- a larger interval is nearer -/
theorem d1_mono {p lo hi Lo Hi : Rat} (h1 : Lo ≤ lo) (h2 : hi ≤ Hi) (hv : lo ≤ hi) :
    d1 p Lo Hi ≤ d1 p lo hi := by
  unfold d1; split_ifs <;> (try unfold sq) <;> nlinarith

/-- the face of `[Lo,Hi]` that is farther from `p` (told by comparing the two distances, as the
repaired `minMaxDist` does) is at least as far as any point of the interval -/
theorem far_end {p Lo Hi c : Rat} (h1 : Lo ≤ c) (h2 : c ≤ Hi) :
    sq (p - c) ≤ sq (p - (if ratAbs (p - Lo) ≥ ratAbs (p - Hi) then Lo else Hi)) := by
  unfold ratAbs
  split_ifs with h3 h4 h5 h6 h7 <;> unfold sq <;> nlinarith

theorem d1_le_far {p lo hi Lo Hi : Rat} (h1 : Lo ≤ lo) (h2 : hi ≤ Hi) (hv : lo ≤ hi) :
    d1 p lo hi ≤ sq (p - (if ratAbs (p - Lo) ≥ ratAbs (p - Hi) then Lo else Hi)) :=
  (d1_le_point (le_refl lo) hv).trans (far_end h1 (hv.trans h2))

theorem valid_iff (b : Box) : b.valid = true ↔ b.minX ≤ b.maxX ∧ b.minY ≤ b.maxY := by
  simp [Box.valid]

theorem minDist_eq_boxDist2 (px py : Rat) (b : Box) : minDist px py b = boxDist2 px py b := by
  unfold minDist boxDist2 pdist2 sq
  simp only
  split_ifs <;> ring

theorem boxDist2_le (px py : Rat) (b : Box) (x y : Rat) (h : b.has x y) :
    boxDist2 px py b ≤ pdist2 px py x y := by
  rw [← minDist_eq_boxDist2, minDist_eq]
  obtain ⟨h1, h2, h3, h4⟩ := h
  have a := d1_le_point (p := px) h1 h2
  have b' := d1_le_point (p := py) h3 h4
  unfold pdist2; unfold sq at a b'; linarith

theorem boxDist2_attained (px py : Rat) (b : Box) (hv : b.valid = true) :
    ∃ x y, b.has x y ∧ pdist2 px py x y = boxDist2 px py b := by
  rw [valid_iff] at hv
  refine ⟨if px < b.minX then b.minX else if b.maxX < px then b.maxX else px,
    if py < b.minY then b.minY else if b.maxY < py then b.maxY else py, ?_, rfl⟩
  unfold Box.has
  refine ⟨?_, ?_, ?_, ?_⟩ <;> split_ifs <;> linarith

theorem minDist_mono (px py : Rat) {b x : Box} (hc : b.minX ≤ x.minX ∧ b.minY ≤ x.minY ∧ x.maxX ≤ b.maxX ∧ x.maxY ≤ b.maxY)
    (hv : x.valid = true) : minDist px py b ≤ minDist px py x := by
  rw [valid_iff] at hv
  rw [minDist_eq, minDist_eq]
  have a := d1_mono (p := px) hc.1 hc.2.2.1 hv.1
  have b' := d1_mono (p := py) hc.2.1 hc.2.2.2 hv.2
  linarith

theorem minMaxDist_eq (px py : Rat) (r : Box) :
    minMaxDist px py r =
      (let rmX := if ratAbs (px - r.minX) ≤ ratAbs (px - r.maxX) then r.minX else r.maxX
       let rmY := if ratAbs (py - r.minY) ≤ ratAbs (py - r.maxY) then r.minY else r.maxY
       let rMX := if ratAbs (px - r.minX) ≥ ratAbs (px - r.maxX) then r.minX else r.maxX
       let rMY := if ratAbs (py - r.minY) ≥ ratAbs (py - r.maxY) then r.minY else r.maxY
       let dx := sq (px - rmX) + sq (py - rMY)
       let dy := sq (px - rMX) + sq (py - rmY)
       if dy < dx then dy else dx) := by
  unfold minMaxDist
  simp only
  congr 1 <;> ring_nf

/-- **MINMAXDIST** (Roussopoulos et al.): if `b` is the exact envelope of the non-empty list of
boxes `bs` (each containing a point), some box of `bs` is within `minMaxDist p b` of `p`. -/
theorem minMaxDist_spec (px py : Rat) {b : Box} {bs : List Box} (henv : IsEnv b bs)
    (hv : ∀ x ∈ bs, x.valid = true) : ∃ x ∈ bs, minDist px py x ≤ minMaxDist px py b := by
  rw [minMaxDist_eq]
  simp only
  obtain ⟨_, hlo, ⟨xa, hxa, exa⟩, ⟨ya, hya, eya⟩, ⟨xb, hxb, exb⟩, ⟨yb, hyb, eyb⟩⟩ := henv
  -- x-face case: box touching the nearer x-face
  have hX : ∃ x ∈ bs, minDist px py x ≤
      sq (px - (if ratAbs (px - b.minX) ≤ ratAbs (px - b.maxX) then b.minX else b.maxX)) +
      sq (py - (if ratAbs (py - b.minY) ≥ ratAbs (py - b.maxY) then b.minY else b.maxY)) := by
    by_cases hc : ratAbs (px - b.minX) ≤ ratAbs (px - b.maxX)
    · refine ⟨xa, hxa, ?_⟩
      have v := (valid_iff _).mp (hv xa hxa)
      obtain ⟨l1, l2, l3, l4⟩ := hlo xa hxa
      rw [minDist_eq]; simp only [hc, if_true]
      have a : d1 px xa.minX xa.maxX ≤ sq (px - b.minX) := by
        rw [← exa]; exact d1_le_point (le_refl xa.minX) v.1
      have b' := d1_le_far (p := py) l2 l4 v.2
      linarith
    · refine ⟨xb, hxb, ?_⟩
      have v := (valid_iff _).mp (hv xb hxb)
      obtain ⟨l1, l2, l3, l4⟩ := hlo xb hxb
      rw [minDist_eq]; simp only [hc, if_false]
      have a : d1 px xb.minX xb.maxX ≤ sq (px - b.maxX) := by
        rw [← exb]; exact d1_le_point v.1 (le_refl xb.maxX)
      have b' := d1_le_far (p := py) l2 l4 v.2
      linarith
  have hY : ∃ x ∈ bs, minDist px py x ≤
      sq (px - (if ratAbs (px - b.minX) ≥ ratAbs (px - b.maxX) then b.minX else b.maxX)) +
      sq (py - (if ratAbs (py - b.minY) ≤ ratAbs (py - b.maxY) then b.minY else b.maxY)) := by
    by_cases hc : ratAbs (py - b.minY) ≤ ratAbs (py - b.maxY)
    · refine ⟨ya, hya, ?_⟩
      have v := (valid_iff _).mp (hv ya hya)
      obtain ⟨l1, l2, l3, l4⟩ := hlo ya hya
      rw [minDist_eq]; simp only [hc, if_true]
      have a : d1 py ya.minY ya.maxY ≤ sq (py - b.minY) := by
        rw [← eya]; exact d1_le_point (le_refl ya.minY) v.2
      have b' := d1_le_far (p := px) l1 l3 v.1
      linarith
    · refine ⟨yb, hyb, ?_⟩
      have v := (valid_iff _).mp (hv yb hyb)
      obtain ⟨l1, l2, l3, l4⟩ := hlo yb hyb
      rw [minDist_eq]; simp only [hc, if_false]
      have a : d1 py yb.minY yb.maxY ≤ sq (py - b.maxY) := by
        rw [← eyb]; exact d1_le_point v.2 (le_refl yb.maxY)
      have b' := d1_le_far (p := px) l1 l3 v.1
      linarith
  have key : ∀ a c : Rat, (∃ x ∈ bs, minDist px py x ≤ a) → (∃ x ∈ bs, minDist px py x ≤ c) →
      ∃ x ∈ bs, minDist px py x ≤ if c < a then c else a := by
    intro a c ha hc; split_ifs <;> assumption
  exact key _ _ hX hY

end GeomV.C12
