import GeomV.C12.Proofs
import GeomV.C12.Ties.MinDist
import GeomV.C12.Ties.MinMaxDist
/-!
C12 theorems restated for `minDist` / `minMaxDist` as REGENERATED from index/rtree/geom.go of the
tree under test (`GeomV.C11.Gen`).
-/
namespace GeomV.C12
open GeomV.C11

/-- geom.go `minDist`, as regenerated, is the squared distance to the box -/
theorem C12_minDist_spec_src (big px py : Rat) (b : Box) :
    Gen.minDist big ⟨px, py⟩ b = boxDist2 px py b ∧
    (∀ x y, b.has x y → Gen.minDist big ⟨px, py⟩ b ≤ pdist2 px py x y) ∧
    (b.valid = true → ∃ x y, b.has x y ∧ pdist2 px py x y = Gen.minDist big ⟨px, py⟩ b) := by
  rw [C12_tie_minDist]
  obtain ⟨h1, h2, h3⟩ := C12_minDist_spec px py b
  rw [h1]; exact ⟨rfl, h2, h3⟩

/-- geom.go `minMaxDist`, as regenerated, has the MINMAXDIST guarantee (`big` = MaxFloat64 above the
first candidate) -/
theorem C12_minMaxDist_spec_src (big px py : Rat) (b : Box) (bs : List Box) (hbig : mmdX px py b < big)
    (henv : isEnvelope b bs = true) (hv : ∀ x ∈ bs, x.valid = true) :
    ∃ x ∈ bs, Gen.minDist big ⟨px, py⟩ x ≤ Gen.minMaxDist big ⟨px, py⟩ b := by
  rw [C12_tie_minMaxDist big px py b hbig]
  obtain ⟨x, hx, h⟩ := C12_minMaxDist_spec px py b bs henv hv
  exact ⟨x, hx, by rw [C12_tie_minDist, minDist_eq_boxDist2]; exact h⟩

end GeomV.C12
