import GeomV.C12.ProofsFloatTree
import GeomV.C02.IEEE
/-!
C12 — IEEE-754 binary64 roundTiesToEven IS a `Rounding` in the sense of ProofsFloat.lean.

`C02.rne : Rat → Rat` (lean/GeomV/C02/IEEE.lean, w4-C02) is the value of the bit pattern computed by C17's
`Dec.roundPos` (exact natural-number round-to-nearest-even on the 64-bit pattern), with the sign of the argument;
from the overflow threshold `2^1024 − 2^970` on it yields `±2^1024`, the value of the pattern of ±Inf.
Monotonicity and `rne 0 = 0` are C02's; idempotence is proved here from C17's specification `IsRNE` (the nearest
pattern of a pattern's value is that pattern: `IsRNE.unique`, `valPos_injective`).

Hence `C12_nn_rne`: the float-level whole-tree theorem `C12_nn_float` holds with `fl = rne` — the hypothesis
"float64 round-to-nearest is a monotone rounding" has left the trusted base.  What the `Rat` model does not render:
once an intermediate value reaches the overflow threshold the real code continues with +Inf (and `Inf − Inf`,
`0 · Inf` = NaN), the model with the number 2^1024 — the theorem speaks about float64 as long as every
intermediate value of `minDist`/`minMaxDist` stays below 2^1024 − 2^970 (coordinates and differences below 2^511).
-/
namespace GeomV.C12
open GeomV.C11

theorem valPos_zero : Dec.valPos 0 = 0 := by
  unfold Dec.valPos; norm_num

theorem valPos_infBits : Dec.valPos Dec.infBits = 2 ^ 1024 := by
  unfold Dec.valPos Dec.infBits
  norm_num
  have : (4503599627370496 : ℚ) = 2 ^ 52 := by norm_num
  rw [this, ← pow_add]

theorem overflowAt_le : Dec.overflowAt ≤ 2 ^ 1024 := by
  unfold Dec.overflowAt
  have : (0 : ℚ) < 2 ^ 970 := by positivity
  generalize (2 : ℚ) ^ 970 = P at *
  generalize (2 : ℚ) ^ 1024 = Q
  linarith

/-- the largest finite double, (2^53 − 1)·2^971, is below the overflow threshold 2^1024 − 2^970 -/
theorem valPos_max : Dec.valPos (Dec.infBits - 1) < Dec.overflowAt := by
  unfold Dec.valPos Dec.infBits Dec.overflowAt
  norm_num
  have e1 : (2 : ℚ) ^ 971 = 2 * 2 ^ 970 := by rw [pow_succ]; ring
  have e2 : (2 : ℚ) ^ 1024 = 2 ^ 54 * 2 ^ 970 := by rw [← pow_add]
  rw [e1, e2]
  have : (0 : ℚ) < 2 ^ 970 := by positivity
  clear e1 e2
  generalize (2 : ℚ) ^ 970 = P at *
  have h1 : (9007199254740991 : ℚ) * (2 * P) = 18014398509481982 * P := by ring
  have h2 : (2 : ℚ) ^ 54 * P - P = 18014398509481983 * P := by ring
  rw [h1, h2]
  linarith

theorem valPos_finite_lt (c : Nat) (hc : c < Dec.infBits) : Dec.valPos c < Dec.overflowAt :=
  lt_of_le_of_lt (Dec.valPos_strictMono.monotone (by omega)) valPos_max

/-- the value of a pattern (finite, or the pattern of +Inf with value 2^1024) is a fixed point of `rne` -/
theorem rne_valPos (b : Nat) (hb : b ≤ Dec.infBits) : C02.rne (Dec.valPos b) = Dec.valPos b := by
  rcases Nat.eq_zero_or_pos b with h0 | hpos
  · subst h0; rw [valPos_zero, C02.rne_zero]
  · have hv : 0 < Dec.valPos b := by
      have := Dec.valPos_strictMono hpos; rwa [valPos_zero] at this
    rw [C02.rne_of_pos hv]
    have hR := C02.rne_isRNE (Dec.valPos b) hv
    generalize Dec.roundPos (Dec.valPos b).num.natAbs (Dec.valPos b).den = b' at *
    rcases Nat.lt_or_ge b Dec.infBits with hlt | hge
    · -- b finite: its value is below the threshold, so b' is finite, and b is at distance 0
      have hlt' : b' < Dec.infBits :=
        lt_of_le_of_ne hR.le_inf fun h => absurd (hR.overflow.mp h) (not_le.mpr (valPos_finite_lt b hlt))
      have hn := hR.nearest hlt' b hlt
      rw [sub_self, abs_zero] at hn
      have h0 : |Dec.valPos b - Dec.valPos b'| = 0 := le_antisymm hn (abs_nonneg _)
      have := abs_eq_zero.mp h0
      linarith
    · have hb2 : b = Dec.infBits := le_antisymm hb hge
      subst hb2
      have : b' = Dec.infBits := hR.overflow.mpr (by rw [valPos_infBits]; exact overflowAt_le)
      rw [this]

/-- `rne` is idempotent: every rounded value is a fixed point -/
theorem rne_idem (a : Rat) : C02.rne (C02.rne a) = C02.rne a := by
  rcases lt_trichotomy a 0 with h | h | h
  · have hp : 0 < -a := neg_pos.mpr h
    have e : C02.rne a = - Dec.valPos (Dec.roundPos a.num.natAbs a.den) := C02.rne_of_neg h
    have hle := (C02.rne_isRNE (-a) hp).le_inf
    rw [Rat.num_neg_eq_neg_num, Int.natAbs_neg, Rat.den_neg_eq_den] at hle
    rw [e, C02.rne_neg, rne_valPos _ hle]
  · subst h; rw [C02.rne_zero, C02.rne_zero]
  · rw [C02.rne_of_pos h, rne_valPos _ (C02.rne_isRNE a h).le_inf]

/-- **float64 roundTiesToEven is a `Rounding`** (monotone, 0 ↦ 0, idempotent) -/
theorem C12_rne_rounding : Rounding C02.rne :=
  ⟨fun h => C02.rne_mono _ _ h, C02.rne_zero, rne_idem⟩

/-- **C12_nn_rne** — `C12_nn_float` with the IEEE-754 binary64 rounding: `NearestNeighbor(p)` computed with
roundTiesToEven after every `-`, `*`, `+` of `minDist` / `minMaxDist` returns, on every well-formed non-empty
tree with valid stored boxes and for every visiting order, a stored object whose float64 squared distance is
minimal among the stored objects (no nil-result panic, no pruned nearest object — whatever the coordinates,
as long as no intermediate value overflows, see the file header). -/
theorem C12_nn_rne {O : Type} [Bounded O] {order : List Rat → List Nat} (hO : OrderOK order)
    (t : C11.Tree O) (hwf : t.WF = true) (hne : t.abs ≠ []) (px py : Rat)
    (hv : ∀ o ∈ t.abs, (Bounded.bounds o).valid = true) :
    ∃ o, fnearestNeighbor C02.rne order t px py = .ok o ∧ o ∈ t.abs ∧
      ∀ o' ∈ t.abs, fodist C02.rne px py o ≤ fodist C02.rne px py o' :=
  C12_nn_float C12_rne_rounding hO t hwf hne px py hv

/-! ### the known overflow finding (findings/C12.json), on the model -/

/-- `math.MaxFloat64` = (2^53 − 1)·2^971 -/
def maxFloat64 : Rat := (2 ^ 53 - 1) * 2 ^ 971

theorem overflowAt_pos : 0 < Dec.overflowAt := by
  unfold Dec.overflowAt
  have h : (2 : ℚ) ^ 970 < 2 ^ 1024 := pow_lt_pow_right₀ (by norm_num) (by norm_num)
  generalize (2 : ℚ) ^ 970 = P at *
  generalize (2 : ℚ) ^ 1024 = Q at *
  linarith

theorem maxFloat64_lt : maxFloat64 < 2 ^ 1024 := by
  unfold maxFloat64
  have e : (2 : ℚ) ^ 1024 = 2 ^ 53 * 2 ^ 971 := by rw [← pow_add]
  rw [e]
  have : (0 : ℚ) < 2 ^ 971 := by positivity
  generalize (2 : ℚ) ^ 971 = P at *
  have h1 : ((2 : ℚ) ^ 53 - 1) * P = 2 ^ 53 * P - P := by ring
  rw [h1]
  exact sub_lt_self _ this

/-- from the overflow threshold on, `rne` yields 2^1024, the value of the pattern of +Inf -/
theorem rne_overflow {q : Rat} (h : Dec.overflowAt ≤ q) : C02.rne q = 2 ^ 1024 := by
  have hq : 0 < q := lt_of_lt_of_le overflowAt_pos h
  rw [C02.rne_of_pos hq, (C02.rne_isRNE q hq).overflow.mpr h, valPos_infBits]

/-- **C12_overflow_known** — the model-level negation for the known finding: every squared distance from the
overflow threshold 2^1024 − 2^970 on (e.g. the one between x = 2^600 and x = 3·2^600) is rounded to 2^1024 — the
+Inf of the real code — and that is NOT below `math.MaxFloat64`: the leaf test `dist < d` of `nearestNeighbor`
fails against the initial `d`, and `dist >= dists[i]` of `insertNearest` holds for every slot; nothing is stored,
`NearestNeighbor` ends in its nil panic although the tree is not empty.  (`C12_nn_rne` does not contradict this:
its initial distance is `none` = +∞, faithful only while the distances stay below the threshold.) -/
theorem C12_overflow_known :
    (∀ q : Rat, Dec.overflowAt ≤ q → C02.rne q = 2 ^ 1024 ∧ ¬ C02.rne q < maxFloat64) ∧
    Dec.overflowAt ≤ (3 * 2 ^ 600 - 2 ^ 600 : Rat) * (3 * 2 ^ 600 - 2 ^ 600) := by
  constructor
  · intro q h
    rw [rne_overflow h]
    exact ⟨rfl, not_lt.mpr maxFloat64_lt.le⟩
  · have e : (3 * 2 ^ 600 - 2 ^ 600 : Rat) * (3 * 2 ^ 600 - 2 ^ 600) = 2 ^ 1202 := by
      have : (3 * 2 ^ 600 - 2 ^ 600 : Rat) = 2 ^ 601 := by
        rw [show (2 : ℚ) ^ 601 = 2 ^ 600 * 2 from pow_succ 2 600]
        generalize (2 : ℚ) ^ 600 = P
        ring
      rw [this, ← pow_add]
    rw [e]
    have h1 : (2 : ℚ) ^ 1024 ≤ 2 ^ 1202 := pow_le_pow_right₀ (by norm_num) (by norm_num)
    exact overflowAt_le.trans h1

end GeomV.C12
