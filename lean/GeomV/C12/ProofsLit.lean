import GeomV.C12.Proofs
/-!
C12 — the recursion of rtree.go `nearestNeighbor`, literally.

The Go function RETURNS `(nearest, d)`; the caller does

    subNearest, dist := tree.nearestNeighbor(p, e.child, d, nearest)
    if dist < d { d = dist; nearest = subNearest }

The model `nnNode` threads the running best through the recursive call instead (the state after the call IS the
callee's result).  `nnNodeLit` is the literal form (`callerUpdate` = the caller's `if dist < d`), and
`C12_nnNode_lit` shows that it is the model that is run and about which `C12_nn` speaks: the callee's result is
either the state it was given or a strictly smaller distance (`nnNode_improves`), and in both cases the caller's
comparison reproduces it.
-/
set_option linter.unusedVariables false
set_option linter.unusedSimpArgs false
namespace GeomV.C12
open GeomV.C11
variable {O : Type}

/-- the caller's `if dist < d { d = dist; nearest = subNearest }` (`none` = (MaxFloat64, nil)) -/
def callerUpdate (st sub : Option (Rat × O)) : Option (Rat × O) :=
  match sub with
  | none => st
  | some (dist, o) => if better dist st then some (dist, o) else st

/-- rtree.go `nearestNeighbor` with the recursive call returning `(subNearest, dist)` to a caller that compares -/
def nnNodeLit (order : List Rat → List Nat) (px py : Rat) :
    Node O → Option (Rat × O) → Except Fault (Option (Rat × O))
  | .mk leaf _ es, st =>
    if leaf then
      es.foldlM (fun st e =>
        match e with
        | .obj b o => let d := minDist px py b; pure (if better d st then some (d, o) else st)
        | .child b _ => if better (minDist px py b) st then throw Fault.nilObj else pure st) st
    else
      (branches order true px py (es.map Entry.bb)).foldlM (fun st (i : Nat) =>
        match h : es[i]? with
        | some (.child _ c) =>
          match nnNodeLit order px py c st with
          | .error f => .error f
          | .ok sub => .ok (callerUpdate st sub)
        | some (.obj _ _) => throw Fault.nilDeref
        | none => throw Fault.choice) st
termination_by n => sizeOf n
decreasing_by have := Entry.sizeOf_child_lt_get h; simp_wf; omega

theorem nnNodeLit_mk (order : List Rat → List Nat) (px py : Rat) (leaf : Bool) (v : Nat)
    (es : List (Entry O)) (st : Option (Rat × O)) :
    nnNodeLit order px py (.mk leaf v es) st =
      (if leaf then es.foldlM (nnLeafStep px py) st
       else (branches order true px py (es.map Entry.bb)).foldlM (fun st (i : Nat) =>
          match es[i]? with
          | some (.child _ c) =>
            match nnNodeLit order px py c st with
            | .error f => .error f
            | .ok sub => .ok (callerUpdate st sub)
          | some (.obj _ _) => throw Fault.nilDeref
          | none => throw Fault.choice) st) := by
  rw [nnNodeLit]
  split_ifs
  · rfl
  · congr 1; funext st i
    split <;> split <;> simp_all

/-- the result is the given state, or a strictly smaller distance -/
def Improves (s s' : Option (Rat × O)) : Prop := s' = s ∨ ∃ d o, s' = some (d, o) ∧ better d s = true

theorem Improves.trans {a b c : Option (Rat × O)} (h1 : Improves a b) (h2 : Improves b c) : Improves a c := by
  rcases h1 with rfl | ⟨d, o, rfl, hd⟩
  · exact h2
  · rcases h2 with rfl | ⟨d', o', rfl, hd'⟩
    · exact Or.inr ⟨d, o, rfl, hd⟩
    · refine Or.inr ⟨d', o', rfl, ?_⟩
      cases a with
      | none => rfl
      | some q =>
        obtain ⟨x, _⟩ := q
        simp only [better, decide_eq_true_eq] at hd hd' ⊢
        exact lt_trans hd' hd

theorem foldlM_improves {α : Type} (f : Option (Rat × O) → α → Except Fault (Option (Rat × O))) :
    ∀ (l : List α), (∀ a ∈ l, ∀ s s', f s a = .ok s' → Improves s s') →
      ∀ s s', l.foldlM f s = .ok s' → Improves s s'
  | [], _, s, s', h => by
    simp only [List.foldlM_nil, pure, Except.pure] at h; cases h; exact Or.inl rfl
  | a :: l, hl, s, s', h => by
    simp only [List.foldlM_cons, bind, Except.bind] at h
    cases h1 : f s a with
    | error e => rw [h1] at h; cases h
    | ok s1 =>
      rw [h1] at h
      exact (hl a List.mem_cons_self s s1 h1).trans
        (foldlM_improves f l (fun x hx => hl x (List.mem_cons_of_mem _ hx)) s1 s' h)

theorem nnLeafStep_improves (px py : Rat) (e : Entry O) (s s' : Option (Rat × O))
    (h : nnLeafStep px py s e = .ok s') : Improves s s' := by
  cases e with
  | obj b o =>
    simp only [nnLeafStep, pure, Except.pure] at h
    cases h
    split_ifs with hb
    · exact Or.inr ⟨_, _, rfl, hb⟩
    · exact Or.inl rfl
  | child b c =>
    simp only [nnLeafStep] at h
    split_ifs at h
    cases h; exact Or.inl rfl

/-- what `nearestNeighbor` returns is the `(d, nearest)` it was given or a strictly smaller distance -/
theorem nnNode_improves (order : List Rat → List Nat) (px py : Rat) :
    ∀ (n : Node O) (s s' : Option (Rat × O)), nnNode order px py n s = .ok s' → Improves s s' := by
  intro n
  induction n using Node.induct with
  | h l v es ih =>
    intro s s' h
    rw [nnNode_mk] at h
    cases l with
    | true =>
      simp only [if_true] at h
      exact foldlM_improves _ es (fun e _ a b hab => nnLeafStep_improves px py e a b hab) s s' h
    | false =>
      simp only [Bool.false_eq_true, if_false] at h
      refine foldlM_improves _ _ ?_ s s' h
      intro i _ a b hab
      cases hc : es[i]? with
      | none => rw [hc] at hab; cases hab
      | some e =>
        cases e with
        | obj b' o => rw [hc] at hab; cases hab
        | child b' c =>
          rw [hc] at hab
          exact ih b' c (List.mem_of_getElem? hc) a b hab

theorem callerUpdate_of_improves {st sub : Option (Rat × O)} (h : Improves st sub) : callerUpdate st sub = sub := by
  rcases h with rfl | ⟨d, o, rfl, hd⟩
  · cases sub with
    | none => rfl
    | some q =>
      obtain ⟨d, o⟩ := q
      simp [callerUpdate, better]
  · simp [callerUpdate, hd]

/-- **C12_nnNode_lit** — the literal recursion of rtree.go `nearestNeighbor` (sub-call returns `(subNearest, dist)`,
the caller keeps it iff `dist < d`) computes exactly what the model `nnNode` computes (which threads the running
best): same answers, same faults, for every node, state, visiting order and query point. -/
theorem C12_nnNode_lit (order : List Rat → List Nat) (px py : Rat) :
    ∀ (n : Node O) (st : Option (Rat × O)), nnNodeLit order px py n st = nnNode order px py n st := by
  intro n
  induction n using Node.induct with
  | h l v es ih =>
    intro st
    rw [nnNodeLit_mk, nnNode_mk]
    cases l with
    | true => rfl
    | false =>
      simp only [Bool.false_eq_true, if_false]
      congr 1
      funext st i
      cases hi : es[i]? with
      | none => rfl
      | some e =>
        cases e with
        | obj b o => rfl
        | child b c =>
          simp only
          rw [ih b c (List.mem_of_getElem? hi) st]
          cases hr : nnNode order px py c st with
          | error f => rfl
          | ok sub =>
            simp only
            rw [callerUpdate_of_improves (nnNode_improves order px py c st sub hr)]

/-- rtree.go `NearestNeighbor` over the literal recursion -/
def nearestNeighborLit (order : List Rat → List Nat) (t : C11.Tree O) (px py : Rat) : Except Fault O := do
  match ← nnNodeLit order px py t.root none with
  | none => throw .nnNil
  | some (_, o) => pure o

theorem C12_nn_lit (order : List Rat → List Nat) (t : C11.Tree O) (px py : Rat) :
    nearestNeighborLit order t px py = nearestNeighbor order t px py := by
  unfold nearestNeighborLit nearestNeighbor
  rw [C12_nnNode_lit]
  cases nnNode order px py t.root none with
  | error e => rfl
  | ok r => cases r with
    | none => rfl
    | some q => rfl

end GeomV.C12
