import GeomV.C12.NegationsFloat
/-!
C12 — the FUSED-MULTIPLY-ADD defect of geom.go before the `float64(...)` conversions, as a kernel-evaluated negation.

The Go specification allows a compiler to fuse `x*y + z` into one operation with a single rounding unless the
product is converted explicitly; the compilers for arm64 and ppc64le do (disassembly of the cross-compiled package:
4 `FMADDD` in `minDist`, 2 in `minMaxDist`).  The binaries then compute

  minDist     : sum = fl(dx·dx + 0);  sum = fl(dy·dy + sum)                 (each `sum += d * d` fused)
  minMaxDist  : fl(d2·d2 + fl(d1·d1))   or   fl(d1·d1 + fl(d2·d2))          (one product of `d1*d1 + d2*d2` fused)

i.e. NOT "`fl` after every `-`, `*`, `+`", the hypothesis under which `fMinDist_le_fMinMaxDist`, `C12_nn_float`
and `C12_knn_float` are proved.  Under the two-binade format `fl2` (a `Rounding`), seen from p = (0,0), the point
box (3/4, 11/4) has

  fused MINDIST    = fl2(121/16 + fl2(9/16)) = fl2(129/16) = 8
  fused MINMAXDIST = min(8, fl2(9/16 + fl2(121/16)) = fl2(121/16 − … ) = 7) = 7        (either operand choice)

so the MINMAXDIST of the box is below the MINDIST of the same box; on the well-formed four-object tree `fusedTree`
both leaves are pruned and `NearestNeighbor((0,0))` raises the nil panic.  With every product rounded on its own
(the code after the fix; `fMinDist`/`fMinMaxDist`) both values are 7, the branch is kept and object 0 is returned.
Repaired by /repo 0fdcaaf (explicit `float64(...)` conversions: the Go specification forbids fusion across them), so the
hypothesis of the float-level theorems now follows from the language specification, not from amd64 code generation.
The float64 counterpart (emulated with `math.FMA`): NewTree(2,4), points (5.8,9.2) (9.9,6.3) (5.8,4.3) (2.1,5.8)
(5.4,6.3) (9.9,5.4), NearestNeighbor((5.4,9.9)) panics.
-/
set_option linter.unusedVariables false
namespace GeomV.C12
open GeomV.C11

/-- `sum += d * d` fused: `sum = fma(d, d, sum)` (and `sum += 0`) -/
def fusedAdd (fl : Rat → Rat) (sum p lo hi : Rat) : Rat :=
  if p < lo then fl (fl (p - lo) * fl (p - lo) + sum)
  else if p > hi then fl (fl (p - hi) * fl (p - hi) + sum)
  else fl (sum + 0)

/-- geom.go `minDist` as compiled with fused multiply-add -/
def fMinDistFused (fl : Rat → Rat) (px py : Rat) (r : Box) : Rat :=
  fusedAdd fl (fusedAdd fl 0 px r.minX r.maxX) py r.minY r.maxY

/-- `d1*d1 + d2*d2` with the SECOND product fused: `fma(d2, d2, fl(d1*d1))` -/
def fusedSumA (fl : Rat → Rat) (p1 f1 p2 f2 : Rat) : Rat :=
  fl (fl (p2 - f2) * fl (p2 - f2) + fl (fl (p1 - f1) * fl (p1 - f1)))

/-- `d1*d1 + d2*d2` with the FIRST product fused: `fma(d1, d1, fl(d2*d2))` -/
def fusedSumB (fl : Rat → Rat) (p1 f1 p2 f2 : Rat) : Rat :=
  fl (fl (p1 - f1) * fl (p1 - f1) + fl (fl (p2 - f2) * fl (p2 - f2)))

/-- geom.go `minMaxDist` (face selection of ef912a0) as compiled with fused multiply-add; `s` is the fused sum -/
def fMinMaxDistFused (s : (Rat → Rat) → Rat → Rat → Rat → Rat → Rat) (fl : Rat → Rat) (px py : Rat) (r : Box) : Rat :=
  let dx := s fl px (fnear fl px r.minX r.maxX) py (ffar fl py r.minY r.maxY)
  let dy := s fl py (fnear fl py r.minY r.maxY) px (ffar fl px r.minX r.maxX)
  if dy < dx then dy else dx

/-- leaves {(3/4,11/4) twice} and {(2,3), (3,3)} -/
def fusedTree : C11.Tree Ob :=
  ⟨2, 4, .mk false 2 [.child ⟨3/4, 11/4, 3/4, 11/4⟩ (.mk true 1 [ptE 0 (3/4) (11/4), ptE 1 (3/4) (11/4)]),
                      .child ⟨2, 3, 3, 3⟩ (.mk true 1 [ptE 2 2 3, ptE 3 3 3])], 4, 2⟩

/-- **C12_fused_unsound** — the negation for the code before the `float64(...)` conversions when it is compiled
with fused multiply-add (Go spec; arm64, ppc64le), kernel-evaluated under the monotone rounding `fl2` on a
well-formed tree of four objects with valid boxes: the fused MINMAXDIST of the point box (3/4,11/4) is 7 — for
EITHER choice of the fused product — below the fused MINDIST 8 of that same box; the other leaf is at 13; the
pruned branch list is EMPTY and `NearestNeighbor((0,0))` panics (`nnNil`) although four objects are stored.  With
every product rounded separately (what the conversions enforce on every platform) both values are 7, and the
search returns object 0 at the minimal rounded distance 7. -/
theorem C12_fused_unsound :
    Rounding fl2 ∧
    fusedTree.WF = true ∧ fusedTree.abs.length = 4 ∧ (∀ o ∈ fusedTree.abs, (Bounded.bounds o).valid = true) ∧
    fMinDistFused fl2 0 0 ⟨3/4, 11/4, 3/4, 11/4⟩ = 8 ∧
    fMinMaxDistFused fusedSumA fl2 0 0 ⟨3/4, 11/4, 3/4, 11/4⟩ = 7 ∧
    fMinMaxDistFused fusedSumB fl2 0 0 ⟨3/4, 11/4, 3/4, 11/4⟩ = 7 ∧
    fMinDistFused fl2 0 0 ⟨2, 3, 3, 3⟩ = 13 ∧
    gbranches (fMinDistFused fl2 0 0) (fMinMaxDistFused fusedSumA fl2 0 0) stableOrder true
      (fusedTree.root.entries.map Entry.bb) = [] ∧
    gbranches (fMinDistFused fl2 0 0) (fMinMaxDistFused fusedSumB fl2 0 0) stableOrder true
      (fusedTree.root.entries.map Entry.bb) = [] ∧
    gnearestNeighbor (fMinDistFused fl2 0 0) (fMinMaxDistFused fusedSumA fl2 0 0) stableOrder fusedTree
      = .error Fault.nnNil ∧
    gnearestNeighbor (fMinDistFused fl2 0 0) (fMinMaxDistFused fusedSumB fl2 0 0) stableOrder fusedTree
      = .error Fault.nnNil ∧
    fMinDist fl2 0 0 ⟨3/4, 11/4, 3/4, 11/4⟩ = 7 ∧ fMinMaxDist fl2 0 0 ⟨3/4, 11/4, 3/4, 11/4⟩ = 7 ∧
    fnearestNeighbor fl2 stableOrder fusedTree 0 0 = .ok (0, ⟨3/4, 11/4, 3/4, 11/4⟩) := by
  refine ⟨Rounding.fl2, ?_, ?_, ?_, ?_, ?_, ?_, ?_, ?_, ?_, ?_, ?_, ?_, ?_, ?_⟩ <;> decide +kernel

/-- with no rounding the fused functions are the exact ones (the defect is a rounding effect only) -/
theorem fused_id (px py : Rat) (r : Box) :
    fMinDistFused (fun x => x) px py r = minDist px py r ∧
    fMinMaxDistFused fusedSumA (fun x => x) px py r = fMinMaxDist (fun x => x) px py r ∧
    fMinMaxDistFused fusedSumB (fun x => x) px py r = fMinMaxDist (fun x => x) px py r := by
  refine ⟨?_, ?_, ?_⟩
  · unfold fMinDistFused fusedAdd minDist sq
    split_ifs <;> simp [add_comm]
  · unfold fMinMaxDistFused fMinMaxDist fusedSumA fsqd
    simp only [add_comm]
  · unfold fMinMaxDistFused fMinMaxDist fusedSumB fsqd
    rfl

end GeomV.C12
