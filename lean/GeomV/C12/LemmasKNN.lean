import GeomV.C12.LemmasNN
/-
`insertNearest` keeps the k smallest of what it has seen (sorted, stable for ties), and the
un-pruned traversal of `nearestNeighbors` feeds it every stored object exactly once.
-/
set_option linter.unusedVariables false
set_option linter.unusedSimpArgs false
namespace GeomV.C12
open GeomV.C11
variable {O : Type}

/-- the two parallel arrays: the real entries followed by (MaxFloat64, nil) slots -/
def pad (k : Nat) (top : List (Rat × O)) : List (Option (Rat × O)) :=
  top.map some ++ List.replicate (k - top.length) none

/-- stable sorted insertion (after all entries that are not larger) -/
def insSorted (x : Rat × O) : List (Rat × O) → List (Rat × O)
  | [] => [x]
  | p :: t => if p.1 ≤ x.1 then p :: insSorted x t else x :: p :: t

theorem insertNearest_cons_le (k : Nat) (p : Rat × O) (l : List (Option (Rat × O))) (d : Rat) (o : O)
    (h : p.1 ≤ d) (hk : 1 ≤ k) :
    insertNearest k (some p :: l) d o = some p :: insertNearest (k - 1) l d o := by
  obtain ⟨x, o'⟩ := p
  simp only at h
  unfold insertNearest
  simp only [List.takeWhile_cons, ge_iff_le, h, decide_true, if_true, List.length_cons]
  generalize (List.takeWhile _ l).length = i
  by_cases hi : i + 1 ≥ k
  · have : i ≥ k - 1 := by omega
    simp [hi, this]
  · have : ¬ i ≥ k - 1 := by omega
    simp only [hi, this, if_false, List.take_succ_cons, List.drop_succ_cons, List.cons_append]
    congr 3; omega

theorem insertNearest_stop (k : Nat) (l : List (Option (Rat × O))) (d : Rat) (o : O)
    (h : ∀ p l', l = some p :: l' → d < p.1) (hk : 1 ≤ k) :
    insertNearest k l d o = some (d, o) :: l.take (k - 1) := by
  unfold insertNearest
  simp only
  generalize hi : (List.takeWhile _ l).length = i
  have hi0 : i = 0 := by
    rw [← hi]
    cases l with
    | nil => rfl
    | cons c l' =>
      cases c with
      | none => simp
      | some p =>
        obtain ⟨x, o'⟩ := p
        have := h (x, o') l' rfl
        simp only at this
        simp [List.takeWhile_cons, not_le.mpr this]
  subst hi0
  have : ¬ 0 ≥ k := by omega
  simp [this]

theorem pad_cons (k : Nat) (p : Rat × O) (t : List (Rat × O)) (h : t.length + 1 ≤ k) :
    pad k (p :: t) = some p :: pad (k - 1) t := by
  unfold pad; simp only [List.map_cons, List.length_cons, List.cons_append]
  have : k - (t.length + 1) = k - 1 - t.length := by omega
  rw [this]

theorem pad_take (k : Nat) (t : List (Rat × O)) (h : t.length ≤ k) (hk : 1 ≤ k) :
    (pad k t).take (k - 1) = pad (k - 1) (t.take (k - 1)) := by
  unfold pad
  rw [List.take_append]
  simp only [List.length_map, List.length_take, List.take_replicate]
  rw [← List.map_take]
  congr 2
  simp only [Nat.min_def]; split_ifs <;> omega

theorem insertNearest_pad : ∀ (top : List (Rat × O)) (k : Nat), top.length ≤ k → ∀ (d : Rat) (o : O),
    insertNearest k (pad k top) d o = pad k ((insSorted (d, o) top).take k)
  | [], k, _, d, o => by
    cases k with
    | zero => simp [insertNearest, pad, insSorted]
    | succ k =>
      rw [insertNearest_stop _ _ _ _ (by intro p l' h; simp [pad] at h; cases h) (by omega)]
      simp [pad, insSorted, List.take_replicate]
  | p :: t, k, h, d, o => by
    simp only [List.length_cons] at h
    rw [pad_cons k p t h]
    by_cases hp : p.1 ≤ d
    · rw [insertNearest_cons_le _ _ _ _ _ hp (by omega), insertNearest_pad t (k - 1) (by omega) d o]
      simp only [insSorted, hp, if_true]
      have : k = (k - 1) + 1 := by omega
      conv_rhs => rw [this, List.take_succ_cons]
      rw [pad_cons]
      · simp
      · simp [List.length_take]
    · rw [insertNearest_stop _ _ _ _ (by intro q l' h; cases h; exact not_le.mp hp) (by omega)]
      simp only [insSorted, hp, if_false]
      have hk : k = (k - 1) + 1 := by omega
      conv_rhs => rw [hk, List.take_succ_cons]
      rw [pad_cons _ _ _ (by simp [List.length_take])]
      congr 1
      rw [← pad_cons k p t h, pad_take k (p :: t) (by simpa using h) (by omega)]
      simp

/-! ### the top-k invariant -/

theorem insSorted_perm (x : Rat × O) : ∀ t, (insSorted x t).Perm (x :: t)
  | [] => List.Perm.refl _
  | p :: t => by
    simp only [insSorted]; split_ifs
    · exact (List.Perm.cons p (insSorted_perm x t)).trans (List.Perm.swap _ _ _)
    · exact List.Perm.refl _

def SortedD (t : List (Rat × O)) : Prop := t.Pairwise (fun a b => a.1 ≤ b.1)

theorem insSorted_sorted (x : Rat × O) : ∀ t, SortedD t → SortedD (insSorted x t)
  | [], _ => by simp [insSorted, SortedD]
  | p :: t, h => by
    simp only [insSorted]
    have h' := List.pairwise_cons.mp h
    split_ifs with hp
    · refine List.pairwise_cons.mpr ⟨?_, insSorted_sorted x t h'.2⟩
      intro q hq
      rcases (List.mem_cons.mp ((insSorted_perm x t).mem_iff.mp hq)) with rfl | hq
      · exact hp
      · exact h'.1 q hq
    · refine List.pairwise_cons.mpr ⟨?_, h⟩
      have hlt := not_le.mp hp
      intro q hq
      rcases List.mem_cons.mp hq with rfl | hq
      · exact le_of_lt hlt
      · exact le_trans (le_of_lt hlt) (h'.1 q hq)

/-- `top` is a correct "k nearest so far" for the multiset `seen` under the distance `cd` -/
structure TopK (cd : O → Rat) (k : Nat) (seen : List O) (top : List (Rat × O)) : Prop where
  len : top.length ≤ k
  dist : ∀ p ∈ top, p.1 = cd p.2
  sorted : SortedD top
  rest : ∃ rest, (top.map (·.2) ++ rest).Perm seen ∧ (∀ r ∈ rest, ∀ p ∈ top, p.1 ≤ cd r) ∧
    (rest ≠ [] → top.length = k)

theorem TopK.nil (cd : O → Rat) (k : Nat) : TopK cd k [] [] :=
  ⟨Nat.zero_le _, by simp, by simp [SortedD], ⟨[], by simp, by simp, by simp⟩⟩

theorem TopK.perm {cd : O → Rat} {k : Nat} {seen seen' : List O} {top : List (Rat × O)}
    (h : TopK cd k seen top) (hp : seen.Perm seen') : TopK cd k seen' top := by
  obtain ⟨a, b, c, ⟨rest, r1, r2, r3⟩⟩ := h
  exact ⟨a, b, c, ⟨rest, r1.trans hp, r2, r3⟩⟩

theorem TopK.step {cd : O → Rat} {k : Nat} {seen : List O} {top : List (Rat × O)}
    (h : TopK cd k seen top) (o : O) :
    TopK cd k (o :: seen) ((insSorted (cd o, o) top).take k) := by
  obtain ⟨hlen, hdist, hsorted, ⟨rest, r1, r2, r3⟩⟩ := h
  set full := insSorted (cd o, o) top with hfull
  have hperm := insSorted_perm (cd o, o) top
  have hfs := insSorted_sorted (cd o, o) top hsorted
  have hfd : ∀ p ∈ full, p.1 = cd p.2 := by
    intro p hp
    rcases List.mem_cons.mp (hperm.mem_iff.mp hp) with rfl | hp
    · rfl
    · exact hdist p hp
  have hsplit : full.take k ++ full.drop k = full := List.take_append_drop k full
  have hcross : ∀ a ∈ full.take k, ∀ b ∈ full.drop k, a.1 ≤ b.1 := by
    have : SortedD (full.take k ++ full.drop k) := by rw [hsplit]; exact hfs
    exact (List.pairwise_append.mp this).2.2
  have hflen : full.length = top.length + 1 := by simpa using hperm.length_eq
  refine ⟨by simp [List.length_take], fun p hp => hfd p (List.mem_of_mem_take hp),
    (List.Pairwise.sublist (List.take_sublist k full) hfs), ?_⟩
  refine ⟨(full.drop k).map (·.2) ++ rest, ?_, ?_, ?_⟩
  · rw [← List.append_assoc, ← List.map_append, hsplit]
    have := (hperm.map (·.2)).append_right rest
    exact this.trans (by simpa using List.Perm.cons o r1)
  · intro r hr p hp
    rcases List.mem_append.mp hr with hr | hr
    · obtain ⟨q, hq, rfl⟩ := List.mem_map.mp hr
      rw [← hfd q (List.mem_of_mem_drop hq)]
      exact hcross p hp q hq
    · -- r was already left out: top was full, so the last element of `full` is dropped
      have hfull_k := r3 (List.ne_nil_of_mem hr)
      have hdrop : full.drop k ≠ [] := by
        intro h0
        have := congrArg List.length h0
        simp [List.length_drop] at this; omega
      obtain ⟨q, hq⟩ := List.exists_mem_of_ne_nil _ hdrop
      have hpq := hcross p hp q hq
      rcases List.mem_cons.mp (hperm.mem_iff.mp (List.mem_of_mem_take hp)) with rfl | hpt
      · -- p is the new element
        rcases List.mem_cons.mp (hperm.mem_iff.mp (List.mem_of_mem_drop hq)) with rfl | hqt
        · -- the dropped element equals the new one by value: both have distance cd o
          -- some element of top is in the kept part or equals; use any top element bound via count
          -- p.1 = q.1; need cd o ≤ cd r: there is an element of top not smaller than cd o
          -- full = take k ++ drop k, |drop k| = 1, so take k is a permutation of top-with-one-copy;
          -- here the dropped copy is (cd o, o) itself, hence take k ~ top and p ∈ top
          have hdl : (full.drop k).length = 1 := by simp [List.length_drop]; omega
          have hdq : full.drop k = [(cd o, o)] := by
            match hd : full.drop k, hdl with
            | [a], _ => rw [hd] at hq; simp at hq; rw [hq]
          have : (full.take k ++ [(cd o, o)]).Perm ((cd o, o) :: top) := by
            rw [← hdq, hsplit]; exact hperm
          have hpt : (full.take k).Perm top :=
            (List.perm_cons _).mp ((List.perm_append_singleton _ _).symm.trans this)
          exact r2 r hr _ (hpt.mem_iff.mp hp)
        · exact le_trans hpq (r2 r hr q hqt)
      · exact r2 r hr p hpt
  · intro hne
    simp only [List.length_take]
    by_cases hd : full.drop k = []
    · have hrest : rest ≠ [] := by
        intro h0; subst h0; simp [hd] at hne
      have := r3 hrest; omega
    · have : 0 < (full.drop k).length := List.length_pos_iff.mpr hd
      simp [List.length_drop] at this; omega

/-! ### the un-pruned traversal feeds every object once -/

def knnLeafStep (k : Nat) (px py : Rat) (st : List (Option (Rat × O))) (e : Entry O) :
    Except Fault (List (Option (Rat × O))) :=
  match e with
  | .obj b o => pure (insertNearest k st (minDist px py b) o)
  | .child b _ => throw Fault.nilObj

theorem knnNode_mk (order : List Rat → List Nat) (k : Nat) (px py : Rat) (leaf : Bool) (v : Nat)
    (es : List (Entry O)) (st : List (Option (Rat × O))) :
    knnNode order k px py (.mk leaf v es) st =
      (if leaf then es.foldlM (knnLeafStep k px py) st
       else (branches order (k == 1) px py (es.map Entry.bb)).foldlM (fun st (i : Nat) =>
          match es[i]? with
          | some (.child _ c) => knnNode order k px py c st
          | some (.obj _ _) => throw Fault.nilDeref
          | none => throw Fault.choice) st) := by
  rw [knnNode]
  split_ifs
  · rfl
  · congr 1; funext st i
    split <;> split <;> simp_all

theorem foldlM_topk [Bounded O] {α : Type} (k : Nat) (px py : Rat)
    (f : List (Option (Rat × O)) → α → Except Fault (List (Option (Rat × O)))) (objsOf : α → List O) :
    ∀ (l : List α),
      (∀ a ∈ l, ∀ top seen, TopK (cdist px py) k seen top →
        ∃ top', f (pad k top) a = .ok (pad k top') ∧ TopK (cdist px py) k (objsOf a ++ seen) top') →
      ∀ top seen, TopK (cdist px py) k seen top →
        ∃ top', l.foldlM f (pad k top) = .ok (pad k top') ∧
          TopK (cdist px py) k (l.flatMap objsOf ++ seen) top'
  | [], _, top, seen, h => ⟨top, rfl, by simpa using h⟩
  | a :: l, hl, top, seen, h => by
    obtain ⟨top1, e1, t1⟩ := hl a List.mem_cons_self top seen h
    obtain ⟨top2, e2, t2⟩ := foldlM_topk k px py f objsOf l
      (fun x hx => hl x (List.mem_cons_of_mem _ hx)) top1 _ t1
    refine ⟨top2, by simp [List.foldlM_cons, e1, e2, bind, Except.bind], t2.perm ?_⟩
    simp only [List.flatMap_cons, List.append_assoc]
    rw [← List.append_assoc, ← List.append_assoc]
    exact List.Perm.append_right _ List.perm_append_comm

theorem range_flatMap_get {β : Type} (es : List (Entry O)) (g : Entry O → List β) :
    (List.range es.length).flatMap (fun i => match es[i]? with | some e => g e | none => []) =
      es.flatMap g := by
  rw [List.flatMap_def, List.flatMap_def]
  congr 1
  apply List.ext_getElem
  · simp
  · intro i h1 h2
    simp only [List.length_map, List.length_range] at h1
    simp [List.getElem?_eq_getElem h1]

theorem knnNode_spec [Bounded O] {order : List Rat → List Nat} (hO : OrderOK order) (k : Nat)
    (hk : k ≠ 1) (px py : Rat) {maxC : Nat} :
    ∀ (n : Node O) (h : Nat), wfNode maxC h n = true → ∀ top seen, TopK (cdist px py) k seen top →
      ∃ top', knnNode order k px py n (pad k top) = .ok (pad k top') ∧
        TopK (cdist px py) k (n.objs ++ seen) top' := by
  intro n
  induction n using Node.induct with
  | h l v es ih =>
    intro h hw top seen htk
    have hw' := (wfNode_mk ..).mp hw
    obtain ⟨hv', hl, h1, hlen, hes⟩ := hw'
    rw [knnNode_mk]
    cases l with
    | true =>
      have hh : h = 1 := hl.mp rfl
      subst hh
      simp only [if_true]
      obtain ⟨top', e1, t1⟩ := foldlM_topk k px py (knnLeafStep k px py) Entry.objs es
        (fun e he top seen htk => by
          obtain ⟨o, rfl⟩ := wfEntry_of_leaf (hes e he)
          refine ⟨(insSorted (cdist px py o, o) top).take k, ?_, by simpa [Entry.objs] using htk.step o⟩
          simp only [knnLeafStep, pure, Except.pure]
          rw [← insertNearest_pad top k htk.len]; rfl) top seen htk
      exact ⟨top', e1, by simpa [Node.objs_mk] using t1⟩
    | false =>
      have hh : 1 < h := by
        rcases Nat.lt_or_ge 1 h with g | g
        · exact g
        · have : h = 1 := by omega
          exact absurd (hl.mpr this) (by simp)
      have hk1 : (k == 1) = false := by simpa using hk
      simp only [Bool.false_eq_true, if_false, hk1, branches]
      have hchild : ∀ i, i < es.length → ∃ b c, es[i]? = some (Entry.child b c) := by
        intro i hi
        have hm := hes _ (List.getElem_mem hi)
        cases he : es[i] with
        | obj b o => rw [he] at hm; have := hm.1; omega
        | child b c => exact ⟨b, c, by rw [List.getElem?_eq_getElem hi, he]⟩
      have hperm := hO ((es.map Entry.bb).map (minDist px py))
      simp only [List.length_map] at hperm
      obtain ⟨top', e1, t1⟩ := foldlM_topk k px py
        (fun st (i : Nat) => match es[i]? with
          | some (.child _ c) => knnNode order k px py c st
          | some (.obj _ _) => throw Fault.nilDeref
          | none => throw Fault.choice)
        (fun (i : Nat) => match es[i]? with | some e => e.objs | none => [])
        (order ((es.map Entry.bb).map (minDist px py)))
        (fun i hi top seen htk => by
          have hi' : i < es.length := by simpa using hperm.mem_iff.mp hi
          obtain ⟨b, c, hc⟩ := hchild i hi'
          obtain ⟨_, hwc, _⟩ := child_env hes hc
          obtain ⟨top', e, t⟩ := ih b c (List.mem_of_getElem? hc) (h - 1) hwc top seen htk
          exact ⟨top', by simp only [hc]; exact e, by simpa [hc, Entry.objs] using t⟩) top seen htk
      refine ⟨top', e1, t1.perm (List.Perm.append_right _ ?_)⟩
      rw [Node.objs_mk, ← range_flatMap_get es Entry.objs]
      exact hperm.flatMap_right _

end GeomV.C12
