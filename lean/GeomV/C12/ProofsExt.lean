import GeomV.C12.Proofs
/-
C12 — extension theorems (phase 3):

* `C12_knn_int`         Go's signed `k`: negative k panics in `make`, k = 0 yields the empty slice,
                        k ≥ 0 is the `Nat` model that the property theorems are about.
* `C12_sort_contract`   `sort.Sort` seen through `sort.Interface` (a program of `Swap` calls): the
                        entries come out as a permutation, every distance stays paired with its entry
                        (what `pruneEntries` relies on), and the induced visiting order is a
                        permutation of the indices — the hypothesis `OrderOK` of every C12 theorem.
* `C12_prune_lit`       `pruneEntries(sortEntries(..))` on the two parallel slices is the model's
                        `branches`.
* `C12_nn_sorter`, `C12_knn_sorter`  the property theorems with `sort.Sort` = any in-range swap program.
-/
set_option linter.unusedVariables false
set_option linter.unusedSimpArgs false
namespace GeomV.C12
open GeomV.C11
variable {O : Type}

/-! ### signed k -/

/-- **C12_knn_int** — `NearestNeighbors(k, p)` for Go's signed `k`: a negative k panics before the
tree is looked at (`make([]float64, k)`), k = 0 returns the empty slice, and every k ≥ 0 satisfies the
property's clause (`specKNN`, for k ≥ 1 the property itself). -/
theorem C12_knn_int [Bounded O] [DecidableEq O] {order : List Rat → List Nat} (hO : OrderOK order)
    (t : C11.Tree O) (hwf : t.WF = true) (k : Int) (px py : Rat)
    (hv : ∀ o ∈ t.abs, (Bounded.bounds o).valid = true) :
    (k < 0 → nearestNeighborsInt order t k px py = .error Fault.indexRange) ∧
    (0 ≤ k → ∃ res, nearestNeighborsInt order t k px py = .ok res ∧
      specKNN t.abs k.toNat px py res = true) ∧
    (k = 0 → nearestNeighborsInt order t k px py = .ok []) := by
  refine ⟨?_, ?_, ?_⟩
  · intro h; simp [nearestNeighborsInt, h]; rfl
  · intro h
    have : ¬ k < 0 := by omega
    simp only [nearestNeighborsInt, this, if_false]
    exact C12_knn_all hO t hwf k.toNat px py hv
  · intro h; subst h
    obtain ⟨res, h1, h2⟩ := C12_knn_all hO t hwf 0 px py hv
    simp only [nearestNeighborsInt, Int.lt_irrefl, if_false, Int.toNat_zero, h1]
    unfold specKNN at h2
    simp only [Bool.and_eq_true, decide_eq_true_eq] at h2
    have : res.length = 0 := h2.1.1.1.1.1
    rw [List.length_eq_zero_iff.mp this]

example : nearestNeighborsInt stableOrder (newTree (O := Nat) 2 4) (-3) 0 0 = .error Fault.indexRange := rfl

/-! ### swaps -/

theorem swapL_map {α β : Type} (f : α → β) (l : List α) (i j : Nat) :
    swapL (l.map f) i j = (swapL l i j).map (List.map f) := by
  unfold swapL
  simp only [List.getElem?_map]
  cases hi : l[i]? <;> cases hj : l[j]? <;> simp [Except.map, pure, Except.pure, throw, throwThe,
    MonadExceptOf.throw, List.map_set]

theorem swapsL_map {α β : Type} (f : α → β) : ∀ (sw : List (Nat × Nat)) (l : List α),
    swapsL sw (l.map f) = (swapsL sw l).map (List.map f)
  | [], l => rfl
  | ij :: sw, l => by
    simp only [swapsL, List.foldlM_cons, bind, Except.bind]
    rw [swapL_map]
    cases h : swapL l ij.1 ij.2 with
    | error e => rfl
    | ok l' => exact swapsL_map f sw l'

theorem swapL_ok {α : Type} {l l' : List α} {i j : Nat} (h : swapL l i j = .ok l') :
    l'.Perm l ∧ l'.length = l.length ∧ i < l.length ∧ j < l.length := by
  unfold swapL at h
  cases hi : l[i]? with
  | none => simp [hi] at h
  | some a =>
    cases hj : l[j]? with
    | none => simp [hi, hj] at h
    | some b =>
      simp only [hi, hj, pure, Except.pure] at h
      cases h
      obtain ⟨hi', rfl⟩ := List.getElem?_eq_some_iff.mp hi
      obtain ⟨hj', rfl⟩ := List.getElem?_eq_some_iff.mp hj
      exact ⟨List.set_set_perm hi' hj', by simp, hi', hj'⟩

theorem swapL_inRange {α : Type} (l : List α) {i j : Nat} (hi : i < l.length) (hj : j < l.length) :
    ∃ l', swapL l i j = .ok l' := by
  unfold swapL
  simp [List.getElem?_eq_getElem hi, List.getElem?_eq_getElem hj, pure, Except.pure]

theorem swapsL_ok {α : Type} : ∀ (sw : List (Nat × Nat)) (l l' : List α), swapsL sw l = .ok l' →
    l'.Perm l ∧ l'.length = l.length
  | [], l, l', h => by simp only [swapsL, List.foldlM_nil, pure, Except.pure] at h; cases h; exact ⟨.refl _, rfl⟩
  | ij :: sw, l, l', h => by
    simp only [swapsL, List.foldlM_cons, bind, Except.bind] at h
    cases h1 : swapL l ij.1 ij.2 with
    | error e => rw [h1] at h; cases h
    | ok l1 =>
      rw [h1] at h
      obtain ⟨p1, e1, _, _⟩ := swapL_ok h1
      obtain ⟨p2, e2⟩ := swapsL_ok sw l1 l' h
      exact ⟨p2.trans p1, e2.trans e1⟩

theorem swapsL_inRange {α : Type} : ∀ (sw : List (Nat × Nat)) (l : List α),
    (∀ ij ∈ sw, ij.1 < l.length ∧ ij.2 < l.length) → ∃ l', swapsL sw l = .ok l'
  | [], l, _ => ⟨l, rfl⟩
  | ij :: sw, l, h => by
    obtain ⟨l1, h1⟩ := swapL_inRange l (h ij List.mem_cons_self).1 (h ij List.mem_cons_self).2
    obtain ⟨_, e1, _, _⟩ := swapL_ok h1
    obtain ⟨l', h2⟩ := swapsL_inRange sw l1 (fun x hx => by rw [e1]; exact h x (List.mem_cons_of_mem _ hx))
    refine ⟨l', ?_⟩
    simp only [swapsL, List.foldlM_cons, bind, Except.bind, h1]
    exact h2

/-- swapping the two parallel slices = swapping the entries and recomputing the keys -/
theorem swapBoth_keyed {α : Type} (key : α → Rat) : ∀ (sw : List (Nat × Nat)) (es : List α),
    sw.foldlM swapBoth (es, es.map key) = (swapsL sw es).map fun es' => (es', es'.map key)
  | [], es => rfl
  | ij :: sw, es => by
    simp only [swapsL, List.foldlM_cons, bind, Except.bind, swapBoth]
    rw [swapL_map]
    cases h : swapL es ij.1 ij.2 with
    | error e => rfl
    | ok es1 =>
      simp only [Except.map, pure, Except.pure]
      exact swapBoth_keyed key sw es1

/-- a swap program moves the elements of any list the way it moves the indices -/
theorem swapsL_index {α : Type} (sw : List (Nat × Nat)) (l l' : List α) (idx : List Nat)
    (h : swapsL sw l = .ok l') (hi : swapsL sw (List.range l.length) = .ok idx) :
    l' = idx.filterMap (l[·]?) := by
  have e1 : swapsL sw (l.map some) = .ok (l'.map some) := by rw [swapsL_map, h]; rfl
  have e2 : swapsL sw ((List.range l.length).map (l[·]?)) = .ok (idx.map (l[·]?)) := by
    rw [swapsL_map, hi]; rfl
  have e3 : (List.range l.length).map (l[·]?) = l.map some := by
    apply List.ext_getElem?
    intro i
    simp only [List.getElem?_map, List.getElem?_range']
    by_cases hlt : i < l.length
    · simp [List.getElem?_range hlt, List.getElem?_eq_getElem hlt]
    · have hle : l.length ≤ i := Nat.le_of_not_lt hlt
      simp [hle]
  rw [e3, e1] at e2
  have e4 : l'.map some = idx.map (l[·]?) := Except.ok.inj e2
  have := congrArg (List.filterMap id) e4
  simpa [List.filterMap_map, Function.comp_def] using this

/-- the `Swap` calls of the program stay inside the slice (the contract of `sort.Interface`:
"elements are referred to by an integer index" below `Len()`) -/
def InRange (sorter : List Rat → List (Nat × Nat)) : Prop :=
  ∀ ds, ∀ ij ∈ sorter ds, ij.1 < ds.length ∧ ij.2 < ds.length

theorem swapOrder_ok (sorter : List Rat → List (Nat × Nat)) : OrderOK (swapOrder sorter) := by
  intro ds
  unfold swapOrder
  cases h : swapsL (sorter ds) (List.range ds.length) with
  | error e => exact .refl _
  | ok idx => exact (swapsL_ok _ _ _ h).1

/-! ### `minMinMaxDist` does not depend on the order -/

theorem minMinMaxDist_cons (px py : Rat) (b : Box) (bs : List Box) :
    minMinMaxDist px py (b :: bs) =
      some (match minMinMaxDist px py bs with
        | none => minMaxDist px py b
        | some x => min x (minMaxDist px py b)) := by
  simp only [minMinMaxDist]
  cases minMinMaxDist px py bs with
  | none => rfl
  | some x =>
    simp only
    congr 1
    by_cases h : x < minMaxDist px py b
    · simp [h, min_eq_left (le_of_lt h)]
    · simp [h, min_eq_right (not_lt.mp h)]

theorem minMinMaxDist_perm (px py : Rat) {l1 l2 : List Box} (h : l1.Perm l2) :
    minMinMaxDist px py l1 = minMinMaxDist px py l2 := by
  induction h with
  | nil => rfl
  | cons x _ ih => rw [minMinMaxDist_cons, minMinMaxDist_cons, ih]
  | swap x y l =>
    rw [minMinMaxDist_cons, minMinMaxDist_cons, minMinMaxDist_cons, minMinMaxDist_cons]
    cases minMinMaxDist px py l with
    | none => simp only; rw [min_comm]
    | some z => simp only; rw [min_right_comm]
  | trans _ _ ih1 ih2 => exact ih1.trans ih2

/-! ### the contract -/

/-- **C12_sort_contract** — `sortEntries` with `sort.Sort` = ANY program of `Swap` calls computed
from the distances (`sort.Sort` sees the data through `Len`/`Less`/`Swap` only): if no call leaves the
slice the call returns (no panic); and whenever it returns `(sorted, dists)`:
`sorted` is a permutation of the node's entries, `dists[i]` is still the MINDIST of `sorted[i]` (both
slices were swapped together — `pruneEntries` compares `minDists[i]` with `entries[i]`), and `sorted` is
the node's entries read in the visiting order `swapOrder sorter`, which is a permutation of the indices
(`OrderOK`, the only hypothesis the C12 theorems make about sorting; sortedness is not needed for
correctness, only for speed). -/
theorem C12_sort_contract (sorter : List Rat → List (Nat × Nat)) (px py : Rat) (es : List (Entry O)) :
    OrderOK (swapOrder sorter) ∧
    (InRange sorter → ∃ r, sortEntriesLit sorter px py es = .ok r) ∧
    ∀ es' ds', sortEntriesLit sorter px py es = .ok (es', ds') →
      es'.Perm es ∧ ds' = es'.map (fun e => minDist px py e.bb) ∧ ds'.length = es'.length ∧
      es' = (swapOrder sorter (es.map fun e => minDist px py e.bb)).filterMap (es[·]?) := by
  refine ⟨swapOrder_ok sorter, ?_, ?_⟩
  · intro hr
    unfold sortEntriesLit
    simp only
    rw [swapBoth_keyed]
    obtain ⟨l', h⟩ := swapsL_inRange (sorter (es.map fun e => minDist px py e.bb)) es
      (fun ij hij => by simpa using hr _ ij hij)
    exact ⟨_, by rw [h]; rfl⟩
  · intro es' ds' h
    unfold sortEntriesLit at h
    simp only at h
    rw [swapBoth_keyed] at h
    cases hs : swapsL (sorter (es.map fun e => minDist px py e.bb)) es with
    | error e => rw [hs] at h; cases h
    | ok l' =>
      rw [hs] at h
      simp only [Except.map] at h
      cases h
      obtain ⟨hp, hl⟩ := swapsL_ok _ _ _ hs
      refine ⟨hp, rfl, by simp, ?_⟩
      -- the same program on the indices does not fail either (it fails only out of range)
      have hidx : ∃ idx, swapsL (sorter (es.map fun e => minDist px py e.bb)) (List.range es.length) = .ok idx := by
        have e1 : swapsL (sorter (es.map fun e => minDist px py e.bb)) (es.map fun _ => ()) =
            .ok (es'.map fun _ => ()) := by rw [swapsL_map, hs]; rfl
        have e2 := swapsL_map (fun _ : Nat => ()) (sorter (es.map fun e => minDist px py e.bb)) (List.range es.length)
        have e3 : (List.range es.length).map (fun _ => ()) = es.map (fun _ => ()) := by
          apply List.ext_getElem <;> simp
        rw [e3, e1] at e2
        cases hx : swapsL (sorter (es.map fun e => minDist px py e.bb)) (List.range es.length) with
        | error e => rw [hx] at e2; cases e2
        | ok idx => exact ⟨idx, rfl⟩
      obtain ⟨idx, hi⟩ := hidx
      have := swapsL_index _ es es' idx hs hi
      rw [this]
      unfold swapOrder
      simp only [List.length_map, hi]

theorem zip_keyed_filter {α : Type} (key : α → Rat) (m : Rat) : ∀ (l : List α),
    ((l.zip (l.map key)).filter fun p => decide (p.2 ≤ m)).map (·.1) = l.filter fun a => decide (key a ≤ m)
  | [] => rfl
  | a :: l => by
    simp only [List.map_cons, List.zip_cons_cons, List.filter_cons]
    by_cases h : key a ≤ m
    · simp [h, zip_keyed_filter key m l]
    · simp [h, zip_keyed_filter key m l]

theorem filter_index {α : Type} (key : α → Rat) (m : Rat) (es : List α) : ∀ (idx : List Nat),
    (∀ i ∈ idx, i < es.length) →
    (idx.filter fun i => match (es.map key)[i]? with | some d => decide (d ≤ m) | none => true).filterMap (es[·]?) =
      (idx.filterMap (es[·]?)).filter fun a => decide (key a ≤ m)
  | [], _ => rfl
  | i :: idx, h => by
    have hi : i < es.length := h i List.mem_cons_self
    have ih := filter_index key m es idx (fun x hx => h x (List.mem_cons_of_mem _ hx))
    have hkey : (es.map key)[i]? = some (key es[i]) := by simp [hi]
    simp only [List.filter_cons, hkey]
    by_cases hk : key es[i] ≤ m
    · simp only [hk, decide_true, if_true, List.filterMap_cons, List.getElem?_eq_getElem hi, List.filter_cons]
      rw [ih]
    · simp only [hk, decide_false, Bool.false_eq_true, if_false, List.filterMap_cons,
        List.getElem?_eq_getElem hi, List.filter_cons]
      exact ih

/-- **C12_prune_lit** — `pruneEntries(p, sortEntries(p, n.entries))` computed literally on the two
parallel slices (smallest MINMAXDIST over the SORTED entries, `minDists[i] <= minMinMaxDist` read from
the sorted distances) is the model's `branches (swapOrder sorter) true`: the children in visiting
order, those dropped whose own MINDIST exceeds the smallest MINMAXDIST of the node. -/
theorem C12_prune_lit (sorter : List Rat → List (Nat × Nat)) (px py : Rat) (es es' : List (Entry O))
    (ds' : List Rat) (h : sortEntriesLit sorter px py es = .ok (es', ds')) :
    pruneEntriesLit px py es' ds' =
      (branches (swapOrder sorter) true px py (es.map Entry.bb)).filterMap (es[·]?) ∧
    es' = (branches (swapOrder sorter) false px py (es.map Entry.bb)).filterMap (es[·]?) := by
  obtain ⟨hO, _, hc⟩ := C12_sort_contract sorter px py es
  obtain ⟨hp, hd, _, he⟩ := hc es' ds' h
  have hmap : (es.map Entry.bb).map (minDist px py) = es.map fun e => minDist px py e.bb := by
    simp [List.map_map, Function.comp_def]
  have hmm : minMinMaxDist px py (es'.map Entry.bb) = minMinMaxDist px py (es.map Entry.bb) :=
    minMinMaxDist_perm px py (hp.map _)
  constructor
  · unfold pruneEntriesLit branches
    simp only [if_true, hmm, hmap]
    cases minMinMaxDist px py (es.map Entry.bb) with
    | none => rfl
    | some mmd =>
      simp only
      subst hd
      rw [zip_keyed_filter (fun e : Entry O => minDist px py e.bb) mmd es']
      have hin : ∀ i ∈ swapOrder sorter (es.map fun e => minDist px py e.bb), i < es.length := by
        intro i hi
        have h1 : i ∈ List.range (es.map fun e => minDist px py e.bb).length := (hO _).mem_iff.mp hi
        rw [List.mem_range, List.length_map] at h1
        exact h1
      have hfi := filter_index (fun e : Entry O => minDist px py e.bb) mmd es _ hin
      rw [← he] at hfi
      exact hfi.symm
  · unfold branches
    simp only [Bool.false_eq_true, if_false, hmap]
    exact he

/-! ### the property theorems with `sort.Sort` = any swap program -/

/-- **C12_nn_sorter** — `C12_nn` where the visiting order is the one induced by ANY swap program
(no assumption on what `sort.Sort` does beyond acting through `Swap`). -/
theorem C12_nn_sorter [Bounded O] [DecidableEq O] (sorter : List Rat → List (Nat × Nat))
    (t : C11.Tree O) (hwf : t.WF = true) (hne : t.abs ≠ []) (px py : Rat)
    (hv : ∀ o ∈ t.abs, (Bounded.bounds o).valid = true) :
    ∃ o, nearestNeighbor (swapOrder sorter) t px py = .ok o ∧ specNN t.abs px py o = true := by
  obtain ⟨o, h1, h2, _⟩ := C12_nn (swapOrder_ok sorter) t hwf hne px py hv
  exact ⟨o, h1, h2⟩

/-- **C12_knn_sorter** — `C12_knn_all` for the visiting order of any swap program. -/
theorem C12_knn_sorter [Bounded O] [DecidableEq O] (sorter : List Rat → List (Nat × Nat))
    (t : C11.Tree O) (hwf : t.WF = true) (k : Nat) (px py : Rat)
    (hv : ∀ o ∈ t.abs, (Bounded.bounds o).valid = true) :
    ∃ res, nearestNeighbors (swapOrder sorter) t k px py = .ok res ∧ specKNN t.abs k px py res = true :=
  C12_knn_all (swapOrder_ok sorter) t hwf k px py hv

/-! ### non-vacuity: Go's insertion sort is such a program, and it yields the executable order -/

example : insertionSwaps [3, 1, 2, 1] = [(1, 0), (2, 1), (3, 2), (2, 1)] := by decide +kernel
example : swapOrder insertionSwaps [3, 1, 2, 1] = stableOrder [3, 1, 2, 1] := by decide +kernel
example : swapOrder insertionSwaps [5, 5, 1, 7, 0, 5, 1] = stableOrder [5, 5, 1, 7, 0, 5, 1] := by decide +kernel
/-- a program that leaves the slice panics (Go: index out of range) -/
example : swapsL [(0, 3)] [1, 2, 3] = .error Fault.indexRange := by decide +kernel
end GeomV.C12
