import GeomV.C12.Spec
