import GeomV.C12.LemmasNN
import GeomV.C12.LemmasKNN
/-
C12 — property theorems (nearest neighbour).  They hold for every visiting order that is a
permutation of the entry indices (`OrderOK`; `sort.Sort` is one, whatever it does with ties), on
every well-formed tree (C11's `WF`, which `C11_reachable` establishes after any history), for
all query points, assuming the box of every STORED object contains a point (`min ≤ max`; needed only
where MINMAXDIST pruning is applied: NearestNeighbor and k = 1).
-/
set_option linter.unusedVariables false
set_option linter.unusedSimpArgs false
namespace GeomV.C12
open GeomV.C11
variable {O : Type}

/-- **C12_minDist_spec** — geom.go `minDist(p, r)` is the squared distance from `p` to the box:
it is the spec's `boxDist2`, a lower bound for the squared distance to every point of the box, and
attained at a point of the box (when the box has a point). -/
theorem C12_minDist_spec (px py : Rat) (b : Box) :
    minDist px py b = boxDist2 px py b ∧
    (∀ x y, b.has x y → boxDist2 px py b ≤ pdist2 px py x y) ∧
    (b.valid = true → ∃ x y, b.has x y ∧ pdist2 px py x y = boxDist2 px py b) :=
  ⟨minDist_eq_boxDist2 px py b, boxDist2_le px py b, boxDist2_attained px py b⟩

/-- **C12_minMaxDist_spec** — Roussopoulos' MINMAXDIST guarantee, which needs the
exact-envelope clause of C11's `WF`: if `b` is the exact envelope of a non-empty list of boxes
(each with a point), one of them is within `minMaxDist(p, b)` of `p`. -/
theorem C12_minMaxDist_spec (px py : Rat) (b : Box) (bs : List Box) (henv : isEnvelope b bs = true)
    (hv : ∀ x ∈ bs, x.valid = true) : ∃ x ∈ bs, boxDist2 px py x ≤ minMaxDist px py b := by
  obtain ⟨x, hx, h⟩ := minMaxDist_spec px py ((isEnvelope_iff _ _).mp henv) hv
  exact ⟨x, hx, by rw [← minDist_eq_boxDist2]; exact h⟩

/-- **C12_prune_sound_k1** — `pruneEntries` is sound for the single nearest neighbour: in a
well-formed non-leaf node, a child whose MINDIST exceeds the smallest MINMAXDIST of the node holds
no object nearer than the nearest object of the whole node. -/
theorem C12_prune_sound_k1 [Bounded O] (px py : Rat)
    {maxC h : Nat} (es : List (Entry O)) (hes : ∀ e ∈ es, wfEntry maxC h e)
    (hv : ∀ e ∈ es, ∀ o ∈ e.objs, (Bounded.bounds o).valid = true) (mmd : Rat)
    (hmm : minMinMaxDist px py (es.map Entry.bb) = some mmd) (b : Box) (c : Node O)
    (hc : Entry.child b c ∈ es) (hpr : mmd < minDist px py b) :
    ∃ e ∈ es, ∃ o' ∈ e.objs, minDist px py e.bb ≤ mmd ∧
      ∀ o ∈ c.objs, odist px py o' < odist px py o := by
  obtain ⟨k, hk, ek⟩ := minMinMaxDist_some px py _ mmd hmm
  have hk' : k < es.length := by simpa using hk
  have hmem : es[k] ∈ es := List.getElem_mem hk'
  have hwk := hes _ hmem
  have ebk : (es.map Entry.bb)[k] = es[k].bb := by simp
  rw [ebk] at ek
  have henvk := hwk.env
  obtain ⟨x, hx, hxle⟩ := minMaxDist_spec px py henvk (by
    intro x hx; obtain ⟨o', ho', rfl⟩ := List.mem_map.mp hx; exact hv _ hmem o' ho')
  obtain ⟨ostar, hostar, rfl⟩ := List.mem_map.mp hx
  have hmono := minDist_mono px py (henvk.lo _ hx) (hv _ hmem ostar hostar)
  refine ⟨es[k], hmem, ostar, hostar, by linarith, ?_⟩
  intro o ho
  have henvc := (hes _ hc).env
  have hmonoj := minDist_mono px py (henvc.lo _ (List.mem_map_of_mem (f := Bounded.bounds) ho))
    (hv _ hc o (by simpa [Entry.objs] using ho))
  simp only [Entry.bb] at hmonoj
  unfold odist
  rw [← minDist_eq_boxDist2, ← minDist_eq_boxDist2]
  linarith

/-- **C12_nn** — on a well-formed non-empty tree `NearestNeighbor(p)` does not panic and returns a
stored object whose box is at minimum distance from `p`. -/
theorem C12_nn [Bounded O] [DecidableEq O] {order : List Rat → List Nat} (hO : OrderOK order)
    (t : C11.Tree O) (hwf : t.WF = true) (hne : t.abs ≠ []) (px py : Rat)
    (hv : ∀ o ∈ t.abs, (Bounded.bounds o).valid = true) :
    ∃ o, nearestNeighbor order t px py = .ok o ∧ specNN t.abs px py o = true ∧
      o ∈ t.abs ∧ ∀ o' ∈ t.abs, odist px py o ≤ odist px py o' := by
  have hw : wfNode t.maxC t.height t.root = true := by
    have := hwf; simp [C11.Tree.WF] at this; exact this.1.1
  obtain ⟨st', e, p⟩ := nnNode_spec hO px py t.root t.height hw hv none
  obtain ⟨o0, ho0⟩ := List.exists_mem_of_ne_nil _ hne
  obtain ⟨d, o, hst, _⟩ := p.best o0 ho0
  have hfrom : ∃ o1, o1 ∈ t.root.objs ∧ st' = some (cdist px py o1, o1) := by
    rcases p.from_ with g | g
    · rw [g] at hst; cases hst
    · exact g
  obtain ⟨o1, ho1, hst1⟩ := hfrom
  have hmin : ∀ o' ∈ t.abs, odist px py o1 ≤ odist px py o' := by
    intro o' ho'
    obtain ⟨d', o'', h1, h2⟩ := p.best o' ho'
    rw [hst1] at h1; cases h1
    unfold odist; rw [← minDist_eq_boxDist2, ← minDist_eq_boxDist2]; exact h2
  refine ⟨o1, ?_, ?_, ho1, hmin⟩
  · simp only [nearestNeighbor, e, hst1, bind, Except.bind, pure, Except.pure]
  · simp only [specNN, Bool.and_eq_true, decide_eq_true_eq, List.all_eq_true]
    exact ⟨ho1, hmin⟩

/-- **C12_empty** — on an empty tree `NearestNeighbor` raises its explicit panic (outside the
property's "non-empty tree"; documented behaviour). -/
theorem C12_empty [Bounded O] {order : List Rat → List Nat} (hO : OrderOK order) (t : C11.Tree O)
    (hwf : t.WF = true) (he : t.abs = []) (px py : Rat) :
    nearestNeighbor order t px py = .error Fault.nnNil := by
  have hw : wfNode t.maxC t.height t.root = true := by
    have := hwf; simp [C11.Tree.WF] at this; exact this.1.1
  have hv : ∀ o ∈ t.abs, (Bounded.bounds o).valid = true := by rw [he]; intro o ho; cases ho
  obtain ⟨st', e, p⟩ := nnNode_spec hO px py t.root t.height hw hv none
  have : st' = none := by
    rcases p.from_ with g | ⟨o, ho, _⟩
    · exact g
    · simp only [Tree.abs] at he; rw [he] at ho; cases ho
  subst this
  simp only [nearestNeighbor, e, bind, Except.bind]
  rfl

/-- **C12_insertNearest_topk** — `insertNearest` keeps the k smallest of what it has seen: on
the padded arrays it is a stable sorted insertion truncated to `k`, and that preserves the
invariant "sorted, at most k, nothing left out is nearer than anything kept, full if anything was
left out". -/
theorem C12_insertNearest_topk (cd : O → Rat) (k : Nat) (seen : List O) (top : List (Rat × O))
    (h : TopK cd k seen top) (o : O) :
    insertNearest k (pad k top) (cd o) o = pad k ((insSorted (cd o, o) top).take k) ∧
      TopK cd k (o :: seen) ((insSorted (cd o, o) top).take k) :=
  ⟨insertNearest_pad top k h.len (cd o) o, h.step o⟩

theorem msub_perm [DecidableEq O] : ∀ (l s rest : List O), (l ++ rest).Perm s → (msub s l).Perm rest
  | [], s, rest, h => by simpa [msub] using h.symm
  | a :: l, s, rest, h => by
    have h1 : (l ++ rest).Perm (s.erase a) := by
      have := h.erase a
      simpa using this
    have := msub_perm l (s.erase a) rest h1
    simpa [msub] using this

theorem sortedBy_of_pairwise (f : O → Rat) : ∀ (l : List O), l.Pairwise (fun a b => f a ≤ f b) →
    sortedBy f l = true
  | [], _ => rfl
  | [_], _ => rfl
  | a :: b :: r, h => by
    have h' := List.pairwise_cons.mp h
    simp only [sortedBy, Bool.and_eq_true, decide_eq_true_eq]
    exact ⟨h'.1 b List.mem_cons_self, sortedBy_of_pairwise f (b :: r) h'.2⟩

/-- from the invariant to the specification of the answer -/
theorem specKNN_of_topk [Bounded O] [DecidableEq O] (px py : Rat) (k : Nat) (s : List O)
    (top : List (Rat × O)) (h : TopK (cdist px py) k s top) :
    specKNN s k px py ((pad k top).map fun c => c.map (·.2)) = true := by
  obtain ⟨hlen, hdist, hsorted, ⟨rest, r1, r2, r3⟩⟩ := h
  have hres : ((pad k top).map fun c => c.map (·.2)) =
      (top.map (·.2)).map some ++ List.replicate (k - top.length) none := by
    simp [pad, List.map_append, List.map_map, Function.comp_def]
  have hobjs : (((pad k top).map fun c => c.map (·.2)).filterMap id) = top.map (·.2) := by
    rw [hres, List.filterMap_append]
    simp [List.filterMap_map, Function.comp_def, List.filterMap_replicate_of_none]
  have hod : ∀ o : O, odist px py o = cdist px py o := by
    intro o; unfold odist cdist; rw [minDist_eq_boxDist2]
  have hms := msub_perm (top.map (·.2)) s rest r1
  have hlen_s : top.length + rest.length = s.length := by
    have := r1.length_eq; simpa using this
  unfold specKNN
  simp only [hobjs, Bool.and_eq_true, decide_eq_true_eq, List.all_eq_true, List.length_map]
  refine ⟨⟨⟨⟨⟨?_, ?_⟩, ?_⟩, ?_⟩, ?_⟩, ?_⟩
  · simp [pad]; omega
  · rw [hres]
  · by_cases hr : rest = []
    · subst hr; simp at hlen_s; omega
    · have := r3 hr; have : 0 < rest.length := List.length_pos_iff.mpr hr; omega
  · rw [hms.length_eq]; omega
  · apply sortedBy_of_pairwise
    rw [List.pairwise_map]
    refine hsorted.imp_of_mem ?_
    intro a b ha hb hab
    rw [hod, hod, ← hdist a ha, ← hdist b hb]; exact hab
  · intro o ho o' ho'
    obtain ⟨p, hp, rfl⟩ := List.mem_map.mp ho
    have := r2 o' (hms.mem_iff.mp ho') p hp
    rw [hod, hod, ← hdist p hp]; exact this

/-- **C12_knn** (k ≠ 1: the case the repair changed; `C12_knn_one` is k = 1) — on a well-formed
tree `NearestNeighbors(k, p)` does not panic and returns `min(k, Size)` stored objects in
non-decreasing order of box distance whose distances are the k smallest among all stored objects,
remaining slots nil (`Spec.specKNN`). -/
theorem C12_knn [Bounded O] [DecidableEq O] {order : List Rat → List Nat} (hO : OrderOK order)
    (t : C11.Tree O) (hwf : t.WF = true) (k : Nat) (hk : k ≠ 1) (px py : Rat) :
    ∃ res, nearestNeighbors order t k px py = .ok res ∧ specKNN t.abs k px py res = true := by
  have hw : wfNode t.maxC t.height t.root = true := by
    have := hwf; simp [C11.Tree.WF] at this; exact this.1.1
  obtain ⟨top', e, tk⟩ := knnNode_spec hO k hk px py t.root t.height hw [] [] (TopK.nil _ k)
  have hpad : pad k ([] : List (Rat × O)) = List.replicate k none := by simp [pad]
  rw [hpad] at e
  refine ⟨(pad k top').map fun c => c.map (·.2), ?_, ?_⟩
  · simp only [nearestNeighbors, e, bind, Except.bind, pure, Except.pure]
  · exact specKNN_of_topk px py k t.abs top' (by simpa [C11.Tree.abs] using tk)

/-! ### k = 1: `nearestNeighbors(1, ·)` is `nearestNeighbor` on a one-slot array -/

theorem insertNearest_one (st : Option (Rat × O)) (d : Rat) (o : O) :
    insertNearest 1 [st] d o = [if better d st then some (d, o) else st] := by
  cases st with
  | none => simp [insertNearest, better]
  | some p =>
    obtain ⟨x, o'⟩ := p
    by_cases h : d < x
    · have : ¬ x ≤ d := not_le.mpr h
      simp [insertNearest, better, h, this]
    · have : x ≤ d := not_lt.mp h
      simp [insertNearest, better, h, this]

theorem foldlM_one {α : Type} (f1 : Option (Rat × O) → α → Except Fault (Option (Rat × O)))
    (f2 : List (Option (Rat × O)) → α → Except Fault (List (Option (Rat × O)))) :
    ∀ (l : List α), (∀ a ∈ l, ∀ st st', f1 st a = .ok st' → f2 [st] a = .ok [st']) →
      ∀ st st', l.foldlM f1 st = .ok st' → l.foldlM f2 [st] = .ok [st']
  | [], _, st, st', h => by
    simp only [List.foldlM_nil, pure, Except.pure] at h ⊢; cases h; rfl
  | a :: l, hl, st, st', h => by
    simp only [List.foldlM_cons, bind, Except.bind] at h ⊢
    cases h1 : f1 st a with
    | error e => rw [h1] at h; cases h
    | ok s1 =>
      rw [h1] at h
      rw [hl a List.mem_cons_self st s1 h1]
      exact foldlM_one f1 f2 l (fun x hx => hl x (List.mem_cons_of_mem _ hx)) s1 st' h

theorem knn1_eq [Bounded O] (order : List Rat → List Nat) (px py : Rat) {maxC : Nat} :
    ∀ (n : Node O) (h : Nat), wfNode maxC h n = true → ∀ st st',
      nnNode order px py n st = .ok st' → knnNode order 1 px py n [st] = .ok [st'] := by
  intro n
  induction n using Node.induct with
  | h l v es ih =>
    intro h hw st st' hnn
    have hw' := (wfNode_mk ..).mp hw
    obtain ⟨hv', hl, h1, hlen, hes⟩ := hw'
    rw [nnNode_mk] at hnn
    rw [knnNode_mk]
    cases l with
    | true =>
      have hh : h = 1 := hl.mp rfl
      subst hh
      simp only [if_true] at hnn ⊢
      refine foldlM_one _ _ es ?_ st st' hnn
      intro e he s s' hs
      obtain ⟨o, rfl⟩ := wfEntry_of_leaf (hes e he)
      simp only [nnLeafStep, pure, Except.pure] at hs
      cases hs
      simp only [knnLeafStep, pure, Except.pure, insertNearest_one]
    | false =>
      simp only [Bool.false_eq_true, if_false, beq_self_eq_true] at hnn ⊢
      refine foldlM_one _ _ _ ?_ st st' hnn
      intro i hi s s' hs
      cases hc : es[i]? with
      | none => rw [hc] at hs; cases hs
      | some e =>
        cases e with
        | obj b o => rw [hc] at hs; cases hs
        | child b c =>
          rw [hc] at hs
          simp only at hs ⊢
          have hwc := (hes _ (List.mem_of_getElem? hc)).2.1
          exact ih b c (List.mem_of_getElem? hc) (h - 1) hwc s s' hs

/-- **C12_knn_one** — `NearestNeighbors(1, p)` (where MINMAXDIST pruning is still applied) returns
the nearest stored object in its single slot (nil on an empty tree). -/
theorem C12_knn_one [Bounded O] [DecidableEq O] {order : List Rat → List Nat} (hO : OrderOK order)
    (t : C11.Tree O) (hwf : t.WF = true) (px py : Rat)
    (hv : ∀ o ∈ t.abs, (Bounded.bounds o).valid = true) :
    ∃ res, nearestNeighbors order t 1 px py = .ok res ∧ specKNN t.abs 1 px py res = true := by
  have hw : wfNode t.maxC t.height t.root = true := by
    have := hwf; simp [C11.Tree.WF] at this; exact this.1.1
  obtain ⟨st', e, p⟩ := nnNode_spec hO px py t.root t.height hw hv none
  have e2 := knn1_eq order px py t.root t.height hw none st' e
  refine ⟨[st'.map (·.2)], ?_, ?_⟩
  · have : List.replicate 1 (none : Option (Rat × O)) = [none] := rfl
    simp only [nearestNeighbors, this, e2, bind, Except.bind, pure, Except.pure, List.map_cons, List.map_nil]
  · -- the single slot is a correct top-1
    have htk : TopK (cdist px py) 1 t.abs st'.toList := by
      cases st' with
      | none =>
        have hempty : t.abs = [] := by
          by_contra hne
          obtain ⟨o0, ho0⟩ := List.exists_mem_of_ne_nil _ hne
          obtain ⟨d, o, h1, _⟩ := p.best o0 ho0
          cases h1
        rw [hempty]; exact TopK.nil _ 1
      | some q =>
        have hfrom : ∃ o1, o1 ∈ t.root.objs ∧ q = (cdist px py o1, o1) := by
          rcases p.from_ with g | ⟨o1, ho1, g⟩
          · cases g
          · exact ⟨o1, ho1, Option.some.inj g⟩
        obtain ⟨o1, ho1, rfl⟩ := hfrom
        refine ⟨by simp, by simp, by simp [SortedD], ?_⟩
        have hperm : (o1 :: t.abs.erase o1).Perm t.abs := (List.perm_cons_erase ho1).symm
        refine ⟨t.abs.erase o1, by simpa using hperm, ?_, by simp⟩
        intro r hr q hq
        simp only [Option.toList_some, List.mem_singleton] at hq; subst hq
        obtain ⟨d', o'', h1, h2⟩ := p.best r (List.mem_of_mem_erase hr)
        cases h1; exact h2
    have := specKNN_of_topk px py 1 t.abs _ htk
    cases st' with
    | none => simpa [pad] using this
    | some q => simpa [pad] using this

/-- **C12_knn_all** — `C12_knn` and `C12_knn_one` together: every k. -/
theorem C12_knn_all [Bounded O] [DecidableEq O] {order : List Rat → List Nat} (hO : OrderOK order)
    (t : C11.Tree O) (hwf : t.WF = true) (k : Nat) (px py : Rat)
    (hv : ∀ o ∈ t.abs, (Bounded.bounds o).valid = true) :
    ∃ res, nearestNeighbors order t k px py = .ok res ∧ specKNN t.abs k px py res = true := by
  by_cases hk : k = 1
  · subst hk; exact C12_knn_one hO t hwf px py hv
  · exact C12_knn hO t hwf k hk px py

/-- **C12_knn_empty** — on a tree that stores nothing (fresh, or emptied by deletes)
`NearestNeighbors(k, p)` does not panic for any k — k = 1 included, unlike `NearestNeighbor`
(`C12_empty`) — and returns k nil slots. -/
theorem C12_knn_empty [Bounded O] [DecidableEq O] {order : List Rat → List Nat} (hO : OrderOK order)
    (t : C11.Tree O) (hwf : t.WF = true) (he : t.abs = []) (k : Nat) (px py : Rat) :
    nearestNeighbors order t k px py = .ok (List.replicate k none) := by
  have hv : ∀ o ∈ t.abs, (Bounded.bounds o).valid = true := by rw [he]; intro o ho; cases ho
  obtain ⟨res, h1, h2⟩ := C12_knn_all hO t hwf k px py hv
  rw [h1]; congr 1
  unfold specKNN at h2
  simp only [he, Bool.and_eq_true, decide_eq_true_eq, List.length_nil, Nat.min_zero] at h2
  obtain ⟨⟨⟨⟨⟨_, hres⟩, hlen⟩, _⟩, _⟩, _⟩ := h2
  have h0 : res.filterMap id = [] := List.length_eq_zero_iff.mp hlen
  rw [hres, h0]; simp

/-! ### histories with interleaved queries: answers do not depend on earlier queries -/

theorem runSteps_tree [DecidableEq O] [Bounded O] (H : Heur) (order : List Rat → List Nat) :
    ∀ (steps : List (Step O)) (t t' : C11.Tree O) (as : List (Answer O)),
      runSteps H order t steps = .ok (t', as) →
      runOps H t (opsOf steps) = .ok t' ∧ as.length = numQ steps
  | [], t, t', as, h => by
    simp only [runSteps, pure, Except.pure] at h; cases h; exact ⟨rfl, rfl⟩
  | .op o :: r, t, t', as, h => by
    simp only [runSteps, bind, Except.bind] at h
    cases hs : t.step H o with
    | error e => rw [hs] at h; cases h
    | ok p =>
      rw [hs] at h
      obtain ⟨t1, res⟩ := p
      have := runSteps_tree H order r t1 t' as h
      simp only [opsOf, numQ, runOps, hs, bind, Except.bind]
      exact this
  | .nn x y :: r, t, t', as, h => by
    simp only [runSteps, evalQ, bind, Except.bind] at h
    cases hr : runSteps H order t r with
    | error e => rw [hr] at h; cases h
    | ok p =>
      rw [hr] at h; obtain ⟨t1, as1⟩ := p
      simp only [pure, Except.pure] at h; cases h
      have := runSteps_tree H order r t t' as1 hr
      simp only [opsOf, numQ, List.length_cons]
      exact ⟨this.1, by omega⟩
  | .knn k x y :: r, t, t', as, h => by
    simp only [runSteps, evalQ, bind, Except.bind] at h
    cases hr : runSteps H order t r with
    | error e => rw [hr] at h; cases h
    | ok p =>
      rw [hr] at h; obtain ⟨t1, as1⟩ := p
      simp only [pure, Except.pure] at h; cases h
      have := runSteps_tree H order r t t' as1 hr
      simp only [opsOf, numQ, List.length_cons]
      exact ⟨this.1, by omega⟩

/-- **C12_history** — in a history of Insert/Delete calls with queries interleaved, queries leave
the tree alone (the final tree is the one built by the operations only) and the answer to each
query is the answer on the tree built from the operations before it — whatever queries were
asked earlier (no state is carried between queries). -/
theorem C12_history [DecidableEq O] [Bounded O] (H : Heur) (order : List Rat → List Nat) :
    ∀ (pre : List (Step O)) (t : C11.Tree O) (q : Step O) (post : List (Step O)) (t' : C11.Tree O)
      (as : List (Answer O)) (a : Answer O), (∀ tq, evalQ order tq q ≠ none) →
      runSteps H order t (pre ++ q :: post) = .ok (t', as) →
      runOps H t (opsOf (pre ++ q :: post)) = .ok t' ∧
      ∃ tq, runOps H t (opsOf pre) = .ok tq ∧ as[numQ pre]? = evalQ order tq q
  | [], t, q, post, t', as, a, hq, h => by
    refine ⟨(runSteps_tree H order _ t t' as h).1, t, rfl, ?_⟩
    cases q with
    | op o => exact absurd rfl (hq t)
    | nn x y =>
      simp only [List.nil_append, runSteps, evalQ, bind, Except.bind] at h
      cases hr : runSteps H order t post with
      | error e => rw [hr] at h; cases h
      | ok p => rw [hr] at h; simp only [pure, Except.pure] at h; cases h; simp [numQ, evalQ]
    | knn k x y =>
      simp only [List.nil_append, runSteps, evalQ, bind, Except.bind] at h
      cases hr : runSteps H order t post with
      | error e => rw [hr] at h; cases h
      | ok p => rw [hr] at h; simp only [pure, Except.pure] at h; cases h; simp [numQ, evalQ]
  | .op o :: pre, t, q, post, t', as, a, hq, h => by
    simp only [List.cons_append, runSteps, bind, Except.bind] at h
    cases hs : t.step H o with
    | error e => rw [hs] at h; cases h
    | ok p =>
      rw [hs] at h
      obtain ⟨t1, res⟩ := p
      obtain ⟨g1, tq, g2, g3⟩ := C12_history H order pre t1 q post t' as a hq h
      simp only [List.cons_append, opsOf, numQ, runOps, hs, bind, Except.bind]
      exact ⟨g1, tq, g2, g3⟩
  | .nn x y :: pre, t, q, post, t', as, a, hq, h => by
    simp only [List.cons_append, runSteps, evalQ, bind, Except.bind] at h
    cases hr : runSteps H order t (pre ++ q :: post) with
    | error e => rw [hr] at h; cases h
    | ok p =>
      rw [hr] at h; obtain ⟨t1, as1⟩ := p
      simp only [pure, Except.pure] at h; cases h
      obtain ⟨g1, tq, g2, g3⟩ := C12_history H order pre t q post t' as1 a hq hr
      simp only [List.cons_append, opsOf, numQ]
      exact ⟨g1, tq, g2, by simpa using g3⟩
  | .knn k x y :: pre, t, q, post, t', as, a, hq, h => by
    simp only [List.cons_append, runSteps, evalQ, bind, Except.bind] at h
    cases hr : runSteps H order t (pre ++ q :: post) with
    | error e => rw [hr] at h; cases h
    | ok p =>
      rw [hr] at h; obtain ⟨t1, as1⟩ := p
      simp only [pure, Except.pure] at h; cases h
      obtain ⟨g1, tq, g2, g3⟩ := C12_history H order pre t q post t' as1 a hq hr
      simp only [List.cons_append, opsOf, numQ]
      exact ⟨g1, tq, g2, by simpa using g3⟩

/-! ### the executable visiting order is a permutation -/

theorem takeWhile_append_drop {α : Type} (p : α → Bool) : ∀ l : List α,
    l.takeWhile p ++ l.drop (l.takeWhile p).length = l
  | [] => rfl
  | a :: l => by
    simp only [List.takeWhile_cons]
    split
    · simp [takeWhile_append_drop p l]
    · simp

/-- **C12_stableOrder_ok** — the model's visiting order (stable insertion sort of the indices by
MINDIST, which is what `sort.Sort` does for at most 12 entries) is a permutation of the indices. -/
theorem C12_stableOrder_ok : OrderOK stableOrder := by
  intro ds
  unfold stableOrder
  simp only
  have hins : ∀ (acc : List (Rat × Nat)) (x : Rat × Nat),
      (acc.takeWhile (fun y => decide (y.1 ≤ x.1)) ++ [x] ++
        acc.drop (acc.takeWhile (fun y => decide (y.1 ≤ x.1))).length).Perm (x :: acc) := by
    intro acc x
    have := takeWhile_append_drop (fun y : Rat × Nat => decide (y.1 ≤ x.1)) acc
    conv_rhs => rw [← this]
    simp only [List.append_assoc, List.singleton_append]
    exact List.perm_middle
  have hfold : ∀ (l acc : List (Rat × Nat)),
      (l.foldl (fun acc x => acc.takeWhile (fun y => decide (y.1 ≤ x.1)) ++ [x] ++
        acc.drop (acc.takeWhile (fun y => decide (y.1 ≤ x.1))).length) acc).Perm (l ++ acc) := by
    intro l
    induction l with
    | nil => intro acc; exact List.Perm.refl _
    | cons a l ih =>
      intro acc
      simp only [List.foldl_cons]
      refine (ih _).trans ?_
      refine (List.Perm.append_left l (hins acc a)).trans ?_
      simpa using (List.perm_middle (a := a) (l₁ := l) (l₂ := acc))
  have := (hfold ds.zipIdx []).map (·.2)
  refine this.trans ?_
  simp [List.range_eq_range']

/-! ### non-vacuity -/

example : OrderOK stableOrder := C12_stableOrder_ok
example : stableOrder [3, 1, 2, 1] = [1, 3, 2, 0] := by decide +kernel
example : minDist 0 0 ⟨1, 1, 2, 2⟩ = 2 := by decide +kernel
example : minMaxDist 0 0 ⟨1, 1, 2, 2⟩ = 5 := by decide +kernel

end GeomV.C12
