import GeomV.C12.LemmasNN
/-
C12 — property theorems (nearest neighbour).  They hold for every visiting order that is a
permutation of the entry indices (`OrderOK`; `sort.Sort` is one, whatever it does with ties), on
every well-formed tree (C11's `WF`, which `C11_reachable` establishes after any history), for
all query points, assuming every object box contains a point.
-/
set_option linter.unusedVariables false
set_option linter.unusedSimpArgs false
namespace GeomV.C12
open GeomV.C11
variable {O : Type}

/-- **C12_minDist_spec** — geom.go `minDist(p, r)` is the squared distance from `p` to the box:
it is the spec's `boxDist2`, a lower bound for the squared distance to every point of the box, and
attained at a point of the box (when the box has a point). -/
theorem C12_minDist_spec (px py : Rat) (b : Box) :
    minDist px py b = boxDist2 px py b ∧
    (∀ x y, b.has x y → boxDist2 px py b ≤ pdist2 px py x y) ∧
    (b.valid = true → ∃ x y, b.has x y ∧ pdist2 px py x y = boxDist2 px py b) :=
  ⟨minDist_eq_boxDist2 px py b, boxDist2_le px py b, boxDist2_attained px py b⟩

/-- **C12_minMaxDist_spec** — Roussopoulos' MINMAXDIST guarantee, which needs the
exact-envelope clause of C11's `WF`: if `b` is the exact envelope of a non-empty list of boxes
(each with a point), one of them is within `minMaxDist(p, b)` of `p`. -/
theorem C12_minMaxDist_spec (px py : Rat) (b : Box) (bs : List Box) (henv : isEnvelope b bs = true)
    (hv : ∀ x ∈ bs, x.valid = true) : ∃ x ∈ bs, boxDist2 px py x ≤ minMaxDist px py b := by
  obtain ⟨x, hx, h⟩ := minMaxDist_spec px py ((isEnvelope_iff _ _).mp henv) hv
  exact ⟨x, hx, by rw [← minDist_eq_boxDist2]; exact h⟩

/-- **C12_prune_sound_k1** — `pruneEntries` is sound for the single nearest neighbour: in a
well-formed non-leaf node, a child whose MINDIST exceeds the smallest MINMAXDIST of the node holds
no object nearer than the nearest object of the whole node. -/
theorem C12_prune_sound_k1 [Bounded O] (px py : Rat) (hv : ∀ o : O, (Bounded.bounds o).valid = true)
    {maxC h : Nat} (es : List (Entry O)) (hes : ∀ e ∈ es, wfEntry maxC h e) (mmd : Rat)
    (hmm : minMinMaxDist px py (es.map Entry.bb) = some mmd) (b : Box) (c : Node O)
    (hc : Entry.child b c ∈ es) (hpr : mmd < minDist px py b) :
    ∃ e ∈ es, ∃ o' ∈ e.objs, minDist px py e.bb ≤ mmd ∧
      ∀ o ∈ c.objs, odist px py o' < odist px py o := by
  obtain ⟨k, hk, ek⟩ := minMinMaxDist_some px py _ mmd hmm
  have hk' : k < es.length := by simpa using hk
  have hmem : es[k] ∈ es := List.getElem_mem hk'
  have hwk := hes _ hmem
  have ebk : (es.map Entry.bb)[k] = es[k].bb := by simp
  rw [ebk] at ek
  have henvk := hwk.env
  obtain ⟨x, hx, hxle⟩ := minMaxDist_spec px py henvk (by
    intro x hx; obtain ⟨o', _, rfl⟩ := List.mem_map.mp hx; exact hv o')
  obtain ⟨ostar, hostar, rfl⟩ := List.mem_map.mp hx
  have hmono := minDist_mono px py (henvk.lo _ hx) (hv ostar)
  refine ⟨es[k], hmem, ostar, hostar, by linarith, ?_⟩
  intro o ho
  have henvc := (hes _ hc).env
  have hmonoj := minDist_mono px py (henvc.lo _ (List.mem_map_of_mem (f := Bounded.bounds) ho)) (hv o)
  simp only [Entry.bb] at hmonoj
  unfold odist
  rw [← minDist_eq_boxDist2, ← minDist_eq_boxDist2]
  linarith

/-- **C12_nn** — on a well-formed non-empty tree `NearestNeighbor(p)` does not panic and returns a
stored object whose box is at minimum distance from `p`. -/
theorem C12_nn [Bounded O] [DecidableEq O] {order : List Rat → List Nat} (hO : OrderOK order)
    (t : C11.Tree O) (hwf : t.WF = true) (hne : t.abs ≠ []) (px py : Rat)
    (hv : ∀ o : O, (Bounded.bounds o).valid = true) :
    ∃ o, nearestNeighbor order t px py = .ok o ∧ specNN t.abs px py o = true ∧
      o ∈ t.abs ∧ ∀ o' ∈ t.abs, odist px py o ≤ odist px py o' := by
  have hw : wfNode t.maxC t.height t.root = true := by
    have := hwf; simp [C11.Tree.WF] at this; exact this.1
  obtain ⟨st', e, p⟩ := nnNode_spec hO px py hv t.root t.height hw none
  obtain ⟨o0, ho0⟩ := List.exists_mem_of_ne_nil _ hne
  obtain ⟨d, o, hst, _⟩ := p.best o0 ho0
  have hfrom : ∃ o1, o1 ∈ t.root.objs ∧ st' = some (cdist px py o1, o1) := by
    rcases p.from_ with g | g
    · rw [g] at hst; cases hst
    · exact g
  obtain ⟨o1, ho1, hst1⟩ := hfrom
  have hmin : ∀ o' ∈ t.abs, odist px py o1 ≤ odist px py o' := by
    intro o' ho'
    obtain ⟨d', o'', h1, h2⟩ := p.best o' ho'
    rw [hst1] at h1; cases h1
    unfold odist; rw [← minDist_eq_boxDist2, ← minDist_eq_boxDist2]; exact h2
  refine ⟨o1, ?_, ?_, ho1, hmin⟩
  · simp only [nearestNeighbor, e, hst1, bind, Except.bind, pure, Except.pure]
  · simp only [specNN, Bool.and_eq_true, decide_eq_true_eq, List.all_eq_true]
    exact ⟨ho1, hmin⟩

/-- **C12_empty** — on an empty tree `NearestNeighbor` raises its explicit panic (outside the
property's "non-empty tree"; documented behaviour). -/
theorem C12_empty [Bounded O] {order : List Rat → List Nat} (hO : OrderOK order) (t : C11.Tree O)
    (hwf : t.WF = true) (he : t.abs = []) (px py : Rat)
    (hv : ∀ o : O, (Bounded.bounds o).valid = true) :
    nearestNeighbor order t px py = .error Fault.nnNil := by
  have hw : wfNode t.maxC t.height t.root = true := by
    have := hwf; simp [C11.Tree.WF] at this; exact this.1
  obtain ⟨st', e, p⟩ := nnNode_spec hO px py hv t.root t.height hw none
  have : st' = none := by
    rcases p.from_ with g | ⟨o, ho, _⟩
    · exact g
    · simp only [Tree.abs] at he; rw [he] at ho; cases ho
  subst this
  simp only [nearestNeighbor, e, bind, Except.bind]
  rfl

end GeomV.C12
