import GeomV.C12.ProofsRne
import GeomV.C12.Proofs
/-!
C12 — the float-level k-NN theorem.

`gknnNode md mmd` is rtree.go `nearestNeighbors` with the two distance functions as parameters (as `gnnNode` is
`nearestNeighbor`): `md` is what `minDist(p, ·)` computes, `mmd` what `minMaxDist(p, ·)` computes.  With the exact
functions it IS the model `knnNode` that is run against the real tree (`gknnNode_exact`).

 * k ≠ 1: no pruning — the traversal feeds every stored object exactly once to `insertNearest`, whose top-k invariant
   (`TopK`, generic in the key) needs NOTHING about `md`: `gknnNode_spec` holds for every function `md` at all.
 * k = 1: MINMAXDIST pruning; the one-slot array run is `gnnNode` (`gknn1_eq`), so `gnnNode_spec` applies
   (`md` antitone in the box, `mmd` with the MINMAXDIST guarantee — `fMinDist_mono`, `fMinMaxDist_spec`).

`C12_knn_float`: for EVERY monotone rounding `fl`, `NearestNeighbors(k, p)` computed on rounded values returns, on
every well-formed tree, exactly k slots: min(k, Size) stored objects (a sub-multiset), in non-decreasing order of
the ROUNDED squared distance, nothing left out having a smaller rounded distance, remaining slots nil —
`Spec.specKNNBy` with the rounded distance as key, which for `fl = id` is `Spec.specKNN` (`specKNN_eq_by`, `rfl`).
`C12_knn_rne`: the same with IEEE-754 binary64 roundTiesToEven.

The hypothesis built into `fMinDist` / `fMinMaxDist` — ONE rounding after every `-`, `*`, `+`, no fused multiply-add —
holds for the real code on every architecture since fix 0fdcaaf: geom.go converts every product explicitly
(`float64(d * d)`), and the Go specification forbids fusing across an explicit conversion.  Before it this was a
property of amd64 code generation only (arm64/ppc64le fused six sites; `C12_fused_unsound` is the negation for that
code, for `C12_nn_float`/`C12_nn_rne` as well as for the theorems here).  checks/C12.py inspects the arm64 machine code
of `minDist`/`minMaxDist` on every run (FMA guard).
-/
set_option linter.unusedVariables false
set_option linter.unusedSimpArgs false
namespace GeomV.C12
open GeomV.C11
variable {O : Type}

/-- rtree.go `nearestNeighbors` with `minDist(p,·)` = `md`, `minMaxDist(p,·)` = `mmd` (cf. `knnNode`) -/
def gknnNode (md mmd : Box → Rat) (order : List Rat → List Nat) (k : Nat) :
    Node O → List (Option (Rat × O)) → Except Fault (List (Option (Rat × O)))
  | .mk leaf _ es, st =>
    if leaf then
      es.foldlM (fun st e =>
        match e with
        | .obj b o => pure (insertNearest k st (md b) o)
        | .child b _ => throw Fault.nilObj) st
    else
      (gbranches md mmd order (k == 1) (es.map Entry.bb)).foldlM (fun st (i : Nat) =>
        match h : es[i]? with
        | some (.child _ c) => gknnNode md mmd order k c st
        | some (.obj _ _) => throw Fault.nilDeref
        | none => throw Fault.choice) st
termination_by n => sizeOf n
decreasing_by have := Entry.sizeOf_child_lt_get h; simp_wf; omega

/-- rtree.go `NearestNeighbors` over `gknnNode` -/
def gnearestNeighbors (md mmd : Box → Rat) (order : List Rat → List Nat) (t : C11.Tree O) (k : Nat) :
    Except Fault (List (Option O)) := do
  let r ← gknnNode md mmd order k t.root (List.replicate k none)
  pure (r.map fun c => c.map (·.2))

/-- `NearestNeighbors(k, p)` as it runs on rounded values -/
def fnearestNeighbors (fl : Rat → Rat) (order : List Rat → List Nat) (t : C11.Tree O) (k : Nat) (px py : Rat) :
    Except Fault (List (Option O)) :=
  gnearestNeighbors (fMinDist fl px py) (fMinMaxDist fl px py) order t k

def gknnLeafStep (md : Box → Rat) (k : Nat) (st : List (Option (Rat × O))) (e : Entry O) :
    Except Fault (List (Option (Rat × O))) :=
  match e with
  | .obj b o => pure (insertNearest k st (md b) o)
  | .child b _ => throw Fault.nilObj

theorem gknnNode_mk (md mmd : Box → Rat) (order : List Rat → List Nat) (k : Nat) (leaf : Bool) (v : Nat)
    (es : List (Entry O)) (st : List (Option (Rat × O))) :
    gknnNode md mmd order k (.mk leaf v es) st =
      (if leaf then es.foldlM (gknnLeafStep md k) st
       else (gbranches md mmd order (k == 1) (es.map Entry.bb)).foldlM (fun st (i : Nat) =>
          match es[i]? with
          | some (.child _ c) => gknnNode md mmd order k c st
          | some (.obj _ _) => throw Fault.nilDeref
          | none => throw Fault.choice) st) := by
  rw [gknnNode]
  split_ifs
  · rfl
  · congr 1; funext st i
    split <;> split <;> simp_all

/-- the parametrised k-NN search with the exact distance functions IS the model `knnNode` -/
theorem gknnNode_exact (order : List Rat → List Nat) (k : Nat) (px py : Rat) :
    ∀ (n : Node O) (st : List (Option (Rat × O))),
      gknnNode (minDist px py) (minMaxDist px py) order k n st = knnNode order k px py n st := by
  intro n
  induction n using Node.induct with
  | h l v es ih =>
    intro st
    rw [gknnNode_mk, knnNode_mk, gbranches_eq_exact]
    cases l with
    | true => rfl
    | false =>
      simp only [Bool.false_eq_true, if_false]
      congr 1
      funext st i
      cases hi : es[i]? with
      | none => rfl
      | some e =>
        cases e with
        | obj b o => rfl
        | child b c => exact ih b c (List.mem_of_getElem? hi) st

/-- `foldlM_topk` for any key -/
theorem gfoldlM_topk {α : Type} (cd : O → Rat) (k : Nat)
    (f : List (Option (Rat × O)) → α → Except Fault (List (Option (Rat × O)))) (objsOf : α → List O) :
    ∀ (l : List α),
      (∀ a ∈ l, ∀ top seen, TopK cd k seen top →
        ∃ top', f (pad k top) a = .ok (pad k top') ∧ TopK cd k (objsOf a ++ seen) top') →
      ∀ top seen, TopK cd k seen top →
        ∃ top', l.foldlM f (pad k top) = .ok (pad k top') ∧
          TopK cd k (l.flatMap objsOf ++ seen) top'
  | [], _, top, seen, h => ⟨top, rfl, by simpa using h⟩
  | a :: l, hl, top, seen, h => by
    obtain ⟨top1, e1, t1⟩ := hl a List.mem_cons_self top seen h
    obtain ⟨top2, e2, t2⟩ := gfoldlM_topk cd k f objsOf l
      (fun x hx => hl x (List.mem_cons_of_mem _ hx)) top1 _ t1
    refine ⟨top2, by simp [List.foldlM_cons, e1, e2, bind, Except.bind], t2.perm ?_⟩
    simp only [List.flatMap_cons, List.append_assoc]
    rw [← List.append_assoc, ← List.append_assoc]
    exact List.Perm.append_right _ List.perm_append_comm

/-- k ≠ 1 (no pruning): for ANY function `md` the traversal never faults on a well-formed subtree and keeps
the top-k invariant under the key `md ∘ bounds` -/
theorem gknnNode_spec [Bounded O] (md mmd : Box → Rat) {order : List Rat → List Nat} (hO : OrderOK order)
    (k : Nat) (hk : k ≠ 1) {maxC : Nat} :
    ∀ (n : Node O) (h : Nat), wfNode maxC h n = true → ∀ top seen, TopK (gdist md) k seen top →
      ∃ top', gknnNode md mmd order k n (pad k top) = .ok (pad k top') ∧
        TopK (gdist md) k (n.objs ++ seen) top' := by
  intro n
  induction n using Node.induct with
  | h l v es ih =>
    intro h hw top seen htk
    have hw' := (wfNode_mk ..).mp hw
    obtain ⟨hv', hl, h1, hlen, hes⟩ := hw'
    rw [gknnNode_mk]
    cases l with
    | true =>
      have hh : h = 1 := hl.mp rfl
      subst hh
      simp only [if_true]
      obtain ⟨top', e1, t1⟩ := gfoldlM_topk (gdist md) k (gknnLeafStep md k) Entry.objs es
        (fun e he top seen htk => by
          obtain ⟨o, rfl⟩ := wfEntry_of_leaf (hes e he)
          refine ⟨(insSorted (gdist md o, o) top).take k, ?_, by simpa [Entry.objs] using htk.step o⟩
          simp only [gknnLeafStep, pure, Except.pure]
          rw [← insertNearest_pad top k htk.len]; rfl) top seen htk
      exact ⟨top', e1, by simpa [Node.objs_mk] using t1⟩
    | false =>
      have hh : 1 < h := by
        rcases Nat.lt_or_ge 1 h with g | g
        · exact g
        · have : h = 1 := by omega
          exact absurd (hl.mpr this) (by simp)
      have hk1 : (k == 1) = false := by simpa using hk
      simp only [Bool.false_eq_true, if_false, hk1, gbranches]
      have hchild : ∀ i, i < es.length → ∃ b c, es[i]? = some (Entry.child b c) := by
        intro i hi
        have hm := hes _ (List.getElem_mem hi)
        cases he : es[i] with
        | obj b o => rw [he] at hm; have := hm.1; omega
        | child b c => exact ⟨b, c, by rw [List.getElem?_eq_getElem hi, he]⟩
      have hperm := hO ((es.map Entry.bb).map md)
      simp only [List.length_map] at hperm
      obtain ⟨top', e1, t1⟩ := gfoldlM_topk (gdist md) k
        (fun st (i : Nat) => match es[i]? with
          | some (.child _ c) => gknnNode md mmd order k c st
          | some (.obj _ _) => throw Fault.nilDeref
          | none => throw Fault.choice)
        (fun (i : Nat) => match es[i]? with | some e => e.objs | none => [])
        (order ((es.map Entry.bb).map md))
        (fun i hi top seen htk => by
          have hi' : i < es.length := by simpa using hperm.mem_iff.mp hi
          obtain ⟨b, c, hc⟩ := hchild i hi'
          obtain ⟨_, hwc, _⟩ := child_env hes hc
          obtain ⟨top', e, t⟩ := ih b c (List.mem_of_getElem? hc) (h - 1) hwc top seen htk
          exact ⟨top', by simp only [hc]; exact e, by simpa [hc, Entry.objs] using t⟩) top seen htk
      refine ⟨top', e1, t1.perm (List.Perm.append_right _ ?_)⟩
      rw [Node.objs_mk, ← range_flatMap_get es Entry.objs]
      exact hperm.flatMap_right _

/-- k = 1: the one-slot run of `gknnNode` is `gnnNode` -/
theorem gknn1_eq [Bounded O] (md mmd : Box → Rat) (order : List Rat → List Nat) {maxC : Nat} :
    ∀ (n : Node O) (h : Nat), wfNode maxC h n = true → ∀ st st',
      gnnNode md mmd order n st = .ok st' → gknnNode md mmd order 1 n [st] = .ok [st'] := by
  intro n
  induction n using Node.induct with
  | h l v es ih =>
    intro h hw st st' hnn
    have hw' := (wfNode_mk ..).mp hw
    obtain ⟨hv', hl, h1, hlen, hes⟩ := hw'
    rw [gnnNode_mk] at hnn
    rw [gknnNode_mk]
    cases l with
    | true =>
      have hh : h = 1 := hl.mp rfl
      subst hh
      simp only [if_true] at hnn ⊢
      refine foldlM_one _ _ es ?_ st st' hnn
      intro e he s s' hs
      obtain ⟨o, rfl⟩ := wfEntry_of_leaf (hes e he)
      simp only [gLeafStep, pure, Except.pure] at hs
      cases hs
      simp only [gknnLeafStep, pure, Except.pure, insertNearest_one]
    | false =>
      simp only [Bool.false_eq_true, if_false, beq_self_eq_true] at hnn ⊢
      refine foldlM_one _ _ _ ?_ st st' hnn
      intro i hi s s' hs
      cases hc : es[i]? with
      | none => rw [hc] at hs; cases hs
      | some e =>
        cases e with
        | obj b o => rw [hc] at hs; cases hs
        | child b c =>
          rw [hc] at hs
          simp only at hs ⊢
          have hwc := (hes _ (List.mem_of_getElem? hc)).2.1
          exact ih b c (List.mem_of_getElem? hc) (h - 1) hwc s s' hs

/-- from the invariant to the specification of the answer, for any key -/
theorem specKNNBy_of_topk [DecidableEq O] (cd : O → Rat) (k : Nat) (s : List O)
    (top : List (Rat × O)) (h : TopK cd k s top) :
    specKNNBy cd s k ((pad k top).map fun c => c.map (·.2)) = true := by
  obtain ⟨hlen, hdist, hsorted, ⟨rest, r1, r2, r3⟩⟩ := h
  have hres : ((pad k top).map fun c => c.map (·.2)) =
      (top.map (·.2)).map some ++ List.replicate (k - top.length) none := by
    simp [pad, List.map_append, List.map_map, Function.comp_def]
  have hobjs : (((pad k top).map fun c => c.map (·.2)).filterMap id) = top.map (·.2) := by
    rw [hres, List.filterMap_append]
    simp [List.filterMap_map, Function.comp_def, List.filterMap_replicate_of_none]
  have hms := msub_perm (top.map (·.2)) s rest r1
  have hlen_s : top.length + rest.length = s.length := by
    have := r1.length_eq; simpa using this
  unfold specKNNBy
  simp only [hobjs, Bool.and_eq_true, decide_eq_true_eq, List.all_eq_true, List.length_map]
  refine ⟨⟨⟨⟨⟨?_, ?_⟩, ?_⟩, ?_⟩, ?_⟩, ?_⟩
  · simp [pad]; omega
  · rw [hres]
  · by_cases hr : rest = []
    · subst hr; simp at hlen_s; omega
    · have := r3 hr; have : 0 < rest.length := List.length_pos_iff.mpr hr; omega
  · rw [hms.length_eq]; omega
  · apply sortedBy_of_pairwise
    rw [List.pairwise_map]
    refine hsorted.imp_of_mem ?_
    intro a b ha hb hab
    rw [← hdist a ha, ← hdist b hb]; exact hab
  · intro o ho o' ho'
    obtain ⟨p, hp, rfl⟩ := List.mem_map.mp ho
    have := r2 o' (hms.mem_iff.mp ho') p hp
    rw [← hdist p hp]; exact this

/-- `NearestNeighbors(k, ·)` over any pair of distance functions: k ≠ 1 needs nothing about them, k = 1 the two
properties of `gnnNode_spec` and valid stored boxes -/
theorem gnearestNeighbors_spec [Bounded O] [DecidableEq O] {md mmd : Box → Rat}
    (hmd : MdMono md) (hmmd : MmdSpec md mmd) {order : List Rat → List Nat} (hO : OrderOK order)
    (t : C11.Tree O) (hwf : t.WF = true) (k : Nat)
    (hv : ∀ o ∈ t.abs, (Bounded.bounds o).valid = true) :
    ∃ res, gnearestNeighbors md mmd order t k = .ok res ∧ specKNNBy (gdist md) t.abs k res = true := by
  have hw : wfNode t.maxC t.height t.root = true := by
    have := hwf; simp [C11.Tree.WF] at this; exact this.1.1
  by_cases hk : k = 1
  · subst hk
    obtain ⟨st', e, p⟩ := gnnNode_spec hmd hmmd hO t.root t.height hw hv none
    have e2 := gknn1_eq md mmd order t.root t.height hw none st' e
    refine ⟨[st'.map (·.2)], ?_, ?_⟩
    · have : List.replicate 1 (none : Option (Rat × O)) = [none] := rfl
      simp only [gnearestNeighbors, this, e2, bind, Except.bind, pure, Except.pure, List.map_cons, List.map_nil]
    · have htk : TopK (gdist md) 1 t.abs st'.toList := by
        cases st' with
        | none =>
          have hempty : t.abs = [] := by
            by_contra hne
            obtain ⟨o0, ho0⟩ := List.exists_mem_of_ne_nil _ hne
            obtain ⟨d, o, h1, _⟩ := p.best o0 ho0
            cases h1
          rw [hempty]; exact TopK.nil _ 1
        | some q =>
          have hfrom : ∃ o1, o1 ∈ t.root.objs ∧ q = (gdist md o1, o1) := by
            rcases p.from_ with g | ⟨o1, ho1, g⟩
            · cases g
            · exact ⟨o1, ho1, Option.some.inj g⟩
          obtain ⟨o1, ho1, rfl⟩ := hfrom
          refine ⟨by simp, by simp, by simp [SortedD], ?_⟩
          have hperm : (o1 :: t.abs.erase o1).Perm t.abs := (List.perm_cons_erase ho1).symm
          refine ⟨t.abs.erase o1, by simpa using hperm, ?_, by simp⟩
          intro r hr q hq
          simp only [Option.toList_some, List.mem_singleton] at hq; subst hq
          obtain ⟨d', o'', h1, h2⟩ := p.best r (List.mem_of_mem_erase hr)
          cases h1; exact h2
      have := specKNNBy_of_topk (gdist md) 1 t.abs _ htk
      cases st' with
      | none => simpa [pad] using this
      | some q => simpa [pad] using this
  · obtain ⟨top', e, tk⟩ := gknnNode_spec md mmd hO k hk t.root t.height hw [] [] (TopK.nil _ k)
    have hpad : pad k ([] : List (Rat × O)) = List.replicate k none := by simp [pad]
    rw [hpad] at e
    refine ⟨(pad k top').map fun c => c.map (·.2), ?_, ?_⟩
    · simp only [gnearestNeighbors, e, bind, Except.bind, pure, Except.pure]
    · exact specKNNBy_of_topk (gdist md) k t.abs top' (by simpa [C11.Tree.abs] using tk)

/-- **C12_knn_float** — the float-level k-NN theorem: for EVERY monotone rounding `fl`, every visiting order that
is a permutation, every well-formed tree (empty or not) whose stored boxes have `min ≤ max`, every k and every
query point, `NearestNeighbors(k, p)` computed on rounded values (`fMinDist` / repaired `fMinMaxDist`, `fl` after
every `-`, `*`, `+`; `insertNearest` with `dist >= dists[i]`; pruning only for k = 1) does not panic and returns
exactly k slots: min(k, Size) STORED objects as a sub-multiset, in non-decreasing order of the ROUNDED squared
distance, no object left out has a smaller rounded distance than one returned, the remaining slots nil. -/
theorem C12_knn_float [Bounded O] [DecidableEq O] {fl : Rat → Rat} (R : Rounding fl)
    {order : List Rat → List Nat} (hO : OrderOK order)
    (t : C11.Tree O) (hwf : t.WF = true) (k : Nat) (px py : Rat)
    (hv : ∀ o ∈ t.abs, (Bounded.bounds o).valid = true) :
    ∃ res, fnearestNeighbors fl order t k px py = .ok res ∧
      specKNNBy (fodist fl px py) t.abs k res = true :=
  gnearestNeighbors_spec (md := fMinDist fl px py) (mmd := fMinMaxDist fl px py)
    (fun hc hx => fMinDist_mono R px py hc hx) (fun henv hx => fMinMaxDist_spec R px py henv hx)
    hO t hwf k hv

/-- k ≠ 1 needs neither the rounding properties nor valid boxes: ANY function `fl` whatsoever -/
theorem C12_knn_float_anyfl [Bounded O] [DecidableEq O] (fl : Rat → Rat)
    {order : List Rat → List Nat} (hO : OrderOK order)
    (t : C11.Tree O) (hwf : t.WF = true) (k : Nat) (hk : k ≠ 1) (px py : Rat) :
    ∃ res, fnearestNeighbors fl order t k px py = .ok res ∧
      specKNNBy (fodist fl px py) t.abs k res = true := by
  have hw : wfNode t.maxC t.height t.root = true := by
    have := hwf; simp [C11.Tree.WF] at this; exact this.1.1
  obtain ⟨top', e, tk⟩ := gknnNode_spec (fMinDist fl px py) (fMinMaxDist fl px py) hO k hk
    t.root t.height hw [] [] (TopK.nil _ k)
  have hpad : pad k ([] : List (Rat × O)) = List.replicate k none := by simp [pad]
  rw [hpad] at e
  refine ⟨(pad k top').map fun c => c.map (·.2), ?_, ?_⟩
  · simp only [fnearestNeighbors, gnearestNeighbors, e, bind, Except.bind, pure, Except.pure]
  · exact specKNNBy_of_topk (gdist (fMinDist fl px py)) k t.abs top' (by simpa [C11.Tree.abs] using tk)

/-- with no rounding, the float-level `NearestNeighbors` is the exact model that is run against the real tree,
and its specification is `Spec.specKNN` -/
theorem C12_knn_float_id [Bounded O] [DecidableEq O] (order : List Rat → List Nat) (t : C11.Tree O)
    (k : Nat) (px py : Rat) :
    fnearestNeighbors (fun x => x) order t k px py = nearestNeighbors order t k px py ∧
    ∀ res, specKNNBy (fodist (fun x => x) px py) t.abs k res = specKNN t.abs k px py res := by
  have h1 : fMinDist (fun x => x) px py = minDist px py := funext (fMinDist_id px py)
  have h2 : fMinMaxDist (fun x => x) px py = minMaxDist px py := funext (fMinMaxDist_id px py)
  constructor
  · unfold fnearestNeighbors gnearestNeighbors nearestNeighbors
    rw [h1, h2, gknnNode_exact]
  · intro res
    have : fodist (O := O) (fun x => x) px py = odist px py := by
      funext o; unfold fodist odist; rw [h1, minDist_eq_boxDist2]
    rw [this, specKNN_eq_by]

/-- **C12_knn_rne** — `C12_knn_float` with IEEE-754 binary64 roundTiesToEven (while no intermediate value reaches
the overflow threshold, see ProofsRne.lean) -/
theorem C12_knn_rne [Bounded O] [DecidableEq O] {order : List Rat → List Nat} (hO : OrderOK order)
    (t : C11.Tree O) (hwf : t.WF = true) (k : Nat) (px py : Rat)
    (hv : ∀ o ∈ t.abs, (Bounded.bounds o).valid = true) :
    ∃ res, fnearestNeighbors C02.rne order t k px py = .ok res ∧
      specKNNBy (fodist C02.rne px py) t.abs k res = true :=
  C12_knn_float C12_rne_rounding hO t hwf k px py hv

end GeomV.C12
