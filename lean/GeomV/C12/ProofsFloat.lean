import Mathlib.Tactic.Ring
import Mathlib.Tactic.Linarith
import Mathlib.Tactic.SplitIfs
import Mathlib.Algebra.Order.Field.Rat
import Mathlib.Data.Rat.Floor
import GeomV.C12.Lemmas
/-!
C12 — the float-level argument for MINMAXDIST pruning (fix ef912a0).

The exact theorems (`C12_prune_sound_k1`, `C12_nn`) speak about `Rat`.  The Go code computes
`minDist` / `minMaxDist` in float64: every `-`, `*`, `+` is followed by a rounding.  This file models
that with an arbitrary rounding function `fl : Rat → Rat` of which only three facts are used
(`Rounding`): it is monotone (weakly: distinct reals may collapse), `fl 0 = 0`, and rounded values are
fixed points.  IEEE-754 round-to-nearest-even and every directed rounding have these properties on the
values that do not overflow; nothing about the SIZE of the error is assumed.

`fMinDist` / `fMinMaxDist` are geom.go `minDist` / the REPAIRED `minMaxDist` with `fl` after every
operation.  The repaired function tells the nearer face from the farther one by `math.Abs` of the
computed differences and sums each candidate directly, and that is exactly what makes the two
inequalities below hold for the ROUNDED values, whatever `fl` does:

* `fMinDist_mono`      a box that contains another is at most as far (node box vs. object below it);
* `fMinMaxDist_spec`   if `b` is the exact envelope of the boxes `bs`, some box of `bs` has a rounded
                       distance ≤ the rounded MINMAXDIST of `b`.

`C12_prune_float`: at a non-leaf node, the entry that realises the smallest rounded MINMAXDIST `m` is
itself KEPT by `pruneEntries` (`minDists[i] <= minMinMaxDist`), it holds an object whose rounded
distance is ≤ m, and every object below a PRUNED entry has a rounded distance > m.  Hence
(`C12_prune_float_keeps_nearest`) every object that minimises the rounded distance — the quantity the
leaf loop compares — lies below a kept entry: the prune never empties the branch list (the panic on a
non-empty tree) and never loses a nearest object.  With `fl = id` the float model is the exact model
(`fMinDist_id`, `fMinMaxDist_id`).

The formula before the fix (`S - d1*d1 + d2*d2`, faces by the midpoint `(Min+Max)/2`) has neither
property in float64: failing inputs in findings/C12.json (`ef912a0`).
-/
set_option linter.unusedVariables false
set_option linter.unusedSimpArgs false
namespace GeomV.C12
open GeomV.C11
variable {O : Type}

/-- what is used of a rounding mode -/
structure Rounding (fl : Rat → Rat) : Prop where
  mono : ∀ {a b : Rat}, a ≤ b → fl a ≤ fl b
  zero : fl 0 = 0
  idem : ∀ a, fl (fl a) = fl a

/-- `d := p - f; d * d` -/
def fsqd (fl : Rat → Rat) (p f : Rat) : Rat := fl (fl (p - f) * fl (p - f))

/-- one axis of `minDist`: the term added to `sum` -/
def fd1 (fl : Rat → Rat) (p lo hi : Rat) : Rat :=
  if p < lo then fsqd fl p lo else if p > hi then fsqd fl p hi else 0

/-- geom.go `minDist` in rounded arithmetic: `sum := 0.0; sum += tx; sum += ty` -/
def fMinDist (fl : Rat → Rat) (px py : Rat) (r : Box) : Rat :=
  fl (fl (0 + fd1 fl px r.minX r.maxX) + fd1 fl py r.minY r.maxY)

/-- the repaired closures `rmX`/`rmY`: the face with the smaller computed |p − face| -/
def fnear (fl : Rat → Rat) (p lo hi : Rat) : Rat :=
  if ratAbs (fl (p - lo)) ≤ ratAbs (fl (p - hi)) then lo else hi

/-- the repaired closures `rMX`/`rMY`: the face with the larger computed |p − face| -/
def ffar (fl : Rat → Rat) (p lo hi : Rat) : Rat :=
  if ratAbs (fl (p - lo)) ≥ ratAbs (fl (p - hi)) then lo else hi

/-- geom.go `minMaxDist` as repaired by ef912a0, in rounded arithmetic (both candidates below
`math.MaxFloat64`, i.e. no overflow) -/
def fMinMaxDist (fl : Rat → Rat) (px py : Rat) (r : Box) : Rat :=
  let dx := fl (fsqd fl px (fnear fl px r.minX r.maxX) + fsqd fl py (ffar fl py r.minY r.maxY))
  let dy := fl (fsqd fl py (fnear fl py r.minY r.maxY) + fsqd fl px (ffar fl px r.minX r.maxX))
  if dy < dx then dy else dx

/-- `pruneEntries`: the smallest rounded MINMAXDIST over the entries (`none` = MaxFloat64) -/
def fMinMinMaxDist (fl : Rat → Rat) (px py : Rat) : List Box → Option Rat
  | [] => none
  | b :: bs =>
    let m := fMinMaxDist fl px py b
    match fMinMinMaxDist fl px py bs with
    | none => some m
    | some x => some (if x < m then x else m)

/-- rounded squared distance of an object: what the leaf loops compute and compare -/
def fodist [Bounded O] (fl : Rat → Rat) (px py : Rat) (o : O) : Rat := fMinDist fl px py (Bounded.bounds o)

theorem Rounding.id : Rounding (fun x => x) := ⟨fun h => h, rfl, fun _ => rfl⟩

section
variable {fl : Rat → Rat} (R : Rounding fl)
include R

theorem Rounding.nonneg {a : Rat} (h : 0 ≤ a) : 0 ≤ fl a := by
  have := R.mono h; rwa [R.zero] at this

theorem Rounding.nonpos {a : Rat} (h : a ≤ 0) : fl a ≤ 0 := by
  have := R.mono h; rwa [R.zero] at this

theorem fsqd_nonneg (p f : Rat) : 0 ≤ fsqd fl p f :=
  R.nonneg (mul_self_nonneg _)

theorem fsqd_fixed (p f : Rat) : fl (fsqd fl p f) = fsqd fl p f := R.idem _

theorem fd1_nonneg (p lo hi : Rat) : 0 ≤ fd1 fl p lo hi := by
  unfold fd1; split_ifs <;> first | exact fsqd_nonneg R _ _ | exact le_refl _

theorem fd1_fixed (p lo hi : Rat) : fl (fd1 fl p lo hi) = fd1 fl p lo hi := by
  unfold fd1; split_ifs <;> first | exact fsqd_fixed R _ _ | exact R.zero

/-- squares of rounded differences: the farther of two faces on the same side is farther -/
theorem fsqd_le_of_between {p c f : Rat} (h : (p - f ≤ p - c ∧ p - c ≤ 0) ∨ (0 ≤ p - c ∧ p - c ≤ p - f)) :
    fsqd fl p c ≤ fsqd fl p f := by
  unfold fsqd
  apply R.mono
  rcases h with ⟨h1, h2⟩ | ⟨h1, h2⟩
  · have a := R.mono h1
    have b := R.nonpos h2
    nlinarith
  · have a := R.mono h2
    have b := R.nonneg h1
    nlinarith

/-- rounded version of `d1_le_point`: the axis term of an interval is at most the rounded squared
difference to any of its points -/
theorem fd1_le_point {p lo hi c : Rat} (h1 : lo ≤ c) (h2 : c ≤ hi) : fd1 fl p lo hi ≤ fsqd fl p c := by
  unfold fd1; split_ifs with a b
  · exact fsqd_le_of_between R (Or.inl ⟨by linarith, by linarith⟩)
  · exact fsqd_le_of_between R (Or.inr ⟨by linarith, by linarith⟩)
  · exact fsqd_nonneg R _ _

/-- rounded version of `d1_mono`: a larger interval is nearer -/
theorem fd1_mono {p lo hi Lo Hi : Rat} (h1 : Lo ≤ lo) (h2 : hi ≤ Hi) (hv : lo ≤ hi) :
    fd1 fl p Lo Hi ≤ fd1 fl p lo hi := by
  unfold fd1
  by_cases a : p < Lo
  · rw [if_pos a, if_pos (lt_of_lt_of_le a h1)]
    exact fsqd_le_of_between R (Or.inl ⟨by linarith, by linarith⟩)
  · rw [if_neg a]
    by_cases b : p > Hi
    · have b' : p > hi := lt_of_le_of_lt h2 b
      have a' : ¬ p < lo := by intro c; linarith
      rw [if_pos b, if_neg a', if_pos b']
      exact fsqd_le_of_between R (Or.inr ⟨by linarith, by linarith⟩)
    · rw [if_neg b]
      exact fd1_nonneg R p lo hi

omit R in
theorem sq_between (u x v : Rat) (a : u ≤ x) (b : x ≤ v) :
    (ratAbs v ≥ ratAbs u → x * x ≤ v * v) ∧ (¬ ratAbs v ≥ ratAbs u → x * x ≤ u * u) := by
  unfold ratAbs
  constructor <;> intro h <;> split_ifs at h <;> nlinarith

/-- the face chosen by `ffar` is at least as far (in rounded arithmetic) as any point of the interval -/
theorem fsqd_le_far {p Lo Hi c : Rat} (h1 : Lo ≤ c) (h2 : c ≤ Hi) :
    fsqd fl p c ≤ fsqd fl p (ffar fl p Lo Hi) := by
  have a : fl (p - Hi) ≤ fl (p - c) := R.mono (by linarith)
  have b : fl (p - c) ≤ fl (p - Lo) := R.mono (by linarith)
  have key := sq_between _ _ _ a b
  unfold fsqd ffar
  apply R.mono
  by_cases hsel : ratAbs (fl (p - Lo)) ≥ ratAbs (fl (p - Hi))
  · rw [if_pos hsel]; exact key.1 hsel
  · rw [if_neg hsel]; exact key.2 hsel

theorem fd1_le_far {p lo hi Lo Hi : Rat} (h1 : Lo ≤ lo) (h2 : hi ≤ Hi) (hv : lo ≤ hi) :
    fd1 fl p lo hi ≤ fsqd fl p (ffar fl p Lo Hi) :=
  (fd1_le_point R (le_refl lo) hv).trans (fsqd_le_far R h1 (hv.trans h2))

theorem fMinDist_le {px py : Rat} {r : Box} {a b : Rat} (ha : fd1 fl px r.minX r.maxX ≤ a)
    (hb : fd1 fl py r.minY r.maxY ≤ b) (hfa : fl a = a) : fMinDist fl px py r ≤ fl (a + b) := by
  unfold fMinDist
  apply R.mono
  have : fl (0 + fd1 fl px r.minX r.maxX) ≤ a := by
    rw [zero_add, fd1_fixed R]; exact ha
  linarith

/-- **rounded MINDIST is monotone**: a node box is at most as far as a (valid) box inside it -/
theorem fMinDist_mono (px py : Rat) {b x : Box}
    (hc : b.minX ≤ x.minX ∧ b.minY ≤ x.minY ∧ x.maxX ≤ b.maxX ∧ x.maxY ≤ b.maxY)
    (hv : x.valid = true) : fMinDist fl px py b ≤ fMinDist fl px py x := by
  rw [valid_iff] at hv
  unfold fMinDist
  apply R.mono
  have h1 : fl (0 + fd1 fl px b.minX b.maxX) ≤ fl (0 + fd1 fl px x.minX x.maxX) :=
    R.mono (by have := fd1_mono R (p := px) hc.1 hc.2.2.1 hv.1; linarith)
  have h2 := fd1_mono R (p := py) hc.2.1 hc.2.2.2 hv.2
  linarith

/-- **rounded MINMAXDIST guarantee** for the repaired `minMaxDist`: if `b` is the exact envelope of the
non-empty list of boxes `bs` (each with a point), some box of `bs` has a rounded MINDIST that is at
most the rounded MINMAXDIST of `b` — for every monotone rounding. -/
theorem fMinMaxDist_spec (px py : Rat) {b : Box} {bs : List Box} (henv : IsEnv b bs)
    (hv : ∀ x ∈ bs, x.valid = true) : ∃ x ∈ bs, fMinDist fl px py x ≤ fMinMaxDist fl px py b := by
  obtain ⟨_, hlo, ⟨xa, hxa, exa⟩, ⟨ya, hya, eya⟩, ⟨xb, hxb, exb⟩, ⟨yb, hyb, eyb⟩⟩ := henv
  have hX : ∃ x ∈ bs, fMinDist fl px py x ≤
      fl (fsqd fl px (fnear fl px b.minX b.maxX) + fsqd fl py (ffar fl py b.minY b.maxY)) := by
    unfold fnear
    by_cases hc : ratAbs (fl (px - b.minX)) ≤ ratAbs (fl (px - b.maxX))
    · refine ⟨xa, hxa, ?_⟩
      have v := (valid_iff _).mp (hv xa hxa)
      obtain ⟨l1, l2, l3, l4⟩ := hlo xa hxa
      rw [if_pos hc]
      refine fMinDist_le R ?_ (fd1_le_far R (p := py) l2 l4 v.2) (fsqd_fixed R _ _)
      rw [← exa]; exact fd1_le_point R (le_refl xa.minX) v.1
    · refine ⟨xb, hxb, ?_⟩
      have v := (valid_iff _).mp (hv xb hxb)
      obtain ⟨l1, l2, l3, l4⟩ := hlo xb hxb
      rw [if_neg hc]
      refine fMinDist_le R ?_ (fd1_le_far R (p := py) l2 l4 v.2) (fsqd_fixed R _ _)
      rw [← exb]; exact fd1_le_point R v.1 (le_refl xb.maxX)
  have hY : ∃ x ∈ bs, fMinDist fl px py x ≤
      fl (fsqd fl py (fnear fl py b.minY b.maxY) + fsqd fl px (ffar fl px b.minX b.maxX)) := by
    unfold fnear
    by_cases hc : ratAbs (fl (py - b.minY)) ≤ ratAbs (fl (py - b.maxY))
    · refine ⟨ya, hya, ?_⟩
      have v := (valid_iff _).mp (hv ya hya)
      obtain ⟨l1, l2, l3, l4⟩ := hlo ya hya
      rw [if_pos hc, add_comm]
      refine fMinDist_le R (fd1_le_far R (p := px) l1 l3 v.1) ?_ (fsqd_fixed R _ _)
      rw [← eya]; exact fd1_le_point R (le_refl ya.minY) v.2
    · refine ⟨yb, hyb, ?_⟩
      have v := (valid_iff _).mp (hv yb hyb)
      obtain ⟨l1, l2, l3, l4⟩ := hlo yb hyb
      rw [if_neg hc, add_comm]
      refine fMinDist_le R (fd1_le_far R (p := px) l1 l3 v.1) ?_ (fsqd_fixed R _ _)
      rw [← eyb]; exact fd1_le_point R v.2 (le_refl yb.maxY)
  unfold fMinMaxDist
  simp only
  split_ifs
  · exact hY
  · exact hX

/-- **in rounded arithmetic MINDIST ≤ MINMAXDIST for the same (non-empty, exactly enveloping) box** —
the inequality whose failure emptied the branch list before ef912a0 -/
theorem fMinDist_le_fMinMaxDist (px py : Rat) {b : Box} {bs : List Box} (henv : IsEnv b bs)
    (hv : ∀ x ∈ bs, x.valid = true) : fMinDist fl px py b ≤ fMinMaxDist fl px py b := by
  obtain ⟨x, hx, h⟩ := fMinMaxDist_spec R px py henv hv
  exact (fMinDist_mono R px py (henv.lo x hx) (hv x hx)).trans h

omit R in
theorem fMinMinMaxDist_some (px py : Rat) : ∀ (bs : List Box) (m : Rat),
    fMinMinMaxDist fl px py bs = some m →
      (∃ k, ∃ hk : k < bs.length, fMinMaxDist fl px py bs[k] = m) ∧ ∀ b ∈ bs, m ≤ fMinMaxDist fl px py b
  | [], m, h => by simp [fMinMinMaxDist] at h
  | b :: bs, m, h => by
    simp only [fMinMinMaxDist] at h
    split at h
    · rename_i hn
      cases h
      have : bs = [] := by
        cases bs with
        | nil => rfl
        | cons c cs => simp only [fMinMinMaxDist] at hn; split at hn <;> cases hn
      subst this
      exact ⟨⟨0, by simp, rfl⟩, by intro x hx; simp at hx; subst hx; exact le_refl _⟩
    · rename_i x hx
      obtain ⟨⟨k, hk, e⟩, hall⟩ := fMinMinMaxDist_some px py bs x hx
      cases h
      split_ifs with hlt
      · refine ⟨⟨k + 1, by simp; omega, by simpa using e⟩, ?_⟩
        intro c hc
        rcases List.mem_cons.mp hc with rfl | hc
        · exact le_of_lt hlt
        · exact hall c hc
      · refine ⟨⟨0, by simp, rfl⟩, ?_⟩
        intro c hc
        rcases List.mem_cons.mp hc with rfl | hc
        · exact le_refl _
        · exact (not_lt.mp hlt).trans (hall c hc)

omit R in
theorem fMinMinMaxDist_ne_none (px py : Rat) : ∀ (bs : List Box), bs ≠ [] →
    ∃ m, fMinMinMaxDist fl px py bs = some m
  | [], h => absurd rfl h
  | b :: bs, _ => by
    simp only [fMinMinMaxDist]
    split
    · exact ⟨_, rfl⟩
    · exact ⟨_, rfl⟩

/-- **C12_prune_float** — the float-level soundness of `pruneEntries` with the repaired `minMaxDist`,
for EVERY monotone rounding `fl`: in a well-formed non-empty node whose stored objects have boxes with
`min ≤ max`, the smallest rounded MINMAXDIST `m` exists and there are an entry `e` and an object `o'`
below it such that
 * `e` is kept by the prune (`fMinDist e.bb ≤ m`): the pruned branch list is never empty — the
   nil-result panic of `NearestNeighbor` on a non-empty tree cannot be caused by rounding;
 * `o'` has rounded distance ≤ m;
 * every object below an entry that IS pruned (`m < fMinDist e2.bb`) has a rounded distance that is
   strictly larger than that of `o'`. -/
theorem C12_prune_float [Bounded O] (px py : Rat) {maxC h : Nat} (es : List (Entry O)) (hne : es ≠ [])
    (hes : ∀ e ∈ es, wfEntry maxC h e)
    (hv : ∀ e ∈ es, ∀ o ∈ e.objs, (Bounded.bounds o).valid = true) :
    ∃ m, fMinMinMaxDist fl px py (es.map Entry.bb) = some m ∧
      ∃ e ∈ es, ∃ o' ∈ e.objs, fMinDist fl px py e.bb ≤ m ∧ fodist fl px py o' ≤ m ∧
        ∀ e2 ∈ es, m < fMinDist fl px py e2.bb → ∀ o ∈ e2.objs, fodist fl px py o' < fodist fl px py o := by
  obtain ⟨m, hm⟩ := fMinMinMaxDist_ne_none px py (es.map Entry.bb) (by simpa using hne)
  obtain ⟨⟨k, hk, ek⟩, _⟩ := fMinMinMaxDist_some px py _ m hm
  have hk' : k < es.length := by simpa using hk
  have hmem : es[k] ∈ es := List.getElem_mem hk'
  have ebk : (es.map Entry.bb)[k] = es[k].bb := by simp
  rw [ebk] at ek
  have henvk := (hes _ hmem).env
  have hvk : ∀ x ∈ es[k].objs.map Bounded.bounds, x.valid = true := by
    intro x hx; obtain ⟨o', ho', rfl⟩ := List.mem_map.mp hx; exact hv _ hmem o' ho'
  obtain ⟨x, hx, hxle⟩ := fMinMaxDist_spec R px py henvk hvk
  obtain ⟨ostar, hostar, rfl⟩ := List.mem_map.mp hx
  have hkept := fMinDist_le_fMinMaxDist R px py henvk hvk
  refine ⟨m, hm, es[k], hmem, ostar, hostar, by rw [← ek]; exact hkept, by unfold fodist; rw [← ek]; exact hxle, ?_⟩
  intro e2 he2 hpr o ho
  have henv2 := (hes _ he2).env
  have hmono := fMinDist_mono R px py (henv2.lo _ (List.mem_map_of_mem (f := Bounded.bounds) ho)) (hv _ he2 o ho)
  unfold fodist
  rw [← ek] at hpr
  linarith

/-- **C12_prune_float_keeps_nearest** — every object that minimises the ROUNDED distance among the
objects below the node lies below an entry that the prune keeps (for every monotone rounding). -/
theorem C12_prune_float_keeps_nearest [Bounded O] (px py : Rat) {maxC h : Nat} (es : List (Entry O))
    (hes : ∀ e ∈ es, wfEntry maxC h e)
    (hv : ∀ e ∈ es, ∀ o ∈ e.objs, (Bounded.bounds o).valid = true)
    (e : Entry O) (he : e ∈ es) (o : O) (ho : o ∈ e.objs)
    (hmin : ∀ e' ∈ es, ∀ o' ∈ e'.objs, fodist fl px py o ≤ fodist fl px py o') :
    ∃ m, fMinMinMaxDist fl px py (es.map Entry.bb) = some m ∧ fMinDist fl px py e.bb ≤ m := by
  obtain ⟨m, hm, e1, he1, o1, ho1, _, _, hpr⟩ :=
    C12_prune_float R px py es (List.ne_nil_of_mem he) hes hv
  refine ⟨m, hm, ?_⟩
  by_contra hc
  have := hpr e he (not_le.mp hc) o ho
  have := hmin e1 he1 o1 ho1
  linarith

end

/-- with no rounding the float model of `minDist` is the exact model -/
theorem fMinDist_id (px py : Rat) (r : Box) : fMinDist (fun x => x) px py r = minDist px py r := by
  unfold fMinDist fd1 fsqd minDist sq
  simp only [zero_add]

/-- with no rounding the float model of the repaired `minMaxDist` is the exact model -/
theorem fMinMaxDist_id (px py : Rat) (r : Box) : fMinMaxDist (fun x => x) px py r = minMaxDist px py r := by
  unfold fMinMaxDist fnear ffar fsqd minMaxDist sq
  rfl

/-- the tolerant Spec of the `specOnly` families with tolerance 0 is the exact Spec -/
theorem C12_specTol_zero [Bounded O] [DecidableEq O] (s : List O) (px py : Rat) :
    (∀ o, specNNTol 0 s px py o = specNN s px py o) ∧
    (∀ k res, specKNNTol 0 s k px py res = specKNN s k px py res) := by
  have hs : ∀ (f : O → Rat) (l : List O), sortedByTol 0 f l = sortedBy f l := by
    intro f l
    induction l with
    | nil => rfl
    | cons a l ih =>
      cases l with
      | nil => rfl
      | cons b r => simp only [sortedByTol, sortedBy, add_zero, mul_one, ih]
  constructor
  · intro o; simp only [specNNTol, specNN, add_zero, mul_one]
  · intro k res; simp only [specKNNTol, specKNN, add_zero, mul_one, hs]

/-! ### non-vacuity, and the formula before the fix under a rounding that really rounds -/

/-- rounding down to multiples of 1/4 (a fixed-point format) -/
def flq (x : Rat) : Rat := ((⌊4 * x⌋ : Int) : Rat) / 4

/-- non-vacuity of `Rounding`: besides the identity, a rounding that really rounds -/
theorem Rounding.flq : Rounding flq where
  mono := by
    intro a b h
    have h1 : ⌊4 * a⌋ ≤ ⌊4 * b⌋ := Int.floor_mono (by linarith)
    have h2 : ((⌊4 * a⌋ : Int) : Rat) ≤ ((⌊4 * b⌋ : Int) : Rat) := by exact_mod_cast h1
    show ((⌊4 * a⌋ : Int) : Rat) / 4 ≤ ((⌊4 * b⌋ : Int) : Rat) / 4
    linarith
  zero := by simp [GeomV.C12.flq]
  idem := by
    intro a
    show ((⌊4 * (((⌊4 * a⌋ : Int) : Rat) / 4)⌋ : Int) : Rat) / 4 = ((⌊4 * a⌋ : Int) : Rat) / 4
    have : (4 : Rat) * (((⌊4 * a⌋ : Int) : Rat) / 4) = ((⌊4 * a⌋ : Int) : Rat) := by ring
    rw [this, Int.floor_intCast]

example : Rounding (fun x : Rat => x) := Rounding.id

/-- geom.go `minMaxDist` BEFORE ef912a0 in rounded arithmetic: faces by the rounded midpoint
`(Min+Max)/2`, candidates as `S - d1*d1 + d2*d2` -/
def fMinMaxDistOld (fl : Rat → Rat) (px py : Rat) (r : Box) : Rat :=
  let midX := fl (fl (r.minX + r.maxX) / 2)
  let midY := fl (fl (r.minY + r.maxY) / 2)
  let rmX := if px ≤ midX then r.minX else r.maxX
  let rmY := if py ≤ midY then r.minY else r.maxY
  let rMX := if px ≥ midX then r.minX else r.maxX
  let rMY := if py ≥ midY then r.minY else r.maxY
  let S := fl (fl (0 + fsqd fl px rMX) + fsqd fl py rMY)
  let dx := fl (fl (S - fsqd fl px rMX) + fsqd fl px rmX)
  let dy := fl (fl (S - fsqd fl py rMY) + fsqd fl py rmY)
  if dx < dy then dx else dy

/-- **C12_old_minMaxDist_float_unsound** — the formula before the fix does NOT have the rounded
MINMAXDIST guarantee: under the monotone rounding `flq` the box [1,2]×[0,5/4] is the exact envelope of
the two points (1,5/4) and (2,0); seen from p = (0,1/2) its midpoint 5/8 rounds to 1/2, the nearer
face y = 0 is taken for the farther one and the old MINMAXDIST is 5/4, below the rounded distance of
BOTH objects (3/2 and 17/4) — a sibling with MINDIST in (5/4, 3/2) that holds the nearest object
would be pruned.  The repaired function yields 3/2, attained by (1,5/4) (as `fMinMaxDist_spec` says
it must). -/
theorem C12_old_minMaxDist_float_unsound :
    Rounding flq ∧
    isEnvelope ⟨1, 0, 2, 5/4⟩ [⟨1, 5/4, 1, 5/4⟩, ⟨2, 0, 2, 0⟩] = true ∧
    fMinMaxDistOld flq 0 (1/2) ⟨1, 0, 2, 5/4⟩ = 5/4 ∧
    fMinDist flq 0 (1/2) ⟨1, 5/4, 1, 5/4⟩ = 3/2 ∧ fMinDist flq 0 (1/2) ⟨2, 0, 2, 0⟩ = 17/4 ∧
    fMinMaxDist flq 0 (1/2) ⟨1, 0, 2, 5/4⟩ = 3/2 := by
  refine ⟨Rounding.flq, ?_, ?_, ?_, ?_, ?_⟩ <;> decide +kernel

end GeomV.C12
