import GeomV.C11.Wire
import GeomV.C12.Model
import GeomV.C12.Spec
/-!
Driver for C12.  Each line is a C11 history followed by a batch of nearest-neighbour queries
`K <n> (<x> <y> <k>)*` (k = 0: NearestNeighbor, k ≥ 1: NearestNeighbors(k)) that the harness ran on
the real tree after the history:

   => ( '|' nn <id> | '|' nn panic <msg> | '|' knn <cnt> (<id>|nil)*cnt | '|' oppanic <step> <msg> )*  '|' T <size> <depth> <node>

The operation list of a C12 line contains `Q<j>` steps (the j-th query of the batch, asked at that
point of the history; the same j may be asked several times).

Verdicts: SPEC when an answer violates Spec.lean w.r.t. the multiset of objects stored according
to the history; DIFF when the final tree or an answer differs from the model (object identities
are compared only when MaxChildren ≤ 11, where `sort.Sort` is an insertion sort, i.e. stable).
-/
set_option linter.unusedVariables false
namespace GeomV.C12
open GeomV GeomV.C11

/-- wire: K = 0 is NearestNeighbor, K ≥ 1 is NearestNeighbors(K), K = -1000 is NearestNeighbors(0),
any other negative K is NearestNeighbors(K) (outside the property's k ≥ 1: correspondence only) -/
structure KQ where
  x : Rat
  y : Rat
  nn : Bool
  k : Int

def pKQs : Nat → Tok → Option (List KQ)
  | 0, _ => some []
  | n+1, x :: y :: k :: t => do
    let x ← pNum x; let y ← pNum y; let k ← k.toInt?
    let r ← pKQs n t
    pure (⟨x, y, k == 0, if k == -1000 then 0 else k⟩ :: r)
  | _, _ => none

def pOptIds (pool : Array ObjRec) : Nat → Tok → Option (List (Option ObjRec))
  | 0, _ => some []
  | n+1, "nil" :: t => do let r ← pOptIds pool n t; pure (none :: r)
  | n+1, id :: t => do
    let id ← id.toNat?; let o ← pool[id]?
    let r ← pOptIds pool n t
    pure (some o :: r)
  | _, _ => none

def optIdsStr (l : List (Option ObjRec)) : String :=
  " ".intercalate (l.map fun o => match o with | some o => toString o.id | none => "nil")

def dstr (px py : Rat) (l : List ObjRec) : String :=
  " ".intercalate (l.map fun o => ratStr (odist px py o))

/-- the relative tolerance on squared distances for the `specOnly` (non-dyadic) families -/
def roundEps : Rat := 1 / 1099511627776

def judgeQuery (h : Hist) (s : List ObjRec) (t : Tree ObjRec) (treeSame : Bool) (specOnly : Bool) (q : KQ) (a : Tok) : Option String :=
  let exact := h.maxC ≤ 11 && treeSame
  let eps : Rat := if specOnly then roundEps else 0
  let at_ := s!"p=({ratStr q.x},{ratStr q.y})-k={q.k}-stored={s.length}"
  if q.nn then
    let m := nearestNeighbor stableOrder t q.x q.y
    match a with
    | "nn" :: "panic" :: _ =>
      if s.isEmpty then (if m.isOk then some s!"DIFF nn-empty-tree-model-answers" else none)
      else some s!"SPEC NearestNeighbor-panicked-on-non-empty-tree-{at_}"
    | ["nn", id] =>
      match id.toNat?.bind (h.pool[·]?) with
      | none => some s!"SPEC NearestNeighbor-returned-nil-or-foreign-object-{at_}"
      | some o =>
        if !(if specOnly then specNNTol eps s q.x q.y o else specNN s q.x q.y o) then
          some s!"SPEC NearestNeighbor-{at_}-returned-{o.id}-at-dist2={ratStr (odist q.x q.y o)}-min-is-{ratStr ((s.map (odist q.x q.y)).foldl min (odist q.x q.y o))}"
        else if specOnly then none
        else match m with
          | .ok mo => if exact && mo != o then some s!"DIFF nn-object-differs-from-model-{at_}" else none
          | .error f => if treeSame then some s!"DIFF nn-model-faults-{at_}" else none
    | _ => some "SPEC bad-answer-syntax"
  else if q.k < 1 then
    -- outside the property (k ≥ 1): the model's answer only (makeslice panic for k < 0, empty slice for 0)
    match a, nearestNeighborsInt stableOrder t q.k q.x q.y with
    | "knn" :: "panic" :: msg, .error _ =>
      if msg.any (fun w => (w.splitOn "makeslice").length > 1) then none else some s!"DIFF knn-nonpos-k-other-panic-{at_}"
    | "knn" :: "panic" :: _, .ok _ => some s!"DIFF knn-nonpos-k-panicked-model-answers-{at_}"
    | ["knn", "0"], .ok [] => none
    | _, _ => some s!"DIFF knn-nonpos-k-differs-from-model-{at_}"
  else
    match a with
    | "knn" :: "panic" :: _ => some s!"SPEC NearestNeighbors-panicked-{at_}"
    | "knn" :: c :: ids =>
      match c.toNat?.bind (fun c => pOptIds h.pool c ids) with
      | none => some s!"SPEC NearestNeighbors-returned-foreign-object-{at_}"
      | some res =>
        if !(if specOnly then specKNNTol eps s q.k.toNat q.x q.y res else specKNN s q.k.toNat q.x q.y res) then
          some s!"SPEC NearestNeighbors-{at_}-returned=[{optIdsStr res}]-dist2=[{dstr q.x q.y (res.filterMap id)}]"
        else if specOnly then none
        else match nearestNeighborsInt stableOrder t q.k q.x q.y with
          | .ok mr => if exact && mr != res then some s!"DIFF knn-objects-differ-from-model-{at_}-model=[{optIdsStr mr}]-impl=[{optIdsStr res}]" else none
          | .error f => if treeSame then some s!"DIFF knn-model-faults-{at_}" else none
    | _ => some "SPEC bad-answer-syntax"

/-- walk the history: operations update the Spec multiset `s` and the model tree; every query is
judged at that moment (Spec verdict against `s`, model answer on the model tree of that moment) -/
def judgeHist (h : Hist) (kqs : Array KQ) (groups : List Tok) : String := Id.run do
  let cls := h.cls
  -- families whose class says "specOnly" (non-dyadic coordinates: the float arithmetic of the tree heuristics and
  -- of the distances is inexact; the tree may differ from the exact model by tie-breaking) are judged by the
  -- Spec only, distances up to the relative tolerance `roundEps`; no comparison with the model
  let specOnly := (h.cls.splitOn "specOnly").length > 1
  -- a panic inside Insert/Delete ends the implementation's run
  for g in groups do
    if g.head? == some "oppanic" then
      return s!"SPEC {cls} Insert/Delete-panicked-at-step-{g.getD 1 "?"}(C11)"
  let mut s : List ObjRec := []
  let mut model : Option (Tree ObjRec) := some (newTree h.minC h.maxC)
  let mut gs := groups
  let mut verdicts : Array String := #[]
  let mut nq := 0
  for st in h.steps do
    match st with
    | .op _ o =>
      s := specStep s o
      model := if specOnly then model else match model with
        | some t => match t.step goHeur o with | .ok (t', _) => some t' | .error _ => none
        | none => none
    | .query j =>
      match kqs[j]?, gs with
      | some q, a :: rest =>
        gs := rest
        nq := nq + 1
        let mt := model.getD (newTree h.minC h.maxC)
        match judgeQuery h s mt (model.isSome && !specOnly) specOnly q a with
        | some v => verdicts := verdicts.push s!"{v}-(query#{nq})"
        | none => pure ()
      | _, _ => return s!"SPEC {cls} missing-answers"
  -- the final dump
  match gs with
  | ("T" :: sz :: dp :: t) :: after =>
    -- an answer slice that reads differently after the later calls of the history
    if let some g := after.find? (·.head? == some "changed") then
      if (verdicts.toList.find? (·.startsWith "SPEC")).isNone then
        return s!"DIFF {cls} answer-slice-of-query#{g.getD 1 "?"}-changed-under-later-calls"
    match pNode h.pool 64 t with
    | none => return s!"SPEC {cls} malformed-tree-after-history(C11)"
    | some (n, pok, _) =>
      let treeSame := specOnly || match model with | some mt => nodeStr n == nodeStr mt.root | none => false
      match verdicts.toList.find? (·.startsWith "SPEC"), verdicts.toList.head? with
      | some m, _ => return s!"SPEC {cls} {(m.drop 5).toString}"
      | none, some m =>
        if !treeSame then return s!"DIFF {cls} final-tree-differs-from-model(C11)"
        return s!"DIFF {cls} {(m.drop 5).toString}"
      | none, none =>
        if !treeSame then return s!"DIFF {cls} final-tree-differs-from-model(C11)"
        return s!"OK {cls}-h{if specOnly then dp else toString ((model.map (·.height)).getD 0)}-q{nq}"
  | _ => return s!"SPEC {cls} missing-final-dump"

def judgeLine (line : String) : String :=
  let (lhs, rhs) := splitArrow (tokens line)
  match pHist lhs with
  | none => "BAD parse"
  | some h =>
    match h.rest with
    | "K" :: nk :: kt =>
      match nk.toNat?.bind (fun n => pKQs n kt) with
      | none => "BAD parse-K"
      | some kqs => judgeHist h kqs.toArray (splitBars rhs)
    | _ => "BAD no-K"

end GeomV.C12

open GeomV GeomV.C12 in
def main (args : List String) : IO Unit := do
  let out ← IO.getStdout
  match args with
  | ["judge"] => forEachLine fun l => out.putStrLn (judgeLine l)
  | _ => IO.eprintln "usage: geomv_c12 judge"
