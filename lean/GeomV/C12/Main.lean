import GeomV.C11.Wire
import GeomV.C12.Model
import GeomV.C12.Spec
/-!
Driver for C12.  Each line is a C11 history followed by a batch of nearest-neighbour queries
`K <n> (<x> <y> <k>)*` (k = 0: NearestNeighbor, k ≥ 1: NearestNeighbors(k)) that the harness ran on
the real tree after the history:

   => T <size> <depth> <node> ( '|' nn <id> | '|' nn panic <msg> | '|' knn <cnt> (<id>|nil)*cnt )*

Verdicts: SPEC when an answer violates Spec.lean w.r.t. the multiset of objects stored according
to the history; DIFF when the final tree or an answer differs from the model (object identities
are compared only when MaxChildren ≤ 11, where `sort.Sort` is an insertion sort, i.e. stable).
-/
set_option linter.unusedVariables false
namespace GeomV.C12
open GeomV GeomV.C11

structure KQ where
  x : Rat
  y : Rat
  k : Nat

def pKQs : Nat → Tok → Option (List KQ)
  | 0, _ => some []
  | n+1, x :: y :: k :: t => do
    let x ← pNum x; let y ← pNum y; let k ← k.toNat?
    let r ← pKQs n t
    pure (⟨x, y, k⟩ :: r)
  | _, _ => none

def pOptIds (pool : Array ObjRec) : Nat → Tok → Option (List (Option ObjRec))
  | 0, _ => some []
  | n+1, "nil" :: t => do let r ← pOptIds pool n t; pure (none :: r)
  | n+1, id :: t => do
    let id ← id.toNat?; let o ← pool[id]?
    let r ← pOptIds pool n t
    pure (some o :: r)
  | _, _ => none

def optIdsStr (l : List (Option ObjRec)) : String :=
  " ".intercalate (l.map fun o => match o with | some o => toString o.id | none => "nil")

def dstr (px py : Rat) (l : List ObjRec) : String :=
  " ".intercalate (l.map fun o => ratStr (odist px py o))

def judgeQuery (h : Hist) (s : List ObjRec) (t : Tree ObjRec) (treeSame : Bool) (q : KQ) (a : Tok) : Option String :=
  let exact := h.maxC ≤ 11 && treeSame
  let at_ := s!"p=({ratStr q.x},{ratStr q.y})-k={q.k}-stored={s.length}"
  if q.k == 0 then
    let m := nearestNeighbor stableOrder t q.x q.y
    match a with
    | "nn" :: "panic" :: _ =>
      if s.isEmpty then (if m.isOk then some s!"DIFF nn-empty-tree-model-answers" else none)
      else some s!"SPEC NearestNeighbor-panicked-on-non-empty-tree-{at_}"
    | ["nn", id] =>
      match id.toNat?.bind (h.pool[·]?) with
      | none => some s!"SPEC NearestNeighbor-returned-nil-or-foreign-object-{at_}"
      | some o =>
        if !specNN s q.x q.y o then
          some s!"SPEC NearestNeighbor-{at_}-returned-{o.id}-at-dist2={ratStr (odist q.x q.y o)}-min-is-{ratStr ((s.map (odist q.x q.y)).foldl min (odist q.x q.y o))}"
        else match m with
          | .ok mo => if exact && mo != o then some s!"DIFF nn-object-differs-from-model-{at_}" else none
          | .error f => if treeSame then some s!"DIFF nn-model-faults-{at_}" else none
    | _ => some "SPEC bad-answer-syntax"
  else
    match a with
    | "knn" :: "panic" :: _ => some s!"SPEC NearestNeighbors-panicked-{at_}"
    | "knn" :: c :: ids =>
      match c.toNat?.bind (fun c => pOptIds h.pool c ids) with
      | none => some s!"SPEC NearestNeighbors-returned-foreign-object-{at_}"
      | some res =>
        if !specKNN s q.k q.x q.y res then
          some s!"SPEC NearestNeighbors-{at_}-returned=[{optIdsStr res}]-dist2=[{dstr q.x q.y (res.filterMap id)}]"
        else match nearestNeighbors stableOrder t q.k q.x q.y with
          | .ok mr => if exact && mr != res then some s!"DIFF knn-objects-differ-from-model-{at_}-model=[{optIdsStr mr}]-impl=[{optIdsStr res}]" else none
          | .error f => if treeSame then some s!"DIFF knn-model-faults-{at_}" else none
    | _ => some "SPEC bad-answer-syntax"

def judgeLine (line : String) : String :=
  let (lhs, rhs) := splitArrow (tokens line)
  match pHist lhs with
  | none => "BAD parse"
  | some h =>
    let cls := h.cls
    match h.rest with
    | "K" :: nk :: kt =>
      match nk.toNat?.bind (fun n => pKQs n kt) with
      | none => "BAD parse-K"
      | some kqs =>
        let ops := h.ops.map (·.2)
        let s := specRun ops
        match rhs with
        | "T" :: sz :: dp :: t =>
          match pNode h.pool 64 t with
          | none => s!"SPEC {cls} malformed-tree-after-history(C11)"
          | some (n, pok, t) =>
            match runOps goHeur (newTree h.minC h.maxC) ops with
            | .error f => s!"DIFF {cls} model-faults-in-history(C11)"
            | .ok mt =>
              -- the answers are judged by the Spec against the HISTORY's multiset `s` whether or not
              -- the final tree agrees with the model; SPEC is reported before DIFF
              let treeSame := nodeStr n == nodeStr mt.root
              let answers := splitBars t
              if answers.length != kqs.length then s!"SPEC {cls} missing-answers" else
              let bad := (kqs.zip answers).filterMap fun (q, a) => judgeQuery h s mt treeSame q a
              match bad.find? (·.startsWith "SPEC"), bad.head? with
              | some m, _ => s!"SPEC {cls} {(m.drop 5).toString}"
              | none, some m => s!"DIFF {cls} {(m.drop 5).toString}"
              | none, none =>
                if !treeSame then s!"DIFF {cls} final-tree-differs-from-model(C11)"
                else s!"OK {cls}-h{mt.height}"
        | "panic" :: m => s!"SPEC {cls} history-panicked(C11)"
        | _ => "BAD result"
    | _ => "BAD no-K"

end GeomV.C12

open GeomV GeomV.C12 in
def main (args : List String) : IO Unit := do
  let out ← IO.getStdout
  match args with
  | ["judge"] => forEachLine fun l => out.putStrLn (judgeLine l)
  | _ => IO.eprintln "usage: geomv_c12 judge"
