import GeomV.C12.ProofsExt
import Mathlib.Data.List.Induction
import Mathlib.Data.List.TakeWhile
/-!
C12 — Go's `insertionSort` (what `sort.Sort` runs on at most 12 elements), read as a program of `Swap` calls
(`Model.insertionSwaps`), induces exactly the visiting order `stableOrder` that the executable model uses:

  `C12_insertionSwaps_stable : swapOrder insertionSwaps ds = stableOrder ds`   (every list of distances)

so for nodes with at most 12 entries the order the model visits children in is the order of the real
`sortEntries`, not only "some permutation" (`C12_sort_contract`).

Proof: run the two loops on the list of (distance, index) pairs instead of the bare distances (`bodyP`,
`innerP`; the loops on the distances are their first projection — `proj_foldl`), show that the inner loop
inserts element `i` into the sorted prefix after all elements that are not larger (`innerP_spec`: scanning from
the right while `Less(j, j-1)` ends where `takeWhile (· ≤ x)` from the left ends, because the prefix is sorted),
and that the accumulated `Swap` calls applied to `[0, …, n)` give the index column (`Inv`).
-/
set_option linter.unusedVariables false
set_option linter.unusedSimpArgs false
namespace GeomV.C12

abbrev KI := Rat × Nat

/-- `stableOrder`'s insertion step -/
def insK (acc : List KI) (x : KI) : List KI :=
  let pre := acc.takeWhile fun y => decide (y.1 ≤ x.1)
  pre ++ [x] ++ acc.drop pre.length

theorem stableOrder_eq (ds : List Rat) : stableOrder ds = (ds.zipIdx.foldl insK []).map (·.2) := rfl

/-- one iteration of the inner loop of `insertionSwaps` (on the distances) -/
def isBody (i : Nat) (st : (List Rat × List (Nat × Nat)) × Bool) (c : Nat) :
    (List Rat × List (Nat × Nat)) × Bool :=
  let j := i - c
  if st.2 then
    match st.1.1[j]?, st.1.1[j - 1]? with
    | some a, some b =>
      if a < b then (((st.1.1.set j b).set (j - 1) a, st.1.2 ++ [(j, j - 1)]), true) else (st.1, false)
    | _, _ => (st.1, false)
  else st

def isInner (st : List Rat × List (Nat × Nat)) (i : Nat) : List Rat × List (Nat × Nat) :=
  ((List.range i).foldl (isBody i) (st, true)).1

theorem insertionSwaps_eq (ds : List Rat) :
    insertionSwaps ds = (((List.range ds.length).drop 1).foldl isInner (ds, [])).2 := rfl

/-- the same iteration on (distance, index) pairs -/
def bodyP (i : Nat) (st : (List KI × List (Nat × Nat)) × Bool) (c : Nat) :
    (List KI × List (Nat × Nat)) × Bool :=
  let j := i - c
  if st.2 then
    match st.1.1[j]?, st.1.1[j - 1]? with
    | some a, some b =>
      if a.1 < b.1 then (((st.1.1.set j b).set (j - 1) a, st.1.2 ++ [(j, j - 1)]), true) else (st.1, false)
    | _, _ => (st.1, false)
  else st

def innerP (st : List KI × List (Nat × Nat)) (i : Nat) : List KI × List (Nat × Nat) :=
  ((List.range i).foldl (bodyP i) (st, true)).1

def projO (st : List KI × List (Nat × Nat)) : List Rat × List (Nat × Nat) := (st.1.map (·.1), st.2)
def proj (st : (List KI × List (Nat × Nat)) × Bool) : (List Rat × List (Nat × Nat)) × Bool := (projO st.1, st.2)

theorem proj_body (i : Nat) (st : (List KI × List (Nat × Nat)) × Bool) (c : Nat) :
    proj (bodyP i st c) = isBody i (proj st) c := by
  obtain ⟨⟨ps, sw⟩, b⟩ := st
  cases b with
  | false => simp [bodyP, isBody, proj, projO]
  | true =>
    simp only [bodyP, isBody, proj, projO, if_true, List.getElem?_map]
    cases h1 : ps[i - c]? with
    | none => simp
    | some a =>
      cases h2 : ps[i - c - 1]? with
      | none => simp
      | some b =>
        simp only [Option.map_some]
        by_cases hab : a.1 < b.1
        · simp [hab, List.map_set]
        · simp [hab]

theorem proj_foldl (i : Nat) : ∀ (l : List Nat) (st : (List KI × List (Nat × Nat)) × Bool),
    proj (l.foldl (bodyP i) st) = l.foldl (isBody i) (proj st)
  | [], st => rfl
  | c :: l, st => by
    simp only [List.foldl_cons]
    rw [proj_foldl i l, proj_body]

theorem projO_inner (st : List KI × List (Nat × Nat)) (i : Nat) :
    projO (innerP st i) = isInner (projO st) i := by
  unfold innerP isInner
  have := proj_foldl i (List.range i) (st, true)
  simp only [proj] at this
  rw [← this]

theorem projO_outer : ∀ (l : List Nat) (st : List KI × List (Nat × Nat)),
    projO (l.foldl innerP st) = l.foldl isInner (projO st)
  | [], st => rfl
  | i :: l, st => by
    simp only [List.foldl_cons]
    rw [projO_outer l, projO_inner]

/-! ### the inner loop inserts -/

theorem foldl_stuck (i : Nat) (s : List KI × List (Nat × Nat)) : ∀ (l : List Nat),
    l.foldl (bodyP i) (s, false) = (s, false)
  | [] => rfl
  | c :: l => by
    simp only [List.foldl_cons]
    have : bodyP i (s, false) c = (s, false) := by simp [bodyP]
    rw [this, foldl_stuck i s l]

theorem foldl_shift (i : Nat) (s : (List KI × List (Nat × Nat)) × Bool) :
    (List.range (i + 1)).foldl (bodyP (i + 1)) s = (List.range i).foldl (bodyP i) (bodyP (i + 1) s 0) := by
  rw [List.range_succ_eq_map, List.foldl_cons, List.foldl_map]
  congr 1
  funext st c
  simp only [bodyP, Nat.succ_eq_add_one, Nat.add_sub_add_right]

theorem get_adj {α : Type} (pre : List α) (a x : α) (post : List α) :
    (pre ++ a :: x :: post)[pre.length + 1]? = some x ∧ (pre ++ a :: x :: post)[pre.length]? = some a := by
  constructor
  · rw [List.getElem?_append_right (by omega)]; simp
  · rw [List.getElem?_append_right (by omega)]; simp

theorem swap_adj {α : Type} (pre : List α) (a x : α) (post : List α) :
    ((pre ++ a :: x :: post).set (pre.length + 1) a).set pre.length x = pre ++ x :: a :: post := by
  induction pre with
  | nil => simp
  | cons p pre ih => simpa using ih

def SortedK (l : List KI) : Prop := l.Pairwise (fun a b => a.1 ≤ b.1)

theorem takeWhile_snoc_neg {α : Type} (p : α → Bool) (a : α) (h : p a = false) : ∀ l : List α,
    (l ++ [a]).takeWhile p = l.takeWhile p
  | [] => by simp [List.takeWhile_cons, h]
  | b :: l => by
    simp only [List.cons_append, List.takeWhile_cons]
    split
    · rw [takeWhile_snoc_neg p a h l]
    · rfl

theorem takeWhile_length_le {α : Type} (p : α → Bool) : ∀ l : List α, (l.takeWhile p).length ≤ l.length
  | [] => by simp
  | b :: l => by
    simp only [List.takeWhile_cons]
    split
    · simpa using takeWhile_length_le p l
    · simp

theorem insK_snoc_lt (pre : List KI) (a x : KI) (h : x.1 < a.1) :
    insK (pre ++ [a]) x = insK pre x ++ [a] := by
  unfold insK
  simp only
  rw [takeWhile_snoc_neg _ a (by simpa using h)]
  rw [List.drop_append_of_le_length (takeWhile_length_le _ pre)]
  simp

theorem insK_all_le (l : List KI) (x : KI) (h : ∀ y ∈ l, y.1 ≤ x.1) : insK l x = l ++ [x] := by
  unfold insK
  simp only
  have : l.takeWhile (fun y => decide (y.1 ≤ x.1)) = l := by
    rw [List.takeWhile_eq_self_iff]
    intro y hy; simpa using h y hy
  rw [this]; simp

/-- applying the recorded `Swap` calls to `r0` gives the index column -/
def Inv (r0 : List Nat) (st : List KI × List (Nat × Nat)) : Prop :=
  swapsL st.2 r0 = .ok (st.1.map (·.2))

theorem inv_step (r0 : List Nat) (ps : List KI) (sw : List (Nat × Nat)) (j j' : Nat) (a b : KI)
    (h : Inv r0 (ps, sw)) (ha : ps[j]? = some a) (hb : ps[j']? = some b) :
    Inv r0 ((ps.set j b).set j' a, sw ++ [(j, j')]) := by
  unfold Inv at h ⊢
  simp only [swapsL, List.foldlM_append, List.foldlM_cons, List.foldlM_nil] at h ⊢
  rw [h]
  simp only [bind, Except.bind, swapL, List.getElem?_map, ha, hb, Option.map_some, pure, Except.pure,
    List.map_set]

/-- the inner loop on `pre ++ x :: post` with a sorted prefix `pre` of length `i` inserts `x` into `pre` after
all elements that are not larger (`insK`), leaves `post` alone, and keeps the recorded swaps consistent -/
theorem innerP_spec (r0 : List Nat) (x : KI) : ∀ (pre post : List KI) (sw : List (Nat × Nat)),
    SortedK pre → Inv r0 (pre ++ x :: post, sw) →
    ∃ sw' b, (List.range pre.length).foldl (bodyP pre.length) ((pre ++ x :: post, sw), true) =
        ((insK pre x ++ post, sw'), b) ∧ Inv r0 (insK pre x ++ post, sw') := by
  intro pre
  induction pre using List.reverseRecOn with
  | nil =>
    intro post sw _ hinv
    exact ⟨sw, true, by simp [insK], by simpa [insK] using hinv⟩
  | append_singleton pre a ih =>
    intro post sw hs hinv
    have hlen : (pre ++ [a]).length = pre.length + 1 := by simp
    rw [hlen, foldl_shift]
    have hps : pre ++ [a] ++ x :: post = pre ++ a :: x :: post := by simp
    obtain ⟨g1, g2⟩ := get_adj pre a x post
    have hs' : SortedK pre := (List.pairwise_append.mp hs).1
    by_cases hxa : x.1 < a.1
    · have hb : bodyP (pre.length + 1) ((pre ++ [a] ++ x :: post, sw), true) 0 =
          ((pre ++ x :: (a :: post), sw ++ [(pre.length + 1, pre.length)]), true) := by
        simp only [bodyP, if_true, Nat.sub_zero, Nat.add_sub_cancel, hps, g1, g2, hxa, swap_adj]
      rw [hb]
      have hinv1 : Inv r0 (pre ++ x :: (a :: post), sw ++ [(pre.length + 1, pre.length)]) := by
        have := inv_step r0 _ sw (pre.length + 1) pre.length x a (by rw [hps] at hinv; exact hinv) g1 g2
        rwa [swap_adj] at this
      obtain ⟨sw', b, e, hi⟩ := ih (a :: post) _ hs' hinv1
      refine ⟨sw', b, ?_, ?_⟩
      · rw [e, insK_snoc_lt pre a x hxa]; simp
      · rw [insK_snoc_lt pre a x hxa]; simpa using hi
    · have hb : bodyP (pre.length + 1) ((pre ++ [a] ++ x :: post, sw), true) 0 =
          ((pre ++ [a] ++ x :: post, sw), false) := by
        simp only [bodyP, if_true, Nat.sub_zero, Nat.add_sub_cancel, hps, g1, g2, hxa, if_false]
      rw [hb, foldl_stuck]
      have hall : ∀ y ∈ pre ++ [a], y.1 ≤ x.1 := by
        intro y hy
        rcases List.mem_append.mp hy with hy | hy
        · have := (List.pairwise_append.mp hs).2.2 y hy a (by simp)
          exact le_trans this (not_lt.mp hxa)
        · simp only [List.mem_singleton] at hy; subst hy; exact not_lt.mp hxa
      rw [insK_all_le _ x hall]
      exact ⟨sw, false, by simp, by simpa using hinv⟩

theorem insK_perm (acc : List KI) (x : KI) : (insK acc x).Perm (x :: acc) := by
  unfold insK
  simp only
  have := takeWhile_append_drop (fun y : KI => decide (y.1 ≤ x.1)) acc
  conv_rhs => rw [← this]
  simp only [List.append_assoc, List.singleton_append]
  exact List.perm_middle

theorem insK_sorted (acc : List KI) (x : KI) (h : SortedK acc) : SortedK (insK acc x) := by
  induction acc using List.reverseRecOn with
  | nil => simp [insK, SortedK]
  | append_singleton pre a ih =>
    have hs' : SortedK pre := (List.pairwise_append.mp h).1
    by_cases hxa : x.1 < a.1
    · rw [insK_snoc_lt pre a x hxa]
      unfold SortedK
      rw [List.pairwise_append]
      refine ⟨ih hs', by simp, ?_⟩
      intro y hy z hz
      simp only [List.mem_singleton] at hz; subst hz
      rcases List.mem_cons.mp ((insK_perm pre x).mem_iff.mp hy) with rfl | hy
      · exact le_of_lt hxa
      · exact (List.pairwise_append.mp h).2.2 y hy z (by simp)
    · have hall : ∀ y ∈ pre ++ [a], y.1 ≤ x.1 := by
        intro y hy
        rcases List.mem_append.mp hy with hy | hy
        · have := (List.pairwise_append.mp h).2.2 y hy a (by simp)
          exact le_trans this (not_lt.mp hxa)
        · simp only [List.mem_singleton] at hy; subst hy; exact not_lt.mp hxa
      rw [insK_all_le _ x hall]
      unfold SortedK
      rw [List.pairwise_append]
      exact ⟨h, by simp, fun y hy z hz => by simp only [List.mem_singleton] at hz; subst hz; exact hall y hy⟩

/-- the outer loop from index `acc.length` on: the remaining elements are inserted one by one -/
theorem outerP_spec (r0 : List Nat) : ∀ (rest acc : List KI) (sw : List (Nat × Nat)),
    SortedK acc → Inv r0 (acc ++ rest, sw) →
    ∃ sw', (List.range' acc.length rest.length).foldl innerP (acc ++ rest, sw) = (rest.foldl insK acc, sw') ∧
      Inv r0 (rest.foldl insK acc, sw')
  | [], acc, sw, _, hinv => ⟨sw, by simp, by simpa using hinv⟩
  | x :: rest, acc, sw, hs, hinv => by
    obtain ⟨sw1, b, e, hi⟩ := innerP_spec r0 x acc rest sw hs hinv
    have hlen : (insK acc x).length = acc.length + 1 := by simpa using (insK_perm acc x).length_eq
    obtain ⟨sw2, e2, hi2⟩ := outerP_spec r0 rest (insK acc x) sw1 (insK_sorted acc x hs) hi
    refine ⟨sw2, ?_, by simpa using hi2⟩
    simp only [List.length_cons, List.range'_succ, List.foldl_cons]
    have : innerP (acc ++ x :: rest, sw) acc.length = (insK acc x ++ rest, sw1) := by
      unfold innerP; rw [e]
    rw [this, ← hlen]
    exact e2

/-- **C12_insertionSwaps_stable** — the `Swap` program of Go's `insertionSort`
(`for i := 1; i < n; i++ { for j := i; j > 0 && Less(j, j-1); j-- { Swap(j, j-1) } }`, what `sort.Sort` runs for
at most 12 elements) induces exactly the visiting order `stableOrder` of the executable model: indices sorted by
distance, ties in index order — for every list of distances. -/
theorem C12_insertionSwaps_stable (ds : List Rat) : swapOrder insertionSwaps ds = stableOrder ds := by
  rw [stableOrder_eq]
  cases hz : ds.zipIdx with
  | nil =>
    have : ds = [] := by
      cases ds with
      | nil => rfl
      | cons a l => simp [List.zipIdx_cons] at hz
    subst this
    decide
  | cons x rest =>
    have hr0 : (ds.zipIdx.map (·.2)) = List.range ds.length := by
      simp [List.range_eq_range']
    have hlen : rest.length + 1 = ds.length := by
      have := congrArg List.length hz; simp at this; omega
    have hinv0 : Inv (List.range ds.length) ([x] ++ rest, []) := by
      unfold Inv
      simp only [swapsL, List.foldlM_nil, pure, Except.pure]
      rw [← hr0, hz]; rfl
    obtain ⟨sw', e, hi⟩ := outerP_spec (List.range ds.length) rest [x] [] (by simp [SortedK]) hinv0
    have hsw : insertionSwaps ds = sw' := by
      rw [insertionSwaps_eq]
      have hl : (List.range ds.length).drop 1 = List.range' 1 rest.length := by
        rw [List.range_eq_range', List.drop_range', ← hlen]; simp
      rw [hl]
      have hp : (ds, ([] : List (Nat × Nat))) = projO ([x] ++ rest, []) := by
        simp only [projO]
        congr 1
        rw [show [x] ++ rest = ds.zipIdx from by rw [hz]; rfl]
        simp
      rw [hp, ← projO_outer]
      have e' : (List.range' 1 rest.length).foldl innerP ([x] ++ rest, []) = (rest.foldl insK [x], sw') := by
        simpa using e
      rw [e']; rfl
    unfold swapOrder
    rw [hsw]
    unfold Inv at hi
    simp only at hi
    rw [hi]
    simp only [List.foldl_cons]
    rfl

example : swapOrder insertionSwaps [3, 1, 2, 1] = [1, 3, 2, 0] := by
  rw [C12_insertionSwaps_stable]; decide +kernel

end GeomV.C12
