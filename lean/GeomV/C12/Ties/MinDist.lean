import Mathlib.Tactic.Ring
import Mathlib.Tactic.SplitIfs
import GeomV.C11.Gen
import GeomV.C12.Model
/-!
T1 tie (C12): `minDist` regenerated from index/rtree/geom.go of the tree under test = the model's
`minDist` (the accumulator `sum` and the three-way branches per coordinate).
-/
namespace GeomV.C12
open GeomV.C11

theorem C12_tie_minDist (big px py : Rat) (r : Box) : Gen.minDist big ⟨px, py⟩ r = minDist px py r := by
  unfold Gen.minDist minDist sq
  by_cases h1 : px < r.minX <;> by_cases h2 : px > r.maxX <;> by_cases h3 : py < r.minY <;>
    by_cases h4 : py > r.maxY <;> simp [h1, h2, h3, h4]

end GeomV.C12
