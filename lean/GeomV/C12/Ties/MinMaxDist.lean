import Mathlib.Tactic.Ring
import Mathlib.Tactic.SplitIfs
import Mathlib.Tactic.Linarith
import Mathlib.Algebra.Order.Field.Rat
import GeomV.C11.Gen
import GeomV.C12.Model
/-!
T1 tie (C12): `minMaxDist` regenerated from geom.go (four closures that tell the nearer face `rm` from
the farther face `rM` by `math.Abs` of the two differences, two candidates summed directly, the
running `min` that starts at `math.MaxFloat64` = the parameter `big`) = the model's `minMaxDist`,
provided the first candidate is below `big` (every finite double other than MaxFloat64 itself is).
-/
namespace GeomV.C12
open GeomV.C11

/-- the candidate of the x-face: (p.X − rmX)² + (p.Y − rMY)² -/
def mmdX (px py : Rat) (r : Box) : Rat :=
  sq (px - (if ratAbs (px - r.minX) ≤ ratAbs (px - r.maxX) then r.minX else r.maxX)) +
  sq (py - (if ratAbs (py - r.minY) ≥ ratAbs (py - r.maxY) then r.minY else r.maxY))

theorem C12_tie_minMaxDist (big px py : Rat) (r : Box) (hbig : mmdX px py r < big) :
    Gen.minMaxDist big ⟨px, py⟩ r = minMaxDist px py r := by
  unfold Gen.minMaxDist minMaxDist
  unfold mmdX at hbig
  simp only [sq] at hbig ⊢
  rw [if_pos hbig]
  split_ifs <;> rfl

end GeomV.C12
