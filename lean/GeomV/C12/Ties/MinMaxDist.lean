import Mathlib.Tactic.Ring
import Mathlib.Tactic.SplitIfs
import Mathlib.Tactic.Linarith
import Mathlib.Algebra.Order.Field.Rat
import GeomV.C11.Gen
import GeomV.C12.Model
/-!
T1 tie (C12): `minMaxDist` regenerated from geom.go (four closures, `S`, the running `min` that
starts at `math.MaxFloat64` = the parameter `big`) = the model's `minMaxDist`, provided the first
candidate is below `big` (every finite double other than MaxFloat64 itself is).
-/
namespace GeomV.C12
open GeomV.C11

/-- the candidate of the x-face: (p.X − rmX)² + (p.Y − rMY)² -/
def mmdX (px py : Rat) (r : Box) : Rat :=
  sq (px - (if px ≤ (r.minX + r.maxX) / 2 then r.minX else r.maxX)) +
  sq (py - (if py ≥ (r.minY + r.maxY) / 2 then r.minY else r.maxY))

theorem C12_tie_minMaxDist (big px py : Rat) (r : Box) (hbig : mmdX px py r < big) :
    Gen.minMaxDist big ⟨px, py⟩ r = minMaxDist px py r := by
  unfold Gen.minMaxDist minMaxDist
  unfold mmdX at hbig
  simp only [sq] at hbig ⊢
  generalize (if px ≤ (r.minX + r.maxX) / 2 then r.minX else r.maxX) = a at *
  generalize (if py ≤ (r.minY + r.maxY) / 2 then r.minY else r.maxY) = b at *
  generalize (if px ≥ (r.minX + r.maxX) / 2 then r.minX else r.maxX) = A at *
  generalize (if py ≥ (r.minY + r.maxY) / 2 then r.minY else r.maxY) = B at *
  have e1 : (0 : Rat) + (px - A) * (px - A) + (py - B) * (py - B) - (px - A) * (px - A) + (px - a) * (px - a)
      = (px - a) * (px - a) + (py - B) * (py - B) := by ring
  have e2 : (0 : Rat) + (px - A) * (px - A) + (py - B) * (py - B) - (py - B) * (py - B) + (py - b) * (py - b)
      = (px - A) * (px - A) + (py - b) * (py - b) := by ring
  have e3 : (px - A) * (px - A) + (py - B) * (py - B) - (px - A) * (px - A) + (px - a) * (px - a)
      = (px - a) * (px - a) + (py - B) * (py - B) := by ring
  have e4 : (px - A) * (px - A) + (py - B) * (py - B) - (py - B) * (py - B) + (py - b) * (py - b)
      = (px - A) * (px - A) + (py - b) * (py - b) := by ring
  simp only [e1, e2, e3, e4]
  rw [if_pos hbig]

end GeomV.C12
