import GeomV.C12.ProofsFloat
import GeomV.C12.LemmasNN
/-!
C12 — the whole-tree induction over ROUNDED distances.

`gnnNode md mmd` is rtree.go `nearestNeighbor` with the two distance functions as parameters:
`md : Box → Rat` is what `minDist(p, ·)` computes, `mmd : Box → Rat` what `minMaxDist(p, ·)` computes.
With `md = minDist px py`, `mmd = minMaxDist px py` it is the exact model `nnNode` (`gnnNode_exact`);
with `md = fMinDist fl px py`, `mmd = fMinMaxDist fl px py` it is the search as it runs on float64 values
(`fl` after every `-`, `*`, `+`).

`gnnNode_spec`: whenever
 * `md` is antitone in the box (`md b ≤ md x` for a valid `x` inside `b`)            [`fMinDist_mono`]
 * `mmd` has the MINMAXDIST guarantee w.r.t. `md` (exact envelope ⇒ some member `x` with `md x ≤ mmd b`)
                                                                                     [`fMinMaxDist_spec`]
the search over a well-formed subtree never faults, and its running best ends at most at `md` of every object
below the node.  `C12_nn_float` instantiates this with the rounded functions for EVERY monotone rounding:
`NearestNeighbor` on a well-formed non-empty tree returns a stored object whose ROUNDED squared distance — the
quantity the code compares — is minimal among the stored objects.  `C12_nn_rne` instantiates the rounding with
IEEE-754 binary64 roundTiesToEven (`C02.rne`, built on C17's bit-level `roundPos`).
-/
set_option linter.unusedVariables false
set_option linter.unusedSimpArgs false
namespace GeomV.C12
open GeomV.C11
variable {O : Type}

/-- `pruneEntries`: the smallest `mmd` over the entries (`none` = MaxFloat64) -/
def gMinMin (mmd : Box → Rat) : List Box → Option Rat
  | [] => none
  | b :: bs =>
    let m := mmd b
    match gMinMin mmd bs with
    | none => some m
    | some x => some (if x < m then x else m)

/-- `sortEntries` + `pruneEntries` with the distance functions as parameters (cf. `branches`) -/
def gbranches (md mmd : Box → Rat) (order : List Rat → List Nat) (prune : Bool) (bs : List Box) : List Nat :=
  let ds := bs.map md
  let idx := order ds
  if prune then
    match gMinMin mmd bs with
    | none => []
    | some m => idx.filter fun i => match ds[i]? with | some d => d ≤ m | none => true
  else idx

/-- rtree.go `nearestNeighbor` with `minDist(p,·)` = `md`, `minMaxDist(p,·)` = `mmd` (cf. `nnNode`) -/
def gnnNode (md mmd : Box → Rat) (order : List Rat → List Nat) :
    Node O → Option (Rat × O) → Except Fault (Option (Rat × O))
  | .mk leaf _ es, st =>
    if leaf then
      es.foldlM (fun st e =>
        match e with
        | .obj b o => let d := md b; pure (if better d st then some (d, o) else st)
        | .child b _ => if better (md b) st then throw Fault.nilObj else pure st) st
    else
      (gbranches md mmd order true (es.map Entry.bb)).foldlM (fun st (i : Nat) =>
        match h : es[i]? with
        | some (.child _ c) => gnnNode md mmd order c st
        | some (.obj _ _) => throw Fault.nilDeref
        | none => throw Fault.choice) st
termination_by n => sizeOf n
decreasing_by have := Entry.sizeOf_child_lt_get h; simp_wf; omega

/-- rtree.go `NearestNeighbor` over `gnnNode` -/
def gnearestNeighbor (md mmd : Box → Rat) (order : List Rat → List Nat) (t : C11.Tree O) : Except Fault O := do
  match ← gnnNode md mmd order t.root none with
  | none => throw .nnNil
  | some (_, o) => pure o

/-- `NearestNeighbor(p)` as it runs on rounded values: `minDist` / repaired `minMaxDist` with `fl` after every
arithmetic operation -/
def fnearestNeighbor (fl : Rat → Rat) (order : List Rat → List Nat) (t : C11.Tree O) (px py : Rat) : Except Fault O :=
  gnearestNeighbor (fMinDist fl px py) (fMinMaxDist fl px py) order t

def gLeafStep (md : Box → Rat) (st : Option (Rat × O)) (e : Entry O) : Except Fault (Option (Rat × O)) :=
  match e with
  | .obj b o => let d := md b; pure (if better d st then some (d, o) else st)
  | .child b _ => if better (md b) st then throw Fault.nilObj else pure st

theorem gnnNode_mk (md mmd : Box → Rat) (order : List Rat → List Nat) (leaf : Bool) (v : Nat)
    (es : List (Entry O)) (st : Option (Rat × O)) :
    gnnNode md mmd order (.mk leaf v es) st =
      (if leaf then es.foldlM (gLeafStep md) st
       else (gbranches md mmd order true (es.map Entry.bb)).foldlM (fun st (i : Nat) =>
          match es[i]? with
          | some (.child _ c) => gnnNode md mmd order c st
          | some (.obj _ _) => throw Fault.nilDeref
          | none => throw Fault.choice) st) := by
  rw [gnnNode]
  split_ifs
  · rfl
  · congr 1; funext st i
    split <;> split <;> simp_all

theorem gMinMin_eq_exact (px py : Rat) : ∀ bs, gMinMin (minMaxDist px py) bs = minMinMaxDist px py bs
  | [] => rfl
  | b :: bs => by
    simp only [gMinMin, minMinMaxDist, gMinMin_eq_exact px py bs]
    cases minMinMaxDist px py bs <;> rfl

theorem gbranches_eq_exact (px py : Rat) (order : List Rat → List Nat) (prune : Bool) (bs : List Box) :
    gbranches (minDist px py) (minMaxDist px py) order prune bs = branches order prune px py bs := by
  unfold gbranches branches
  simp only [gMinMin_eq_exact]
  cases prune
  · rfl
  · cases minMinMaxDist px py bs <;> rfl

/-- the parametrised search with the exact distance functions IS the model `nnNode` that is run against
the real tree (so `gnnNode` is a generalisation, not a second transcription) -/
theorem gnnNode_exact (order : List Rat → List Nat) (px py : Rat) :
    ∀ (n : Node O) (st : Option (Rat × O)),
      gnnNode (minDist px py) (minMaxDist px py) order n st = nnNode order px py n st := by
  intro n
  induction n using Node.induct with
  | h l v es ih =>
    intro st
    rw [gnnNode_mk, nnNode_mk, gbranches_eq_exact]
    cases l with
    | true => rfl
    | false =>
      simp only [Bool.false_eq_true, if_false]
      congr 1
      funext st i
      cases hi : es[i]? with
      | none => rfl
      | some e =>
        cases e with
        | obj b o => rfl
        | child b c => exact ih b c (List.mem_of_getElem? hi) st

theorem fMinMinMaxDist_eq (fl : Rat → Rat) (px py : Rat) :
    ∀ bs, fMinMinMaxDist fl px py bs = gMinMin (fMinMaxDist fl px py) bs
  | [] => rfl
  | b :: bs => by
    simp only [gMinMin, fMinMinMaxDist, fMinMinMaxDist_eq fl px py bs]
    cases gMinMin (fMinMaxDist fl px py) bs <;> rfl

/-- the distance of an object as the (parametrised) code computes it -/
def gdist [Bounded O] (md : Box → Rat) (o : O) : Rat := md (Bounded.bounds o)

/-- what a traversal that may only skip objects outside `S` has done to the running best -/
structure GPost [Bounded O] (md : Box → Rat) (S : O → Prop) (st st' : Option (Rat × O)) : Prop where
  from_ : st' = st ∨ ∃ o, S o ∧ st' = some (gdist md o, o)
  best : ∀ o, S o → leSt st' (gdist md o)
  mono : ∀ x, leSt st x → leSt st' x

theorem GPost.refl [Bounded O] (md : Box → Rat) (st : Option (Rat × O)) :
    GPost md (fun _ => False) st st :=
  ⟨Or.inl rfl, fun _ h => absurd h id, fun _ h => h⟩

theorem GPost.comp [Bounded O] {md : Box → Rat} {S1 S2 : O → Prop} {st st1 st2 : Option (Rat × O)}
    (h1 : GPost md S1 st st1) (h2 : GPost md S2 st1 st2) :
    GPost md (fun o => S1 o ∨ S2 o) st st2 := by
  refine ⟨?_, ?_, fun x hx => h2.mono x (h1.mono x hx)⟩
  · rcases h2.from_ with h | ⟨o, ho, h⟩
    · rcases h1.from_ with g | ⟨o, ho, g⟩
      · exact Or.inl (h.trans g)
      · exact Or.inr ⟨o, Or.inl ho, h.trans g⟩
    · exact Or.inr ⟨o, Or.inr ho, h⟩
  · intro o ho
    rcases ho with ho | ho
    · exact h2.mono _ (h1.best o ho)
    · exact h2.best o ho

theorem GPost.congr [Bounded O] {md : Box → Rat} {S S' : O → Prop} {st st' : Option (Rat × O)}
    (h : GPost md S st st') (hS : ∀ o, S o ↔ S' o) : GPost md S' st st' :=
  ⟨by rcases h.from_ with g | ⟨o, ho, g⟩
      · exact Or.inl g
      · exact Or.inr ⟨o, (hS o).mp ho, g⟩,
   fun o ho => h.best o ((hS o).mpr ho), h.mono⟩

theorem gfoldlM_post [Bounded O] {α : Type} (md : Box → Rat)
    (f : Option (Rat × O) → α → Except Fault (Option (Rat × O))) (S : α → O → Prop) :
    ∀ (l : List α), (∀ a ∈ l, ∀ st, ∃ st', f st a = .ok st' ∧ GPost md (S a) st st') →
      ∀ st, ∃ st', l.foldlM f st = .ok st' ∧ GPost md (fun o => ∃ a ∈ l, S a o) st st'
  | [], _, st => ⟨st, rfl, (GPost.refl md st).congr (by simp)⟩
  | a :: l, h, st => by
    obtain ⟨st1, h1, p1⟩ := h a List.mem_cons_self st
    obtain ⟨st2, h2, p2⟩ := gfoldlM_post md f S l (fun x hx => h x (List.mem_cons_of_mem _ hx)) st1
    refine ⟨st2, ?_, (p1.comp p2).congr (by simp)⟩
    simp [List.foldlM_cons, h1, h2, bind, Except.bind]

theorem gleaf_step_post [Bounded O] (md : Box → Rat) (o : O) (st : Option (Rat × O)) :
    GPost md (fun x => x = o) st
      (if better (md (Bounded.bounds o)) st then some (md (Bounded.bounds o), o) else st) := by
  cases st with
  | none =>
    simp only [better, if_true]
    exact ⟨Or.inr ⟨o, rfl, rfl⟩, fun x hx => by subst hx; exact ⟨_, _, rfl, le_refl _⟩,
      fun x ⟨_, _, h, _⟩ => by cases h⟩
  | some a =>
    obtain ⟨d, o'⟩ := a
    simp only [better, decide_eq_true_eq]
    split_ifs with hb
    · exact ⟨Or.inr ⟨o, rfl, rfl⟩, fun x hx => by subst hx; exact ⟨_, _, rfl, le_refl _⟩,
        fun x ⟨d', o'', h, hle⟩ => by cases h; exact ⟨_, _, rfl, by linarith⟩⟩
    · exact ⟨Or.inl rfl, fun x hx => by subst hx; exact ⟨d, o', rfl, by simpa [gdist] using not_lt.mp hb⟩,
        fun x h => h⟩

theorem gMinMin_some (mmd : Box → Rat) : ∀ (bs : List Box) (m : Rat),
    gMinMin mmd bs = some m → ∃ k, ∃ hk : k < bs.length, mmd bs[k] = m
  | [], m, h => by simp [gMinMin] at h
  | b :: bs, m, h => by
    simp only [gMinMin] at h
    split at h
    · cases h; exact ⟨0, by simp, rfl⟩
    · rename_i x hx
      obtain ⟨k, hk, e⟩ := gMinMin_some mmd bs x hx
      cases h
      split_ifs
      · exact ⟨k + 1, by simp; omega, by simpa using e⟩
      · exact ⟨0, by simp, rfl⟩

theorem gMinMin_none (mmd : Box → Rat) (bs : List Box) (h : gMinMin mmd bs = none) : bs = [] := by
  cases bs with
  | nil => rfl
  | cons b bs => simp only [gMinMin] at h; split at h <;> cases h

/-- `md` is antitone in the box: a box is at most as far as a valid box inside it -/
def MdMono (md : Box → Rat) : Prop :=
  ∀ {b x : Box}, (b.minX ≤ x.minX ∧ b.minY ≤ x.minY ∧ x.maxX ≤ b.maxX ∧ x.maxY ≤ b.maxY) →
    x.valid = true → md b ≤ md x

/-- the MINMAXDIST guarantee of `mmd` with respect to `md` -/
def MmdSpec (md mmd : Box → Rat) : Prop :=
  ∀ {b : Box} {bs : List Box}, IsEnv b bs → (∀ x ∈ bs, x.valid = true) → ∃ x ∈ bs, md x ≤ mmd b

/-- the induction over the tree, for any pair of distance functions with the two properties -/
theorem gnnNode_spec [Bounded O] {md mmd : Box → Rat} (hmd : MdMono md) (hmmd : MmdSpec md mmd)
    {order : List Rat → List Nat} (hO : OrderOK order) {maxC : Nat} :
    ∀ (n : Node O) (h : Nat), wfNode maxC h n = true →
      (∀ o ∈ n.objs, (Bounded.bounds o).valid = true) → ∀ st, ∃ st',
      gnnNode md mmd order n st = .ok st' ∧ GPost md (fun o => o ∈ n.objs) st st' := by
  intro n
  induction n using Node.induct with
  | h l v es ih =>
    intro h hw hv st
    have hsub : ∀ {b : Box} {c : Node O}, Entry.child b c ∈ es → ∀ o ∈ c.objs, o ∈ (Node.mk l v es).objs := by
      intro b c hm o ho
      simp only [Node.objs_mk, List.mem_flatMap]
      exact ⟨_, hm, by simpa [Entry.objs] using ho⟩
    have hw' := (wfNode_mk ..).mp hw
    obtain ⟨hv', hl, h1, hlen, hes⟩ := hw'
    rw [gnnNode_mk]
    cases l with
    | true =>
      have hh : h = 1 := hl.mp rfl
      subst hh
      simp only [if_true]
      obtain ⟨st', e1, p1⟩ := gfoldlM_post md (gLeafStep md) (fun (e : Entry O) o => o ∈ e.objs) es
        (fun e he st => by
          obtain ⟨o, rfl⟩ := wfEntry_of_leaf (hes e he)
          refine ⟨_, rfl, (gleaf_step_post md o st).congr ?_⟩
          intro x; simp [Entry.objs]) st
      exact ⟨st', e1, p1.congr (by intro o; simp [Node.objs_mk, List.mem_flatMap])⟩
    | false =>
      have hh : 1 < h := by
        rcases Nat.lt_or_ge 1 h with g | g
        · exact g
        · have : h = 1 := by omega
          exact absurd (hl.mpr this) (by simp)
      simp only [Bool.false_eq_true, if_false]
      have hidx : ∀ i, i ∈ order ((es.map Entry.bb).map md) ↔ i < es.length := by
        intro i; rw [(hO _).mem_iff]; simp
      have hchild : ∀ i, i < es.length → ∃ b c, es[i]? = some (Entry.child b c) := by
        intro i hi
        have hm := hes _ (List.getElem_mem hi)
        cases he : es[i] with
        | obj b o => rw [he] at hm; have := hm.1; omega
        | child b c => exact ⟨b, c, by rw [List.getElem?_eq_getElem hi, he]⟩
      set K := gbranches md mmd order true (es.map Entry.bb) with hK
      have hKsub : ∀ i ∈ K, i < es.length := by
        intro i hi
        rw [hK] at hi
        unfold gbranches at hi
        simp only [if_true] at hi
        split at hi
        · simp at hi
        · exact (hidx i).mp (List.mem_filter.mp hi).1
      obtain ⟨st', e1, p1⟩ := gfoldlM_post md
        (fun st (i : Nat) => match es[i]? with
          | some (.child _ c) => gnnNode md mmd order c st
          | some (.obj _ _) => throw Fault.nilDeref
          | none => throw Fault.choice)
        (fun (i : Nat) o => ∃ b c, es[i]? = some (Entry.child b c) ∧ o ∈ c.objs) K
        (fun i hi st => by
          obtain ⟨b, c, hc⟩ := hchild i (hKsub i hi)
          obtain ⟨_, hwc, _⟩ := child_env hes hc
          obtain ⟨st', e, p⟩ := ih b c (List.mem_of_getElem? hc) (h - 1) hwc
            (fun o ho => hv o (hsub (List.mem_of_getElem? hc) o ho)) st
          refine ⟨st', by simp only [hc]; exact e, p.congr ?_⟩
          intro o
          constructor
          · intro ho; exact ⟨b, c, hc, ho⟩
          · rintro ⟨b', c', hc', ho⟩
            rw [hc] at hc'; cases hc'; exact ho) st
      refine ⟨st', e1, ?_, ?_, p1.mono⟩
      · rcases p1.from_ with g | ⟨o, ⟨i, hi, b, c, hc, ho⟩, g⟩
        · exact Or.inl g
        · refine Or.inr ⟨o, ?_, g⟩
          simp only [Node.objs_mk, List.mem_flatMap]
          exact ⟨_, List.mem_of_getElem? hc, by simpa [Entry.objs] using ho⟩
      · intro o ho
        simp only [Node.objs_mk, List.mem_flatMap] at ho
        obtain ⟨e, he, hoe⟩ := ho
        obtain ⟨j, hj, hje⟩ := List.getElem_of_mem he
        obtain ⟨b, c, hc⟩ := hchild j hj
        have hec : e = Entry.child b c := by
          rw [List.getElem?_eq_getElem hj, hje] at hc; exact Option.some.inj hc
        subst hec
        simp only [Entry.objs] at hoe
        obtain ⟨_, hwc, henvc⟩ := child_env hes hc
        by_cases hjK : j ∈ K
        · exact p1.best o ⟨j, hjK, b, c, hc, hoe⟩
        · -- pruned: some kept branch holds an object at least as near (in `md`)
          rw [hK] at hjK
          unfold gbranches at hjK
          simp only [if_true] at hjK
          have hne : es.map Entry.bb ≠ [] := by
            intro h0; have := List.map_eq_nil_iff.mp h0; subst this; simp at hj
          cases hmm : gMinMin mmd (es.map Entry.bb) with
          | none => exact absurd (gMinMin_none mmd _ hmm) hne
          | some m =>
            rw [hmm] at hjK
            simp only at hjK
            have hjidx := (hidx j).mpr hj
            have hdsj : ((es.map Entry.bb).map md)[j]? = some (md b) := by
              simp [List.getElem?_map, hc, Entry.bb]
            have hgt : m < md b := by
              by_contra hle
              apply hjK
              rw [List.mem_filter]
              refine ⟨hjidx, ?_⟩
              simp only [hdsj, decide_eq_true_eq]
              exact not_lt.mp hle
            obtain ⟨k, hk, ek⟩ := gMinMin_some mmd _ m hmm
            have hk' : k < es.length := by simpa using hk
            obtain ⟨bk, ck, hck⟩ := hchild k hk'
            have ebk : (es.map Entry.bb)[k] = bk := by
              simp only [List.getElem_map]
              rw [List.getElem?_eq_getElem hk'] at hck
              rw [Option.some.inj hck]; rfl
            rw [ebk] at ek
            obtain ⟨_, hwck, henvk⟩ := child_env hes hck
            have hvk : ∀ x ∈ ck.objs.map Bounded.bounds, x.valid = true := by
              intro x hx; obtain ⟨o', ho', rfl⟩ := List.mem_map.mp hx
              exact hv o' (hsub (List.mem_of_getElem? hck) o' ho')
            obtain ⟨x, hx, hxle⟩ := hmmd henvk hvk
            obtain ⟨ostar, hostar, rfl⟩ := List.mem_map.mp hx
            have hmono : md bk ≤ md (Bounded.bounds ostar) :=
              hmd (henvk.lo _ hx) (hv ostar (hsub (List.mem_of_getElem? hck) ostar hostar))
            have hkK : k ∈ K := by
              rw [hK]; unfold gbranches; simp only [if_true, hmm]
              rw [List.mem_filter]
              refine ⟨(hidx k).mpr hk', ?_⟩
              have : ((es.map Entry.bb).map md)[k]? = some (md bk) := by
                simp [List.getElem?_map, hck, Entry.bb]
              simp only [this, decide_eq_true_eq]
              linarith
            obtain ⟨d', o', hst', hd'⟩ := p1.best ostar ⟨k, hkK, bk, ck, hck, hostar⟩
            have hmonoj : md b ≤ md (Bounded.bounds o) :=
              hmd (henvc.lo _ (List.mem_map_of_mem hoe)) (hv o (hsub (List.mem_of_getElem? hc) o hoe))
            exact ⟨d', o', hst', by simp only [gdist] at hd' ⊢; linarith⟩

/-- `NearestNeighbor` over any pair of distance functions with the two properties: no panic on a well-formed
non-empty tree, the answer is stored and minimises `md` of the object's box -/
theorem gnearestNeighbor_spec [Bounded O] {md mmd : Box → Rat} (hmd : MdMono md) (hmmd : MmdSpec md mmd)
    {order : List Rat → List Nat} (hO : OrderOK order)
    (t : C11.Tree O) (hwf : t.WF = true) (hne : t.abs ≠ [])
    (hv : ∀ o ∈ t.abs, (Bounded.bounds o).valid = true) :
    ∃ o, gnearestNeighbor md mmd order t = .ok o ∧ o ∈ t.abs ∧
      ∀ o' ∈ t.abs, md (Bounded.bounds o) ≤ md (Bounded.bounds o') := by
  have hw : wfNode t.maxC t.height t.root = true := by
    have := hwf; simp [C11.Tree.WF] at this; exact this.1.1
  obtain ⟨st', e, p⟩ := gnnNode_spec hmd hmmd hO t.root t.height hw hv none
  obtain ⟨o0, ho0⟩ := List.exists_mem_of_ne_nil _ hne
  obtain ⟨d, o, hst, _⟩ := p.best o0 ho0
  have hfrom : ∃ o1, o1 ∈ t.root.objs ∧ st' = some (gdist md o1, o1) := by
    rcases p.from_ with g | g
    · rw [g] at hst; cases hst
    · exact g
  obtain ⟨o1, ho1, hst1⟩ := hfrom
  refine ⟨o1, ?_, ho1, ?_⟩
  · simp only [gnearestNeighbor, e, hst1, bind, Except.bind, pure, Except.pure]
  · intro o' ho'
    obtain ⟨d', o'', h1, h2⟩ := p.best o' ho'
    rw [hst1] at h1; cases h1
    exact h2

/-- **C12_nn_float** — the float-level whole-tree theorem: for EVERY monotone rounding `fl` (weakly monotone,
`fl 0 = 0`, rounded values are fixed points — nothing about the size of the error), every visiting order that
is a permutation, every well-formed non-empty tree whose stored boxes have `min ≤ max`, and every query point:
`NearestNeighbor(p)` computed on rounded values (`fMinDist` / repaired `fMinMaxDist`, `fl` after every `-`,
`*`, `+`; leaf loop `dist < d`; `pruneEntries` with `minDists[i] <= minMinMaxDist`) does not panic and returns a
STORED object whose ROUNDED squared distance is minimal among all stored objects.  (The true distance of the
answer can then exceed the true minimum only by what `fl` cannot tell apart.) -/
theorem C12_nn_float [Bounded O] {fl : Rat → Rat} (R : Rounding fl)
    {order : List Rat → List Nat} (hO : OrderOK order)
    (t : C11.Tree O) (hwf : t.WF = true) (hne : t.abs ≠ []) (px py : Rat)
    (hv : ∀ o ∈ t.abs, (Bounded.bounds o).valid = true) :
    ∃ o, fnearestNeighbor fl order t px py = .ok o ∧ o ∈ t.abs ∧
      ∀ o' ∈ t.abs, fodist fl px py o ≤ fodist fl px py o' :=
  gnearestNeighbor_spec (md := fMinDist fl px py) (mmd := fMinMaxDist fl px py)
    (fun hc hx => fMinDist_mono R px py hc hx) (fun henv hx => fMinMaxDist_spec R px py henv hx)
    hO t hwf hne hv

/-- with no rounding, the float-level `NearestNeighbor` is the exact model that is run against the real tree -/
theorem C12_nn_float_id (order : List Rat → List Nat) (t : C11.Tree O) (px py : Rat) :
    fnearestNeighbor (fun x => x) order t px py = nearestNeighbor order t px py := by
  have h1 : fMinDist (fun x => x) px py = minDist px py := funext (fMinDist_id px py)
  have h2 : fMinMaxDist (fun x => x) px py = minMaxDist px py := funext (fMinMaxDist_id px py)
  unfold fnearestNeighbor gnearestNeighbor nearestNeighbor
  rw [h1, h2, gnnNode_exact]
  rfl

end GeomV.C12
