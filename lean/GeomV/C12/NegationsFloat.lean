import GeomV.C12.ProofsFloatTree
import GeomV.C12.Negations
/-!
C12 — the CANCELLATION defect of `minMaxDist` before fix ef912a0, as a kernel-evaluated negation on a small
FLOATING format (the witness `C12_old_minMaxDist_float_unsound` of ProofsFloat.lean uses a fixed-point grid, on
which `S - d1*d1 + d2*d2` is exact; it shows the midpoint defect only).

`fl2` has two binades: multiples of 1/4 below 4, integers from 4 on (rounding towards −∞).  It is a `Rounding`
(`Rounding.fl2`: monotone, 0 ↦ 0, idempotent).  Seen from p = (0,0), the zero-width box [1/2,1/2]×[3/2,3] — the
exact envelope of the points (1/2,3/2) and (1/2,3) — has

  S            = fl2(1/4 + 9)          = 9        (the 1/4 is absorbed in the upper binade)
  old dy       = fl2(fl2(S − 9) + 9/4) = 9/4      (the absorbed 1/4 is gone for good)
  MINDIST      = fl2(1/4 + 9/4)        = 5/2      of the SAME box, and of its nearest object (1/2,3/2)

so the old MINMAXDIST 9/4 is below the MINDIST 5/2 of the box it was computed from: `pruneEntries` drops that
branch, and every other branch whose MINDIST exceeds 9/4.  On the four-point tree `cancelTree` both leaves are
dropped and `NearestNeighbor((0,0))` raises the nil panic — the float64 failure of findings/C12.json ((2,4), five
points, p = (8,2.7)) in miniature.  The repaired formula yields 5/2 for the box, keeps it, and the search answers
(1/2,3/2), whose rounded distance 5/2 is minimal (as `C12_nn_float` says it must for every `Rounding`).
-/
set_option linter.unusedVariables false
namespace GeomV.C12
open GeomV.C11

/-- a two-binade floating format: multiples of 1/4 below 4, integers from 4 on; rounding towards −∞ -/
def fl2 (x : Rat) : Rat := if x < 4 then ((⌊4 * x⌋ : Int) : Rat) / 4 else ((⌊x⌋ : Int) : Rat)

theorem fl2_lo {a : Rat} (h : a < 4) : fl2 a = ((⌊4 * a⌋ : Int) : Rat) / 4 := by unfold fl2; rw [if_pos h]
theorem fl2_hi {a : Rat} (h : ¬ a < 4) : fl2 a = ((⌊a⌋ : Int) : Rat) := by unfold fl2; rw [if_neg h]

theorem fl2_lo_le {a : Rat} (h : a < 4) : fl2 a ≤ a := by
  rw [fl2_lo h]
  have := Int.floor_le (4 * a)
  linarith

theorem fl2_hi_ge {a : Rat} (h : ¬ a < 4) : (4 : Rat) ≤ fl2 a := by
  rw [fl2_hi h]
  have : (4 : Int) ≤ ⌊a⌋ := Int.le_floor.mpr (by push_cast; exact not_lt.mp h)
  exact_mod_cast this

theorem Rounding.fl2 : Rounding fl2 where
  mono := by
    intro a b h
    by_cases ha : a < 4
    · by_cases hb : b < 4
      · rw [fl2_lo ha, fl2_lo hb]
        have h1 : ⌊4 * a⌋ ≤ ⌊4 * b⌋ := Int.floor_mono (by linarith)
        have h2 : ((⌊4 * a⌋ : Int) : Rat) ≤ ((⌊4 * b⌋ : Int) : Rat) := by exact_mod_cast h1
        linarith
      · have := fl2_lo_le ha
        have := fl2_hi_ge hb
        linarith
    · have hb : ¬ b < 4 := by intro hb; exact ha (lt_of_le_of_lt h hb)
      rw [fl2_hi ha, fl2_hi hb]
      have h1 : ⌊a⌋ ≤ ⌊b⌋ := Int.floor_mono h
      exact_mod_cast h1
  zero := by
    rw [fl2_lo (by norm_num)]; simp
  idem := by
    intro a
    by_cases ha : a < 4
    · have hlt : GeomV.C12.fl2 a < 4 := lt_of_le_of_lt (fl2_lo_le ha) ha
      rw [fl2_lo hlt, fl2_lo ha]
      have : (4 : Rat) * (((⌊4 * a⌋ : Int) : Rat) / 4) = ((⌊4 * a⌋ : Int) : Rat) := by ring
      rw [this, Int.floor_intCast]
    · have hge : ¬ GeomV.C12.fl2 a < 4 := not_lt.mpr (fl2_hi_ge ha)
      rw [fl2_hi hge, fl2_hi ha, Int.floor_intCast]

/-- `NearestNeighbor(p)` on rounded values with the `minMaxDist` formula BEFORE ef912a0 -/
def fnearestNeighborOld (fl : Rat → Rat) (order : List Rat → List Nat) (t : C11.Tree O) (px py : Rat) :
    Except Fault O :=
  gnearestNeighbor (fMinDist fl px py) (fMinMaxDistOld fl px py) order t

/-- leaves {(1/2,3/2), (1/2,3)} (zero width) and {(2,1), (3,2)} -/
def cancelTree : C11.Tree Ob :=
  ⟨2, 4, .mk false 2 [.child ⟨1/2, 3/2, 1/2, 3⟩ (.mk true 1 [ptE 0 (1/2) (3/2), ptE 1 (1/2) 3]),
                      .child ⟨2, 1, 3, 2⟩ (.mk true 1 [ptE 2 2 1, ptE 3 3 2])], 4, 2⟩

/-- **C12_old_cancellation_unsound** — the negation for the cancellation defect, kernel-evaluated under the
monotone rounding `fl2` on a well-formed tree of four points with valid boxes: the old formula gives the
zero-width leaf box the MINMAXDIST 9/4, BELOW the MINDIST 5/2 of that same box; the other leaf is at 5; the
pruned branch list is EMPTY and `NearestNeighbor((0,0))` panics (`nnNil`) although four objects are stored.  The
repaired formula gives 5/2, keeps the branch, and the search returns object 0 = (1/2,3/2) at the minimal rounded
distance 5/2. -/
theorem C12_old_cancellation_unsound :
    Rounding fl2 ∧
    cancelTree.WF = true ∧ cancelTree.abs.length = 4 ∧ (∀ o ∈ cancelTree.abs, (Bounded.bounds o).valid = true) ∧
    fMinMaxDistOld fl2 0 0 ⟨1/2, 3/2, 1/2, 3⟩ = 9/4 ∧ fMinDist fl2 0 0 ⟨1/2, 3/2, 1/2, 3⟩ = 5/2 ∧
    fMinDist fl2 0 0 ⟨2, 1, 3, 2⟩ = 5 ∧
    gbranches (fMinDist fl2 0 0) (fMinMaxDistOld fl2 0 0) stableOrder true (cancelTree.root.entries.map Entry.bb) = [] ∧
    fnearestNeighborOld fl2 stableOrder cancelTree 0 0 = .error Fault.nnNil ∧
    fMinMaxDist fl2 0 0 ⟨1/2, 3/2, 1/2, 3⟩ = 5/2 ∧
    fnearestNeighbor fl2 stableOrder cancelTree 0 0 = .ok (0, ⟨1/2, 3/2, 1/2, 3/2⟩) := by
  refine ⟨Rounding.fl2, ?_, ?_, ?_, ?_, ?_, ?_, ?_, ?_, ?_, ?_⟩ <;> decide +kernel

end GeomV.C12
