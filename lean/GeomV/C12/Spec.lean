import GeomV.C11.Spec
/-
C12 — specification (independent of the model's operations).

  "On a non-empty tree NearestNeighbor(p) returns a stored object whose bounding box is at
   minimum distance from p, and NearestNeighbors(k, p) returns min(k, Size) stored objects in
   non-decreasing order of box distance whose distances are exactly the k smallest among all
   stored objects (remaining slots nil)."

Distances are squared Euclidean distances (order-equivalent to the distances themselves).
-/
namespace GeomV.C12
open GeomV.C11
variable {O : Type}

/-- squared distance between two points -/
def pdist2 (px py x y : Rat) : Rat := (px - x) * (px - x) + (py - y) * (py - y)

/-- squared distance from `p` to a box: distance to the nearest point of the box
(`C12_minDist_spec`: it is attained in the box and is a lower bound for every point of it) -/
def boxDist2 (px py : Rat) (b : Box) : Rat :=
  let cx := if px < b.minX then b.minX else if b.maxX < px then b.maxX else px
  let cy := if py < b.minY then b.minY else if b.maxY < py then b.maxY else py
  pdist2 px py cx cy

/-- squared box distance of an object -/
def odist [Bounded O] (px py : Rat) (o : O) : Rat := boxDist2 px py (Bounded.bounds o)

/-- `o` is a correct answer of NearestNeighbor for the stored multiset `s` -/
def specNN [Bounded O] [DecidableEq O] (s : List O) (px py : Rat) (o : O) : Bool :=
  decide (o ∈ s) && s.all fun o' => decide (odist px py o ≤ odist px py o')

/-- non-decreasing -/
def sortedBy (f : O → Rat) : List O → Bool
  | [] => true
  | [_] => true
  | a :: b :: r => decide (f a ≤ f b) && sortedBy f (b :: r)

/-- remove the elements of `l` from `s` one by one (multiset difference) -/
def msub [DecidableEq O] (s l : List O) : List O := l.foldl List.erase s

/-- `res` is a correct answer of NearestNeighbors(k) for the stored multiset `s`: exactly `k`
slots; the first `min k |s|` hold stored objects (as a sub-multiset), in non-decreasing order of
distance, none farther than any stored object left out; the remaining slots are nil. -/
def specKNN [Bounded O] [DecidableEq O] (s : List O) (k : Nat) (px py : Rat) (res : List (Option O)) : Bool :=
  let objs := res.filterMap id
  decide (res.length = k) &&
  decide (res = objs.map some ++ List.replicate (k - objs.length) none) &&
  decide (objs.length = min k s.length) &&
  decide ((msub s objs).length + objs.length = s.length) &&   -- objs is a sub-multiset of s
  sortedBy (odist px py) objs &&
  objs.all fun o => (msub s objs).all fun o' => decide (odist px py o ≤ odist px py o')

/-- `specKNN` with the distance of an object as a parameter `f` (the exact box distance `odist px py` gives
`specKNN`, definitionally; the float-level theorem `C12_knn_float` instantiates `f` with the ROUNDED squared
distance that the code compares) -/
def specKNNBy [DecidableEq O] (f : O → Rat) (s : List O) (k : Nat) (res : List (Option O)) : Bool :=
  let objs := res.filterMap id
  decide (res.length = k) &&
  decide (res = objs.map some ++ List.replicate (k - objs.length) none) &&
  decide (objs.length = min k s.length) &&
  decide ((msub s objs).length + objs.length = s.length) &&
  sortedBy f objs &&
  objs.all fun o => (msub s objs).all fun o' => decide (f o ≤ f o')

theorem specKNN_eq_by [Bounded O] [DecidableEq O] (s : List O) (k : Nat) (px py : Rat) (res : List (Option O)) :
    specKNN s k px py res = specKNNBy (odist px py) s k res := rfl

/-! ### the same two predicates up to a relative tolerance `eps` on squared distances

Used by the judge ONLY for the families whose coordinates are not dyadic (class `…specOnly…`): there the
float64 squared distances that the code compares carry a few ulp (2^-52) of rounding, so "minimum" can be
decided by the code only up to that; the judge takes `eps = 2^-40`.  `eps = 0` is the exact Spec
(`C12_specTol_zero`).  A panic, a nil / foreign / deleted object, a wrong slot count or an answer that is
farther than the minimum by more than the tolerance is a violation whatever `eps`. -/

def specNNTol [Bounded O] [DecidableEq O] (eps : Rat) (s : List O) (px py : Rat) (o : O) : Bool :=
  decide (o ∈ s) && s.all fun o' => decide (odist px py o ≤ odist px py o' * (1 + eps))

def sortedByTol (eps : Rat) (f : O → Rat) : List O → Bool
  | [] => true
  | [_] => true
  | a :: b :: r => decide (f a ≤ f b * (1 + eps)) && sortedByTol eps f (b :: r)

def specKNNTol [Bounded O] [DecidableEq O] (eps : Rat) (s : List O) (k : Nat) (px py : Rat) (res : List (Option O)) : Bool :=
  let objs := res.filterMap id
  decide (res.length = k) &&
  decide (res = objs.map some ++ List.replicate (k - objs.length) none) &&
  decide (objs.length = min k s.length) &&
  decide ((msub s objs).length + objs.length = s.length) &&
  sortedByTol eps (odist px py) objs &&
  objs.all fun o => (msub s objs).all fun o' => decide (odist px py o ≤ odist px py o' * (1 + eps))

end GeomV.C12
