import GeomV.C11.Spec
/-
C12 — specification (independent of the model's operations).

  "On a non-empty tree NearestNeighbor(p) returns a stored object whose bounding box is at
   minimum distance from p, and NearestNeighbors(k, p) returns min(k, Size) stored objects in
   non-decreasing order of box distance whose distances are exactly the k smallest among all
   stored objects (remaining slots nil)."

Distances are squared Euclidean distances (order-equivalent to the distances themselves).
-/
namespace GeomV.C12
open GeomV.C11
variable {O : Type}

/-- squared distance between two points -/
def pdist2 (px py x y : Rat) : Rat := (px - x) * (px - x) + (py - y) * (py - y)

/-- squared distance from `p` to a box: distance to the nearest point of the box
(`C12_minDist_spec`: it is attained in the box and is a lower bound for every point of it) -/
def boxDist2 (px py : Rat) (b : Box) : Rat :=
  let cx := if px < b.minX then b.minX else if b.maxX < px then b.maxX else px
  let cy := if py < b.minY then b.minY else if b.maxY < py then b.maxY else py
  pdist2 px py cx cy

/-- squared box distance of an object -/
def odist [Bounded O] (px py : Rat) (o : O) : Rat := boxDist2 px py (Bounded.bounds o)

/-- `o` is a correct answer of NearestNeighbor for the stored multiset `s` -/
def specNN [Bounded O] [DecidableEq O] (s : List O) (px py : Rat) (o : O) : Bool :=
  decide (o ∈ s) && s.all fun o' => decide (odist px py o ≤ odist px py o')

/-- non-decreasing -/
def sortedBy (f : O → Rat) : List O → Bool
  | [] => true
  | [_] => true
  | a :: b :: r => decide (f a ≤ f b) && sortedBy f (b :: r)

/-- remove the elements of `l` from `s` one by one (multiset difference) -/
def msub [DecidableEq O] (s l : List O) : List O := l.foldl List.erase s

/-- `res` is a correct answer of NearestNeighbors(k) for the stored multiset `s`: exactly `k`
slots; the first `min k |s|` hold stored objects (as a sub-multiset), in non-decreasing order of
distance, none farther than any stored object left out; the remaining slots are nil. -/
def specKNN [Bounded O] [DecidableEq O] (s : List O) (k : Nat) (px py : Rat) (res : List (Option O)) : Bool :=
  let objs := res.filterMap id
  decide (res.length = k) &&
  decide (res = objs.map some ++ List.replicate (k - objs.length) none) &&
  decide (objs.length = min k s.length) &&
  decide ((msub s objs).length + objs.length = s.length) &&   -- objs is a sub-multiset of s
  sortedBy (odist px py) objs &&
  objs.all fun o => (msub s objs).all fun o' => decide (odist px py o ≤ odist px py o')

end GeomV.C12
