import GeomV.C12.Lemmas
/-
The fold of `nearestNeighbor` computes the minimum over everything it is allowed to skip.
-/
set_option linter.unusedVariables false
set_option linter.unusedSimpArgs false
namespace GeomV.C12
open GeomV.C11
variable {O : Type}

/-- the visiting order returned for `ds` is a permutation of the indices of `ds` -/
def OrderOK (order : List Rat → List Nat) : Prop := ∀ ds, (order ds).Perm (List.range ds.length)

def nnLeafStep (px py : Rat) (st : Option (Rat × O)) (e : Entry O) : Except Fault (Option (Rat × O)) :=
  match e with
  | .obj b o => let d := minDist px py b; pure (if better d st then some (d, o) else st)
  | .child b _ => if better (minDist px py b) st then throw Fault.nilObj else pure st

theorem nnNode_mk (order : List Rat → List Nat) (px py : Rat) (leaf : Bool) (v : Nat)
    (es : List (Entry O)) (st : Option (Rat × O)) :
    nnNode order px py (.mk leaf v es) st =
      (if leaf then es.foldlM (nnLeafStep px py) st
       else (branches order true px py (es.map Entry.bb)).foldlM (fun st (i : Nat) =>
          match es[i]? with
          | some (.child _ c) => nnNode order px py c st
          | some (.obj _ _) => throw Fault.nilDeref
          | none => throw Fault.choice) st) := by
  rw [nnNode]
  split_ifs
  · rfl
  · congr 1; funext st i
    split <;> split <;> simp_all

/-- distance of an object from the query point, as the code computes it -/
def cdist [Bounded O] (px py : Rat) (o : O) : Rat := minDist px py (Bounded.bounds o)

def leSt (st : Option (Rat × O)) (x : Rat) : Prop := ∃ d o, st = some (d, o) ∧ d ≤ x

/-- what a traversal that may only skip objects outside `S` has done to the running best -/
structure NNPost [Bounded O] (px py : Rat) (S : O → Prop) (st st' : Option (Rat × O)) : Prop where
  from_ : st' = st ∨ ∃ o, S o ∧ st' = some (cdist px py o, o)
  best : ∀ o, S o → leSt st' (cdist px py o)
  mono : ∀ x, leSt st x → leSt st' x

theorem NNPost.refl [Bounded O] (px py : Rat) (st : Option (Rat × O)) :
    NNPost px py (fun _ => False) st st :=
  ⟨Or.inl rfl, fun _ h => absurd h id, fun _ h => h⟩

theorem NNPost.comp [Bounded O] {px py : Rat} {S1 S2 : O → Prop} {st st1 st2 : Option (Rat × O)}
    (h1 : NNPost px py S1 st st1) (h2 : NNPost px py S2 st1 st2) :
    NNPost px py (fun o => S1 o ∨ S2 o) st st2 := by
  refine ⟨?_, ?_, fun x hx => h2.mono x (h1.mono x hx)⟩
  · rcases h2.from_ with h | ⟨o, ho, h⟩
    · rcases h1.from_ with g | ⟨o, ho, g⟩
      · exact Or.inl (h.trans g)
      · exact Or.inr ⟨o, Or.inl ho, h.trans g⟩
    · exact Or.inr ⟨o, Or.inr ho, h⟩
  · intro o ho
    rcases ho with ho | ho
    · exact h2.mono _ (h1.best o ho)
    · exact h2.best o ho

theorem NNPost.congr [Bounded O] {px py : Rat} {S S' : O → Prop} {st st' : Option (Rat × O)}
    (h : NNPost px py S st st') (hS : ∀ o, S o ↔ S' o) : NNPost px py S' st st' :=
  ⟨by rcases h.from_ with g | ⟨o, ho, g⟩
      · exact Or.inl g
      · exact Or.inr ⟨o, (hS o).mp ho, g⟩,
   fun o ho => h.best o ((hS o).mpr ho), h.mono⟩

theorem foldlM_post [Bounded O] {α : Type} (px py : Rat) (f : Option (Rat × O) → α → Except Fault (Option (Rat × O)))
    (S : α → O → Prop) :
    ∀ (l : List α), (∀ a ∈ l, ∀ st, ∃ st', f st a = .ok st' ∧ NNPost px py (S a) st st') →
      ∀ st, ∃ st', l.foldlM f st = .ok st' ∧ NNPost px py (fun o => ∃ a ∈ l, S a o) st st'
  | [], _, st => ⟨st, rfl, (NNPost.refl px py st).congr (by simp)⟩
  | a :: l, h, st => by
    obtain ⟨st1, h1, p1⟩ := h a List.mem_cons_self st
    obtain ⟨st2, h2, p2⟩ := foldlM_post px py f S l (fun x hx => h x (List.mem_cons_of_mem _ hx)) st1
    refine ⟨st2, ?_, (p1.comp p2).congr (by simp)⟩
    simp [List.foldlM_cons, h1, h2, bind, Except.bind]

theorem leaf_step_post [Bounded O] (px py : Rat) (o : O) (st : Option (Rat × O)) :
    NNPost px py (fun x => x = o) st
      (if better (minDist px py (Bounded.bounds o)) st then some (minDist px py (Bounded.bounds o), o) else st) := by
  cases st with
  | none =>
    simp only [better, if_true]
    exact ⟨Or.inr ⟨o, rfl, rfl⟩, fun x hx => by subst hx; exact ⟨_, _, rfl, le_refl _⟩,
      fun x ⟨_, _, h, _⟩ => by cases h⟩
  | some a =>
    obtain ⟨d, o'⟩ := a
    simp only [better, decide_eq_true_eq]
    split_ifs with hb
    · exact ⟨Or.inr ⟨o, rfl, rfl⟩, fun x hx => by subst hx; exact ⟨_, _, rfl, le_refl _⟩,
        fun x ⟨d', o'', h, hle⟩ => by cases h; exact ⟨_, _, rfl, by linarith⟩⟩
    · exact ⟨Or.inl rfl, fun x hx => by subst hx; exact ⟨d, o', rfl, by simpa [cdist] using not_lt.mp hb⟩,
        fun x h => h⟩

theorem minMinMaxDist_some (px py : Rat) : ∀ (bs : List Box) (m : Rat),
    minMinMaxDist px py bs = some m → ∃ k, ∃ hk : k < bs.length, minMaxDist px py bs[k] = m
  | [], m, h => by simp [minMinMaxDist] at h
  | b :: bs, m, h => by
    simp only [minMinMaxDist] at h
    split at h
    · cases h; exact ⟨0, by simp, rfl⟩
    · rename_i x hx
      obtain ⟨k, hk, e⟩ := minMinMaxDist_some px py bs x hx
      cases h
      split_ifs
      · exact ⟨k + 1, by simp; omega, by simpa using e⟩
      · exact ⟨0, by simp, rfl⟩

theorem minMinMaxDist_none (px py : Rat) (bs : List Box) (h : minMinMaxDist px py bs = none) : bs = [] := by
  cases bs with
  | nil => rfl
  | cons b bs => simp only [minMinMaxDist] at h; split at h <;> cases h

theorem child_env [Bounded O] {maxC h : Nat} {es : List (Entry O)} (hes : ∀ e ∈ es, wfEntry maxC h e)
    {j : Nat} {b : Box} {c : Node O} (hj : es[j]? = some (Entry.child b c)) :
    1 < h ∧ wfNode maxC (h - 1) c = true ∧ IsEnv b (c.objs.map Bounded.bounds) := by
  have := hes _ (List.mem_of_getElem? hj)
  exact ⟨this.1, this.2.1, (isEnvelope_iff _ _).mp this.2.2⟩

theorem nnNode_spec [Bounded O] {order : List Rat → List Nat} (hO : OrderOK order) (px py : Rat)
    {maxC : Nat} :
    ∀ (n : Node O) (h : Nat), wfNode maxC h n = true →
      (∀ o ∈ n.objs, (Bounded.bounds o).valid = true) → ∀ st, ∃ st',
      nnNode order px py n st = .ok st' ∧ NNPost px py (fun o => o ∈ n.objs) st st' := by
  intro n
  induction n using Node.induct with
  | h l v es ih =>
    intro h hw hv st
    have hsub : ∀ {b : Box} {c : Node O}, Entry.child b c ∈ es → ∀ o ∈ c.objs, o ∈ (Node.mk l v es).objs := by
      intro b c hm o ho
      simp only [Node.objs_mk, List.mem_flatMap]
      exact ⟨_, hm, by simpa [Entry.objs] using ho⟩
    have hw' := (wfNode_mk ..).mp hw
    obtain ⟨hv', hl, h1, hlen, hes⟩ := hw'
    rw [nnNode_mk]
    cases l with
    | true =>
      have hh : h = 1 := hl.mp rfl
      subst hh
      simp only [if_true]
      obtain ⟨st', e1, p1⟩ := foldlM_post px py (nnLeafStep px py) (fun (e : Entry O) o => o ∈ e.objs) es
        (fun e he st => by
          obtain ⟨o, rfl⟩ := wfEntry_of_leaf (hes e he)
          refine ⟨_, rfl, (leaf_step_post px py o st).congr ?_⟩
          intro x; simp [Entry.objs]) st
      exact ⟨st', e1, p1.congr (by intro o; simp [Node.objs_mk, List.mem_flatMap])⟩
    | false =>
      have hh : 1 < h := by
        rcases Nat.lt_or_ge 1 h with g | g
        · exact g
        · have : h = 1 := by omega
          exact absurd (hl.mpr this) (by simp)
      simp only [Bool.false_eq_true, if_false]
      -- every index of the visiting order is a child
      have hidx : ∀ i, i ∈ order ((es.map Entry.bb).map (minDist px py)) ↔ i < es.length := by
        intro i; rw [(hO _).mem_iff]; simp
      have hchild : ∀ i, i < es.length → ∃ b c, es[i]? = some (Entry.child b c) := by
        intro i hi
        have hm := hes _ (List.getElem_mem hi)
        cases he : es[i] with
        | obj b o => rw [he] at hm; have := hm.1; omega
        | child b c => exact ⟨b, c, by rw [List.getElem?_eq_getElem hi, he]⟩
      set K := branches order true px py (es.map Entry.bb) with hK
      have hKsub : ∀ i ∈ K, i < es.length := by
        intro i hi
        rw [hK] at hi
        unfold branches at hi
        simp only [if_true] at hi
        split at hi
        · simp at hi
        · exact (hidx i).mp (List.mem_filter.mp hi).1
      obtain ⟨st', e1, p1⟩ := foldlM_post px py
        (fun st (i : Nat) => match es[i]? with
          | some (.child _ c) => nnNode order px py c st
          | some (.obj _ _) => throw Fault.nilDeref
          | none => throw Fault.choice)
        (fun (i : Nat) o => ∃ b c, es[i]? = some (Entry.child b c) ∧ o ∈ c.objs) K
        (fun i hi st => by
          obtain ⟨b, c, hc⟩ := hchild i (hKsub i hi)
          obtain ⟨_, hwc, _⟩ := child_env hes hc
          obtain ⟨st', e, p⟩ := ih b c (List.mem_of_getElem? hc) (h - 1) hwc
            (fun o ho => hv o (hsub (List.mem_of_getElem? hc) o ho)) st
          refine ⟨st', by simp only [hc]; exact e, p.congr ?_⟩
          intro o
          constructor
          · intro ho; exact ⟨b, c, hc, ho⟩
          · rintro ⟨b', c', hc', ho⟩
            rw [hc] at hc'; cases hc'; exact ho) st
      refine ⟨st', e1, ?_, ?_, p1.mono⟩
      · rcases p1.from_ with g | ⟨o, ⟨i, hi, b, c, hc, ho⟩, g⟩
        · exact Or.inl g
        · refine Or.inr ⟨o, ?_, g⟩
          simp only [Node.objs_mk, List.mem_flatMap]
          exact ⟨_, List.mem_of_getElem? hc, by simpa [Entry.objs] using ho⟩
      · intro o ho
        simp only [Node.objs_mk, List.mem_flatMap] at ho
        obtain ⟨e, he, hoe⟩ := ho
        obtain ⟨j, hj, hje⟩ := List.getElem_of_mem he
        obtain ⟨b, c, hc⟩ := hchild j hj
        have hec : e = Entry.child b c := by
          rw [List.getElem?_eq_getElem hj, hje] at hc; exact Option.some.inj hc
        subst hec
        simp only [Entry.objs] at hoe
        obtain ⟨_, hwc, henvc⟩ := child_env hes hc
        by_cases hjK : j ∈ K
        · exact p1.best o ⟨j, hjK, b, c, hc, hoe⟩
        · -- pruned: some kept branch holds an object at least as near
          rw [hK] at hjK
          unfold branches at hjK
          simp only [if_true] at hjK
          have hne : es.map Entry.bb ≠ [] := by
            intro h0; have := List.map_eq_nil_iff.mp h0; subst this; simp at hj
          cases hmm : minMinMaxDist px py (es.map Entry.bb) with
          | none => exact absurd (minMinMaxDist_none px py _ hmm) hne
          | some mmd =>
            rw [hmm] at hjK
            simp only at hjK
            have hjidx := (hidx j).mpr hj
            have hdsj : ((es.map Entry.bb).map (minDist px py))[j]? = some (minDist px py b) := by
              simp [List.getElem?_map, hc, Entry.bb]
            have hgt : mmd < minDist px py b := by
              by_contra hle
              apply hjK
              rw [List.mem_filter]
              refine ⟨hjidx, ?_⟩
              simp only [hdsj, decide_eq_true_eq]
              exact not_lt.mp hle
            obtain ⟨k, hk, ek⟩ := minMinMaxDist_some px py _ mmd hmm
            have hk' : k < es.length := by simpa using hk
            obtain ⟨bk, ck, hck⟩ := hchild k hk'
            have ebk : (es.map Entry.bb)[k] = bk := by
              simp only [List.getElem_map]
              rw [List.getElem?_eq_getElem hk'] at hck
              rw [Option.some.inj hck]; rfl
            rw [ebk] at ek
            obtain ⟨_, hwck, henvk⟩ := child_env hes hck
            obtain ⟨x, hx, hxle⟩ := minMaxDist_spec px py henvk (by
              intro x hx; obtain ⟨o', ho', rfl⟩ := List.mem_map.mp hx
              exact hv o' (hsub (List.mem_of_getElem? hck) o' ho'))
            obtain ⟨ostar, hostar, rfl⟩ := List.mem_map.mp hx
            have hmono : minDist px py bk ≤ minDist px py (Bounded.bounds ostar) :=
              minDist_mono px py (henvk.lo _ hx) (hv ostar (hsub (List.mem_of_getElem? hck) ostar hostar))
            have hkK : k ∈ K := by
              rw [hK]; unfold branches; simp only [if_true, hmm]
              rw [List.mem_filter]
              refine ⟨(hidx k).mpr hk', ?_⟩
              have : ((es.map Entry.bb).map (minDist px py))[k]? = some (minDist px py bk) := by
                simp [List.getElem?_map, hck, Entry.bb]
              simp only [this, decide_eq_true_eq]
              linarith
            obtain ⟨d', o', hst', hd'⟩ := p1.best ostar ⟨k, hkK, bk, ck, hck, hostar⟩
            have hmonoj : minDist px py b ≤ minDist px py (Bounded.bounds o) :=
              minDist_mono px py (henvc.lo _ (List.mem_map_of_mem hoe)) (hv o (hsub (List.mem_of_getElem? hc) o hoe))
            exact ⟨d', o', hst', by simp only [cdist] at hd' ⊢; linarith⟩

end GeomV.C12
