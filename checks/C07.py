T = "GeomV.C07."
CFG = {
    "id": "C07",
    "lean_modules": ["GeomV.C07.Proofs"],
    "exe": "geomv_c07",
    "go_cmd": "c07",
    "stages": ["go:gen", "go:impl", "lean:judge"],
    "theorems": [T + n for n in [
        "C07_wkb_erase", "C07_wkb_total", "C07_wkb_depth", "C07_wkb_alloc", "C07_wkb_alloc_spec", "C07_wkb_alloc_unfixed_false",
        "C07_wkb_decoded_encodable", "C07_reencode_stable", "C07_hex_total", "C07_hex_alloc",
        "C07_json_total", "C07_json_guards", "C07_json_text_total", "C07_json_alloc",
    ]],
    "trusted_base": [
        "Lean 4.33.0 kernel; axioms of every theorem printed by #print axioms must be within {propext, Classical.choice, Quot.sound}",
        "model lean/GeomV/C07/Model.lean (cost-instrumented readers, proved to erase to the C05 model) is tied to /repo/encoding/{wkb,hex,geojson} by the "
        "correspondence run on every check: same status/error class/decoded geometry, and measured TotalAlloc within an explicit envelope of the model's cost",
        "the Go runtime and standard library are a contract, measured not proved: append growth (<= 6.25x), binary.Read's scratch buffer (1x), boxing of "
        "members, encoding/json (RFC 8259 syntax, correctly rounded numbers, key folding, allocation proportional to the text) — JsonText.lean states the part Decode depends on",
        "runtime.MemStats.TotalAlloc measures the bytes allocated by the call (single goroutine, measured around the call only); RLIMIT_AS on the worker process turns runaway allocation into a reported oom",
        "harness/cmd/c07 (supervisor + memory-limited worker) + lean driver + lib/vcheck.py transport inputs faithfully",
    ],
    "assumptions": [
        "64-bit platform (a uint32 count never exceeds the maximum slice length, so make() cannot panic)",
        "allocation bound constants: 64*len + 64 KiB for wkb/hex and for Geometry values (len = nodes), 128*len + 64 KiB for JSON text (encoding/json alone "
        "needs ~75 bytes per input byte on nested empty-key objects); stack growth (process-wide StackInuse) <= 128*len + 1 MiB",
        "re-encode stability for Geometry VALUES holding NaN/Inf (not expressible in JSON text) means: the encoder returns an error",
    ],
    "rule": "valid WKB encodings (7 types, nesting <= 4, per-element byte orders) mutated by truncation at every offset (encodings <= 512 B), count fields "
            "replaced by {len+1, 2^16, 2^28, 2^31, 2^32-1, +-1, byte-swapped} at every count position, type codes and byte-order flags replaced at every position, "
            "single/double bit flips; lying counts at every reader and nesting level; chunk-boundary point counts (1023..4094) honest/short/inflated; allocation-heavy "
            "honest shapes to 64 KiB; collection chains to depth 7281 (64 KiB); random and structured-random bytes to 64 KiB; each also through hex.Decode and through "
            "wkb.Read on a short-read reader; JSON: fixed corpus of malformed documents, number edge cases, nesting to 32000, allocation-heavy documents, grammar-generated "
            "GeoJSON damaged structurally (wrong depth, ragged, wrong leaf types, arity, empty first/last members), key variants (case/fold/duplicate/missing), syntactic "
            "damage, random bytes; arbitrary Geometry values (typed slices, ints, nil, geom values, NaN/Inf) for FromGeoJSON. distinct = distinct input line",
    "trivial_class": r"^bad-line$",
    "timeout": {"quick": 900, "thorough": 3000},
}
