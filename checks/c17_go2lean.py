"""T1 tie for C17: regenerate Lean definitions of the WKT builders straight from the Go source.

A deliberately tiny translator for the statement forms that occur in /repo/encoding/wkt/*.go
(gofmt layout).  Anything outside this subset raises Untranslatable: the source has left the
subset and the tie is reported broken.

  dst = append(dst, []byte("LIT")...)          -> let dst := dst ++ "LIT".toList
  dst = append(dst, 'c')                       -> let dst := dst ++ ['c']
  dst = strconv.AppendFloat(dst, v.X, 'g', -1, 64)   -> let dst := dst ++ fmt v.x      (exactly 'g', -1, 64)
  dst = f(dst, v) / f(dst, &v)                 -> let dst := f fmt dst v
  for i, v := range xs { body }                -> auxiliary recursive definition f_loopK fmt n i dst xs
  if i != 0 { body } / if i != len(xs)-1 { body }    -> if i ≠ 0 / if i + 1 ≠ n
  return dst
  Encode: switch g.(type) { case geom.T: ... return f(nil, v), nil ... default: return nil, &Unsupported... }
"""
import os, re


class Untranslatable(Exception):
    pass


TYPES = {
    "*geom.Point": "Pt F", "geom.Point": "Pt F",
    "[]geom.Point": "List (Pt F)", "geom.LineString": "List (Pt F)", "geom.Path": "List (Pt F)",
    "[]geom.Path": "List (List (Pt F))", "geom.Polygon": "List (List (Pt F))",
    "geom.MultiLineString": "List (List (Pt F))",
    "geom.MultiPolygon": "List (List (List (Pt F)))",
}
ELEM = {"List (Pt F)": "Pt F", "List (List (Pt F))": "List (Pt F)", "List (List (List (Pt F)))": "List (List (Pt F))"}
CTOR = {"Point": "point", "LineString": "lineString", "MultiLineString": "multiLineString", "Polygon": "polygon",
        "MultiPolygon": "multiPolygon", "MultiPoint": "multiPoint", "GeometryCollection": "collection"}
FILES = ["point.go", "linestring.go", "polygon.go", "multilinestring.go", "multipolygon.go"]


def lean_char(c):
    if c in ("\\'", "\\\\") or len(c) != 1 or not (32 <= ord(c) < 127):
        raise Untranslatable("character literal %r" % c)
    return "'%s'" % c


def lean_str(s):
    if not all(32 <= ord(ch) < 127 and ch not in '"\\' for ch in s):
        raise Untranslatable("string literal %r" % s)
    return '"%s".toList' % s


class Fn:
    def __init__(self, name, pname, ptype):
        self.name, self.pname, self.ptype = name, pname, ptype
        self.aux = []      # auxiliary loop definitions (text)
        self.nloops = 0


def translate_block(fn, lines, pos, indent, env, loopctx):
    """translate statements at `indent` tabs starting at lines[pos]; returns (list of lean let-lines, new pos).
    env: go variable -> lean type; loopctx: (idx var, coll var) of the innermost loop or None"""
    out = []
    tab = "\t" * indent
    while pos < len(lines):
        raw = lines[pos]
        if not raw.strip():
            pos += 1
            continue
        if not raw.startswith(tab) or raw.startswith(tab + "\t"):
            if raw.startswith(tab + "\t"):
                raise Untranslatable("unexpected indentation: " + raw.strip())
            break
        st = raw.strip()
        if st == "}":
            break
        m = re.fullmatch(r'dst = append\(dst, \[\]byte\("((?:[^"\\]|\\.)*)"\)\.\.\.\)', st)
        if m:
            out.append("let dst := dst ++ %s" % lean_str(m.group(1)))
            pos += 1
            continue
        m = re.fullmatch(r"dst = append\(dst, '((?:[^'\\]|\\.)+)'\)", st)
        if m:
            out.append("let dst := dst ++ [%s]" % lean_char(m.group(1)))
            pos += 1
            continue
        m = re.fullmatch(r"dst = strconv\.AppendFloat\(dst, (\w+)\.(X|Y), (.+)\)", st)
        if m:
            if m.group(3) != "'g', -1, 64":
                raise Untranslatable("AppendFloat format arguments are %s, not 'g', -1, 64" % m.group(3))
            if env.get(m.group(1)) != "Pt F":
                raise Untranslatable("AppendFloat of a non-point: " + st)
            out.append("let dst := dst ++ fmt %s.%s" % (m.group(1), m.group(2).lower()))
            pos += 1
            continue
        m = re.fullmatch(r"dst = (append\w+)\(dst, &?(\w+)\)", st)
        if m:
            if m.group(2) not in env:
                raise Untranslatable("unknown variable in " + st)
            out.append("let dst := %s fmt dst %s" % (m.group(1), m.group(2)))
            pos += 1
            continue
        m = re.fullmatch(r"for (\w+), (\w+) := range (\w+) \{", st)
        if m:
            idx, var, coll = m.groups()
            ctype = env.get(coll)
            if ctype not in ELEM:
                raise Untranslatable("range over " + coll)
            fn.nloops += 1
            lname = "%s_loop%d" % (fn.name, fn.nloops)
            env2 = dict(env)
            env2[var] = ELEM[ctype]
            body, pos2 = translate_block(fn, lines, pos + 1, indent + 1, env2, (idx, coll))
            if pos2 >= len(lines) or lines[pos2].rstrip() != tab + "}":
                raise Untranslatable("unterminated for loop")
            # free variables of the body other than the element: pass the function parameter through
            extra = "" if fn.pname in (coll,) else ""
            aux = ["def %s (fmt : F → List Char) (n : Nat) : Nat → List Char → %s → List Char" % (lname, ctype),
                   "  | _, dst, [] => dst",
                   "  | %s, dst, %s :: rest =>" % (idx, var)]
            aux += ["    " + l for l in body]
            aux += ["    %s fmt n (%s+1) dst rest" % (lname, idx)]
            fn.aux.append("\n".join(aux))
            out.append("let dst := %s fmt %s.length 0 dst %s" % (lname, coll, coll))
            pos = pos2 + 1
            continue
        m = re.fullmatch(r"if (\w+) != (.+) \{", st)
        if m:
            if not loopctx or m.group(1) != loopctx[0]:
                raise Untranslatable("condition on something that is not the loop index: " + st)
            if m.group(2) == "0":
                cond = "%s ≠ 0" % loopctx[0]
            elif m.group(2) == "len(%s)-1" % loopctx[1]:
                cond = "%s + 1 ≠ n" % loopctx[0]
            else:
                raise Untranslatable("loop condition " + st)
            body, pos2 = translate_block(fn, lines, pos + 1, indent + 1, env, loopctx)
            if pos2 >= len(lines) or lines[pos2].rstrip() != tab + "}":
                raise Untranslatable("if with else / unterminated if: " + st)
            out.append("let dst := if %s then (%s; dst) else dst" % (cond, "; ".join(body)))
            pos = pos2 + 1
            continue
        if st == "return dst":
            pos += 1
            # must be the last statement of the function body
            out.append("RETURN")
            continue
        raise Untranslatable("statement outside the subset: " + st)
    return out, pos


def translate_file(src):
    """returns list of (name, lean text)"""
    # join the one multi-line signature form gofmt produces
    src = re.sub(r"\(dst \[\]byte,\n\s*", "(dst []byte, ", src)
    lines = src.split("\n")
    res = []
    i = 0
    while i < len(lines):
        l = lines[i]
        if l.startswith("func "):
            m = re.fullmatch(r"func (\w+)\(dst \[\]byte, (\w+) ([\w\.\*\[\]]+)\) \[\]byte \{", l)
            if not m:
                raise Untranslatable("function signature: " + l)
            name, pname, gtype = m.groups()
            if gtype not in TYPES:
                raise Untranslatable("parameter type " + gtype)
            fn = Fn(name, pname, TYPES[gtype])
            body, j = translate_block(fn, lines, i + 1, 1, {pname: TYPES[gtype]}, None)
            if j >= len(lines) or lines[j] != "}":
                raise Untranslatable("function %s not closed where expected" % name)
            if not body or body[-1] != "RETURN" or "RETURN" in body[:-1]:
                raise Untranslatable("function %s does not end in a single `return dst`" % name)
            text = "\n\n".join(fn.aux)
            if text:
                text += "\n\n"
            text += "def %s (fmt : F → List Char) (dst : List Char) (%s : %s) : List Char :=\n" % (name, pname, fn.ptype)
            text += "".join("  %s\n" % b for b in body[:-1]) + "  dst"
            res.append((name, text))
            i = j + 1
            continue
        if l.startswith("import") or l.startswith("package") or l.startswith(")") or l.startswith("\t\"") or not l.strip() or l.startswith("//"):
            i += 1
            continue
        raise Untranslatable("top-level form: " + l)
    return res


def translate_encode(src):
    m = re.search(r"func Encode\(g geom\.Geom\) \(\[\]byte, error\) \{\n\tswitch g\.\(type\) \{\n(.*?)\n\t\}\n\}", src, flags=re.S)
    if not m:
        raise Untranslatable("Encode is not a single type switch")
    body = m.group(1)
    parts = re.split(r"\n(?=\t(?:case |default:))", "\n" + body)
    arms = []
    default = None
    for p in parts:
        p = p.strip("\n")
        if not p.strip():
            continue
        head, _, rest = p.partition("\n")
        head = head.strip()
        rets = re.findall(r"^\t\treturn (.*)$", rest, flags=re.M)
        if len(rets) != 1:
            raise Untranslatable("Encode arm with %d returns: %s" % (len(rets), head))
        other = [x.strip() for x in rest.split("\n") if x.strip() and not x.strip().startswith("return ")]
        if head == "default:":
            if other or not re.fullmatch(r"nil, &UnsupportedGeometryError\{reflect\.TypeOf\(g\)\}", rets[0]):
                raise Untranslatable("Encode default arm: " + rest.strip())
            default = "unsupported"
            continue
        mh = re.fullmatch(r"case geom\.(\w+):", head)
        if not mh or mh.group(1) not in CTOR:
            raise Untranslatable("Encode case label: " + head)
        ty = mh.group(1)
        var = None
        for o in other:
            mo = re.fullmatch(r"(\w+) := g\.\(geom\.%s\)" % ty, o)
            if not mo:
                raise Untranslatable("Encode arm statement: " + o)
            var = mo.group(1)
        mr = re.fullmatch(r"(append\w+)\(nil, &?(\w+)\), nil", rets[0])
        if not mr or mr.group(2) != var:
            raise Untranslatable("Encode arm return: " + rets[0])
        arms.append((CTOR[ty], mr.group(1)))
    if default != "unsupported":
        raise Untranslatable("Encode has no default arm returning UnsupportedGeometryError")
    seen = set()
    out = ["def encode (fmt : F → List Char) : Geom F → Except Err (List Char)"]
    for c, f in arms:
        if c in seen:
            raise Untranslatable("duplicate case " + c)
        seen.add(c)
        out.append("  | .%s v => .ok (%s fmt [] v)" % (c, f))
    out.append("  | _ => .error .unsupported")
    return "\n".join(out)


def translate_wkt(src):
    """wkt.go: the error type and its message.  Exactly
         type UnsupportedGeometryError struct { Type reflect.Type }
         func (e UnsupportedGeometryError) Error() string { return "LIT" + e.Type.String() }"""
    body = "\n".join(l for l in src.split("\n") if l.strip() and not l.startswith("//"))
    m = re.fullmatch(r'package wkt\nimport \(\n\t"reflect"\n\)\n'
                     r'type UnsupportedGeometryError struct \{\n\tType reflect\.Type\n\}\n'
                     r'func \(e \*?UnsupportedGeometryError\) Error\(\) string \{\n'
                     r'\treturn "([^"\\]*)" \+ e\.Type\.String\(\)\n\}', body)
    if not m:
        raise Untranslatable("wkt.go is not the UnsupportedGeometryError type with Error() = literal + e.Type.String()")
    lit = m.group(1)
    if not all(32 <= ord(ch) < 127 for ch in lit):
        raise Untranslatable("string literal %r" % lit)
    return 'def errorText (typeName : String) : String := "%s" ++ typeName' % lit


HEADER = """import GeomV.C17.Model
/-!
REGENERATED on every run of `bin/check C17` by checks/c17_go2lean.py from
%s/encoding/wkt/{point,linestring,polygon,multilinestring,multipolygon,encode,wkt}.go — do not edit.
`GeomV/C17/Tie.lean` proves these definitions equal to the hand-written model, so the C17 theorems
are re-checked against what the source says now.
-/
namespace GeomV.C17.Gen
open GeomV
variable {F : Type}

"""


def generate(repo):
    d = os.path.join(repo, "encoding", "wkt")
    defs = []
    for f in FILES:
        defs += translate_file(open(os.path.join(d, f)).read())
    order = ["appendPointCoords", "appendPointsCoords", "appendPointssCoords", "appendPointWKT", "appendLineStringWKT",
             "appendPolygonWKT", "appendMultiLineStringWKT", "appendMultiPolygonWKT"]
    names = [n for n, _ in defs]
    if sorted(names) != sorted(order):
        raise Untranslatable("set of builder functions changed: %s" % sorted(names))
    byname = dict(defs)
    text = HEADER % "/repo"
    text += "\n\n".join(byname[n] for n in order)
    text += "\n\n" + translate_encode(open(os.path.join(d, "encode.go")).read())
    text += "\n\n" + translate_wkt(open(os.path.join(d, "wkt.go")).read()) + "\n\nend GeomV.C17.Gen\n"
    return text


def pregen(check):
    import vcheck
    path = os.path.join(vcheck.LEAN, "GeomV", "C17", "Gen.lean")
    try:
        text = generate(vcheck.REPO)
    except (Untranslatable, OSError) as e:
        check.broken.append("T1 tie: encoding/wkt left the translatable subset: %s" % e)
        # deterministic state: a Gen.lean that does not elaborate, so the tie obligations are reported
        # as not discharged instead of being checked against a stale translation
        msg = str(e).replace('"', "'").replace("\\", "/")
        text = ("import GeomV.C17.Model\n/-! The T1 translator could not translate the current source. -/\n"
                "example : \"untranslatable: %s\" = \"\" := by decide\n" % msg)
    old = open(path).read() if os.path.exists(path) else None
    if old != text:
        open(path, "w").write(text)


if __name__ == "__main__":
    import sys
    print(generate(sys.argv[1] if len(sys.argv) > 1 else "/repo"))
