T = "GeomV.C01."
CFG = {
    "id": "C01",
    "lean_modules": ["GeomV.C01.Proofs"],
    "exe": "geomv_c01",
    "go_cmd": "c01",
    "stages": ["go:gen", "go:impl", "lean:judge"],
    "theorems": [T + n for n in ["C01_pointset", "C01_closed", "C01_empty_only_if_null", "C01_xor_defect_before_fix",
                                 "construct_pointset", "boundsIntersection_pointset", "not_both_inside", "insideRing_rect", "inBox_of_inside"]],
    "level": "proof",
    "trusted_base": [
        "Lean 4.33.0 kernel; axioms of every theorem printed by #print axioms must be within {propext, Classical.choice, Quot.sound}",
        "the sweep-line core of github.com/ctessum/polyclip-go v1.1.0 (everything in clipper.compute after its two trivial-case tests) is a PARAMETER of the model with the explicit contract hypothesis CoreSpec; it is exercised and checked against the exact Rat sample-point oracle on every generated case, not proved",
        "model lean/GeomV/C01/Model.lean (geom glue, *Bounds shortcuts, polyclip trivial-case tables) is tied to /repo/{polygon,multipolygon,bounds}.go and polyclip-go@v1.1.0/clipper.go by the correspondence run on every check (exact comparison of every result the model determines)",
        "IEEE-754 rounding: operands are integer-grid (exact); the clipper's intersection points are floats, compared through sample points with a 1e-6 margin from every input edge",
        "harness/cmd/c01 + lean driver + lib/vcheck.py transport inputs faithfully",
    ],
    "assumptions": ["finite coordinates (no NaN/Inf); membership is the even-odd rule over all rings of all member polygons (what geom.pointInPolygonal implements)"],
    "rule": "integer-grid operand pairs (star-shaped / rectilinear / inscribed-convex / rectangular shells, 0-2 holes strictly inside, multi-polygons of 1-3 disjoint members incl. a member inside another's hole, boxes) in forced configuration classes "
            "(overlapping, nested, disjoint-with-overlapping-boxes, box-disjoint, box-separated along exactly one axis, identical boxes) x 9 receiver/argument type pairs x 4 operations + area identities; "
            "distinct = distinct input line; non-trivial = verdict class not '-outside-quantifier' (invalid or non-general-position corpus cases, compared with the model only)",
    "trivial_class": r"outside-quantifier$",
    "timeout": {"quick": 600, "thorough": 3000},
    "explanation": "partial: glue, both trivial-case tables and all *Bounds shortcuts are proved for all inputs conditional on CoreSpec; the sweep-line core is exercised (CoreSpec checked per case by an exact oracle), not proved",
}
