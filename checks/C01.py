T = "GeomV.C01."

# ---- pin of the external clipper: the model's transcription of clipper.compute's two trivial-case
# tests (lean/GeomV/C01/Model.lean `construct`) is valid for exactly this source.
import hashlib, os, re, subprocess
POLYCLIP = "github.com/ctessum/polyclip-go"
POLYCLIP_VERSION = "v1.1.0"
POLYCLIP_H1 = "h1:TGMfwMynNykXwCZCxI+CHdjo/ZE9JThup/gmrgigGEE="
POLYCLIP_FILES = {
    "clipper.go": "58a5302a1b9ed2682a48c4974c2467e31691f7bc4d12f0e0d09d7834f4ec4248",
    "geom.go": "8c6b749c2ccc251e30ebb40baab5d866343500beecf65f0255ba4f8cf869bcad",
    "connector.go": "a2d4a6c0e589b894db141c804ea2ef449a413b9e6c2f05f44a837f4f51f7c77a",
}


def pin_polyclip(check):
    import vcheck
    repo = vcheck.REPO
    try:
        mod = open(os.path.join(repo, "go.mod")).read()
        m = re.search(r"^\s*(?:require\s+)?%s\s+(\S+)" % re.escape(POLYCLIP), mod, flags=re.M)
        if not m or m.group(1) != POLYCLIP_VERSION:
            check.broken.append("go.mod requires %s %s; the trivial-case tables of the model were transcribed from %s"
                                % (POLYCLIP, m.group(1) if m else "?", POLYCLIP_VERSION))
            return
        rep = re.search(r"^\s*replace\s+%s\b.*$" % re.escape(POLYCLIP), mod, flags=re.M)
        if rep:
            check.broken.append("go.mod replaces the clipper: " + rep.group(0).strip())
            return
        gs = open(os.path.join(repo, "go.sum")).read()
        if ("%s %s %s" % (POLYCLIP, POLYCLIP_VERSION, POLYCLIP_H1)) not in gs:
            check.broken.append("go.sum hash of %s %s differs from the pinned %s" % (POLYCLIP, POLYCLIP_VERSION, POLYCLIP_H1))
            return
        cache = subprocess.run(["go", "env", "GOMODCACHE"], env=vcheck.GOENV, stdout=subprocess.PIPE, text=True).stdout.strip()
        d = os.path.join(cache, POLYCLIP + "@" + POLYCLIP_VERSION)
        for fn, want in POLYCLIP_FILES.items():
            got = hashlib.sha256(open(os.path.join(d, fn), "rb").read()).hexdigest()
            if got != want:
                check.broken.append("module cache %s/%s differs from the transcribed source (sha256 %s)" % (d, fn, got[:16]))
    except Exception as e:  # unreadable go.mod etc.: the tie cannot be established
        check.broken.append("cannot establish the polyclip pin: %r" % e)

TIE_MODULE = T + "Ties"
TIE_THEOREMS = ["C01_tie_toPolyClip", "C01_tie_polyClipToPolygon", "C01_tie_clipperOp", "C01_tie_Polygons", "C01_tie_op", "C01_tie_multi_op",
                "C01_tie_Polygon_methods", "C01_tie_MultiPolygon_methods", "C01_tie_Bounds_delegates", "C01_tie_Bounds_Intersection", "C01_src_api"]


def regen_glue(check):
    """T1: regenerate lean/GeomV/C01/Gen.lean from polygon.go / multipolygon.go / bounds.go of the tree under test
    (written only when it changed).  If a function left the translatable subset, or the regenerated definitions no
    longer denote the model's functions (Ties.lean does not build), the tie is reported broken and the Ties module is
    left out so that the other obligations are still audited."""
    import vcheck
    cfg = check.cfg

    def drop(why):
        cfg["lean_modules"] = [m for m in cfg["lean_modules"] if m != TIE_MODULE]
        check.broken.append(why)
    ok, gobin, out = vcheck.go_build("c01", check.rundir)
    if not ok:
        return  # reported by the harness build of the main flow
    p = subprocess.run([gobin, "extract", "--repo", vcheck.REPO], stdout=subprocess.PIPE, stderr=subprocess.PIPE, text=True)
    if p.returncode not in (0, 3) or not p.stdout.startswith("import"):
        drop("T1 tie: extractor failed: " + p.stderr.strip()[-300:])
        return
    gen = os.path.join(vcheck.LEAN, "GeomV", "C01", "Gen.lean")
    old = open(gen).read() if os.path.exists(gen) else ""
    if old != p.stdout:
        with open(gen + ".tmp%d" % os.getpid(), "w") as f:
            f.write(p.stdout)
        os.replace(gen + ".tmp%d" % os.getpid(), gen)
    if p.returncode == 3:
        drop("T1 tie: " + p.stderr.strip()[-600:])
        return
    with vcheck.Lock("lake"):
        b = subprocess.run(["lake", "build", TIE_MODULE], cwd=vcheck.LEAN, stdout=subprocess.PIPE, stderr=subprocess.STDOUT, text=True)
    if b.returncode != 0:
        errs = re.findall(r"error: .*", b.stdout)[:3]
        drop("T1 tie broken: the boolean-operation glue regenerated from polygon.go / multipolygon.go / bounds.go no longer denotes the model "
             "(GeomV.C01.Ties does not build): " + " | ".join(errs))


def pregen(check):
    pin_polyclip(check)
    regen_glue(check)


CFG = {
    "id": "C01",
    "lean_modules": ["GeomV.C01.Proofs", "GeomV.C01.ProofsCert", "GeomV.C01.ProofsPrep", "GeomV.C01.ProofsArea", TIE_MODULE],
    "exe": "geomv_c01",
    "go_cmd": "c01",
    "stages": ["go:gen", "lean:prep", "go:impl", "lean:judge"],
    "theorems": [T + n for n in ["C01_pointset", "C01_closed", "C01_empty_only_if_null", "C01_xor_defect_before_fix", "C01_pointset_natural", "C01_inclusion_exclusion_pointwise", "member_eq_memberNat",
                                 "construct_pointset", "boundsIntersection_pointset", "not_both_inside", "insideRing_rect", "inBox_of_inside", "inside_const", "edge_lemma", "member_const", "sample_cell_const", "slab_cell_free", "slabCell_sound",
                                 "C01_certificate_sound", "C01_certificate_exact", "C01_certificate_coreSpec_case", "C01_inclusion_exclusion_cells", "slab_sound", "nearSeg_convex", "chain_pairwise", "split_at", "C01_library_within_judged", "withinCheck_none", "clearOf_mono", "C01_cells_asked", "C01_every_cell_asked", "prep_slab", "C01_area_certificate", "green_weighted", "cellSum_alt", "edge_total", "goShoelace_eq"] + TIE_THEOREMS],
    "level": "proof",
    "trusted_base": [
        "Lean 4.33.0 kernel; axioms of every theorem printed by #print axioms must be within {propext, Classical.choice, Quot.sound}",
        "the sweep-line core of github.com/ctessum/polyclip-go v1.1.0 (everything in clipper.compute after its two trivial-case tests) is a PARAMETER of the model with the explicit contract hypothesis CoreSpec; it is not proved for all inputs, but on every generated case the implementation's answer is passed through the certificate checker certCheck (exact Rat), which is PROVED sound (C01_certificate_sound: accepted => truth table at every point with clear margin 1e-6*extent from the input edges; margin 0 => every off-boundary point)",
        "T1: harness/cmd/c01/extract.go (go/ast; translation table in its header; approach of harness/cmd/c14/extract.go extended by if/else chains, `v, ok := p.(*Bounds)`, &Bounds{..}, math.Max/Min, nil / interface-typed returns) regenerates lean/GeomV/C01/Gen.lean from polygon.go / multipolygon.go / bounds.go of the tree under test on every run, in a faulting monad (index, slice, make are partial: GenLib.lean); Ties.lean proves that the twelve public methods Polygon/MultiPolygon/(*Bounds).Intersection/Union/XOr/Difference, both op methods, clipperOp, toPolyClip, polyClipToPolygon and the three Polygons() as regenerated return WITHOUT FAULT exactly the model's api / polyOp / boundsIntersection (C01_src_api; for a *Bounds receiver under the explicit hypothesis that it is not the empty box). Not regenerated (hand-written in GenLib.lean, tied by the correspondence run only): Bounds() of a Polygonal, (*Bounds).Within and (*Bounds).Overlaps on *Bounds arguments, with the empty box of NewBounds() as a separate value (its infinite corners have no Rat value); math.Max/Min are max/min on Rat (finite coordinates). Not modelled by the translation: slice capacity (taken = length) and aliasing (observed by the harness: operands compared with a snapshot after every call, histories on one object, concurrent callers)",
        "the head of polyclip's clipper.compute (construct: the two trivial-case tests), BoundingBox and Overlaps are transcribed by hand in lean/GeomV/C01/Model.lean and pinned by version + go.sum hash + sha256 of clipper.go/geom.go/connector.go (pin_polyclip); tied by the correspondence run on every check (exact comparison of every result the model determines)",
        "IEEE-754 rounding: operands are dyadic-grid (exact); the clipper's intersection points are floats: sliver cells between an input edge and its rounded copy are accepted only when all four corners lie within 1e-6*extent of ONE input edge (convexity of the margin zone proved: nearSeg_convex)",
        "polyArea / holeSign (lean/GeomV/C01/AreaCert.lean) transcribe Polygon.Area of area.go by hand for rings whose first vertex lies on no other ring (checked per case: firstOff); tied by comparing the library's float Area() with exactArea on every area-certified result and operand (1e-9 relative)",
        "harness/cmd/c01 + lean driver + lib/vcheck.py transport inputs faithfully (the cell points handed over by lean:prep are re-derived by the judge and compared with what the harness echoed)",
    ],
    "assumptions": ["finite coordinates (no NaN/Inf); membership is the even-odd rule over all rings of all member polygons (what geom.pointInPolygonal implements)"],
    "rule": "integer-grid operand pairs (star-shaped / rectilinear / inscribed-convex / rectangular shells, 0-2 holes strictly inside, multi-polygons of 1-3 disjoint members incl. a member inside another's hole, boxes) in forced configuration classes "
            "(overlapping, nested, disjoint-with-overlapping-boxes, box-disjoint, box-separated along exactly one axis, identical boxes, every vertex of one operand in the solid part of the other without being a subset: surrounding a hole / bridging a notch) x 9 receiver/argument type pairs x 4 operations + area identities (operands compared with a snapshot after the Area calls and after the operations); the library's Point.Within asked about every result at up to 96 probe points (beside the edge midpoints of result and operands, ring corner centroids) AND at one point of every cell of the operands' arrangement (lean:prep stage, C01_cells_asked), judged by Spec.withinAgrees at the probes with clear margin; Area() of every result and of both operands against the exact area of the point set (area certificate, C01_area_certificate); operands without contours in either role against closed and unclosed rings; boxes sharing exactly one corner; multi-polygons with an empty member at a random position; a result ring of >128 (thorough >1024) vertices; concurrent lines (cc: the case recomputed by 8 goroutines while 8 others run the operations on unrelated operands; any answer that differs from the sequential one is judged); "
            "40% of the cases at coordinate scales 2^-20/2^-24/2^-30/2^+20 (dyadic: exact), multi-call histories on one line with operands overwritten in place, operands over one flat backing array and compared with a snapshot after each call, size-threshold cases (vertex/ring/member counts beyond 64/128/1024; lines of 1024..3000 vertices); distinct = distinct input line; non-trivial = verdict class not '-outside-quantifier' (invalid or non-general-position corpus cases, compared with the model only)",
    "trivial_class": r"outside-quantifier$",
    "pregen": pregen,
    "timeout": {"quick": 600, "thorough": 3000},
    "explanation": "partial: glue, both trivial-case tables and all *Bounds shortcuts are proved for all inputs conditional on CoreSpec; the sweep-line core is not proved for all inputs, but every generated case is certified by a proved-sound per-case checker (a passing case is a proof of the contract for that case)",
}
