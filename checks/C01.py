T = "GeomV.C01."

# ---- pin of the external clipper: the model's transcription of clipper.compute's two trivial-case
# tests (lean/GeomV/C01/Model.lean `construct`) is valid for exactly this source.
import hashlib, os, re, subprocess
POLYCLIP = "github.com/ctessum/polyclip-go"
POLYCLIP_VERSION = "v1.1.0"
POLYCLIP_H1 = "h1:TGMfwMynNykXwCZCxI+CHdjo/ZE9JThup/gmrgigGEE="
POLYCLIP_FILES = {
    "clipper.go": "58a5302a1b9ed2682a48c4974c2467e31691f7bc4d12f0e0d09d7834f4ec4248",
    "geom.go": "8c6b749c2ccc251e30ebb40baab5d866343500beecf65f0255ba4f8cf869bcad",
    "connector.go": "a2d4a6c0e589b894db141c804ea2ef449a413b9e6c2f05f44a837f4f51f7c77a",
}


def pin_polyclip(check):
    import vcheck
    repo = vcheck.REPO
    try:
        mod = open(os.path.join(repo, "go.mod")).read()
        m = re.search(r"^\s*(?:require\s+)?%s\s+(\S+)" % re.escape(POLYCLIP), mod, flags=re.M)
        if not m or m.group(1) != POLYCLIP_VERSION:
            check.broken.append("go.mod requires %s %s; the trivial-case tables of the model were transcribed from %s"
                                % (POLYCLIP, m.group(1) if m else "?", POLYCLIP_VERSION))
            return
        rep = re.search(r"^\s*replace\s+%s\b.*$" % re.escape(POLYCLIP), mod, flags=re.M)
        if rep:
            check.broken.append("go.mod replaces the clipper: " + rep.group(0).strip())
            return
        gs = open(os.path.join(repo, "go.sum")).read()
        if ("%s %s %s" % (POLYCLIP, POLYCLIP_VERSION, POLYCLIP_H1)) not in gs:
            check.broken.append("go.sum hash of %s %s differs from the pinned %s" % (POLYCLIP, POLYCLIP_VERSION, POLYCLIP_H1))
            return
        cache = subprocess.run(["go", "env", "GOMODCACHE"], env=vcheck.GOENV, stdout=subprocess.PIPE, text=True).stdout.strip()
        d = os.path.join(cache, POLYCLIP + "@" + POLYCLIP_VERSION)
        for fn, want in POLYCLIP_FILES.items():
            got = hashlib.sha256(open(os.path.join(d, fn), "rb").read()).hexdigest()
            if got != want:
                check.broken.append("module cache %s/%s differs from the transcribed source (sha256 %s)" % (d, fn, got[:16]))
    except Exception as e:  # unreadable go.mod etc.: the tie cannot be established
        check.broken.append("cannot establish the polyclip pin: %r" % e)

CFG = {
    "id": "C01",
    "lean_modules": ["GeomV.C01.Proofs", "GeomV.C01.ProofsCert"],
    "exe": "geomv_c01",
    "go_cmd": "c01",
    "stages": ["go:gen", "go:impl", "lean:judge"],
    "theorems": [T + n for n in ["C01_pointset", "C01_closed", "C01_empty_only_if_null", "C01_xor_defect_before_fix", "C01_pointset_natural", "C01_inclusion_exclusion_pointwise", "member_eq_memberNat",
                                 "construct_pointset", "boundsIntersection_pointset", "not_both_inside", "insideRing_rect", "inBox_of_inside", "inside_const", "edge_lemma", "member_const", "sample_cell_const", "slab_cell_free", "slabCell_sound",
                                 "C01_certificate_sound", "C01_certificate_exact", "C01_certificate_coreSpec_case", "C01_inclusion_exclusion_cells", "slab_sound", "nearSeg_convex", "chain_pairwise", "split_at"]],
    "level": "proof",
    "trusted_base": [
        "Lean 4.33.0 kernel; axioms of every theorem printed by #print axioms must be within {propext, Classical.choice, Quot.sound}",
        "the sweep-line core of github.com/ctessum/polyclip-go v1.1.0 (everything in clipper.compute after its two trivial-case tests) is a PARAMETER of the model with the explicit contract hypothesis CoreSpec; it is not proved for all inputs, but on every generated case the implementation's answer is passed through the certificate checker certCheck (exact Rat), which is PROVED sound (C01_certificate_sound: accepted => truth table at every point with clear margin 1e-6*extent from the input edges; margin 0 => every off-boundary point)",
        "model lean/GeomV/C01/Model.lean (geom glue, *Bounds shortcuts, polyclip trivial-case tables) is tied to /repo/{polygon,multipolygon,bounds}.go and polyclip-go@v1.1.0/clipper.go by the correspondence run on every check (exact comparison of every result the model determines)",
        "IEEE-754 rounding: operands are dyadic-grid (exact); the clipper's intersection points are floats: sliver cells between an input edge and its rounded copy are accepted only when all four corners lie within 1e-6*extent of ONE input edge (convexity of the margin zone proved: nearSeg_convex)",
        "harness/cmd/c01 + lean driver + lib/vcheck.py transport inputs faithfully",
    ],
    "assumptions": ["finite coordinates (no NaN/Inf); membership is the even-odd rule over all rings of all member polygons (what geom.pointInPolygonal implements)"],
    "rule": "integer-grid operand pairs (star-shaped / rectilinear / inscribed-convex / rectangular shells, 0-2 holes strictly inside, multi-polygons of 1-3 disjoint members incl. a member inside another's hole, boxes) in forced configuration classes "
            "(overlapping, nested, disjoint-with-overlapping-boxes, box-disjoint, box-separated along exactly one axis, identical boxes) x 9 receiver/argument type pairs x 4 operations + area identities; multi-polygons with an empty member at a random position; a result ring of >128 (thorough >1024) vertices; concurrent lines (cc: the case recomputed by 8 goroutines while 8 others run the operations on unrelated operands; any answer that differs from the sequential one is judged); "
            "40% of the cases at coordinate scales 2^-20/2^-24/2^-30/2^+20 (dyadic: exact), multi-call histories on one line with operands overwritten in place, operands over one flat backing array and compared with a snapshot after each call, size-threshold cases (vertex/ring/member counts beyond 64/128/1024; lines of 1024..3000 vertices); distinct = distinct input line; non-trivial = verdict class not '-outside-quantifier' (invalid or non-general-position corpus cases, compared with the model only)",
    "trivial_class": r"outside-quantifier$",
    "pregen": pin_polyclip,
    "timeout": {"quick": 600, "thorough": 3000},
    "explanation": "partial: glue, both trivial-case tables and all *Bounds shortcuts are proved for all inputs conditional on CoreSpec; the sweep-line core is not proved for all inputs, but every generated case is certified by a proved-sound per-case checker (a passing case is a proof of the contract for that case)",
}
