"""T1 tie for C06: regenerate Lean definitions of encoding/geojson from the Go source.

Idiom-level translator: each function of encode.go / decode.go / geojson.go must match the idiom it was
written in (a template over the gofmt'ed text with holes for everything that carries meaning: callee
names, the asserted element type, the arity literal, the order of X/Y, type-name strings, guard
disjuncts, JSON struct tags, error kinds).  The holes are emitted into lean/GeomV/C06/Gen.lean in the
combinators of the model; GeomV/C06/Tie.lean proves Gen = Model.  A function that no longer matches its
idiom raises Untranslatable (the source left the subset: broken tie).
"""
import os, re


class Untranslatable(Exception):
    pass


def norm(body):
    return "\n".join(l.strip() for l in body.split("\n") if l.strip())


def func(src, name):
    m = re.search(r"^func %s\((.*?)\) (.*?)\{\n(.*?)\n\}\n" % re.escape(name), src, flags=re.S | re.M)
    if not m:
        raise Untranslatable("function %s not found" % name)
    return m.group(1), m.group(2).strip(), norm(m.group(3))


def must(pattern, text, what):
    m = re.fullmatch(pattern, text, flags=re.S)
    if not m:
        raise Untranslatable("%s does not match its idiom" % what)
    return m


ERR = {"InvalidGeometryError": ".invalid", "UnsupportedGeometryError": ".unsupported"}
ID = r"[A-Za-z_]\w*"


def tr_pointCoordinates(src):
    p, r, b = func(src, "pointCoordinates")
    must(r"point geom\.Point", p, "pointCoordinates signature")
    m = must(r"return \[\]float64\{point\.(X|Y), point\.(X|Y)\}", b, "pointCoordinates")
    return "def pointCoordinates (point : Pt F) : List F := [point.%s, point.%s]" % (m.group(1).lower(), m.group(2).lower())


def tr_mapper(src, name, argty, elemfn_expected_ret):
    """coordinates := make(T, len(xs)); for i, v := range xs { coordinates[i] = f(v) }; return coordinates"""
    p, r, b = func(src, name)
    m = must(r"(%s) (\S+)" % ID, p, name + " signature")
    xs = m.group(1)
    m = must(r"(%s) := make\((\S+), len\(%s\)\)\nfor (%s), (%s) := range %s \{\n\1\[\3\] = (%s)\(\4\)\n\}\nreturn \1" % (ID, xs, ID, ID, xs, ID),
             b, name)
    if m.group(2) != r:
        raise Untranslatable("%s: make type %s is not the result type %s" % (name, m.group(2), r))
    return m.group(5)


def tr_decodeCoordinates(src):
    p, r, b = func(src, "decodeCoordinates")
    must(r"jsonCoordinates interface\{\}", p, "decodeCoordinates signature")
    m = must(r"array, ok := jsonCoordinates\.\(\[\]interface\{\}\)\nif !ok \{\npanic\(&(\w+)\{\}\)\n\}\n"
             r"coordinates := make\(\[\]float64, len\(array\)\)\nfor i, element := range array \{\nvar ok bool\n"
             r"if coordinates\[i\], ok = element\.\((\w+)\); !ok \{\npanic\(&(\w+)\{\}\)\n\}\n\}\nreturn coordinates", b, "decodeCoordinates")
    e1, ety, e2 = m.groups()
    if ety != "float64" or e1 not in ERR or e2 not in ERR:
        raise Untranslatable("decodeCoordinates: element type %s / errors %s %s" % (ety, e1, e2))
    return ("def decodeCoordinates : Tree F → Except Err (List F)\n"
            "  | .arr xs => mapE (fun e => match e with | .num x => .ok x | _ => .error %s) xs\n"
            "  | _ => .error %s" % (ERR[e2], ERR[e1]))


def tr_decodeN(src, n, rty):
    name = "decodeCoordinates%d" % n
    p, r, b = func(src, name)
    must(r"jsonCoordinates interface\{\}", p, name + " signature")
    m = must(r"array, ok := jsonCoordinates\.\(\[\]interface\{\}\)\nif !ok \{\npanic\(&(\w+)\{\}\)\n\}\n"
             r"coordinates := make\((\S+), len\(array\)\)\nfor i, element := range array \{\n"
             r"coordinates\[i\] = (\w+)\(element\)\n\}\nreturn coordinates", b, name)
    e1, mk, callee = m.groups()
    if mk != r or e1 not in ERR:
        raise Untranslatable("%s: make type / error" % name)
    return ("def %s : Tree F → Except Err (%s)\n  | .arr xs => mapE %s xs\n  | _ => .error %s" % (name, rty, callee, ERR[e1]))


def tr_makeLinearRing(src):
    p, r, b = func(src, "makeLinearRing")
    must(r"coordinates \[\]\[\]float64", p, "makeLinearRing signature")
    m = must(r"points := make\(geom\.Path, len\(coordinates\)\)\nfor i, element := range coordinates \{\n"
             r"if len\(element\) == (\d+) \{\npoints\[i\]\.(X|Y) = element\[(\d+)\]\npoints\[i\]\.(X|Y) = element\[(\d+)\]\n"
             r"\} else \{\npanic\(&(\w+)\{\}\)\n\}\n\}\nreturn points", b, "makeLinearRing")
    ar, f1, i1, f2, i2, e = m.groups()
    if {f1, f2} != {"X", "Y"} or e not in ERR or int(ar) > 4 or int(i1) >= int(ar) or int(i2) >= int(ar):
        raise Untranslatable("makeLinearRing: fields/indices")
    names = ["a%d" % k for k in range(int(ar))]
    val = {f1: names[int(i1)], f2: names[int(i2)]}
    return ("def makeLinearRing (cs : List (List F)) : Except Err (List (Pt F)) :=\n"
            "  mapE (fun e => match e with | [%s] => .ok ⟨%s, %s⟩ | _ => .error %s) cs"
            % (", ".join(names), val["X"], val["Y"], ERR[e]))


GUARDPAT = {
    0: None,
    1: ["[] => .error E", "c0 :: _ =>"],
    2: ["[] => .error E", "[] :: _ => .error E", "(c0 :: _) :: _ =>"],
    3: ["[] => .error E", "[] :: _ => .error E", "([] :: _) :: _ => .error E", "((c0 :: _) :: _) :: _ =>"],
}
CTOR = {"Point": "point", "MultiPoint": "multiPoint", "LineString": "lineString", "MultiLineString": "multiLineString",
        "Polygon": "polygon", "MultiPolygon": "multiPolygon"}


def tr_doFromGeoJSON(src):
    p, r, b = func(src, "doFromGeoJSON")
    must(r"g \*Geometry", p, "doFromGeoJSON signature")
    m = must(r"switch g\.Type \{\n(.*)\ndefault:\npanic\(&(\w+)\{g\.Type\}\)\n\}", b, "doFromGeoJSON")
    arms_src, dflt = m.groups()
    if dflt not in ERR:
        raise Untranslatable("doFromGeoJSON default arm")
    arms = re.split(r"\n(?=case \")", "\n" + arms_src)
    out = []
    for a in arms:
        a = a.strip("\n")
        if not a:
            continue
        mh = re.match(r'case "([^"\\]*)":\n', a)
        if not mh:
            raise Untranslatable("doFromGeoJSON arm head: " + a[:40])
        tyname = mh.group(1)
        rest = a[mh.end():]
        md = re.match(r"coordinates := (decodeCoordinates\d?)\(g\.Coordinates\)\n", rest)
        if not md:
            raise Untranslatable("arm %s: decode call" % tyname)
        dec = md.group(1)
        rest = rest[md.end():]
        k = 0
        mg = re.match(r"if (.*?) \{\npanic\(&(\w+)\{\}\)\n\}\n", rest)
        gerr = None
        if mg:
            disj = mg.group(1).split(" || ")
            for j, dj in enumerate(disj):
                if dj != "len(coordinates%s) == 0" % ("[0]" * j):
                    raise Untranslatable("arm %s: guard disjunct %s" % (tyname, dj))
            k = len(disj)
            gerr = mg.group(2)
            if gerr not in ERR:
                raise Untranslatable("arm %s: guard error" % tyname)
            rest = rest[mg.end():]
        ms = must(r"switch len\(coordinates%s\) \{\ncase (\d+):\n(.*)\ndefault:\npanic\(&(\w+)\{\}\)\n\}" % re.escape("[0]" * k),
                  rest, "arm %s arity switch" % tyname)
        ar, body, derr = ms.groups()
        if derr not in ERR:
            raise Untranslatable("arm %s: default error" % tyname)
        # body kinds
        mb = re.fullmatch(r"return geom\.(\w+)\{coordinates\[(\d+)\], coordinates\[(\d+)\]\}", body)
        if mb and k == 0:
            ctor, i0, i1 = mb.groups()
            if ctor not in CTOR or int(ar) > 4 or int(i0) >= int(ar) or int(i1) >= int(ar):
                raise Untranslatable("arm %s: point body" % tyname)
            names = ["a%d" % j for j in range(int(ar))]
            lean = ("do\n    let cs ← %s c\n    match cs with\n    | [%s] => pure (.%s ⟨%s, %s⟩)\n    | _ => .error %s"
                    % (dec, ", ".join(names), CTOR[ctor], names[int(i0)], names[int(i1)], ERR[derr]))
            out.append((tyname, lean))
            continue
        mb = re.fullmatch(r"return geom\.(\w+)\((\w+)\(coordinates\)\)", body)
        callee = None
        if mb:
            ctor, fn = mb.groups()
            callee = fn
        else:
            mb = re.fullmatch(r"(%s) := make\(geom\.(\w+), len\(coordinates\)\)\nfor i, coord := range coordinates \{\n"
                              r"\1\[i\] = (?:geom\.\w+\()?(\w+)\(coord\)\)?\n\}\nreturn \1" % ID, body)
            if not mb:
                raise Untranslatable("arm %s: body" % tyname)
            _, ctor, fn = mb.groups()
            callee = "mapE " + fn
        if ctor not in CTOR or k == 0:
            raise Untranslatable("arm %s: constructor %s / missing guard" % (tyname, ctor))
        pats = GUARDPAT.get(k)
        if pats is None:
            raise Untranslatable("arm %s: guard depth %d" % (tyname, k))
        lines = ["do", "    let cs ← %s c" % dec, "    match cs with"]
        for ptn in pats[:-1]:
            lines.append("    | " + ptn.replace("E", ERR[gerr]))
        lines.append("    | " + pats[-1])
        lines.append("      if c0.length = %s then do let r ← %s cs; pure (.%s r)" % (ar, callee, CTOR[ctor]))
        lines.append("      else .error %s" % ERR[derr])
        out.append((tyname, "\n".join(lines)))
    text = "def fromGeoJSON (ty : String) (c : Tree F) : Except Err (Geom F) :=\n"
    for i, (tyname, lean) in enumerate(out):
        text += ("  if" if i == 0 else "  else if") + ' ty = "%s" then %s\n' % (tyname, lean)
    text += "  else .error %s" % ERR[dflt]
    return text


def tr_ToGeoJSON(src):
    p, r, b = func(src, "ToGeoJSON")
    m = must(r"switch g\.\(type\) \{\n(.*)\ndefault:\nreturn nil, &(\w+)\{reflect\.TypeOf\(g\)\.String\(\)\}\n\}", b, "ToGeoJSON")
    arms_src, dflt = m.groups()
    if dflt not in ERR:
        raise Untranslatable("ToGeoJSON default arm")
    arms = re.split(r"\n(?=case geom\.)", "\n" + arms_src)
    cn = {"pointCoordinates": "c1", "pointsCoordinates": "c2", "pointssCoordinates": "c3", "pointsssCoordinates": "c4"}
    out = []
    for a in arms:
        a = a.strip("\n")
        if not a:
            continue
        mh = re.match(r"case geom\.(\w+):\n", a)
        if not mh or mh.group(1) not in CTOR:
            raise Untranslatable("ToGeoJSON arm head: " + a[:40])
        ty = mh.group(1)
        rest = a[mh.end():]
        # optional conversion prelude: xs := []geom.T(g.(geom.Ty)); ys := make([]U, len(xs)); for i, x := range xs { ys[i] = U'(x) }
        arg = None
        mp = re.match(r"(%s) := \[\]geom\.\w+\(g\.\(geom\.%s\)\)\n(%s) := make\(\S+, len\(\1\)\)\nfor i, (%s) := range \1 \{\n\2\[i\] = \S+?\(\3\)\n\}\n"
                      % (ID, ty, ID, ID), rest)
        if mp:
            arg = mp.group(2)
            rest = rest[mp.end():]
        mr = must(r'return &Geometry\{\nType: +"([^"\\]*)",\nCoordinates: (\w+)\((.*?)\),\n\}, nil', rest, "ToGeoJSON arm " + ty)
        tyname, fn, a0 = mr.groups()
        if fn not in cn or a0 != (arg if arg else "g.(geom.%s)" % ty):
            raise Untranslatable("ToGeoJSON arm %s: coordinates expression" % ty)
        out.append("  | .%s v => .ok ⟨\"%s\", .%s (%s v)⟩" % (CTOR[ty], tyname, cn[fn], fn))
    return ("def toGeoJSON : Geom F → Except Err (Geometry F)\n" + "\n".join(out) +
            # the default arm evaluates reflect.TypeOf(g).String(): for the nil interface value reflect.TypeOf returns a
            # nil reflect.Type and the method call panics before the error value is built
            "\n  | .nil => .error .panicNil\n  | _ => .error %s" % ERR[dflt])


def tr_fixed(src_enc, src_dec, src_gj):
    """Encode, FromGeoJSON, Decode and the struct tags must be exactly the idiom the model assumes"""
    p, r, b = func(src_enc, "Encode")
    must(r"if object, err := ToGeoJSON\(g\); err == nil \{\nreturn json\.Marshal\(object\)\n\} else \{\nreturn nil, err\n\}", b, "Encode")
    p, r, b = func(src_dec, "FromGeoJSON")
    must(r"defer func\(\) \{\nif e := recover\(\); e != nil \{\ng = nil\nerr = e\.\(error\)\n\}\n\}\(\)\nreturn doFromGeoJSON\(geom\), nil", b, "FromGeoJSON")
    p, r, b = func(src_dec, "Decode")
    must(r"var geom Geometry\nif err := json\.Unmarshal\(data, &geom\); err == nil \{\nreturn FromGeoJSON\(&geom\)\n\} else \{\nreturn nil, err\n\}", b, "Decode")
    m = re.search(r"type Geometry struct \{\n\s*Type\s+string\s+`json:\"([^\"`]*)\"`\n\s*Coordinates\s+interface\{\}\s+`json:\"([^\"`]*)\"`\n\}", src_gj)
    if not m:
        raise Untranslatable("Geometry struct")
    for t in m.groups():
        if not re.fullmatch(r"[a-z]+", t):
            raise Untranslatable("struct tag %r (options or non-lower-case names are outside the subset)" % t)
    return m.group(1), m.group(2)


def tr_errors(src_gj):
    """geojson.go: the two error types and their Error() methods (value receivers; the payload field of the unsupported one)"""
    if not re.search(r"^type InvalidGeometryError struct\{\}$", src_gj, flags=re.M):
        raise Untranslatable("InvalidGeometryError struct")
    if not re.search(r"^type UnsupportedGeometryError struct \{\n\s*Type string\n\}$", src_gj, flags=re.M):
        raise Untranslatable("UnsupportedGeometryError struct")
    m1 = re.search(r'^func \(e InvalidGeometryError\) Error\(\) string \{\n\s*return "([^"\\\\]*)"\n\}$', src_gj, flags=re.M)
    m2 = re.search(r'^func \(e UnsupportedGeometryError\) Error\(\) string \{\n\s*return "([^"\\\\]*)" \+ e\.Type\n\}$', src_gj, flags=re.M)
    if not m1:
        raise Untranslatable("InvalidGeometryError.Error does not match its idiom")
    if not m2:
        raise Untranslatable("UnsupportedGeometryError.Error does not match its idiom")
    if len(re.findall(r"^func ", src_gj, flags=re.M)) != 2:
        raise Untranslatable("geojson.go has functions other than the two Error methods")
    return ('def invalidGeometryErrorText : String := "%s"\n'
            'def unsupportedGeometryErrorText (ty : String) : String := "%s" ++ ty' % (m1.group(1), m2.group(1)))


HEADER = """import GeomV.C06.Model
/-!
REGENERATED on every run of `bin/check C06` by checks/c06_go2lean.py from
/repo/encoding/geojson/{encode,decode,geojson}.go — do not edit.
`GeomV/C06/Tie.lean` proves these definitions equal to the hand-written model.
-/
namespace GeomV.C06.Gen
open GeomV
variable {F : Type}

"""


def generate(repo):
    d = os.path.join(repo, "encoding", "geojson")
    enc = open(os.path.join(d, "encode.go")).read()
    dec = open(os.path.join(d, "decode.go")).read()
    gj = open(os.path.join(d, "geojson.go")).read()
    parts = [tr_pointCoordinates(enc)]
    for name, arg, ty in [("pointsCoordinates", "points", "List (Pt F)"), ("pointssCoordinates", "pointss", "List (List (Pt F))"),
                          ("pointsssCoordinates", "pointsss", "List (List (List (Pt F)))")]:
        callee = tr_mapper(enc, name, None, None)
        rty = {"pointsCoordinates": "List (List F)", "pointssCoordinates": "List (List (List F))",
               "pointsssCoordinates": "List (List (List (List F)))"}[name]
        parts.append("def %s (%s : %s) : %s := %s.map %s" % (name, arg, ty, rty, arg, callee))
    parts.append(tr_ToGeoJSON(enc))
    tkey, ckey = tr_fixed(enc, dec, gj)
    parts.append('def typeKey : String := "%s"\ndef coordinatesKey : String := "%s"' % (tkey, ckey))
    parts.append(tr_decodeCoordinates(dec))
    parts.append(tr_decodeN(dec, 2, "List (List F)"))
    parts.append(tr_decodeN(dec, 3, "List (List (List F))"))
    parts.append(tr_decodeN(dec, 4, "List (List (List (List F)))"))
    parts.append(tr_makeLinearRing(dec))
    callee = tr_mapper(dec, "makeLinearRings", None, None)
    parts.append("def makeLinearRings (css : List (List (List F))) : Except Err (List (List (Pt F))) :=\n  mapE %s css" % callee)
    parts.append(tr_doFromGeoJSON(dec))
    parts.append(tr_errors(gj))
    return HEADER + "\n\n".join(parts) + "\n\nend GeomV.C06.Gen\n"


def _fix_decodeN_types(dec):
    return dec


def pregen(check):
    import vcheck
    path = os.path.join(vcheck.LEAN, "GeomV", "C06", "Gen.lean")
    try:
        text = generate(vcheck.REPO)
    except (Untranslatable, OSError) as e:
        check.broken.append("T1 tie: encoding/geojson left the translatable subset: %s" % e)
        msg = str(e).replace('"', "'").replace("\\", "/").replace("\n", " ")
        text = ("import GeomV.C06.Model\n/-! The T1 translator could not translate the current source. -/\n"
                "example : \"untranslatable: %s\" = \"\" := by decide\n" % msg)
    old = open(path).read() if os.path.exists(path) else None
    if old != text:
        open(path, "w").write(text)


if __name__ == "__main__":
    import sys
    print(generate(sys.argv[1] if len(sys.argv) > 1 else "/repo"))
