T = "GeomV.C04."
CFG = {
    "id": "C04",
    "lean_modules": ["GeomV.C04.Proofs"],
    "exe": "geomv_c04",
    "go_cmd": "c04",
    "stages": ["go:gen", "go:impl", "lean:judge"],
    "theorems": [],
    "trusted_base": [],
    "assumptions": [],
    "rule": "",
    "timeout": {"quick": 600, "thorough": 3000},
}
