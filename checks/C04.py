T = "GeomV.C04."
CFG = {
    "id": "C04",
    "lean_modules": ["GeomV.C04.Proofs"],
    "exe": "geomv_c04",
    "go_cmd": "c04",
    "stages": ["go:gen", "go:impl", "lean:judge"],
    "theorems": [T + n for n in [
        # the property
        "C04_len", "C04_points", "C04_points_prefix", "C04_bounds", "C04_bounds_partial", "C04_bounds_empty_iff",
        "C04_extend_join", "C04_extend_canon", "C04_extend_laws", "C04_extend_laws_sets", "C04_extend_empty",
        "C04_overlaps", "C04_intersection", "C04_copy", "C04_empty",
        # the hypotheses are needed (witnesses)
        "C04_bounds_emptybox_counterexample",
        # the judge's decidable checks are the semantic specification
        "C04_spec_envelope", "C04_spec_join", "C04_spec_sharePoint", "C04_spec_intersection", "C04_spec_empty",
        # the executed coordinate type is an instance of the theorems
        "C04_exec", "FKey.instances_agree",
    ]],
    "trusted_base": [
        "Lean 4.33.0 kernel; axioms of every theorem printed by #print axioms must be within {propext, Classical.choice, Quot.sound}",
        "model lean/GeomV/C04/Model.lean (bounds.go; Len/Points/Bounds of the eight types, closures as state machines with faulting "
        "indexing) is tied to /repo by the correspondence run on every check: Len, the drained Points() sequence (bit-exact) or the "
        "number of points returned before a panic, Bounds (by float value), Extend/Overlaps/Intersection/Copy/Empty results",
        "non-NaN float64 values are ordered like their sign-magnitude integer keys (Basic.lean keyOfBits: -0 and +0 one value, "
        "+-Inf the extremes) and Go's math.Min/math.Max on non-NaN arguments return the smaller/larger VALUE (either zero for -0 vs +0)",
        "harness/cmd/c04 + lean driver + lib/vcheck.py transport inputs faithfully; reading of the property into Spec.lean",
    ],
    "assumptions": [
        "no NaN coordinates (outside the property's quantifier; NaN lines would be skipped)",
        "no nil interface value inside a GeometryCollection (nil is not one of the eight types; model and code both fault there, checked as correspondence only)",
        "C04_overlaps, C04_intersection, C04_extend_join, C04_extend_laws_sets hold for ALL boxes (empty, inverted, infinite); "
        "C04_extend_laws (equations between boxes rather than point sets) for canonical boxes (has a point, or is NewBounds()); "
        "C04_bounds: a *Bounds used as a geometry has a point (Len() is the constant 4; witness: C04_bounds_emptybox_counterexample; known finding)",
        "behaviour of an iterator after more than Len() calls is unspecified and not examined",
    ],
    "rule": "grammar-generated geometries of all eight types with an explicit empty-member production at every level (runs of 1-4 "
            "empty rings / line strings / polygons / collections at the start, middle and end; collections nested to depth 4); "
            "coordinates from {small ints (ties), -0, +0, +-Inf, +-MaxFloat, subnormals, random non-NaN patterns}; box catalogue: every "
            "pair of 1-D intervals over {-Inf,-0,0,1,2,3,+Inf} (disjoint, touching, nested, identical, degenerate, inverted=empty) on one "
            "axis crossed with random intervals on the other, for Overlaps/Intersection/Extend in both argument orders; random triples for "
            "associativity. distinct = distinct input line; non-trivial = every class except skipped-nan",
    "trivial_class": r"^skipped",
    "timeout": {"quick": 600, "thorough": 3000},
    "explanation": "SPEC verdicts come from Spec.lean's decidable checks (proved equivalent to the semantic specification, "
                   "C04_spec_*) evaluated on the implementation's answers; DIFF = implementation differs from the model for "
                   "which the theorems are proved. Classes ending in -outside are inputs outside a theorem's hypothesis: "
                   "correspondence is still checked there, the specification is not applied.",
}
