T = "GeomV.C04."
# T1: one module per tied Go function, so that a broken tie is reported as that obligation
TIES = ["PointEquals", "NewBounds", "NewBoundsPoint", "Copy", "Empty", "ExtendPoint", "ExtendPoints", "ExtendPointss",
        "Extend", "Overlaps", "Within", "Intersection", "Area", "Centroid",
        "PointBounds", "MultiPointBounds", "LineStringBounds", "MultiLineStringBounds", "PolygonBounds", "MultiPolygonBounds", "Lens",
        "PointsSimple", "PointsMultiLineString", "PointsPolygon", "PointsMultiPolygon", "PointsBounds",
        "CollectionLenBounds", "PointsCollection", "State"]
TIE_MODULES = [T + "Ties." + n for n in TIES]
SRC_DEPS = {"Overlaps": ["Overlaps"], "Intersection": ["Intersection"], "Extend": ["Extend"],
            "Basic": ["Empty", "Copy", "NewBounds", "NewBoundsPoint", "ExtendPoints"],
            "Points": ["PointsSimple", "PointsMultiLineString", "PointsPolygon", "PointsMultiPolygon", "Lens"],
            "Collection": ["CollectionLenBounds", "PointsCollection", "PointsBounds", "Lens", "Extend", "NewBounds"]}
SRC_MODULES = [T + "Src." + n for n in SRC_DEPS]
CFG = {
    "id": "C04",
    "lean_modules": ["GeomV.C04.Proofs", "GeomV.C04.ProofsNaN", "GeomV.C04.ProofsMore", "GeomV.C04.ProofsNil", "GeomV.C04.ProofsNaNBox", "GeomV.C04.ProofsAfter", "GeomV.C04.ProofsNaNMember", "GeomV.C04.ProofsTrace"] + TIE_MODULES + SRC_MODULES,
    "exe": "geomv_c04",
    "go_cmd": "c04",
    "stages": ["go:gen", "go:impl", "lean:judge"],
    "theorems": [T + n for n in [
        # the property
        "C04_len", "C04_points", "C04_points_prefix", "C04_bounds", "C04_bounds_sets", "C04_bounds_partial", "C04_bounds_empty_iff",
        "C04_extend_join", "C04_extend_canon", "C04_extend_laws", "C04_extend_laws_sets", "C04_extend_empty",
        "C04_overlaps", "C04_intersection", "C04_copy", "C04_empty",
        # the hypotheses are needed (witnesses)
        "C04_bounds_noncanon_counterexample",
        # the judge's decidable checks are the semantic specification
        "C04_spec_envelope", "C04_spec_envelopeSet", "C04_spec_join", "C04_spec_sharePoint", "C04_spec_intersection", "C04_spec_empty",
        # NaN coordinates (outside the quantifier): what Bounds() is then — the plain math.Min/Max fold per axis, for any
        # member structure — from algebraic laws of Min/Max/< that float64-with-NaN (NV) is proved to satisfy
        "C04_nan_bounds_flat", "NV.nlaws", "C04_nan_bounds", "C04_nan_axis_min", "C04_nan_axis_max",
        # … and the envelope clause read with NaN (SpecNaN.lean: an axis without NaN has non-NaN sides, a non-NaN side is an
        # attained bound of the non-NaN coordinates of its axis), proved for the model, its decidable form = the Prop,
        # the executed instance; a *Bounds with NaN sides as a geometry
        "C04_nan_envelope", "C04_spec_envelopeNaN", "C04_nan_exec", "C04_nan_box_geometry",
        # phase 4 — box operations with NaN sides: Overlaps is true exactly when no side is NaN and the value boxes share a point;
        # the model's Overlaps/Intersection/Empty answers satisfy the axis-by-axis clauses every reading demands (SpecNaN.lean),
        # their decidable forms are those clauses, the executed instance; c.Extend(c) through one pointer = Extend by a copy for
        # every box of values, not with NaN (witness)
        "C04_nan_overlaps", "C04_nan_overlaps_ok", "C04_nan_intersection_ok", "C04_nan_intersection_side", "C04_nan_empty_ok",
        "C04_nan_empty_nan_axis", "C04_spec_boxNaN", "C04_nan_box_exec", "C04_extend_self_alias", "C04_extend_self_alias_nan",
        # phase 4 — *Bounds members of a geometry with NaN coordinates: with value sides they are folded like their four corners
        # (flat fold and envelope clause extended to them, executed instance); with a NaN side the result depends on the
        # member's position (witness) — correspondence only
        "C04_nan_bounds_flat_boxes", "C04_nan_envelope_boxes", "C04_nan_envelope_boxes_exec", "C04_nan_box_member_position",
        # outside the hypotheses: Len()/Bounds() panic exactly when a member is nil (nil dereference, the only possible
        # fault); the first call beyond Len() (Point: itself again; *Bounds without points: its Min corner; *Bounds with
        # points: "out of bounds"; every other type incl. collections: index out of range)
        "C04_len_fault_iff", "C04_bounds_fault_iff", "C04_pointsOf_nil", "C04_points_exhausted", "C04_point_forever",
        # Points() of a collection pre ++ m :: post with pre nil-free and m (containing) a nil: the first |vertices of pre| calls
        # return those vertices in order; construction + one call more panics with a nil dereference
        "C04_nil_points_prefix", "C04_nil_points_fault",
        # phase 4 — an iterator after its first panic: the machine that keeps the captured variables after a faulting call
        # (nextS, After.lean) agrees with next; after Len() calls EVERY further call panics (except Point / a *Bounds without
        # points used directly: four stored corners, then panics for ever)
        "C04_nextS_next", "C04_points_after_fault", "C04_bounds_after_fault",
        # … and the whole run of a fresh iterator as one statement: Len() vertices in storage order, then n panics, for every n
        "C04_points_trace",
        # the executed coordinate type is an instance of the theorems
        "C04_exec", "FKey.instances_agree",
        # T1: definitions regenerated from bounds.go / point.go of the tree under test = the model's (rfl)
        "C04_tie_pointEquals", "C04_tie_NewBounds", "C04_tie_NewBoundsPoint", "C04_tie_Copy", "C04_tie_Empty",
        "C04_tie_extendPoint", "C04_tie_extendPoints", "C04_tie_extendPointss", "C04_tie_Extend", "C04_tie_Overlaps",
        "C04_tie_Within", "C04_tie_Intersection", "C04_tie_Area", "C04_tie_Centroid",
        # … and Bounds()/Len() of the non-collection geometry types = the corresponding case of boundsG / lenG (rfl)
        "C04_tie_Point_Bounds", "C04_tie_MultiPoint_Bounds", "C04_tie_LineString_Bounds", "C04_tie_MultiLineString_Bounds",
        "C04_tie_Polygon_Bounds", "C04_tie_MultiPolygon_Bounds",
        "C04_tie_Point_Len", "C04_tie_MultiPoint_Len", "C04_tie_LineString_Len", "C04_tie_MultiLineString_Len",
        "C04_tie_Polygon_Len", "C04_tie_MultiPolygon_Len", "C04_tie_Bounds_Len",
        # … and the Points() closures rendered from the source (loops with receiver-derived fuel) = the model's state machines
        "C04_tie_Point_Points", "C04_tie_MultiPoint_Points", "C04_tie_LineString_Points", "C04_tie_MultiLineString_Points",
        "C04_tie_Polygon_Points", "C04_tie_MultiPolygon_Points",
        # … (*Bounds).Points (defer + switch) = nextB; GeometryCollection.Len/Bounds/Points rendered with the calls on interface
        # values and on the captured func value as parameters = the collection case of lenG/boundsG/init/next when
        # instantiated with the model's dispatch (Points: under the invariant "p was made from gc[j]", which the rendered
        # constructor establishes and every call preserves)
        "C04_tie_Bounds_Points", "C04_tie_GeometryCollection_Len", "C04_tie_GeometryCollection_Bounds",
        "C04_tie_GeometryCollection_Points",
        # hidden state (GenState.lean, regenerated): no analysed function (the 37 targets, their function literals, what they call
        # inside the anchored files) writes a package-level variable, stores through a parameter, takes an address, appends to
        # a caller's slice or starts a goroutine; the only non-local writes are Extend/extendPoint on their receiver and each
        # Points() closure on its own captured counters
        "C04_tie_State",
        # the box theorems restated for the regenerated definitions
        "C04_overlaps_src", "C04_intersection_src", "C04_extend_join_src", "C04_extend_laws_src", "C04_empty_src",
        "C04_copy_src", "C04_newBounds_src", "C04_extendPoints_src",
        "C04_points_src_MultiPoint", "C04_points_src_LineString", "C04_points_src_MultiLineString",
        "C04_points_src_Polygon", "C04_points_src_MultiPolygon",
        "C04_points_src_Bounds", "C04_len_src_GeometryCollection", "C04_points_src_GeometryCollection",
        "C04_bounds_src_GeometryCollection",
    ]],
    "trusted_base": [
        "Lean 4.33.0 kernel; axioms of every theorem printed by #print axioms must be within {propext, Classical.choice, Quot.sound}",
        "T1: harness/cmd/c04/extract.go + closures.go + collection.go (go/ast, ~1700 lines, translation tables in their headers) regenerate lean/GeomV/C04/Gen.lean from "
        "bounds.go/point.go/multipoint.go/linestring.go/multilinestring.go/polygon.go/multipolygon.go/geometrycollection.go of the tree under test on every run; Ties/*.lean prove Gen.f = Model.f for 37 functions (by rfl: bounds.go box functions, Point.Equals, Bounds()/Len() of the non-collection types; by proof: the Points() closures of all eight types - loops rendered with whileFuel, (*Bounds).Points with defer+switch - and GeometryCollection.Len/Bounds/Points, whose calls on interface values and on the captured func value are PARAMETERS of the rendered definitions, instantiated in the tie with the model's dispatch lenG/boundsG/init/next; trusted there: Go's dynamic dispatch on the eight types is that match, and a func value used only as p()/p = X.Points() can be threaded as a value); a function "
        "outside the translatable subset makes Gen.lean fail to elaborate and is reported by name",
        "model lean/GeomV/C04/Model.lean (bounds.go; Len/Points/Bounds of the eight types, closures as state machines with faulting "
        "indexing) is tied to /repo by the correspondence run on every check: Len, the drained Points() sequence (bit-exact) or the "
        "number of points returned before a panic, Bounds (by float value), Extend/Overlaps/Intersection/Copy/Empty results",
        "non-NaN float64 values are ordered like their sign-magnitude integer keys (Basic.lean keyOfBits: -0 and +0 one value, "
        "+-Inf the extremes) and Go's math.Min/math.Max on non-NaN arguments return the smaller/larger VALUE (either zero for -0 vs +0)",
        "harness/cmd/c04 + lean driver + lib/vcheck.py transport inputs faithfully; reading of the property into Spec.lean",
    ],
    "assumptions": [
        "NaN coordinates are outside the property's quantifier: geometries with NaN are judged on Len/Points as usual (C04_len/C04_points do not depend on "
        "the coordinate type) and on Bounds() by the envelope clause read with NaN (SpecNaN.lean IsEnvelopeNaN: an axis without NaN has non-NaN sides, a non-NaN side "
        "is an attained bound of the non-NaN coordinates of its axis; proved for the model incl. *Bounds members with value sides, C04_nan_envelope_boxes/_exec; SPEC) and then by correspondence with the "
        "model run at NV FKey (DIFF); a geometry containing a *Bounds with a NaN side is correspondence only (DIFF, never SPEC). Box lines (ovl/int/ext/ext3/empty/self) with NaN sides: "
        "Overlaps/Intersection/Empty answers judged by the axis-by-axis clauses every reading demands (SpecNaN.lean OverlapsOkNaN/IntersectionOkNaN/EmptyOkNaN; SPEC), "
        "every answer incl. Extend compared with the model at NV FKey (DIFF); self3 lines with NaN are skipped",
        "no nil interface value inside a GeometryCollection (nil is not one of the eight types): there the specification is not applied; what the model does is "
        "proved (C04_len_fault_iff, C04_bounds_fault_iff, C04_nil_points_prefix/_fault) and compared with the code (Len/Bounds panic, the points drained before the panic)",
        "C04_overlaps, C04_intersection, C04_extend_join, C04_extend_laws_sets hold for ALL boxes (empty, inverted, infinite); "
        "C04_extend_laws (equations between boxes rather than point sets) for canonical boxes (has a point, or is NewBounds()); "
        "C04_bounds (literal reading: Bounds() of a geometry without vertices is the struct NewBounds()): a *Bounds given DIRECTLY as the geometry is canonical "
        "(has a point, or is NewBounds()); for a hand-written inverted box the box itself comes back and the clause is judged on point sets (C04_bounds_sets, "
        "no hypothesis; witness that the literal reading fails there: C04_bounds_noncanon_counterexample). Members of collections are unrestricted",
        "behaviour of an iterator after more than Len() calls is unspecified by the property: the first call beyond Len() is proved for the model "
        "(C04_points_exhausted) and compared with the code (DIFF only); calls after the first panic: modelled with the captured variables where the panic "
        "left them (After.lean nextS, hand-written; C04_nextS_next, C04_points_after_fault) and compared with the code by the 'after' probe (five calls after "
        "Len() calls, resp. after the first panic of a geometry with a nil member; DIFF only)",
    ],
    "rule": "grammar-generated geometries of all eight types with an explicit empty-member production at every level (runs of 1-4 "
            "empty rings / line strings / polygons / collections at the start, middle and end; collections nested to depth 4); "
            "coordinates from {small ints (ties), -0, +0, +-Inf, +-MaxFloat, subnormals, random non-NaN patterns}; box catalogue: every "
            "pair of 1-D intervals over {-Inf,-0,0,1,2,3,+Inf} (disjoint, touching, nested, identical, degenerate, inverted=empty) on one "
            "axis crossed with random intervals on the other, for Overlaps/Intersection/Extend in both argument orders; random triples for "
            "associativity; long slices (65..4097) in which every vertex extends the box; 1 in 25 geometries again with a fifth of the coordinates NaN "
            "(class -nan); cc lines: 8 concurrent callers on private copies under 8 hammering goroutines (class conc-). distinct = distinct input line; non-trivial = every class except skipped-nan",
    "trivial_class": r"^skipped",
    "timeout": {"quick": 600, "thorough": 3000},
    "explanation": "SPEC verdicts come from Spec.lean's decidable checks (proved equivalent to the semantic specification, "
                   "C04_spec_*) evaluated on the implementation's answers; DIFF = implementation differs from the model for "
                   "which the theorems are proved. Classes ending in -outside are inputs outside a theorem's hypothesis: "
                   "correspondence is still checked there, the specification is not applied.",
}


def pregen(check):
    """T1: regenerate Gen.lean from bounds.go/point.go of the tree under test (written only when it changed).
    A tie that no longer holds is reported by name and its module (and the Src module that rests on it)
    is left out of the build, so that all other obligations are still checked and counted."""
    import os, re, subprocess
    import vcheck
    cfg = check.cfg
    def drop(mods, why):
        cfg["lean_modules"] = [m for m in cfg["lean_modules"] if m not in mods]
        check.broken.append(why)
    ok, gobin, out = vcheck.go_build("c04", check.rundir)
    if not ok:
        return  # reported as a broken tie by the harness build of the main flow
    p = subprocess.run([gobin, "extract", "--repo", vcheck.REPO], stdout=subprocess.PIPE, stderr=subprocess.PIPE, text=True)
    if p.returncode not in (0, 3) or not p.stdout.startswith("import"):
        drop(TIE_MODULES + SRC_MODULES, "T1 tie: extractor failed: " + p.stderr.strip()[-300:])
        return
    gen = os.path.join(vcheck.LEAN, "GeomV", "C04", "Gen.lean")
    old = open(gen).read() if os.path.exists(gen) else ""
    if old != p.stdout:
        with open(gen + ".tmp", "w") as f:
            f.write(p.stdout)
        os.replace(gen + ".tmp", gen)
    # hidden-state tie: GenState.lean (non-local writes of every analysed function, package-level variables)
    ps = subprocess.run([gobin, "extract", "--state", "--repo", vcheck.REPO], stdout=subprocess.PIPE, stderr=subprocess.PIPE, text=True)
    if ps.returncode != 0 or "def nonlocalWrites" not in ps.stdout:
        drop([T + "Ties.State"], "T1 tie: state extractor failed: " + ps.stderr.strip()[-300:])
    else:
        gs = os.path.join(vcheck.LEAN, "GeomV", "C04", "GenState.lean")
        if (open(gs).read() if os.path.exists(gs) else "") != ps.stdout:
            with open(gs + ".tmp", "w") as f:
                f.write(ps.stdout)
            os.replace(gs + ".tmp", gs)
    STATE = T + "Ties.State"
    mods = [m for m in TIE_MODULES + SRC_MODULES if m in cfg["lean_modules"]]
    if p.returncode == 3:
        # Gen.lean was written with a declaration that does not elaborate in place of the function; the hidden-state tie
        # does not rest on Gen.lean and is still checked
        drop([m for m in mods if m != STATE], "T1 tie: " + p.stderr.strip()[-600:])
        mods = [m for m in mods if m == STATE]
    else:
        # extractor self-check: an independent second pass over the go/ast (selfcheck.go) compared atom by atom with the
        # generated Lean text (exact sequences for straight-line functions, census for the others)
        pc = subprocess.run([gobin, "extract", "--selfcheck", "--repo", vcheck.REPO], stdout=subprocess.PIPE, stderr=subprocess.PIPE, text=True)
        if pc.returncode != 0:
            check.broken.append("T1 extractor self-check: " + pc.stderr.strip()[-600:])
    # build the tie modules; leave out the ones that fail (and what rests on them) and build again, so that a failure
    # that hid behind another one is found too and every remaining obligation is still audited
    bad_ties, bad_all = [], []
    for _ in range(5):
        if not mods:
            break
        with vcheck.Lock("lake"):
            b = subprocess.run(["lake", "build"] + mods, cwd=vcheck.LEAN, stdout=subprocess.PIPE,
                               stderr=subprocess.STDOUT, text=True)
        if b.returncode == 0:
            break
        failed = set(re.findall(r"^- (\S+)", b.stdout, flags=re.M)) | set(re.findall(r"^✖ \[\d+/\d+\] Building (\S+)", b.stdout, flags=re.M))
        if T + "Gen" in failed:
            drop([m for m in mods if m != STATE], "T1 tie: regenerated Gen.lean does not elaborate: " + " | ".join(re.findall(r"error: .*", b.stdout)[:3]))
            mods = [m for m in mods if m == STATE and STATE not in failed]
            if STATE in failed:
                bad_ties.append("State"); bad_all.append(STATE)
            continue
        bt = [n for n in TIES if T + "Ties." + n in failed and n not in bad_ties]
        bad = [T + "Ties." + n for n in bt]
        bad += [T + "Src." + sname for sname, deps in SRC_DEPS.items()
                if T + "Src." + sname in mods and (T + "Src." + sname in failed or any(d in bt or d in bad_ties for d in deps))]
        # modules that import a broken one (directly or not) cannot be built either
        def imports(mod):
            try:
                txt = open(os.path.join(vcheck.LEAN, *mod.split(".")) + ".lean").read()
            except OSError:
                return []
            return re.findall(r"^import (GeomV\.C04\.(?:Ties|Src)\.\S+)", txt, flags=re.M)
        changed = True
        while changed:
            changed = False
            for m_ in mods:
                if m_ not in bad and m_ not in bad_all and any(i in bad or i in bad_all for i in imports(m_)):
                    bad.append(m_); changed = True
        if not bad:
            drop(mods, "T1 tie: lake build of the tie modules failed: " + " | ".join(re.findall(r"error: .*", b.stdout)[:3]))
            return
        bad_ties += bt
        bad_all += bad
        mods = [m for m in mods if m not in bad]
    if bad_all:
        drop(bad_all, "T1 tie broken: the Go function(s) %s no longer denote the model's function (modules left out: %s)"
             % (", ".join(bad_ties) or "?", ", ".join(m[len(T):] for m in bad_all)))


CFG["pregen"] = pregen
