T = "GeomV.C04."
CFG = {
    "id": "C04",
    "lean_modules": ["GeomV.C04.Proofs"],
    "exe": "geomv_c04",
    "go_cmd": "c04",
    "stages": ["go:gen", "go:impl", "lean:judge"],
    "theorems": [T + n for n in ["C04_len", "C04_bounds", "C04_bounds_empty_iff", "C04_extend_join", "C04_extend_laws", "C04_extend_empty", "C04_overlaps", "C04_intersection", "C04_copy", "C04_empty"]],
    "trusted_base": [],
    "assumptions": [],
    "rule": "",
    "timeout": {"quick": 600, "thorough": 3000},
}
