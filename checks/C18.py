T = "GeomV.C18."
CFG = {
    "id": "C18",
    "lean_modules": ["GeomV.C18.Proofs"],
    "lean_dirs": ["C18"],
    "exe": "geomv_c18",
    "go_cmd": "c18",
    "stages": ["go:gen", "go:impl", "lean:judge"],
    "theorems": [T + n for n in [
        "closure_least", "closure_closed",
        "C18_sound", "C18_sound_run",
        "C18_complete", "C18_complete_static", "C18_terminates",
        "C18_schedule_independent",
        "C18_check",
        "C18_filter",
        "C18_original_condition_incomplete_seq", "C18_original_condition_incomplete_par",
    ]],
    "trusted_base": [
        "Lean 4.33.0 kernel; axioms of every theorem printed by #print axioms must be within {propext, Classical.choice, Quot.sound}",
        "model lean/GeomV/C18/Model.lean is tied to /repo/encoding/osm/{extract,keep,check}.go by the correspondence run on every check: "
        "GOMAXPROCS=1 extraction compared exactly (number of passes over the file, number of keep calls, kept ids, Check), steered "
        "GOMAXPROCS in {2,3,4,16} runs and Filter/Filter-twice compared as sorted id sets",
        "Go memory model and sync.RWMutex: every lock-protected region of extract.go is ONE atomic step of the interleaving model; "
        "data races inside a step are outside the model (thorough tier runs the harness under -race as an informational side check)",
        "paulmach/osm osmxml scanner delivers the elements of the file in file order (exercised for real by every case); PBF input is not generated (no encoder offline)",
        "harness/cmd/c18 + lean driver + lib/vcheck.py transport inputs faithfully",
    ],
    "assumptions": [
        "element ids are unique per kind within a document (uniqueKeys); keep functions are of the form base(o) || (dyn(o) && some reference of o is already kept), "
        "which covers KeepTags, KeepBounds and KeepAll",
        "documents contain only node/way/relation elements (a changeset element makes a worker return early; not part of the property)",
    ],
    "rule": "generated OSM XML documents of 5-80 (thorough 5-160) elements in 7 file orders (canonical, relations first, ways before nodes, descending ids, "
            "reversed, shuffled within kind, fully shuffled), ways sharing runs of nodes and straddling the bounds, empty ways/relations, relation cycles and "
            "relations of relations, 10-60% of nodes inside the bounds, a separate stream with dangling references; each document with KeepBounds, a KeepTags "
            "variant and KeepAll; per case one GOMAXPROCS=1 extraction, 6-48 extractions steered through the wrapped KeepFunc (sleep/Gosched before or after the "
            "real keep call on seeded object ids) under GOMAXPROCS in {2,3,4,16}, and for tags/all Filter x4 and Filter-of-Filter x4. "
            "distinct = distinct input line; non-trivial = verdict class not '*-skipped'",
    "timeout": {"quick": 900, "thorough": 3000},
}
