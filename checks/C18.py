import os, subprocess, sys
sys.path.insert(0, os.path.join(os.path.dirname(os.path.dirname(os.path.abspath(__file__))), "lib"))
import vcheck

T = "GeomV.C18."


def pregen(chk):
    """Source tie for the atomic-step structure: extract, with go/ast, the lock / read / write / keep-call /
    flag skeleton of every function the model is written against (harness/cmd/c18/skel.go) from the CURRENT
    tree and compare it with harness/cmd/c18/skeleton.expected, the skeleton the model's atomic steps were
    derived from.  A difference is a broken tie (named by function), even when no input behaves differently."""
    ok, gobin, out = vcheck.go_build("c18", chk.rundir)
    if not ok:
        return  # reported by the main flow as a harness compile failure
    p = subprocess.run([gobin, "skel", os.path.join(vcheck.REPO, "encoding", "osm")],
                       stdout=subprocess.PIPE, stderr=subprocess.STDOUT, text=True)
    if p.returncode != 0:
        chk.broken.append("skeleton extraction failed: " + p.stdout.strip()[-300:])
        return
    want = open(os.path.join(vcheck.HARNESS, "cmd", "c18", "skeleton.expected")).read().strip().split("\n")
    got = p.stdout.strip().split("\n")
    wd = dict(l.split(": ", 1) for l in want if ": " in l)
    gd = dict(l.split(": ", 1) for l in got if ": " in l)
    bad = sorted(f for f in set(wd) | set(gd) if wd.get(f) != gd.get(f))
    if bad:
        chk.broken.append("lock/read/write skeleton of encoding/osm changed in: " + ", ".join(bad) +
                          " (model atomic steps were derived from harness/cmd/c18/skeleton.expected)")
    t1(chk, gobin)


TIES = {  # tie lemma -> the Go function(s) it ties (lean/GeomV/C18/Tie.lean)
    "tie_Empty": "(*Bounds).Empty", "tie_Overlaps": "(*Bounds).Overlaps", "tie_PointBounds": "NewBoundsPoint / Point.Bounds",
    "tie_Overlaps_point": "b.Overlaps(Point{X,Y}.Bounds()) = closed rectangle", "tie_hasTag": "hasTag",
    "tie_hasNeedNode": "hasNeedNode", "tie_hasNeedWay": "hasNeedWay", "tie_hasNeedRelation": "hasNeedRelation",
    "tie_KeepAll": "KeepAll", "tie_KeepTags": "KeepTags", "tie_KeepBounds": "KeepBounds", "tie_Check": "Check",
    "tie_processNodeNoCopy": "processNodeNoCopy", "tie_processWayNoCopy": "processWayNoCopy",
    "tie_processRelationNoCopy": "processRelationNoCopy",
    "Filter_nf": "Filter (loop structure)", "tie_Filter": "Filter (loop)",
    "tie_processNode": "processNode", "tie_processWay": "processWay", "tie_processRelation": "processRelation",
}
SEQ = ["bigStep_step", "finishW_st", "runPass_seq"]
DUP = ["C18_duplicates", "C18_duplicates_schedule_dependent", "closedDB_sound", "closed_of_closedD", "closedD_of_closed"]
SRC = ["C18_provided_keeps_src", "C18_check_src", "C18_filter_src", "C18_filter_provided_src", "C18_extract_seq_src"]
LOOP = ["procSeq_flag", "passBody_spec", "whileS_loop", "tie_worker", "worker_step", "keepShapeS_bounds", "keepShapeS_tags", "keepShapeS_all", "whileS_loopG", "extract_seq_core", "copyInv_node", "copyInv_way", "copyInv_rel"]


def t1(chk, gobin):
    """T1: regenerate lean/GeomV/C18/Gen.lean from encoding/osm/{keep,check,extract}.go, bounds.go, point.go of the tree
    under test (written only when it changed) and pre-build the tie under the lake lock.  A function that left the
    translatable subset, or a tie lemma that no longer holds, is a broken tie naming the Go function; GeomV.C18.Tie is
    then left out of the main build so that the theorems about the model are still checked."""
    import re
    cfg = chk.cfg
    T_ = "GeomV.C18.Tie"

    def drop(why):
        cfg["lean_modules"] = [m for m in cfg["lean_modules"] if not m.startswith(T_)]
        chk.broken.append(why)

    gen = os.path.join(vcheck.LEAN, "GeomV", "C18", "Gen.lean")

    def write(text):
        old = open(gen).read() if os.path.exists(gen) else ""
        if old != text:
            with open(gen + ".tmp", "w") as f:
                f.write(text)
            os.replace(gen + ".tmp", gen)

    p = subprocess.run([gobin, "t1", vcheck.REPO], stdout=subprocess.PIPE, stderr=subprocess.PIPE, text=True)
    if p.returncode not in (0, 3) or not p.stdout.startswith("import"):
        drop("T1 tie: extractor failed: " + p.stderr.strip()[-300:])
        return
    with vcheck.Lock("lake"):
        write(p.stdout)
        if p.returncode == 3:
            drop("T1 tie: Go function(s) outside the translatable subset: " + " | ".join(p.stderr.strip().splitlines())[:900])
            return
        b = subprocess.run(["lake", "build", T_, T_ + "Filter", T_ + "Loop", T_ + "Copy"], cwd=vcheck.LEAN, stdout=subprocess.PIPE, stderr=subprocess.STDOUT, text=True)
    if b.returncode == 0:
        return
    open(os.path.join(chk.rundir, "tie.log"), "w").write(b.stdout)
    errs = re.findall(r"error: (?:\./)?GeomV/C18/(Gen|TieLoop|TieFilter|TieCopy|Tie)\.lean:(\d+):\d+: (.*)", b.stdout)
    if any(f == "Gen" for f, _, _ in errs) or not errs:
        drop("T1 tie: the regenerated Gen.lean does not elaborate: " + " | ".join(m for f, _, m in errs if f == "Gen")[:600]
             + ("" if errs else b.stdout[-600:]))
        return
    bad = []
    for fl, ln, _ in errs:
        src = open(os.path.join(vcheck.LEAN, "GeomV", "C18", fl + ".lean")).read().split("\n")
        name = "?"
        for i in range(min(int(ln), len(src)) - 1, -1, -1):
            m = re.match(r"theorem (\w+)", src[i])
            if m:
                name = m.group(1)
                break
        if name not in bad:
            bad.append(name)
    drop("T1 tie: the Go source no longer matches the model — tie lemma(s) that fail on the regenerated definitions: "
         + ", ".join("%s (%s)" % (n, TIES.get(n, "helper")) for n in bad))

def post(chk, pairs, stats):
    """thorough tier: side check of the atomicity assumption — rebuild the harness with the Go race detector and
    replay the first cases; a reported data race means a lock-protected region is not atomic (outside the model)."""
    if chk.tier != "thorough" or os.environ.get("VERIF_C18_NORACE"):
        return
    out = os.path.join(chk.rundir, "c18race")
    args = ["go", "build", "-race", "-tags", "verif", "-o", out]
    if vcheck.REPO != "/repo":
        args += ["-modfile", os.path.join(chk.rundir, "alt.mod")]
    args.append("./cmd/c18")
    env = dict(vcheck.GOENV, CGO_ENABLED="1")
    with vcheck.Lock("go"):
        b = subprocess.run(args, cwd=vcheck.HARNESS, env=env, stdout=subprocess.PIPE, stderr=subprocess.STDOUT, text=True)
    if b.returncode != 0:
        stats["classes"]["INFO-race-build-unavailable"] = 1
        return
    allin = [l.split(" => ")[0] for l, _ in pairs]
    # first cases (corpus + generated X lines) and a slice of the P lines (PBF scanner goroutines, Geom, CountTags)
    lines = allin[:160] + [l for l in allin if l.startswith("p ")][:50]
    try:
        r = subprocess.run([out, "impl"], input="\n".join(lines) + "\n", env=dict(env, GORACE="halt_on_error=0"),
                           stdout=subprocess.PIPE, stderr=subprocess.PIPE, text=True, timeout=900)
    except subprocess.TimeoutExpired:
        stats["classes"]["INFO-race-run-timeout"] = 1
        return
    n = r.stderr.count("WARNING: DATA RACE")
    stats["classes"]["INFO-race-detector-cases"] = len(lines)
    stats["classes"]["INFO-race-detector-reports"] = n
    if n:
        vcheck.log(r.stderr[:3000])
        chk.broken.append("Go race detector reports %d data race(s) in encoding/osm under the harness: a lock-protected "
                          "region is not atomic, which the interleaving model assumes" % n)


CFG = {
    "id": "C18",
    "lean_modules": ["GeomV.C18.Proofs", "GeomV.C18.ProofsObs", "GeomV.C18.Seq", "GeomV.C18.Dup", "GeomV.C18.Tie", "GeomV.C18.TieFilter", "GeomV.C18.TieLoop", "GeomV.C18.TieCopy"],
    "lean_dirs": ["C18"],
    "exe": "geomv_c18",
    "go_cmd": "c18",
    "stages": ["go:gen", "go:impl", "lean:judge"],
    "pregen": pregen,
    "post": post,
    "theorems": [T + n for n in [
        "closure_least", "closure_closed",
        "C18_sound", "C18_sound_run",
        "C18_complete", "C18_complete_static", "C18_terminates",
        "C18_schedule_independent",
        "C18_check",
        "C18_filter",
        "C18_original_condition_incomplete_seq", "C18_original_condition_incomplete_par",
        "specKeep_bounds", "specKeep_tags", "specKeep_all", "C18_provided_keeps",
        "C18_need_exact", "C18_roots_spec", "C18_observers_schedule_independent", "C18_filter_observers",
        "C18_geom_no_dropped_point", "C18_cancel_no_partial_result",
    ] + list(TIES) + SRC + SEQ + DUP + LOOP],
    "trusted_base": [
        "Lean 4.33.0 kernel; axioms of every theorem printed by #print axioms must be within {propext, Classical.choice, Quot.sound}",
        "model lean/GeomV/C18/Model.lean is tied to /repo/encoding/osm/{extract,keep,check}.go by the correspondence run on every check: "
        "GOMAXPROCS=1 extraction compared exactly (number of passes over the file, number of keep calls, kept ids, Check), steered "
        "GOMAXPROCS in {2,3,4,16} runs and Filter/Filter-twice compared as sorted id sets",
        "Go memory model and sync.RWMutex: every lock-protected region of extract.go is ONE atomic step of the interleaving model; "
        "data races inside a step are outside the model (thorough tier runs the harness under -race as an informational side check)",
        "paulmach/osm osmxml and osmpbf scanners deliver the elements of the file in file order (exercised for real by every case; PBF files are "
        "written by a hand-made encoder in harness/cmd/c18/pbf.go: dense nodes, ways, relations, raw/zlib blobs, 1/3/8000 objects per block, two granularities)",
        "harness/cmd/c18 + lean driver + lib/vcheck.py transport inputs faithfully",
        "T1: harness/cmd/c18/t1.go (go/ast, statement level, subset in its header) regenerates lean/GeomV/C18/Gen.lean from encoding/osm/{keep,check,extract}.go, "
        "bounds.go, point.go of the tree under test on every run (19 functions: since phase 4 also the copying processNode/Way/Relation); Tie.lean/TieFilter.lean/TieLoop.lean/TieCopy.lean "
        "prove them equal to the model / the Spec (25 tie lemmas, C18_provided_keeps_src, C18_check_src, C18_filter_src: the regenerated LOOP of Filter = filterRun; tie_worker: the regenerated "
        "processX = a worker of the interleaving model left alone with one object). copyNode/Way/Relation are GenLib vocabulary (hand-written; tied by the call skeleton and the exact stored-object comparison). Trusted in T1: the translator and the meaning lean/GeomV/C18/GenLib.lean gives to its vocabulary (Ctl over the assigned "
        "variables, rangeS/whileS, Go maps as association lists ranged in an oracle order, locks dropped = sequential meaning, integer-grid coordinates, stored pointers non-nil). "
        "A function outside the subset or a failing tie lemma is reported with the Go function's name",
    ],
    "assumptions": [
        "element ids are unique per kind within a document (uniqueKeys) for completeness and schedule independence (without it: C18_duplicates, and the result IS schedule dependent: "
        "C18_duplicates_schedule_dependent); keep functions are of the form base(o) || (dyn(o) && some reference of o is already kept) — PROVED for the regenerated KeepTags, KeepBounds, KeepAll "
        "(tie_Keep*, C18_provided_keeps_src)",
        "documents contain only node/way/relation elements (a changeset element makes a worker return early; not part of the property)",
    ],
    "rule": "generated OSM XML documents of 5-80 (thorough 5-140) elements in 7 file orders (canonical, relations first, ways before nodes, descending ids, "
            "reversed, shuffled within kind, fully shuffled), ways sharing runs of nodes and straddling the bounds, empty ways/relations, relation cycles and "
            "relations of relations, node positions on an integer grid and KeepBounds rectangles whose edges pass exactly through node coordinates "
            "(all four edges and corners, one-point / zero-width / zero-height / inverted rectangles, rectangles touching the data only along one edge; "
            "classes *-edge count cases with a selected node ON an edge), a separate stream with dangling references; each document with KeepBounds, a KeepTags "
            "variant and KeepAll; the Spec side judges against closure(doc, documented selector of the keep function), not the model's keep; per case one GOMAXPROCS=1 extraction, 6-48 extractions steered through the wrapped KeepFunc (sleep/Gosched before or after the "
            "real keep call on seeded object ids) under GOMAXPROCS in {2,3,4,16}, and for tags/all Filter x4 and Filter-of-Filter x4. "
            "plus DEEP CHAINS of nested relations (depth 33, 40, 64; thorough also 100; innermost-first and outermost-first, selected only through the outermost "
            "relation or only through the innermost node; the model's pass count, up to |doc|+2, is compared exactly) and documents with <bounds>/<note>/<user> "
            "elements (1, 2, 4, 16 of them, at the start of the file or scattered) run under GOMAXPROCS 1 and {2,3,4,16} with an 8 s watchdog (a hang is a SPEC failure); "
            "plus HISTORY cases (2-3 extractions with different keep functions on ONE bytes.Reader that initially stands at 0 / the middle / EOF, "
            "each extraction judged by the Spec for its own keep function) and CANCEL cases (the ReadSeeker cancels the context on its n-th rewind, n=1..4: "
            "Spec = a non-nil error OR exactly the closure, model = error iff the extraction needs >= n passes). "
            "plus P lines (a PBF rendering of the document in 4 layouts): ExtractPBF at GOMAXPROCS 1 (passes compared with the model) and 4/16/3 with yields, "
            "ExtractFile (.osm, .pbf, refused extension), ExtractTag, ExtractXML with keepTags=false, the STORED OBJECTS rendered back and compared with the "
            "document's objects (reference lists: Spec), (*Data).Geom items (roots = stored objects that are not registered dependencies; nodes and ways exactly, "
            "relations by kind; degenerate-ring panic modelled), (*Data).CountTags and CountTags(ctx, pbf) tables in their sorted order (empty-way panic modelled); "
            "every steered run of every X line additionally carries a digest of stored objects + Geom + CountTags that must equal the sequential run's. "
            "plus T lines: XML / PBF input cut inside the header, at or inside a block (object line), between a BlobHeader and its Blob: Spec = an error OR exactly "
            "the closure of the objects completely before the cut; model = closure of the prefix for a PBF cut at a block boundary, scanner error otherwise. "
            "plus D lines: documents that REPEAT an id (a copy with another reference list / tags / position inserted anywhere): Spec on one GOMAXPROCS=1 and three GOMAXPROCS 4/3/16 runs = "
            "ids inside the closure, closedDB (every selected element in, every stored id has a version whose present references are stored), stored objects are elements of the document, "
            "Check ok when nothing dangles; model (exact) = sequential ids, passes and WHICH version is stored. "
            "distinct = distinct input line; non-trivial = verdict class not '*-skipped'",
    "timeout": {"quick": 900, "thorough": 3000},
}
