import importlib.util, os
_spec = importlib.util.spec_from_file_location("c17_go2lean", os.path.join(os.path.dirname(os.path.abspath(__file__)), "c17_go2lean.py"))
_g2l = importlib.util.module_from_spec(_spec); _spec.loader.exec_module(_g2l)


def _alone(check, line_in):
    """impl + judge of ONE input line, each in a fresh process; returns the verdict line"""
    import subprocess
    gobin = os.path.join(check.rundir, "c17")
    p = subprocess.run([gobin, "impl"], input=(line_in + "\n").encode(), stdout=subprocess.PIPE,
                       stderr=subprocess.DEVNULL, timeout=120)
    impl = p.stdout.decode(errors="replace").strip("\n")
    if not impl:
        impl = "%s => crash rc=%d |" % (line_in, p.returncode)
    q = subprocess.run([check.exe(), "judge"], input=(impl.split("\n")[0] + "\n").encode(), stdout=subprocess.PIPE,
                       stderr=subprocess.DEVNULL, timeout=120)
    return q.stdout.decode(errors="replace").strip()


def post(check, pairs, stats):
    """Only when there are SPEC violations (never on a green run): the orchestrator records the SHORTEST failing line
    as the replay.  A defect that depends on state left by EARLIER lines of the run (package-level counters, caches, a
    pending error) makes short `enc` lines fail that pass when replayed alone, while a self-contained failing history
    (`batch`, `cc`, an `enc` line whose own pre-calls set the state up) is among the failures.  Re-run the candidates
    alone, shortest first, and let the first one that still fails be the shortest: the shorter, non-reproducing ones
    stay counted as violations (their reason says so) but sort behind it."""
    try:
        spec = sorted([v for v in check.violations if v[0] == "SPEC"], key=lambda v: len(v[3]))
        for n, v in enumerate(spec[:40]):
            if not _alone(check, v[3].split(" => ")[0]).startswith("SPEC"):
                continue
            if n == 0:
                return
            demote = set(spec[:n])
            pad = len(v[3]) + 1
            note = " [fails only with the state left by earlier lines of this run; the replay is a self-contained failing line]"
            check.violations = [(k, c, w + note, l.ljust(pad)) if (k, c, w, l) in demote else (k, c, w, l)
                                for (k, c, w, l) in check.violations]
            return
    except Exception as e:   # never let the reporting aid change a verdict
        print("C17 post hook: %r" % e)


T = "GeomV.C17."
CFG = {
    "id": "C17",
    "lean_modules": ["GeomV.C17.Proofs", "GeomV.C17.Tie", "GeomV.C17.ProofsNum", "GeomV.C17.ProofsFmt", "GeomV.C17.ProofsFmtEx"],
    "pregen": _g2l.pregen,
    "post": post,
    "exe": "geomv_c17",
    "go_cmd": "c17",
    "stages": ["go:gen", "go:impl", "lean:judge"],
    "theorems": [T + n for n in ["C17_roundtrip", "C17_unsupported", "C17_guard_exact", "C17_guard_emitted",
                                 "C17_numfmt_int", "C17_injective",
                                 "C17_tie_encode", "C17_roundtrip_src", "C17_unsupported_src", "C17_unsupported_error_src",
                                 "C17_roundtrip_checked", "C17_roundPos_rne", "C17_toBits_sound", "C17_rne_unique", "C17_rne_mono", "C17_shortest_sound",
                                 "C17_goG_passes", "C17_goG_shortest", "C17_goG_zero", "C17_goG_layout_fixpoint",
                                 "C17_shortest_sound_zero", "C17_goG_exists", "C17_numfmt_exists", "C17_roundtrip_exists",
                                 "C17_numfmt_anydigits", "C17_roundtrip_anydigits", "C17_digspec_exists"]],
    "trusted_base": [
        "Lean 4.33.0 kernel; axioms of every theorem printed by #print axioms must be within {propext, Classical.choice, Quot.sound}",
        "T1: lean/GeomV/C17/Gen.lean is regenerated from /repo/encoding/wkt/*.go (all seven anchored files, wkt.go's Error() included) on every run by checks/c17_go2lean.py (a ~270-line "
        "translator for the statement forms that occur there; trusted, and exercised by T2) and proved equal to the model in Tie.lean",
        "T2: model lean/GeomV/C17/Model.lean is tied to /repo/encoding/wkt by the correspondence run on every check: byte-exact comparison of "
        "wkt.Encode's output with the model's text, the model's number formatter being Go's own strconv 'g' rendering of each coordinate",
        "strconv.AppendFloat(x,'g',-1,64) on the coordinates that occur: NOT assumed - C17_roundtrip_checked needs only the decidable test "
        "numFmtHolds on the coordinates of the input at hand, which the driver evaluates on every coordinate of every case with Go's own "
        "rendering; the converter it uses (lean/GeomV/C17/Dec.lean) is proved to be IEEE 754 roundTiesToEven of the literal's exact rational "
        "(C17_roundPos_rne, C17_toBits_sound, C17_rne_unique) and the shortest-form test is proved sound (C17_shortest_sound); what remains "
        "trusted here is the definition of the value of a bit pattern (Dec.valPos: subnormal m*2^-1074, normal (2^52+m)*2^(e-1075)) and of a "
        "literal (Dec.parseLit/magVal: mant*10^scale); Dec.toBits is still cross-validated against strconv.ParseFloat every run (class numconv)",
        "strconv's layout (formatDigits 'g'/shortest, fmtE, fmtF of Go 1.23 ftoa.go) is modelled by hand in lean/GeomV/C17/GoFmt.lean and compared with Go's own "
        "rendering of every finite coordinate on every run (isGoLayout); C17_goG_passes/_shortest/_exists reduce what is assumed of AppendFloat to: "
        "ryuFtoaShortest returns shortest round-tripping digits (itself tested per coordinate)",
        "the reading of OGC 06-103r4 section 7.2.2 into lean/GeomV/C17/Spec.lean (2-D productions, white space optional between tokens, "
        "letters case-insensitive)",
        "harness/cmd/c17 + lean driver + lib/vcheck.py transport inputs faithfully",
    ],
    "assumptions": ["nil slices and empty slices are not distinguished; nil interface values are outside the property (reflect.TypeOf(nil))",
                    "non-finite coordinates (rendered NaN/+Inf/-Inf by strconv) are outside the statement: compared with the model only"],
    "rule": "fixed corpus (each type, multi-member nestings, guard boundary, unsupported types, exponent-notation boundaries 1e21/1e-4, -0, "
            "subnormals, 17-digit values, the real %e switch 999999/1e6/1e-4/1e-5) + grammar-generated geometries of the five types (member counts 1..6, ring counts 1..4, occasionally 17..300; 'wide' geometries with 65/129/257/1025 members at exactly one nesting level) "
            "with coordinates from {arbitrary finite 64-bit patterns, subnormals, -0, values within 3 ulp of 1e21/1e20/1e-4/1e-5/1e-7/1e5/1e6/1e7, integers, "
            "17-significant-digit values, 2^e sweep, quarter grid}; 5% each: empty members, non-finite, unsupported types; plus decimal-literal "
            "cross-validation cases (class numconv); pointer-typed geometries (encp: *geom.Point ... not listed in Encode's switch); every other enc line (by hash of the line) is preceded by one Encode call on a long geometry with -0/extreme values (used encoder) and/or has all its slices rebuilt with spare capacity holding junk beyond len; 70 (thorough 500) cc lines: reference answer alone, then 8 goroutines repeat the call on private copies while 8 others encode 1025-vertex / 257-ring geometries (class conc-); 2 (12) histories of 300 calls; 300 (4000) geometries with repeated members (vertex/ring/line string/polygon occurring 2-3 times; on every other line value-equal members are one shared slice); enc lines with hash bit 3 are preceded by an Encode call on an unsupported type (error path), batch histories contain unsupported types; plus batch lines (a history of 2..8 Encode calls whose returned slices are kept and re-verified after the whole batch); distinct = distinct input line; non-trivial = verdict class not 'skipped'",
    "timeout": {"quick": 600, "thorough": 3000},
    "explanation": "Each real wkt.Encode output is (1) parsed by the independent Lean OGC parser with exact round-to-nearest-even number "
                   "conversion and compared bit-for-bit with the input geometry (SPEC), each number token additionally checked to be the "
                   "shortest round-tripping literal, and (2) compared byte-for-byte with the model's text (DIFF). Errors are compared with the model in kind, named type, message and returned bytes; the argument is compared before/after the call.",
}
