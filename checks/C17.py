T = "GeomV.C17."
CFG = {
    "id": "C17",
    "lean_modules": ["GeomV.C17.Proofs"],
    "exe": "geomv_c17",
    "go_cmd": "c17",
    "stages": ["go:gen", "go:impl", "lean:judge"],
    "theorems": [],
    "trusted_base": [],
    "assumptions": [],
    "rule": "",
    "timeout": {"quick": 600, "thorough": 3000},
}
