import os, subprocess
import vcheck

T = "GeomV.C20."


def pregen(check):
    """regenerate lean/GeomV/C20/Tables.lean (units, ellipsoids, datums, projection aliases, registry)
    from the Go source of the tree under test; written only when the content changed"""
    ok, gobin, out = vcheck.go_build("c20", check.rundir)
    if not ok:
        check.broken.append("table extractor does not compile: " + out.strip()[-300:])
        return
    p = subprocess.run([gobin, "tables", vcheck.REPO], stdout=subprocess.PIPE, stderr=subprocess.PIPE, text=True)
    if p.returncode != 0 or "end GeomV.C20" not in p.stdout:
        check.broken.append("table extractor failed on the current source: " + p.stderr.strip()[-300:])
        return
    # second extractor: struct shapes of SR/datum, the TRANSLATED case bodies of `equal`, the deciding statements of
    # NewTransform and (*Decoder).SR  ->  EqualGen.lean (tie lemmas in EqualTie.lean)
    q = subprocess.run([gobin, "equalgen", vcheck.REPO], stdout=subprocess.PIPE, stderr=subprocess.PIPE, text=True)
    if q.returncode != 0 or "end GeomV.C20" not in q.stdout:
        check.broken.append("Equal extractor failed on the current source: " + q.stderr.strip()[-300:])
        return
    # third extractor: the body of checkNotWGS (translated), the workaround condition of NewTransform's closure (translated),
    # the pjd constants, the closure's statements (text)  ->  RouteGen.lean (tie lemmas in ProofsWgs.lean)
    r = subprocess.run([gobin, "routegen", vcheck.REPO], stdout=subprocess.PIPE, stderr=subprocess.PIPE, text=True)
    if r.returncode != 0 or "end GeomV.C20" not in r.stdout:
        check.broken.append("route extractor failed on the current source: " + r.stderr.strip()[-300:])
        return
    # fourth extractor: the PARAMETER switch of parseWKTParameter, the tail of wkt(), the use of the UNIT factor, the switch of projString
    # and its tail, the arithmetic of DeriveConstants, the constants epsln/sixth/ra4/ra6/deg2rad (translated), the path
    # expressions of shp.NewDecoder / (*Decoder).SR (translated)  ->  WktGen.lean (tie lemmas in ProofsWktGen.lean, ProofsPrj.lean)
    w = subprocess.run([gobin, "wktgen", vcheck.REPO], stdout=subprocess.PIPE, stderr=subprocess.PIPE, text=True)
    if w.returncode != 0 or "end GeomV.C20" not in w.stdout:
        check.broken.append("wkt extractor failed on the current source: " + w.stderr.strip()[-300:])
        return
    with vcheck.Lock("lake"):
        for name, text in (("Tables.lean", p.stdout), ("EqualGen.lean", q.stdout), ("RouteGen.lean", r.stdout), ("WktGen.lean", w.stdout)):
            path = os.path.join(vcheck.LEAN, "GeomV", "C20", name)
            old = open(path).read() if os.path.exists(path) else ""
            if old != text:
                open(path, "w").write(text)
                check.notes.append(name + " regenerated (source changed)")


CFG = {
    "id": "C20",
    "lean_modules": ["GeomV.C20.Proofs", "GeomV.C20.ProofsEqual", "GeomV.C20.ProofsRegistry", "GeomV.C20.ProofsWgs", "GeomV.C20.ProofsNumeral",
                     "GeomV.C20.ProofsWktGen", "GeomV.C20.ProofsPrj", "GeomV.C20.ProofsEqualGen"],
    "exe": "geomv_c20",
    "go_cmd": "c20",
    "stages": ["go:gen", "lean:prep", "go:impl", "lean:judge"],
    "pregen": pregen,
    "theorems": [T + n for n in ["C20_equal_refl", "C20_equal_symm", "C20_nil_iff_equal", "C20_prj", "C20_registry",
                                 "C20_registry_names", "C20_parse_agree", "C20_parse_agree_tokens", "C20_lex_proj4", "C20_lex_wkt",
                                 "C20_transform_agree", "C20_transform_agree_partial",
                                 "C20_parse_agree_partial", "C20_wkt_parameter_map",
                                 "C20_wkt_false_origin_metres", "C20_noshift_datum_differs",
                                 # phase 3: Equal / NewTransform nil decision / Decoder.SR on REGENERATED definitions
                                 "C20_equal_regenerated", "C20_nil_iff_equal_regenerated", "C20_equal_trans", "C20_equal_not_trans",
                                 "C20_equal_not_trans_parsed", "genFloat_eq", "genSlice_eq", "equalSR_eq_walk", "equal_source_pins",
                                 "newTransform_source_pins", "decoderSR_source_pin",
                                 # phase 3: every alias over the regenerated registry; what the definitions mean
                                 "C20_registry_aliases", "C20_registry_alias_equal", "C20_registry_meaning", "registry_defs_parse",
                                 "aliases_cover",
                                 # the route of NewTransform's closure with the REAL datum codes (after fix b165df1: EqualFold); the
                                 # pre-fix flag function as the negation for the fixed finding wgs84name
                                 "C20_transform_route_wgs84", "C20_wgs84name_prefix_routes_differ", "C20_wgs84name_second_hop_skipped",
                                 # checkNotWGS / the workaround condition REGENERATED from transform.go (RouteGen.lean) and their ties;
                                 # nothing below the route decision reads the datum code
                                 "genCheckNotWGS_eq", "genCheckNotWGS_flag", "genTwoHops_eq", "genPjd_eq", "route_source_pins",
                                 "literal_differs", "transform3_code", "transformers_code", "transform_code", "wkt_flag", "p4_flag",
                                 "equalFold_eq_c08",
                                 # the numeral contract PROVED for every decimal with <= 400 fractional digits; the two headline
                                 # theorems without it as a hypothesis
                                 "C20_numeral_contract", "C20_parse_agree_scales", "C20_transform_agree_scales", "numeralOK_of_scale",
                                 "parseFloat_render", "numeralsRead_of_scales",
                                 # phase 4: the PARAMETER switch, the tail of wkt() and the use of the UNIT factor REGENERATED from wkt.go
                                 # (WktGen.lean) and their ties to the model
                                 "genParamSet_eq", "genWktFinish_eq", "genUnitSet_eq", "parseWKTParameter_gen", "wkt_gen", "parseWKTUnit_gen",
                                 "wktgen_source_pins",
                                 # phase 4: the switch of projString (every text / flag / numeric key) and its tail, the arithmetic of
                                 # DeriveConstants and the numeric constants REGENERATED, with ties
                                 "genProjKV_eq", "genLowerDatum_eq", "projString_gen", "genProjHandModelled_pin", "gen_consts_eq",
                                 "genDeriveArith_eq", "deriveCore_gen", "genDeriveFrame_pin", "genDatumRename_steps", "genDatumRename_eq", "genWktProjection_eq", "genCodeWords_eq", "genTestWKTLoop_pin", "parseDef_gen",
                                 # phase 4: which .prj a layer is read from — the path expressions of NewDecoder / Decoder.SR regenerated,
                                 # over an arbitrary file system and every layer name
                                 "C20_prj_siblings", "C20_prj_path", "C20_prj_own_file", "C20_prj_same_text_equal", "trimSuffix_append",
                                 # phase 4: Equal as a relation on the REGENERATED walk, all references (nil datum included)
                                 "C20_equal_gen_refl", "C20_equal_gen_not_refl_nil", "C20_equal_gen_symm", "C20_equal_gen_trans",
                                 "C20_equal_gen_not_trans"]],
    "level": "proof",
    "trusted_base": [
        "Lean 4.33.0 kernel; axioms of every theorem printed by #print axioms must be within {propext, Classical.choice, Quot.sound}",
        "model lean/GeomV/C20/Model.lean is tied to /repo/proj by the correspondence run (every field of the parsed SR bit for bit, Equal, nil-ness) on every check; its tables, the field lists of SR/datum, the case bodies of `equal` (translated statement by statement), the body of checkNotWGS and the workaround condition of NewTransform's closure (translated), the switch of parseWKTParameter, the statements of wkt() after the sections, the use of the UNIT factor in parseWKTUnit, the switch of projString (all but five cases) and the statement after its loop, the arithmetic statements of DeriveConstants with their constants (translated), the path expressions of shp.NewDecoder / (*Decoder).SR (translated), and the deciding statements of NewTransform / its closure / (*Decoder).SR (source text) are regenerated from the Go source by the pregen hook",
        "strings.EqualFold against the ASCII constant \"WGS84\" is modelled by lean/GeomV/C20/Fold.lean (simple case folding: the other ASCII case, plus U+212A for K/k and U+017F for S/s)",
        "the transformation pipeline below the route decision is C08's model (lean/GeomV/C08/Proj*.lean), tied to the code by C08's check",
        "strconv.ParseFloat is correctly rounded (modelled by exact rational rounding); IEEE-754 binary64 arithmetic of Lean's Float equals Go's on amd64 (no fused multiply-add)",
        "harness/cmd/c20 + lean driver + lib/vcheck.py transport inputs faithfully",
    ],
    "assumptions": ["ASCII definitions; no +pm= (owned by C09), no hexadecimal float literals",
                    "the numeral contract numeralsRead c (hypothesis of C20_parse_agree / C20_transform_agree: the model of strconv.ParseFloat reads each "
                    "decimal of c, as renderDec writes it, as that decimal; non-empty token over [0-9.-]) is PROVED for every decimal with at most 400 "
                    "fractional digits (C20_numeral_contract); C20_parse_agree_scales / C20_transform_agree_scales have the side condition scalesOK c "
                    "(no numeral with more than 400 fractional digits: the bound of the model's exponent guard) instead; the judge still evaluates "
                    "numeralsRead on every generated case (DIFF when false)",
                    "the micrometre clause on compiled float code is numeric evidence from the correspondence run, not a theorem"],
    "rule": "structured CRS descriptions (5 projected kinds + geographic; spheroids built-in or random (a,1/f); TOWGS84 with 3/7 terms or a named datum; "
            "metre/foot/US survey foot with false origins that are not round in metres; WKT spellings: ESRI names, AUTHORITY, blanks, AXIS) rendered by the "
            "Spec's own toProj4/toWkt; each yields both parses (all SR fields), Equal/NewTransform decisions and a 9-point grid through both references to and "
            "from WGS84 AND to and from a geographic reference with a 7-parameter datum (two-hop route); twins whose datum shifts differ in one term; spheres (+a=R +b=R vs SPHEROID[..,R,0]); plus a corpus of real-world and damaged definitions, registered names, Equal pairs and .prj files. "
            "distinct = distinct input line; non-trivial = verdict class not '*skipped'",
    "timeout": {"quick": 600, "thorough": 3000},
}
