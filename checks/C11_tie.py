"""T1 tie shared by checks/C11.py and checks/C12.py (index/rtree).

pregen(check, tie_modules):
 1. build harness/cmd/c11 against the tree under test and run `c11 extract`: regenerate
    lean/GeomV/C11/Gen.lean from the CURRENT index/rtree/geom.go + rtree.go (written only when changed);
    a function that left the translatable subset is named in check.broken (its definition is
    missing from Gen.lean, so the tie module that mentions it fails too);
 2. `lake build` the tie modules; modules that fail are left out of the build (all other
    obligations are still checked and counted) and reported by name;
 3. run `c11 skeleton` and compare with harness/cmd/c11/skeleton.expected: every function / struct
    whose control skeleton differs is reported as a broken tie naming the site.
"""
import os, re, subprocess
import vcheck

C11_TIES = ["GeomV.C11.Ties.Box", "GeomV.C11.Ties.Enlarge", "GeomV.C11.Ties.Mbr", "GeomV.C11.Ties.AssignGroup",
            "GeomV.C11.Ties.PickNext", "GeomV.C11.Ties.PickSeeds", "GeomV.C11.Ties.ChooseNode", "GeomV.C11.Src"]
C12_TIES = ["GeomV.C12.Ties.MinDist", "GeomV.C12.Ties.MinMaxDist", "GeomV.C12.Src"]

P11, P12 = "GeomV.C11.", "GeomV.C12."
DEPS = {P11 + "Ties.Box": [], P11 + "Ties.Enlarge": [], P11 + "Ties.Mbr": [P11 + "Ties.Enlarge"],
        P11 + "Ties.AssignGroup": [P11 + "Ties.Box", P11 + "Ties.Mbr"], P11 + "Ties.PickNext": [P11 + "Ties.Box", P11 + "Ties.Mbr"],
        P11 + "Ties.PickSeeds": [P11 + "Ties.Box", P11 + "Ties.Enlarge"],
        P11 + "Ties.ChooseNode": [P11 + "Ties.Box", P11 + "Ties.Enlarge"],
        P11 + "Src": [P11 + "Ties.Box", P11 + "Ties.Enlarge", P11 + "Ties.Mbr"],
        P12 + "Ties.MinDist": [], P12 + "Ties.MinMaxDist": [], P12 + "Src": [P12 + "Ties.MinDist", P12 + "Ties.MinMaxDist"]}

TIED_FUNCTIONS = {
    "geom.go": ["size", "margin", "containsPoint", "containsRect", "intersect", "enlarge", "initBoundingBox",
                "boundingBox", "minDist", "minMaxDist"],
    "rtree.go": ["(*node).computeBoundingBox", "assignGroup", "pickNext", "(*node).pickSeeds",
                 "(*Rtree).chooseNode (its loop: the box of the entry recursed into)"],
}


def blocks(text):
    out, cur, name = {}, [], None
    for l in text.splitlines():
        if l.startswith("== "):
            if name is not None:
                out[name] = cur
            name, cur = l[3:].split(" func(")[0].strip(), [l]
        else:
            cur.append(l)
    if name is not None:
        out[name] = cur
    return out


def pregen(check, ties):
    cfg = check.cfg

    def drop(mods, why):
        cfg["lean_modules"] = [m for m in cfg["lean_modules"] if m not in mods]
        check.broken.append(why)

    ok, gobin, out = vcheck.go_build("c11", check.rundir)
    if not ok:
        drop(ties, "T1 tie: harness/cmd/c11 (extractor) does not compile against the tree under test: " + out.strip()[-300:])
        return
    repo = vcheck.REPO
    # --- control skeleton
    p = subprocess.run([gobin, "skeleton", "--repo", repo], stdout=subprocess.PIPE, stderr=subprocess.PIPE, text=True)
    exp_path = os.path.join(vcheck.HARNESS, "cmd", "c11", "skeleton.expected")
    if p.returncode != 0:
        check.broken.append("control-skeleton tie: rtree.go does not parse: " + p.stderr.strip()[-200:])
    else:
        got, exp = blocks(p.stdout), blocks(open(exp_path).read())
        for name in sorted(set(got) | set(exp)):
            g, e = got.get(name), exp.get(name)
            if g == e:
                continue
            if e is None:
                check.broken.append("control-skeleton tie broken: %s is new in index/rtree/rtree.go (not in the model)" % name)
            elif g is None:
                check.broken.append("control-skeleton tie broken: %s disappeared from index/rtree/rtree.go" % name)
            else:
                i = next((k for k in range(max(len(g), len(e))) if k >= len(g) or k >= len(e) or g[k] != e[k]), 0)
                check.broken.append("control-skeleton tie broken at %s: expected `%s` but the source now has `%s`"
                                    % (name, e[i].strip() if i < len(e) else "<end>", g[i].strip() if i < len(g) else "<end>"))
    # --- regenerated definitions
    p = subprocess.run([gobin, "extract", "--repo", repo], stdout=subprocess.PIPE, stderr=subprocess.PIPE, text=True)
    if p.returncode not in (0, 3) or not p.stdout.startswith("import"):
        drop(ties, "T1 tie: extractor failed: " + p.stderr.strip()[-300:])
        return
    gen = os.path.join(vcheck.LEAN, "GeomV", "C11", "Gen.lean")
    with vcheck.Lock("lake"):
        old = open(gen).read() if os.path.exists(gen) else ""
        if old != p.stdout:
            with open(gen + ".tmp", "w") as f:
                f.write(p.stdout)
            os.replace(gen + ".tmp", gen)
        if p.returncode == 3:
            check.broken.append("T1 tie: left the translatable subset: " + p.stderr.strip()[-500:])
        b = subprocess.run(["lake", "build"] + ties, cwd=vcheck.LEAN, stdout=subprocess.PIPE,
                           stderr=subprocess.STDOUT, text=True)
    if b.returncode == 0:
        return
    failed = set(re.findall(r"^- (\S+)", b.stdout, flags=re.M)) | set(re.findall(r"^✖ \[\d+/\d+\] Building (\S+)", b.stdout, flags=re.M))
    if "GeomV.C11.Gen" in failed:
        drop(ties, "T1 tie: regenerated Gen.lean does not elaborate: " + " | ".join(re.findall(r"error: .*", b.stdout)[:3]))
        return
    bad = [m for m in ties if m in failed]
    # a module that imports a failed one cannot be built either
    grew = True
    while grew:
        grew = False
        for m in ties:
            if m not in bad and any(d in bad for d in DEPS.get(m, [])):
                bad.append(m); grew = True
    drop(bad or ties, "T1 tie broken: regenerated index/rtree functions no longer denote the model's "
         "(modules left out: %s): %s" % (", ".join(bad) or "?", " | ".join(re.findall(r"error: .*", b.stdout)[:3])))
