T = "GeomV.C16."
CFG = {
    "id": "C16",
    "lean_modules": ["GeomV.C16.Proofs"],
    "exe": "geomv_c16",
    "go_cmd": "c16",
    "stages": ["go:gen", "go:impl", "lean:judge"],
    "theorems": [T + n for n in ["getStartEnd_partition", "C16_geom", "C16_geom_unsupported", "C16_order", "C16_order_any_fields", "C16_order_schedule", "C16_order_struct", "C16_decodeRow_assigned", "C16_order_encode",
                                 "C16_int", "C16_int_width", "C16_string", "C16_string_converse", "C16_string_iff", "C16_string_violations", "C16_float", "C16_float_render",
                                 "C16_match", "C16_assigned", "C16_match_none", "C16_match_fields",
                                 "C16_name_roundtrip", "C16_columns", "C16_match_self", "C16_struct_roundtrip"]],
    "trusted_base": [
        "Lean 4.33.0 kernel; axioms of every theorem printed by #print axioms must be within {propext, Classical.choice, Quot.sound}",
        "model lean/GeomV/C16/Model.lean is tied to /repo/encoding/shp/{shp.go,shp2geom.go} by the correspondence run through real temporary shapefiles (both encoder and both decoder paths, token-exact) on every check",
        "go-shp's .shp/.shx/.dbf byte layout (github.com/jonas-p/go-shp, pinned by go.sum h1:h5O7ee4tlSPVjdC75eSLX7jXZiHftthuHio/GtrhaSM=, checked by the harness at run time): a file stores and returns the ordered rows (shape, cells) and the field list - external contract, exercised not proved",
        "Go strconv (Itoa/ParseInt/FormatFloat 'f'/ParseFloat correctly rounded), strings.Trim/ToLower, reflect behave as documented",
        "harness/cmd/c16 + lean driver + lib/vcheck.py transport inputs faithfully",
    ],
    "assumptions": [
        "fewer than 2^31 points per shape and fewer than 2^15 bytes per attribute row (go-shp's int32/int16 counters)",
        "column and field names without non-ASCII upper-case letters (the model lower-cases ASCII only)",
        "cells parsed as numbers hold decimal literals or FormatFloat's NaN/+Inf/-Inf (hex floats, '_' and other spellings of inf/nan are not modelled)",
        "a shape of the file's own shape type per record (go-shp writes the FILE's type into every record header, so a Null shape in a typed file is not readable; outside the statement)",
    ],
    "rule": "one case = one shapefile written and read back through real temporary files: writer NewEncoder/Encode (reflect.StructOf struct types with generated "
            "names/tags/field order) or NewEncoderFromFields/EncodeFields (generated shp.Field lists), reader DecodeRow (perturbed struct: case, tag-vs-name, "
            "order, dropped/unmatched fields) or DecodeRowFields, or a reading SCHEDULE on one Decoder (record i read with call i mod k, k=2..4: DecodeRowFields with all names / subset / permuted / duplicates / none, mixed with DecodeRow); DecodeRow decodes into a fresh record variable per row or into ONE reused variable (per call site), with zero values ("", 0, 0.0) alternating with non-zero ones; 0-300 records of one geometry kind (point, multipoint, LineString, MultiLineString 0-6 parts "
            "incl. empty, polygon 0-5 rings closed/unclosed/closed-up-to-signed-zero, *Bounds incl. zero height/width, nil in NULL files), coordinates from random "
            "bit patterns/NaN payloads/+-0/+-Inf/subnormals/ordinary values; ints, floats and strings at the column-width boundaries. "
            "distinct = distinct input line; non-trivial = every class (a case always writes and reads a real file)",
    "trivial_class": r"^$",
    "timeout": {"quick": 600, "thorough": 3000},
}
