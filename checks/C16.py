import os, subprocess

T = "GeomV.C16."


def pregen(check):
    """Regenerated tie: harness/cmd/c16/extract (go/ast) reads the CURRENT encoding/shp/shp.go and rewrites
    lean/GeomV/C16/Gen.lean (constants intLength/floatLength/floatPrecision/stringLength/tag, the column
    constructors of NewEncoder, the lookup chain of DecodeRow, the Trim cut sets, shape-before-attributes in
    both encoders, the single r.row++ of DecodeRowFields) with `tie_*` theorems `source = model`. Proofs.lean
    imports it, so a source change that leaves the model's assumptions breaks `lake build` (broken
    obligation, then the failing-input search). The file is rewritten only when its content changes."""
    import vcheck
    with vcheck.Lock("go"):
        p = subprocess.run(["go", "run", "./cmd/c16/extract", vcheck.REPO], cwd=vcheck.HARNESS, env=vcheck.GOENV,
                           stdout=subprocess.PIPE, stderr=subprocess.PIPE, text=True)
    path = os.path.join(vcheck.LEAN, "GeomV", "C16", "Gen.lean")
    if p.returncode != 0 or "namespace GeomV.C16.Gen" not in p.stdout:
        check.broken.append("extractor harness/cmd/c16/extract failed on encoding/shp/shp.go: " + p.stderr.strip()[-300:])
        return
    old = open(path).read() if os.path.exists(path) else None
    if old != p.stdout:
        open(path, "w").write(p.stdout)
    # T1 for encoding/shp/shp2geom.go: harness/cmd/c16/extract/geom.go translates getStartEnd, polygon2geom, polyLine2geom,
    # multiPoint2geom, point2geom, shp2Geom, geom2Shp, geom2point, geom2polygon, geom2polyLine, geom2multiPoint statement by
    # statement (vocabulary: GenGeomLib.lean) into GenGeom.lean; TieGeom.lean proves each equal to the model for all inputs.
    with vcheck.Lock("go"):
        q = subprocess.run(["go", "run", "./cmd/c16/extract", "-geom", vcheck.REPO], cwd=vcheck.HARNESS, env=vcheck.GOENV,
                           stdout=subprocess.PIPE, stderr=subprocess.PIPE, text=True)
    gpath = os.path.join(vcheck.LEAN, "GeomV", "C16", "GenGeom.lean")
    if q.returncode != 0 or "namespace GeomV.C16.GenGeom" not in q.stdout:
        check.broken.append("extractor harness/cmd/c16/extract -geom failed on encoding/shp/shp2geom.go: " + q.stderr.strip()[-300:])
        return
    if q.stderr.strip():
        check.broken.append("extractor harness/cmd/c16/extract -geom: construct outside the translated subset in encoding/shp/shp2geom.go: " + q.stderr.strip()[-300:])
    gold = open(gpath).read() if os.path.exists(gpath) else None
    if gold != q.stdout:
        open(gpath, "w").write(q.stdout)
    # T1 for the pure string helpers of shp.go (shpFieldName2String, shpAttributeToFloat, shpAttributeToInt): harness/cmd/c16/extract/strfn.go
    # translates them statement by statement (vocabulary GenStrLib.lean) into GenStr.lean; TieStr.lean proves generated = model.
    with vcheck.Lock("go"):
        t = subprocess.run(["go", "run", "./cmd/c16/extract", "-str", vcheck.REPO], cwd=vcheck.HARNESS, env=vcheck.GOENV,
                           stdout=subprocess.PIPE, stderr=subprocess.PIPE, text=True)
    spath = os.path.join(vcheck.LEAN, "GeomV", "C16", "GenStr.lean")
    if t.returncode != 0 or "namespace GeomV.C16.GenStr" not in t.stdout:
        check.broken.append("extractor harness/cmd/c16/extract -str failed on encoding/shp/shp.go: " + t.stderr.strip()[-300:])
        return
    if t.stderr.strip():
        check.broken.append("extractor harness/cmd/c16/extract -str: construct outside the translated subset in encoding/shp/shp.go: " + t.stderr.strip()[-300:])
    sold = open(spath).read() if os.path.exists(spath) else None
    if sold != t.stdout:
        open(spath, "w").write(t.stdout)


CFG = {
    "id": "C16",
    "lean_modules": ["GeomV.C16.Proofs", "GeomV.C16.LayoutProofs", "GeomV.C16.EndToEnd", "GeomV.C16.TieGeom", "GeomV.C16.ReflectProofs", "GeomV.C16.ProofsFields", "GeomV.C16.ShxProofs", "GeomV.C16.FloatCertProofs", "GeomV.C16.ProofsFloat", "GeomV.C16.WrapProofs", "GeomV.C16.ProofsStruct", "GeomV.C16.ProofsStructBytes", "GeomV.C16.ProofsSchedule", "GeomV.C16.TieStr"],
    "exe": "geomv_c16",
    "go_cmd": "c16",
    "stages": ["go:gen", "go:impl", "lean:judge"],
    "pregen": pregen,
    "theorems": [T + n for n in ["getStartEnd_partition", "C16_geom", "C16_geom_unsupported", "C16_order", "C16_order_any_fields", "C16_order_schedule", "C16_order_struct", "C16_order_struct_written", "C16_order_mixed_written", "C16_decodeRow_assigned", "C16_order_encode",
                                 "C16_int", "C16_int_width", "C16_string", "C16_string_converse", "C16_string_iff", "C16_string_violations", "C16_float", "C16_float_render",
                                 "C16_match", "C16_assigned", "C16_match_none", "C16_match_fields",
                                 "C16_name_roundtrip", "C16_columns", "C16_match_self", "C16_struct_roundtrip",
                                 "Layout.C16_container", "Layout.parseShape_shapeBytes", "Layout.readShapes_recs", "Layout.openDbf_header", "Layout.rawCell_rows", "Layout.writeAt_cell", "Layout.attrsStrict_spec", "Layout.attrsLenient_spec", "Layout.close_dbf", "Layout.emptyRecord_eq", "Layout.toShape_geom2ShpB", "Layout.encode_strict_step", "Layout.encode_lenient_step", "Layout.create_inv",
                                 "Layout.C16_end_to_end", "Layout.C16_bytes_in_order", "Layout.C16_headline_bytes", "Layout.C16_bytes_geometry", "Layout.C16_bytes_cells",
                                 "Layout.encode_sync", "Layout.run_sync", "Layout.attrsStrict_over", "Layout.attrsLenient_over", "Layout.writeAt_cell_mid", "writeAllG_eq_writeAllF",
                                 "Layout.widths_faithful", "Layout.widths_wrap", "Layout.recLenGo_eq", "Layout.FileOK_of_widths",
                                 "GenGeom.tie_getStartEnd", "GenGeom.tie_polygon2geom", "GenGeom.tie_polyLine2geom", "GenGeom.tie_point2geom", "GenGeom.tie_multiPoint2geom", "GenGeom.tie_shp2Geom",
                                 "GenGeom.tie_geom2point", "GenGeom.tie_geom2polygon_ring", "GenGeom.tie_geom2polygon", "GenGeom.tie_geom2polyLine", "GenGeom.tie_geom2multiPoint", "GenGeom.tie_geom2Shp",
                                 "Reflect.refl_conservative", "Reflect.refl_conservative_newEncoder", "Reflect.refl_conservative_encode", "Reflect.refl_conservative_decodeField", "Reflect.refl_conservative_decodeFields", "Reflect.refl_conservative_read", "Reflect.refl_skipped_fields", "Reflect.refl_unsupported_panics", "Reflect.newEncoderR_cols", "Reflect.refl_strict_loop_stop", "Reflect.refl_stop_column", "Reflect.refl_unexported_column", "Reflect.refl_named_type_err", "Reflect.refl_unexported_geometry", "Reflect.refl_decode_untouched", "Reflect.refl_decode_untouched_anywhere", "Reflect.refl_decode_matched_bad_kind_panics", "Reflect.refl_bad_kind_ends_read", "Reflect.refl_ptr_geom", "Reflect.refl_ptr_geom_shape", "Reflect.refl_unexported_geom_reader", "Reflect.refl_match", "Reflect.refl_match_none", "Reflect.refl_embedded_inner_invisible",
                                 "C16_fields_roundtrip", "C16_float_cell_text", "fmtFloat_solid", "strOf_render", "rowFields_val",
                                 "Layout.C16_shx_invariant", "Layout.C16_shx_entries", "Layout.C16_stepMin", "Layout.C16_stepMax", "Layout.C16_box_polyline", "Layout.C16_record_box", "Layout.C16_box_multipoint", "Layout.C16_box_multipoint_minX", "Layout.C16_header_box", "Layout.C16_header_box_minX",
                                 "C16_float_cert", "C16_float_cert_rne", "C16_float_text", "C16_float_universal", "C16_float_nonfinite", "C16_floatCellCert_all", "C16_floatFmt_instance", "C16_float_unconditional", "C16_struct_roundtrip_float",
                                 "C16_struct_file_roundtrip", "C16_callOK_written", "C16_match_any", "Matches_self", "C16_struct_roundtrip_matched", "reparse_close", "Layout.C16_struct_bytes_roundtrip", "Layout.C16_written_bytes_schedule", "C16_schedule_written", "C16_mixed_file_roundtrip", "writeLenient_eq_strict",
                                 "Wrap.createW_none_iff", "Wrap.createW_within", "Wrap.encodeFieldsW_within", "Wrap.runW_within", "Wrap.encodeFieldsW_panics", "Wrap.cellOffW_nonneg", "Wrap.readAttributeW_within", "Wrap.wrap_regimes",
                                 "GenStr.tie_shpFieldName2String", "GenStr.tie_shpAttributeToFloat", "GenStr.tie_shpAttributeToInt", "GenStr.tie_numText",
                                 "Gen.tie_widths", "Gen.tie_columns", "Gen.tie_lookup", "Gen.tie_cuts", "Gen.tie_write_order"]],
    "trusted_base": [
        "Lean 4.33.0 kernel; axioms of every theorem printed by #print axioms must be within {propext, Classical.choice, Quot.sound}",
        "harness/cmd/c16/extract (go/ast, ~300 lines) transcribes constants, lookup order, cut sets and write order of encoding/shp/shp.go into Gen.lean faithfully",
        "harness/cmd/c16/extract/geom.go (go/ast, statement level) translates the functions of encoding/shp/shp2geom.go into GenGeom.lean faithfully; vocabulary GenGeomLib.lean (Go int as Int without 64-bit overflow, []int32 parts as Nat, make/index/append with faults, for/range loops); TieGeom.lean proves generated = model",
        "harness/cmd/c16/extract/strfn.go (go/ast, statement level) translates shpFieldName2String, shpAttributeToFloat, shpAttributeToInt of encoding/shp/shp.go into GenStr.lean faithfully; vocabulary GenStrLib.lean (Go int as Int, byte strings as lists, error as Bool, slice bounds fault, bytes.Trim/Index/TrimSpace, strconv.ParseFloat/ParseInt = the model's parsers at 64 bits / base 10); TieStr.lean proves generated = model",
        "model lean/GeomV/C16/Model.lean is tied to /repo/encoding/shp/{shp.go,shp2geom.go} by the correspondence run through real temporary shapefiles (both encoder and both decoder paths, token-exact) on every check",
        "go-shp's .shp/.shx/.dbf byte layout (github.com/jonas-p/go-shp, pinned by go.sum h1:h5O7ee4tlSPVjdC75eSLX7jXZiHftthuHio/GtrhaSM=, checked by the harness at run time) is transcribed in lean/GeomV/C16/Layout.lean and tied by comparing, for every case, the model's .shp/.shx/.dbf bytes with the bytes of the real temporary files (exact) and the real bytes read back through the layout reader with the abstract row store; that the layout implements the row store is proved (Layout.C16_container); encoding/binary, os.File Seek/Write semantics (a gap past the end reads as zeros) are trusted",
        "Go strconv (Itoa/ParseInt/FormatFloat 'f'/ParseFloat correctly rounded), strings.Trim/ToLower, reflect behave as documented; that a FormatFloat('f',p) text read by a correctly rounding parser is within 10^-p of the value is no longer assumed but proved on the model (C16_float_universal, C16_floatFmt_instance; parser = C17 Dec.toBits, proved IEEE round-to-nearest-even)",
        "lean/GeomV/C16/Wrap.lean transcribes what go-shp does with int16 counters that wrapped (header >= 2^15 bytes: constructor panics; attribute row 2^15..2^16 bytes: every write panics after the shape record; > 2^16: overlapping rows; reader: signed lengths, failed Seek leaves the handle); tied by the `wide` correspondence family (exact tokens and bytes), proved equal to Layout.lean within WidthsOK (Wrap.runW_within)",
        "harness/cmd/c16 + lean driver + lib/vcheck.py transport inputs faithfully",
    ],
    "assumptions": [
        "fewer than 2^31 points per shape and fewer than 2^15 bytes per attribute row and header (go-shp's int32/int16 counters; the layout model uses Nat: Layout.widths_faithful proves agreement within these bounds, Layout.widths_wrap shows the wrap just beyond)",
        "column and field names without non-ASCII upper-case letters (the model lower-cases ASCII only)",
        "cells parsed as numbers hold decimal literals with a decimal exponent of at most 5000 in absolute value (the cap of the C17 parser model; strconv reads 1e-50000000 as 0) or FormatFloat's NaN/+Inf/-Inf (hex floats, '_' and other spellings of inf/nan are not modelled)",
        "a shape of the file's own shape type per record (go-shp writes the FILE's type into every record header, so a Null shape in a typed file is not readable; outside the statement)",
    ],
    "rule": "one case = one shapefile written and read back through real temporary files: writer NewEncoder/Encode (for a third of these a WRITER schedule on the one encoder: record i written with Encode or EncodeFields according to entry i mod k, k=2..4) (reflect.StructOf struct types with generated "
            "names/tags/field order) or NewEncoderFromFields/EncodeFields (generated shp.Field lists), reader DecodeRow (perturbed struct: case, tag-vs-name, "
            "order, dropped/unmatched fields) or DecodeRowFields, or a reading SCHEDULE on one Decoder (record i read with call i mod k, k=2..4: DecodeRowFields with all names / subset / permuted / duplicates / none, mixed with DecodeRow); DecodeRow decodes into a fresh record variable per row or into ONE reused variable (per call site), with zero values ("", 0, 0.0) alternating with non-zero ones; 0-300 records of one geometry kind (point, multipoint, LineString, MultiLineString 0-6 parts "
            "incl. empty, polygon 0-5 rings closed/unclosed/closed-up-to-signed-zero, *Bounds incl. zero height/width, nil in NULL files), coordinates from random "
            "bit patterns/NaN payloads/+-0/+-Inf/subnormals/ordinary values; ints, floats and strings at the column-width boundaries. "
            "wide family (10 per quick run, 60 thorough): field lists of 128-385 columns of 255 bytes and 1022-1028 narrow columns, i.e. attribute rows/headers just below and beyond go-shp's int16 counters, 0-4 records with 0-3 or all values, names incl. the last column and a missing one (classes -wide: model Wrap.lean vs code, DIFF only); "
            "a third of the file cases run with COMPANION objects: a second Encoder (own file, fed every other record in between the main calls) and a second Decoder on the main file advanced in between the main calls - the main results must be unaffected; "
            "field-path files also contain records with 1-2 values MORE than columns (index panic after the cells were written, cursor left behind) followed by further records; "
            "rfile lines: statically declared writer/reader struct types with embedded structs, unexported fields, pointer fields, named types, unsupported kinds, duplicate tags (field descriptions computed by reflection), 0-4 records each; "
            "phase 4: column names of up to ELEVEN bytes are inside the statement (go-shp's name slot; corpus 7a); every attribute value repeats the previous record's value in its column with probability 1/6 (corpus 7e: runs of identical records); "
            "one file in 15 carries a BIG geometry (63..2049 vertices in one part, or 64..300 parts/rings) between ordinary records; corpus 7f: files of 260 and 1100 records on both paths; "
            "every row's result (struct, map, geometry) is kept and printed only after the read loop reached the end of the file and Decoder.Close() ran; the bytes of the three real files are part of every answer. "
            "distinct = distinct input line; non-trivial = every class (a case always writes and reads a real file)",
    "trivial_class": r"^$",
    "timeout": {"quick": 600, "thorough": 3000},
}
