T = "GeomV.C06."
CFG = {
    "id": "C06",
    "lean_modules": ["GeomV.C06.Proofs"],
    "exe": "geomv_c06",
    "go_cmd": "c06",
    "stages": ["go:gen", "go:impl", "lean:judge"],
    "theorems": [],
    "trusted_base": [],
    "assumptions": [],
    "rule": "",
    "timeout": {"quick": 600, "thorough": 3000},
}
