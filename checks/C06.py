import importlib.util, os
_spec = importlib.util.spec_from_file_location("c06_go2lean", os.path.join(os.path.dirname(os.path.abspath(__file__)), "c06_go2lean.py"))
_g2l = importlib.util.module_from_spec(_spec); _spec.loader.exec_module(_g2l)

T = "GeomV.C06."
CFG = {
    "id": "C06",
    "lean_modules": ["GeomV.C06.Proofs", "GeomV.C06.TextProofs", "GeomV.C06.CertProofs", "GeomV.C06.DecodeProofs", "GeomV.C06.ValueProofs", "GeomV.C06.UnmarshalProofs", "GeomV.C06.LitTextProofs", "GeomV.C06.RawProofs", "GeomV.C06.Tie"],
    "pregen": _g2l.pregen,
    "exe": "geomv_c06",
    "go_cmd": "c06",
    "lean_dirs": ["C06", "C17"],
    "stages": ["go:gen", "go:impl", "lean:judge"],
    "theorems": [T + n for n in ["C06_roundtrip", "C06_shape", "C06_errors", "C06_nil", "C06_guard_exact", "C06_encode_total", "C06_decode_rfc", "C06_injective",
                                 "C06_tie", "C06_roundtrip_src", "C06_shape_src",
                                 "C06_text_roundtrip", "C06_text_decode", "C06_numfmt_int",
                                 "C06_text_cert", "C06_text_cert_complete",
                                 "C06_decode_sound", "C06_decode_iff", "C06_decode_unknown_type", "C06_error_text", "C06_decode_error_text", "C06_decode_foreign_members", "C06_decode_last_wins",
                                 "C06_text_value", "C06_denotes_unique",
                                 "C06_unmarshal_lit", "C06_decode_lit", "C06_decode_lit_overflow", "C06_decode_lit_skipped",
                                 "C06_decode_lit_sound", "C06_decode_lit_conservative",
                                 "C06_parse_factor", "C06_text_decode_lit", "C06_text_decode_driver",
                                 "C06_text_decode_lit_sound", "C06_text_roundtrip_lit", "C06_rawPn_sound", "C06_range_meaning"]],
    "trusted_base": [
        "Lean 4.33.0 kernel; axioms of every theorem printed by #print axioms must be within {propext, Classical.choice, Quot.sound}",
        "T1: lean/GeomV/C06/Gen.lean is regenerated from /repo/encoding/geojson/{encode,decode,geojson}.go on every run by "
        "checks/c06_go2lean.py (idiom-level translator: trusted, exercised by T2) and proved equal to the model in Tie.lean",
        "T2: model lean/GeomV/C06/Model.lean is tied to /repo/encoding/geojson by the correspondence run on every check: ToGeoJSON's typed slices, "
        "Encode's bytes (parsed by the driver's own JSON parser and compared as a tree, key order included), Decode(Encode g), Decode of "
        "generator-written documents and FromGeoJSON on generic trees, all compared exactly (bit patterns, error kinds)",
        "encoding/json text: the bytes json.Marshal writes for Geometry{Type, Coordinates: typed float slices} are modelled by renderGeometry "
        "(Text.lean) and compared byte-for-byte on every encoded case, with the number formatter := encoding/json's own rendering of each coordinate",
        "encoding/json number text: NO LONGER a hypothesis for the real bytes - the driver evaluates the certificate textCert on every enc case "
        "(each coordinate's rendering is a non-empty numeric token that the RFC 8259 grammar + exact decimal->binary64 converter reads back to "
        "exactly that coordinate; text = renderGeometry byte for byte) and C06_text_cert proves a certified text parses to the RFC 7946 object "
        "of g; C06_text_value/C06_denotes_unique (via lean/GeomV/C17/DecProofs.lean, DecMono.lean: Dec.toBits is IEEE round-to-nearest-even of "
        "the literal's exact rational value) give the arithmetic meaning. Trusted: that json.Marshal's rendering of a lone float64 (the table) is "
        "what it writes inside the document - checked by the byte comparison with renderGeometry",
        "encoding/json object decoding as modelled in `unmarshal` / literal level `unmarshalL` (case-insensitive field match incl. U+017F/U+212A, "
        "last duplicate wins, null is a no-op for string fields, unknown members skipped = only scanned, number literals converted only inside a "
        "stored coordinates value, out-of-range literal there => saved UnmarshalTypeError): closed form proved (C06_unmarshal_lit), agreement with "
        "encoding/json exercised by generated documents (dec lines are judged with fromTreeL rangeConv)",
        "the driver's literal scanner rawPn (Cert.lean) incl. its magnitude shortcuts for decimal exponents beyond +-5000 is proved to be IEEE "
        "round-to-nearest-even of the literal's exact value (C06_rawPn_sound) and rangeConv = none exactly at IEEE overflow (C06_range_meaning); "
        "geojson.go's error types (payload, Error() text) are regenerated from the source (tie_errorTexts) and compared exactly (emsg/dmsg lines)",
        "the reading of RFC 7946 section 3.1 into lean/GeomV/C06/Spec.lean",
        "harness/cmd/c06 + lean driver + lib/vcheck.py transport inputs faithfully",
    ],
    "assumptions": ["nil slices and empty slices are not distinguished by the model (Encode writes [] for both: pointsCoordinates uses make); nil "
                    "slices at every level are exercised",
                    "the nil interface value is outside the property: ToGeoJSON(nil)/Encode(nil) panic in reflect.TypeOf(nil).String() - modelled "
                    "as Err.panicNil (C06_nil) and exercised (tog/enc/rt NIL lines must panic; FromGeoJSON(nil) must return a runtime error)",
                    "cc lines: schedules are not enumerated - 8 callers x 6..40 rounds against 8 noise goroutines per line"],
    "rule": "fixed corpus (each type, later-empty members, first-empty members, unsupported, non-finite, exponent boundaries 1e21/1e-6 of "
            "encoding/json, -0, subnormals, 17-digit values, integers above 2^53) + generated geometries of the six types (member counts "
            "{1,2,3,5}, occasionally 120 vertices; 'wide' geometries with 65/129/257/1025 members at exactly one nesting level; 50% with later members possibly empty; 5% first member empty; 5% one non-finite coordinate; "
            "5% GeometryCollection/*Bounds), each giving a ToGeoJSON, an Encode and a Decode(Encode) case; plus generator-written JSON documents "
            "(key order/case/escapes, duplicates, foreign members, white space, alternative number spellings, perturbed nesting/arity) decoded "
            "at text level (Decode) and tree level (FromGeoJSON). plus batch lines (a history of 2..8 Encode calls whose returned slices are kept and re-verified after the whole batch); plus edge ordinates (about 700 values: +-2^k with float neighbours and +-1/+-0.5 at the int32/uint32/int64/uint64/2^53 conversion edges, 10^k, "
            "extreme finite values, subnormals, many-digit integers) in every type at X/Y, first/later position, first/later member; nil interface and "
            "nil slices; Feature/FeatureCollection/crs/bbox/foreign-member/3-D documents; about 250 texts that are NOT JSON (hand-written + one random "
            "byte edit of a good document: the driver's total parser rejects <=> SyntaxError) and overflowing literals in stored vs skipped members; "
            "dbatch lines (kept Decode results re-read after later calls, windows beyond 4096/8192 vertices); cc lines (concurrent callers vs the "
            "answer computed alone); wide geometries up to 2049 (thorough 4097) members; hist lines (one object: Encode+Decode, in-place edit of the same "
            "backing arrays - one vertex / all / zero signs / reslice +-1 / other type over the same runs / non-finite appears and disappears / "
            "vertices trade places - Encode+Decode again, 2..5 steps, document handed to Decode in one reused buffer); +-0 twins (vertices equal "
            "under == but not bitwise, in one run / across runs / across members); 2^16+1 members at every nesting level of every type, later "
            "members with 65537-vertex runs, random 2^13+1..2^17+1 (rt lines); uns lines (unsupported dynamic types that are near misses of supported ones: non-nil pointer to / typed nil pointer of / named struct embedding / struct holding a pointer to each of the six value types and GeometryCollection, as a collection member, nil *Bounds; tog and enc; an answer other than an error is SPEC); distinct = distinct input line; non-trivial = verdict class not 'skipped'",
    "timeout": {"quick": 600, "thorough": 3000},
    "explanation": "SPEC verdicts: the bytes Encode returns are parsed by the total RFC 8259 parser of Text.lean (the one the text-level theorems are about) (numbers converted by exact "
                   "round-to-nearest-even) and must be read back to the input geometry bit-for-bit by the independent RFC 7946 reader "
                   "(exactly the members type/coordinates, nesting 1/2/2/3/3/4, innermost [x,y]); Decode(Encode g) must equal g on the "
                   "guarded domain; unsupported/non-finite inputs must be errors. DIFF verdicts: every result is compared with the model.",
}
