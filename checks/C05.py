T = "GeomV.C05."
CFG = {
    "id": "C05",
    "lean_modules": ["GeomV.C05.Proofs"],
    "exe": "geomv_c05",
    "go_cmd": "c05",
    "stages": ["go:gen", "lean:prep", "go:impl", "lean:judge"],
    "theorems": [T + n for n in ["C05_mixed_order", "C05_decode_mixed", "C05_layout", "C05_roundtrip",
                                 "C05_type_preserved", "C05_unsupported", "C05_hex", "C05_hex_lower"]],
    "trusted_base": [
        "Lean 4.33.0 kernel; axioms of every theorem printed by #print axioms must be within {propext, Classical.choice, Quot.sound}",
        "model lean/GeomV/C05/Model.lean is tied to /repo/encoding/{wkb,hex} by the correspondence run (byte-exact, both directions) on every check",
        "Go encoding/binary and encoding/hex behave as their documentation says (fixed-width integers / IEEE bit patterns in the given byte order; lower-case hex)",
        "harness/cmd/c05 + lean driver + lib/vcheck.py transport inputs faithfully",
    ],
    "assumptions": ["member counts < 2^32 (the WKB count field); nil slices and empty slices are not distinguished"],
    "rule": "grammar-generated geometries of the 7 encodable types (nesting <= 5, member counts from {0,1,2,3,5,17,255..257}, "
            "coordinates from random 64-bit patterns/NaN payloads/±0/±Inf/subnormals/ordinary values); each yields enc(XDR), enc(NDR), "
            "round-trip, hex round-trip and a mixed-byte-order decode produced by the independent OGC serializer; plus truncated encodings. "
            "distinct = distinct input line; non-trivial = verdict class not 'skipped'",
    "timeout": {"quick": 600, "thorough": 3000},
}
