T = "GeomV.C05."
# T1: one tie lemma per Go function of encoding/wkb and encoding/hex (lean/GeomV/C05/Tie.lean)
TIES = {  # tie lemma -> the Go function(s) it ties
    "tie_constants": "the constants wkbXDR/wkbNDR, wkbPoint..wkbGeometryCollection, XDR/NDR, maxChunk",
    "tie_writePoint": "writePoint", "tie_writePoints": "writePoints", "tie_writePointss": "writePointss",
    "tie_writeLineString": "writeLineString", "tie_writePolygon": "writePolygon", "tie_writeMultiPoint": "writeMultiPoint",
    "tie_writeMultiLineString": "writeMultiLineString", "tie_writeMultiPolygon": "writeMultiPolygon",
    "tie_writeGeometryCollection": "writeGeometryCollection", "tie_Write": "Write", "tie_write": "Write (the recursion through the writers)",
    "tie_encode": "Encode",
    "tie_pointReader": "pointReader", "tie_minUint32": "minUint32", "tie_readPoints": "readPoints", "tie_lineStringReader": "lineStringReader",
    "tie_polygonReader": "polygonReader", "tie_multiPointReader": "multiPointReader", "tie_multiLineStringReader": "multiLineStringReader",
    "tie_multiPolygonReader": "multiPolygonReader", "tie_geometryCollectionReader": "geometryCollectionReader",
    "tie_wkbReaders": "init (the dispatch table wkbReaders)", "tie_dispatch": "Read (dispatch through wkbReaders)", "tie_Read": "Read",
    "tie_read": "Read (the recursion through the readers)", "tie_decode": "Decode",
    "tie_hexEncode": "hex.Encode", "tie_hexDecode": "hex.Decode",
}
# T1, streaming path: one relation lemma per reader function regenerated a second time with the io.Reader as any byte
# source (lean/GeomV/C05/TieGenS.lean, namespace GenS)
TIES_S = {
    "pointReader_rel": "pointReader", "readPoints_rel": "readPoints", "lineStringReader_rel": "lineStringReader",
    "polygonReader_rel": "polygonReader", "multiPointReader_rel": "multiPointReader", "multiLineStringReader_rel": "multiLineStringReader",
    "multiPolygonReader_rel": "multiPolygonReader", "geometryCollectionReader_rel": "geometryCollectionReader",
    "wkbReaders_rel": "init (the dispatch table wkbReaders)", "Read_rel": "Read", "readS_rel": "Read (the recursion through the readers)",
}
# T1, writing path call by call: one tie lemma per writer function regenerated a second time with the io.Writer as any
# writer state machine (lean/GeomV/C05/TieSink.lean, namespace GenW)
TIES_W = {
    "tie_writePointW": "writePoint", "tie_writePointsW": "writePoints", "tie_writePointssW": "writePointss",
    "tie_writeLineStringW": "writeLineString", "tie_writePolygonW": "writePolygon", "tie_writeMultiPointW": "writeMultiPoint",
    "tie_writeMultiLineStringW": "writeMultiLineString", "tie_writeMultiPolygonW": "writeMultiPolygon",
    "tie_writeGeometryCollectionW": "writeGeometryCollection", "tie_WriteW": "Write", "tie_writeW": "Write (the recursion through the writers)",
}
SINK_SRC = ["C05_sink_src", "C05_sink_ok_src", "C05_sink_prefix_src", "C05_sink_limit_src", "C05_sink_unsupported_src"]
STREAM_GEN = ["C05_stream_gen", "C05_stream_gen_model", "C05_stream_read_gen", "C05_stream_truncated_gen"]
# phase 4: io.ReadFull over scripts is additive (FillAdd.lean); the regenerated streaming Read = the hand-written one (TieExact.lean)
FILLADD = ["C05_readfull_additive", "C05_reader_state_unique"]
EXACT = ["C05_stream_gen_exact", "C05_read_sequence_gen", "C05_retry_gen"]
# phase 4: the reader after a failed io.ReadFull, wkb.Read called again (Retry.lean, ProofsRetry.lean)
RETRY = ["C05_readfull_failed", "C05_failed_read_state", "C05_retry", "C05_read_failure_observed"]
FUEL = ["C05_truncated_decode", "C05_decode_no_fuel", "C05_fuel_irrelevant"]
# wkb.Write call by call over a model of io.Writer (lean/GeomV/C05/Sink.lean, ProofsSink.lean)
SINK = ["C05_sink_ok", "C05_sink_prefix", "C05_sink_limit", "C05_sink_limit_fresh", "C05_sink_unsupported", "C05_sink_unsupported_any"]
SRC = ["C05_roundtrip_src", "C05_layout_src", "C05_mixed_order_src", "C05_decode_mixed_src", "C05_unsupported_src", "C05_hex_src",
       "C05_stream_model_src", "C05_truncated_src", "C05_roundtrip_iff_src", "C05_decoded_encodable_src"]
COUNT = ["C05_decoded_encodable", "C05_roundtrip_iff", "C05_count_wraps"]
BIN = ["C05_bin_uint32", "C05_bin_uint64", "C05_bin_put", "C05_bin_readU32", "C05_bin_readPoint", "C05_bin_write", "C05_bin_readPoints", "C05_bin_writePoints"]
# phase 3: the streaming entry point behind arbitrary scripted readers (lean/GeomV/C05/ProofsStream.lean)
STREAM = ["C05_readfull", "C05_stream_model", "C05_stream_read", "C05_read_sequence", "C05_truncated", "C05_stream_truncated"]
CFG = {
    "id": "C05",
    "lean_modules": ["GeomV.C05.Proofs", "GeomV.C05.ProofsStream", "GeomV.C05.ProofsCount", "GeomV.C05.ProofsBin", "GeomV.C05.ProofsFuel", "GeomV.C05.ProofsSink", "GeomV.C05.FillAdd", "GeomV.C05.ProofsRetry", "GeomV.C05.Tie", "GeomV.C05.TieStream", "GeomV.C05.TieGenS", "GeomV.C05.TieExact", "GeomV.C05.TieSink"],
    "exe": "geomv_c05",
    "go_cmd": "c05",
    "stages": ["go:gen", "lean:prep", "go:impl", "lean:judge"],
    "theorems": [T + n for n in ["C05_mixed_order", "C05_decode_mixed", "C05_layout", "C05_roundtrip",
                                 "C05_type_preserved", "C05_unsupported", "C05_hex", "C05_hex_lower"]
                                + [n for n in TIES if n != "tie_dispatch"] + SRC]
                 + [T + "Stream." + n for n in STREAM] + [T + n for n in COUNT] + [T + "BinStd." + n for n in BIN]
                 + [T + "GenS." + n for n in TIES_S] + [T + n for n in STREAM_GEN] + [T + "Fuel." + n for n in FUEL] + [T + "Sink." + n for n in SINK]
                 + [T + "Stream." + n for n in FILLADD + RETRY] + [T + n for n in EXACT]
                 + [T + "GenW." + n for n in TIES_W] + [T + n for n in SINK_SRC],
    "trusted_base": [
        "Lean 4.33.0 kernel; axioms of every theorem printed by #print axioms must be within {propext, Classical.choice, Quot.sound}",
        "T1: harness/cmd/c05/extract.go (go/ast, ~1900 lines, statement-level, subset listed in its header) regenerates lean/GeomV/C05/Gen.lean from "
        "encoding/wkb/*.go and encoding/hex/hex.go of the tree under test on every run; Tie.lean proves every regenerated function equal to the "
        "model's (28 tie lemmas; the chunked readPoints by induction) and the theorems are restated for the regenerated Encode/Decode/Read "
        "(C05_*_src). Trusted in T1: the translator and the meaning lean/GeomV/C05/GenLib.lean gives to io.Reader/io.Writer (remaining bytes / bytes "
        "written; bytes written before an error: see Sink below), encoding/binary, uint32 wrap-around, the three loop forms, map lookup, and "
        "the unrolling of the Read/Write recursion. A function outside the subset makes Gen.lean fail to elaborate and is reported by name",
        "T1, streaming path (wave 3): the extractor translates every reader function a SECOND time with the io.Reader as any byte source "
        "(Gen.lean, names ending in S; vocabulary lean/GeomV/C05/GenLibS.lean: binary.Read = ONE io.ReadFull of dataSize bytes — 1, 4, 16, 16*len — "
        "followed by the in-memory decoding of the buffer); TieGenS.lean proves function by function (11 relation lemmas GenS.*_rel, the chunked "
        "loop included) that behind ANY scripted reader they return what the regenerated slice functions return on the bytes delivered before the "
        "reader's first error, leave exactly the bytes those leave, reject alike, and report the reader's own error where the slice function runs "
        "out of input (C05_stream_gen, C05_stream_gen_model, C05_stream_read_gen, C05_stream_truncated_gen). Trusted there: the same translator, "
        "GenLibS.lean, and the model of io.ReadFull over scripts (Stream.fill, hand-written from io.ReadAtLeast, tied by the rdscript lines)",
        "T2: model lean/GeomV/C05/Model.lean is tied to /repo/encoding/{wkb,hex} by the correspondence run (byte-exact, both directions) on every check",
        "Go encoding/hex behaves as documented (lower-case hex). encoding/binary: the primitives encoding/wkb uses (order.Uint32/Uint64/PutUint32/PutUint64, "
        "binary.Read/Write of uint32 and geom.Point) are transcribed from the Go 1.23 source into lean/GeomV/C05/BinStd.lean (shifts/ors, byte(v>>k), one io.ReadFull + "
        "struct walk) and PROVED equal to GenLib's meaning (C05_bin_*); the transcription is tied to the real library by the bin lines of every run; still trusted: "
        "math.Float64bits/frombits are the identity on bit patterns (they are unsafe pointer casts; a coordinate IS its 64-bit pattern in the model). "
        "The slice walk of binary.Read/Write on a []geom.Point (one io.ReadFull of 16*len bytes, element by element through the struct walk; one buffer, one "
        "w.Write) is transcribed too and proved equal to GenLib's (C05_bin_readPoints, C05_bin_writePoints)",
        "io.Reader: no longer 'the remaining bytes' only — lean/GeomV/C05/Stream.lean models a reader as ANY finite script of Read calls (short/empty reads, data "
        "together with an error, errors of its own) and io.ReadFull over it (hand-written from io.ReadAtLeast; a Read error delivered with the last needed byte "
        "stays pending); C05_readfull/C05_stream_model prove that wkb.Read behind such a reader = Model.read (= Gen.read, C05_stream_model_src) on the bytes delivered "
        "before the first error. Stream.readS (wkb.Read generic in its byte source) is hand-written, proved equal to Model.read on byte lists, and tied by the "
        "rdscript lines (exact results, error classes and bytes consumed); since wave 3 the same theorems hold for the REGENERATED streaming functions "
        "(C05_stream_gen*), so the hand-written readS is no longer needed for the claim about wkb.Read, only for judging the rdscript lines",
        "io.Writer: lean/GeomV/C05/Sink.lean models wkb.Write call by call (one w.Write per binary.Write, in the order of the Go source, stopping at the "
        "first error) over any writer state machine; hand-written, proved equal to Model.write on writers that accept everything (C05_sink_ok) and "
        "tied by the wrfail lines (exact result and bytes for a writer failing after k bytes)",
        "Phase 4: (1) io.ReadFull over scripts is additive (FillAdd.lean) and the Reach invariant is carried through TieGenS, so the regenerated streaming Read "
        "and the hand-written Stream.readS are the SAME function on every scripted reader, reader state included (C05_stream_gen_exact): Stream.readS, which judges "
        "the rdscript/rdretry lines, is a consequence of the Go text. (2) T1, writing path call by call: the extractor translates every writer function a SECOND time "
        "with the io.Writer as any writer state machine K : Sink (Gen.lean, names ending in W; vocabulary lean/GeomV/C05/GenLibW.lean: binary.Write = ONE K.put of the buffer "
        "GenLib's primitive appends to an empty buffer; an error carries the writer state reached); TieSink.lean proves function by function (11 lemmas GenW.tie_*W) that "
        "it is Sink.writeW for EVERY writer (C05_sink_src), so Sink.writeW, which judges the wrfail lines, is a consequence of the Go text too; trusted there: the same "
        "translator and GenLibW.lean. (3) Retry.lean: io.ReadFull with the reader state kept on failure (fillR, proved to refine Stream.fill; an error is reported once), "
        "tied by the rdretry lines (harness scriptReader follows the same rule)",
        "harness/cmd/c05 + lean driver + lib/vcheck.py transport inputs faithfully",
    ],
    "assumptions": ["member counts < 2^32 (the WKB count field) — proved to be exactly the lossless domain (C05_roundtrip_iff; behaviour beyond it: C05_count_wraps); "
                    "nil slices and empty slices are not distinguished by the property nor by the model; observed on every decin line: the decoder returns every slice "
                    "non-nil, also for a count of 0 (class decin-nil-slice counts the lines where it does not: 0 on the unchanged tree; not an alarm)",
                    "T1 sees the text of the functions, not the Go memory model: aliasing of results or inputs, state kept between calls and "
                    "package-level variables are outside the regenerated definitions (any use of a package-level variable other than the dispatch "
                    "table leaves the subset and is reported) and are probed by T2 (late-read batches, shared-backing inputs, repeated calls)"],
    "rule": "grammar-generated geometries of the 7 encodable types (nesting <= 5, member counts from {0,1,2,3,5,17,255..257}, "
            "coordinates from random 64-bit patterns/NaN payloads/±0/±Inf/subnormals/ordinary values); each yields enc(XDR), enc(NDR), "
            "round-trip, hex round-trip and a mixed-byte-order decode produced by the independent OGC serializer; long point sequences around the "
            "chunk size (1023..3000; thorough to 8193 and 65535..65537); point counts 127..130, 255..257, 2047..2049 (hex scratch sizes) at one nesting level; "
            "nil slices at every level; shared-backing inputs (rings/members as consecutive windows of one flat buffer with spare capacity and as prefix "
            "re-slices) encoded twice in both orders with a bit-for-bit before/after comparison of the input and of the two encodings; late-read encode batches; "
            "wkb.Read behind short-read readers; rejected-decode histories; truncated encodings. "
            "Phase 3: 1..3 geometries serialized one after the other by the independent serializer (random order trees), optionally followed by "
            "stray bytes, cut into scripted Read calls (one byte each / one call / sizes 0..1000 incl. empty reads), optionally failed at a random "
            "position by io.EOF or the reader's own error (alone or together with the last bytes), read by n+1 successive wkb.Read calls on ONE reader with "
            "the bytes consumed after every call and the values printed only after the last call (rdscript; long lists 1023/1025/2049 too); values written "
            "one after the other to ONE non-Buffer writer and through bufio, read back from one reader (seqwr); writers failing after k bytes (wrfail); "
            "foreign byte-order values (encbo); Decode on a window with sentinels, input compared before/after, decoded twice (decin; incl. lists truncated "
            "inside a later chunk and trailing bytes); batches of decodes read late (decbatch); 60 (thorough 400) concurrent-caller lines (cc: 8 callers on "
            "private copies + 6 hammering goroutines, both byte orders, every observation point; class conc-*); encoding/binary primitives against their transcription (bin). "
            "Wave 3: every count field (points, rings, Multi* members, collection members) at 65536/65537 in the quick tier; wrfail lines with an unsupported value at "
            "top level / after supported members / nested (bytes handed to the writer before the error must be a prefix of the model's); all-empty values of every "
            "type decoded with a nil-vs-empty report. "
            "Phase 4: histories with failed calls between valid ones (failthen: Encode/hex.Encode of values whose unsupported member comes after supported ones, Write to a "
            "writer failing half way, Decode of a truncated encoding; every answer read after the last call); wkb.Read twice on ONE scripted reader that fails before or inside "
            "a first encoding (io.EOF or its own error, alone or with the last bytes) and then delivers a complete one (rdretry, built by the Lean prep stage from the independent "
            "serializer); collections nested 6..1000 deep, bare and with siblings at every level; hex round trips at text lengths 2^16, 2^20, 2^21. "
            "distinct = distinct input line; non-trivial = verdict class not 'skipped'",
    "timeout": {"quick": 600, "thorough": 3000},
}


def pregen(check):
    """T1: regenerate Gen.lean from encoding/wkb/*.go and encoding/hex/hex.go of the tree under test (written
    only when it changed) and pre-build the tie.  A function that left the translatable subset, or a tie lemma
    that no longer holds, is reported with the Go function's name; the module GeomV.C05.Tie is then left out of the
    main build so that the theorems about the model are still checked and counted (the tie lemmas and the
    *_src theorems are reported as not discharged)."""
    import os, re, subprocess
    import vcheck
    cfg = check.cfg

    def drop(why):
        cfg["lean_modules"] = [m for m in cfg["lean_modules"] if not m.startswith(T + "Tie")]
        check.broken.append(why)

    gen = os.path.join(vcheck.LEAN, "GeomV", "C05", "Gen.lean")

    def write(text):
        old = open(gen).read() if os.path.exists(gen) else ""
        if old != text:
            with open(gen + ".tmp", "w") as f:
                f.write(text)
            os.replace(gen + ".tmp", gen)

    ok, gobin, out = vcheck.go_build("c05", check.rundir)
    if not ok:
        write("import GeomV.C05.GenLib\n/-! The T1 extractor could not be built against the tree under test. -/\n"
              "theorem untranslatable : \"harness/cmd/c05 does not compile against the tree under test\" = \"\" := by decide\n")
        drop("T1 tie: harness/cmd/c05 (with the extractor) does not compile against the tree under test")
        return
    p = subprocess.run([gobin, "extract", "--repo", vcheck.REPO], stdout=subprocess.PIPE, stderr=subprocess.PIPE, text=True)
    if p.returncode not in (0, 3) or not p.stdout.startswith("import"):
        drop("T1 tie: extractor failed: " + p.stderr.strip()[-300:])
        return
    check.c05_gen = p.stdout
    # Gen.lean lives in the shared lake package: write and pre-build under the build lock, so that a run
    # against another tree (seeded-change trials) cannot swap the file between the two steps
    with vcheck.Lock("lake"):
        write(p.stdout)
        if p.returncode == 3:
            # Gen.lean now holds, in place of each such function, a declaration that does not elaborate
            drop("T1 tie: Go function(s) outside the translatable subset, the regenerated Gen.lean does not elaborate: "
                 + " | ".join(p.stderr.strip().splitlines())[:900])
            return
        b = subprocess.run(["lake", "build", T + "Tie", T + "TieGenS", T + "TieExact", T + "TieSink"], cwd=vcheck.LEAN, stdout=subprocess.PIPE, stderr=subprocess.STDOUT, text=True)
    if b.returncode == 0:
        return
    open(os.path.join(check.rundir, "tie.log"), "w").write(b.stdout)
    errs = re.findall(r"error: (?:\./)?GeomV/C05/(Gen|TieGenS|TieExact|TieSink|Tie)\.lean:(\d+):\d+: (.*)", b.stdout)
    if any(f == "Gen" for f, _, _ in errs) or not errs:
        drop("T1 tie: the regenerated Gen.lean does not elaborate: " + " | ".join(m for f, _, m in errs if f == "Gen")[:600]
             + ("" if errs else b.stdout[-600:]))
        return
    # name the tie lemma(s) whose proof failed: the last `theorem` at or before each error line
    srcs = {f: open(os.path.join(vcheck.LEAN, "GeomV", "C05", f + ".lean")).read().split("\n") for f in ("Tie", "TieGenS", "TieExact", "TieSink")}
    bad = []
    for fl, ln, _ in errs:
        src = srcs[fl]
        name = "?"
        for i in range(min(int(ln), len(src)) - 1, -1, -1):
            m = re.match(r"theorem (\w+)", src[i])
            if m:
                name = m.group(1)
                break
        if name not in bad:
            bad.append(name)
    drop("T1 tie broken: " + "; ".join("%s — the Go function %s no longer denotes the model's function" % (n, TIES.get(n, TIES_S[n] + " (streaming path)" if n in TIES_S else TIES_W[n] + " (call-by-call writing path)" if n in TIES_W else "(helper lemma)")) for n in bad))


def post(check, pairs, stats):
    """the audited build must have used the Gen.lean of THIS run"""
    import os
    import vcheck
    want = getattr(check, "c05_gen", None)
    gen = os.path.join(vcheck.LEAN, "GeomV", "C05", "Gen.lean")
    if want is not None and (not os.path.exists(gen) or open(gen).read() != want):
        check.broken.append("T1 tie: lean/GeomV/C05/Gen.lean was overwritten during this run by a concurrent run against another tree; "
                            "the T1 obligations of this run are void — run again")


CFG["post"] = post
CFG["pregen"] = pregen
