"""C08 plugin.  pregen (tie T1): harness/cmd/c08/extract (go/ast, source text only) regenerates
lean/GeomV/C08/Gen/GoProj.lean from the CURRENT proj/{common,datum,merc,lcc,aea,eqdc,tmerc,utm,krovak}.go and Gen/GoRoute.lean from
proj/transform.go and Gen/GoAxis.lean from proj/adjust_axis.go; the `rfl` lemmas of lean/GeomV/C08/{Ties,TiesCommon,TiesReal,TiesGuards,TiesRoute,TiesAxis}.lean then re-check model = source
for every arithmetic right-hand side, guard comparison (operands, operator, threshold), literal loop bound, integer iteration cap
(tmerc max_iter, krovak iter < 15, Hannover maxiter) and the pipeline's route decision, record guards and compound assignments;
Gen/GoShape.lean (extract/shape.go) holds the statement skeleton of every function of the anchored files (nesting of guards, order,
else branches, loop headers, value vs error returns), pinned by the rfl lemmas of TiesShape.lean."""
import os, subprocess, sys
sys.path.insert(0, os.path.join(os.path.dirname(os.path.dirname(os.path.abspath(__file__))), "lib"))
import vcheck

T = "GeomV.C08."
GEN = os.path.join(vcheck.LEAN, "GeomV", "C08", "Gen")


def pregen(check):
    out = os.path.join(check.rundir, "c08extract")
    with vcheck.Lock("go"):
        p = subprocess.run(["go", "build", "-o", out, "./cmd/c08/extract"], cwd=vcheck.HARNESS, env=vcheck.GOENV,
                           stdout=subprocess.PIPE, stderr=subprocess.STDOUT, text=True)
    if p.returncode != 0:
        check.broken.append("T1 extractor does not build: " + p.stdout.strip()[-300:])
        return
    with vcheck.Lock("lake"):   # Gen/*.lean is an input of lake build
        p = subprocess.run([out, "--repo", vcheck.REPO, "--out", GEN], stdout=subprocess.PIPE, stderr=subprocess.STDOUT, text=True)
    if p.returncode != 0:
        check.broken.append("T1 extraction failed: " + p.stdout.strip()[-500:])
    else:
        vcheck.log(p.stdout.strip())


OPTS = ("ft", "usft", "ax", "pmN", "pmX", "dn", "d3", "d7", "ab", "arf")
NAMES = ("longlat", "merc", "lcc", "aea", "eqdc", "tmerc", "utm", "krovak")


def post(check, pairs, stats):
    """generator matrix into the evidence: generated `rt` lines per projection x {sphere, ellipsoid, +R_A} x option
    (units, axis, prime meridian, datum kind, ellipsoid given as a/b or a/rf) x kind of geographic CRS; a hole in the
    matrix (a projection that never met one of the options in this run) is a broken obligation of the check itself."""
    import json
    m = {}
    # tw lines (route decision, fix b165df1): how many were really compared with their +datum=WGS84 twin
    tw = {"twin": 0, "notwin": 0, "geoLower": 0, "projLower": 0}
    for impl, verdict in pairs:
        if impl.startswith("tw "):
            v = verdict.split(" ", 2)
            if len(v) > 1 and v[1].startswith("twin-"):
                tw["twin"] += 1
                for k in ("geoLower", "projLower"):
                    if k in impl.split(" ", 2)[1]:
                        tw[k] += 1
            else:
                tw["notwin"] += 1
    for impl, _ in pairs:
        t = impl.split(" ", 2)
        if len(t) < 3 or t[0] != "rt":
            continue
        b, _, a = t[1].partition("/")
        parts = b.split("-")
        if parts[0] not in NAMES or "fixed" in parts:
            continue
        tags = set(parts[1:])
        shape = "sphere" if ("S" in tags or "sph" in tags) else ("R_A" if "ra" in tags else "ellipsoid")
        row = m.setdefault(parts[0], {})
        for key in [shape] + [x for x in OPTS if x in tags] + ["geo:" + x for x in a.split("-") if x]:
            row[key] = row.get(key, 0) + 1
    check.cfg["explanation"] = ("generator matrix, rt lines (8 positions x 3 legs each) per projection x option this run: "
                                + json.dumps(m, sort_keys=True))
    check.cfg["explanation"] += "; tw lines (lower-case wgs84 datum code against a 3-/7-parameter datum, compared bit for bit with the +datum=WGS84 twin): " + json.dumps(tw, sort_keys=True)
    ncp = sum(1 for impl, _ in pairs if impl.split(" ", 2)[1:2] and "-cp" in impl.split(" ", 2)[1])
    check.cfg["explanation"] += "; cp lines (close or nearly symmetric standard parallels: the stratum where the derived conditioning slack of the correspondence is exercised): %d" % ncp
    holes = []
    # round h: every subset pattern of exactly-zero +towgs84 components (128 masks) on each side (zB, zA, zAB)
    dz = {"zB": set(), "zA": set(), "zAB": set()}
    for impl, _ in pairs:
        t = impl.split(" ", 2)
        if len(t) >= 3 and t[0] == "rt" and "-dz-" in t[1]:
            tg = t[1].partition("/")[0].split("-")
            for sd in dz:
                if sd in tg:
                    dz[sd].update(x for x in tg if x[:1] == "m" and x[1:].isdigit())
    check.cfg["explanation"] += "; dz lines (exact-zero patterns of a 7-value +towgs84, masks seen per side): " + json.dumps({k_: len(v_) for k_, v_ in dz.items()}, sort_keys=True)
    for sd, seen in sorted(dz.items()):
        if len(seen) < 128:
            holes.append("exact-zero towgs84 stratum: side %s has %d of 128 masks" % (sd, len(seen)))
    if ncp < 100:
        holes.append("close-parallels stratum: only %d lines" % ncp)
    # 30 = what the +datum=wgs84 (PROJ.4) spellings alone provide, so a change of the WKT reader (C20's subject) that makes
    # the WKT twins' records differ (class notwin-, not compared) does not break this obligation
    if tw["geoLower"] < 30 or tw["projLower"] < 30:
        holes.append("route-decision stratum: %s (need >= 30 compared twin lines with the lower-case code on each side)" % json.dumps(tw, sort_keys=True))
    for name in NAMES:
        need = ["sphere", "ellipsoid", "R_A", "pmN", "pmX", "dn", "d3", "d7", "ab", "arf", "geo:gW", "geo:gS", "geo:gX"]
        if name != "longlat":
            need += ["ft", "usft", "ax"]
        holes += ["%s x %s" % (name, k) for k in need if m.get(name, {}).get(k, 0) == 0]
    if holes:
        check.broken.append("generator matrix has holes: " + ", ".join(holes[:12]))


CFG = {
    "id": "C08",
    "lean_modules": ["GeomV.C08.Proofs", "GeomV.C08.ProofsConic", "GeomV.C08.ProofsTmerc", "GeomV.C08.ProofsGeodetic", "GeomV.C08.ProofsKrovak", "GeomV.C08.ProofsUnique", "GeomV.C08.ProofsConverge", "GeomV.C08.ProofsHelmert", "GeomV.C08.ProofsPipeline", "GeomV.C08.ProofsMore", "GeomV.C08.ProofsAea", "GeomV.C08.ProofsAea2", "GeomV.C08.ProofsPipeline2", "GeomV.C08.ProofsBounds", "GeomV.C08.ProofsCm", "GeomV.C08.Ties", "GeomV.C08.TiesCommon", "GeomV.C08.TiesReal", "GeomV.C08.TiesGuards", "GeomV.C08.TiesGuards2", "GeomV.C08.TiesRoute", "GeomV.C08.TiesAxis", "GeomV.C08.TiesShape"],
    "pregen": pregen,
    "post": post,
    "exe": "geomv_c08",
    "go_cmd": "c08",
    "stages": ["go:gen", "go:impl", "lean:judge"],
    "level": "proof",
    "theorems": [T + n for n in [
        "C08_longlat_inv", "C08_merc_sphere_inv", "C08_krovak_inv_assigns", "C08_krovak_unfixed_returns_zero",
        "C08_krovak_unfixed_not_assigns", "C08_pipeline_inverse_algebra", "C08_phi2z_fixed", "C08_phi2z_returns_fixed",
        "C08_merc_ell_inv_of_converged", "C08_imlfn_fixed", "C08_imlfn_stationary", "C08_eqdc_inv_of_converged",
        "C08_tmerc_footpoint_fixed", "C08_aeaPhi1z_fixed", "C08_eqdc_sphere_inv", "C08_aea_sphere_inv",
        "C08_eqdc_sphere_inv_south", "C08_aea_sphere_inv_south", "lcc_chain", "C08_lcc_sphere_inv", "C08_lcc_inv_of_converged",
        "aea_chain", "C08_aea_inv_of_converged", "C08_tmerc_sphere_inv", "C08_geodetic_fixed", "C08_geodetic_roundtrip_h0", "C08_krovak_lat_fixed", "krovak_rotation", "C08_krovak_sphere_chain_inv",
        "logTs_strictAnti", "tsfnz_injective", "C08_phi2z_fixed_unique", "merc_chain", "C08_merc_ell_inv_exact", "C08_lcc_inv_exact",
        "mlfn_strictMono", "C08_imlfn_fixed_unique", "eqdc_chain", "C08_eqdc_inv_exact",
        "qOf_strictMono", "C08_aeaPhi1z_fixed_unique", "C08_aea_inv_exact",
        # phase 3: CONVERGENCE within the iteration caps (contraction), hence the 1e-6 degree clause over the reals
        "genLoop_ok", "genLoop_close", "confF_lipschitz", "phi2z_contracts", "C08_phi2z_converges",
        "C08_merc_ell_inv_within", "C08_lcc_inv_within", "tmercPhi_contracts", "C08_tmerc_footpoint_converges",
        "imlfn_contracts", "C08_imlfn_converges", "C08_eqdc_inv_within", "krovak_contracts", "C08_krovak_lat_fixed_unique",
        "krovakLoop_converges", "C08_krovak_lat_converges", "C08_krovak_inv_within", "logTs_sin_lipschitz",
        "C08_merc_ell_reproject_within", "mlfn_lipschitz", "C08_eqdc_reproject_within", "C08_lcc_reproject_within",
        "C08_utm_sphere_inv", "C08_tmerc_ell_central_meridian_inv",
        # the 7-parameter stage: exact residual of the small-angle inverse and its bound (the judge's a-priori bound)
        "C08_helmert_residual", "C08_helmert_residual_bound", "rot_sq_le_sum_sq", "C08_helmert_not_identity",
        # the model of the whole NewTransform closure, both directions composed (routes without a datum shift)
        "datumTransform_nodatum", "C08_transform_roundtrip", "C08_transform_roundtrip_exact", "C08_transform_merc_sphere", "C08_constructors_ok",
        # the route decision of NewTransform (checkNotWGS after fix b165df1: strings.EqualFold)
        "goEqualFold_WGS84_iff", "C08_checkNotWGS_iff", "C08_route_case_insensitive", "C08_route_unfixed_case_sensitive", "C08_route_wkt_direct",
        # wave 2: the footpoint latitude exists (IVT), is unique, and the loop reaches it - no hypothesis about it any more
        "mlfn_continuous", "mlfn_near_linear", "C08_tmerc_footpoint_exists", "C08_tmerc_footpoint_converges_all",
        # wave 5: aeaPhi1z is a monotone Newton iteration (q concave in the latitude for e^2 <= 1/4) with an explicit quadratic remainder
        "aeaStep_eq", "qD_antitone", "C08_aea_newton_monotone", "C08_aea_newton_quadratic", "C08_aea_straddle",
        "C08_aeaPhi1zLoop_close", "C08_aeaPhi1zLoop_ok", "log_le_half_sub_inv", "qOf_le_two_mul", "aea_start_mem", "C08_aeaPhi1z_close",
        "C08_aeaPhi1z_converges_partial", "C08_aea_inv_close", "C08_aea_inv_within_partial", "aea_bound_numeric",
        "two_mul_le_log_ratio", "qOf_ge", "aeaLoop_quad", "aeaLoop_lin_quad", "qD_le_cos", "aea_band", "C08_aeaPhi1z_converges", "C08_aea_inv_within",
        # phase 4: the solver is odd in (qs, phi) -> both hemispheres; the error of the authalic q is second order in the stop
        # tolerance -> the 1 cm clause for the ellipsoidal Albers over the reals
        "aeaStep_odd", "aeaLoop_odd", "asinz_real", "qOf_odd", "aeaPhi1z_odd", "aeaPhi1z_converges_q", "C08_aeaPhi1z_converges_all",
        "C08_aea_inv_within_all", "sqrt_sub_le", "C08_aea_reproject_within",
        # phase 4: the 1e-6 degree clause on the model of the WHOLE NewTransform closure for the pairs whose inverse iterates
        "r2d_pos", "axisOk_enu", "C08_transform_within", "C08_transform_merc_ell", "C08_transform_lcc_ell", "C08_transform_eqdc_ell",
        "C08_transform_aea_ell", "C08_transform_krovak", "within_degrees",
        # phase 4: the judge's acceptance thresholds for the known findings as instances of theorems
        "C08_helmert_threshold", "normalAt_unit", "geodeticToGeocentric_eq", "C08_geocentric_affine_height", "C08_shift_affine",
        "C08_shift_translation", "C08_tangent_part_sq", "C08_height_loss_exact",
        # phase 4 (ProofsCm): the Albers 1 cm clause in the property's words, TM/UTM on the central meridian, and the two factors of heightLossBound
        "C08_aea_reproject_1cm", "C08_tmerc_central_meridian_reproject", "C08_tilt_le", "ellipsoid_support", "dist_expand", "C08_height_le_distance", "C08_height_loss_bound"]] + [
        # tie T1: model = definitions regenerated from the current Go source (rfl)
        T + "Ties." + n for n in ["tie_initMerc", "tie_fwdMerc", "tie_invMerc", "tie_initLcc", "tie_fwdLcc", "tie_invLcc",
                                  "tie_initAea", "tie_fwdAea", "tie_invAea", "tie_aeaPhi1zStep", "tie_initEqdc", "tie_fwdEqdc",
                                  "tie_invEqdc", "tie_initTmerc", "tie_fwdTmerc", "tie_tmercPhiStep", "tie_invTmerc",
                                  # part 2 (TiesCommon): common.go, datum.go, utm.go, krovak.go constants and latitude step
                                  "tie_msfnz", "tie_sign", "tie_adjustLon", "tie_adjustLat", "tie_tsfnz", "tie_phi2zStep", "tie_phi2zLoop",
                                  "tie_phi2z", "tie_e0fn", "tie_e1fn", "tie_e2fn", "tie_e3fn", "tie_mlfn", "tie_asinz", "tie_qsfnz",
                                  "tie_imlfnStep", "tie_imlfnLoop", "tie_imlfn", "tie_geodeticToGeocentric", "tie_geodeticStep",
                                  "tie_geocentricToGeodetic", "tie_geocentricToWgs84", "tie_geocentricFromWgs84", "tie_initUtm",
                                  "tie_krovak_S45", "tie_krovak_S0", "tie_krovakLatStep",
                                  # part 3 (TiesReal): krovak.go over the reals (Go folds S90-Uq, S0/2+S45, the Long0 default)
                                  "krovak_long0_real", "krovak_ad_real", "krovak_s0half_real", "tie_initKrovak_real",
                                  "tie_fwdKrovak_real", "tie_invKrovakVals_real", "datum_genau_real",
                                  # part 4 (TiesGuards): guards, tolerances, comparison operators and loop bounds
                                  "guard_sign", "guard_adjustLon", "guard_adjustLat", "guard_asinz", "guard_phi2zLoop", "guard_phi2z_cap",
                                  "guard_imlfnLoop", "guard_imlfn_cap", "guard_qsfnz", "guard_fwdMerc", "guard_fwdLcc", "guard_invLcc",
                                  "guard_aeaPhi1zLoop", "guard_aeaPhi1z", "guard_invAea", "guard_invEqdc", "guard_tmercPhiLoop",
                                  "guard_krovakLatLoop", "guard_geodeticToGeocentric", "guard_initAea", "guard_initLcc", "guard_initEqdc",
                                  # part 4b (TiesGuards2, phase 4): every guard of tmerc.go's closures through regenerated operands
                                  "guard_fwdTmerc", "guard_invTmerc", "guard_tmercPhiLoop_add",
                                  # part 5 (TiesRoute): transform.go - checkNotWGS, the closure's route condition, transform3's guards and assignments
                                  "tie_checkNotWGS", "tie_transform", "tie_transform3",
                                  # part 6 (TiesAxis): adjust_axis.go - switch table, loop bound, skip condition, slots, statement count
                                  "tie_axisSign", "tie_axis_shape", "tie_adjustAxis"]] + [
        # part 7 (TiesShape): the NESTING - the statement skeleton of every function of the anchored files (which statements a guard
        # governs, order, else branches, loop headers, value vs error returns) regenerated as one string per function and pinned by rfl
        T + "Shape." + n for n in ["common_adjust_lat", "common_adjust_lon", "common_asinz", "common_e0fn", "common_e1fn", "common_e2fn", "common_e3fn", "common_imlfn", "common_mlfn", "common_msfnz", "common_phi2z", "common_qsfnz", "common_sign", "common_tsfnz", "datum_m_compare_datums", "datum_m_geocentric_from_wgs84", "datum_m_geocentric_to_geodetic_noniter", "datum_m_geocentric_to_geodetic", "datum_m_geocentric_to_wgs84", "datum_m_geodetic_to_geocentric", "datum_transform_checkDatumParams", "datum_transform_datumTransform", "transform_checkNotWGS", "transform_m_NewTransform", "transform_transform3", "adjust_axis_adjust_axis", "longlat_LongLat", "merc_Merc", "lcc_LCC", "aea_AEA", "aea_aeaPhi1z", "eqdc_EqdC", "tmerc_TMerc", "utm_UTM", "krovak_Krovak", "shape_functions"]],
    "trusted_base": [
        "Lean 4.33.0 kernel; axioms of every theorem printed by #print axioms must be within {propext, Classical.choice, Quot.sound}; Mathlib v4.33 modules imported by RealInst/Lemmas/Proofs are checked by the same kernel",
        "the generic model lean/GeomV/C08/{ProjCommon,ProjMerc,ProjLcc,ProjAea,ProjEqdc,ProjTmerc,ProjKrovak,ProjDatum,ProjPipeline}.lean is ONE definition per Go function; its Float instance is tied to /repo/proj by the correspondence run on every check (1e-9 relative on projected metres, 3e-12 rad on angles; for the conics widened ONLY by the derived conditioning slack 4u*kappa*(1+1/|ns|) of the cone constant - kappa the relative condition of its two differences, aea latitude x14/cos(lat) - and the Newton straddle term of aeaPhi1z, Main.lean `Slack`: both stay below the base tolerance unless the standard parallels are closer than ~1 degree), its Real instance is what the theorems are about",
        "modelled, not verified: IEEE-754 rounding (the theorems are over the reals; rounding and series-truncation error is numeric evidence from the correspondence run), Go math vs C libm (Float instance)",
        "the *SR records are read right after proj.Parse through reflect (read-only, incl. unexported sphere/datum); projString/DeriveConstants/getDatum themselves are C09/C20 subjects and enter here as data",
        "harness/cmd/c08 + lean driver + lib/vcheck.py transport inputs faithfully",
    ],
    "assumptions": [
        "positions are inside the usable region stated by the property; longitudes are compared as angles (mod 360)",
        "the inverse solvers' convergence within their iteration caps is numeric evidence, not a theorem (the *_of_converged theorems are conditional on purpose)",
    ],
    "rule": "per projection (longlat, merc, lcc, aea, eqdc, tmerc, utm, krovak) >= 200 parameterisations per run (standard parallels |lat1+lat2| > 1 deg, lat_0/lon_0 anywhere, "
            "k_0 in [0.9,1.1], false origins up to +-1e7, units m/ft/us-ft, axis, each of the 43 built-in ellipsoids in turn, spheres via +a=+b= / +ellps=sphere, +R_A, custom a/b, a/rf, "
            "datums none / the 16 named / 3- and 7-term +towgs84, +pm named and numeric, UTM zones 1-60 N/S) x a geographic CRS (same datum, WGS84, or another datum) x positions stratified "
            "over the usable region including its border (|dlon| = 3.5 deg for tmerc/utm, |lat| = 85 merc, cone-side latitudes, standard parallels, lat_0); one case = one definition pair with 8 positions, "
            "each run through A->B, B->A, A->B on ONE reused forward and ONE reused inverse transformer per line (plus a fresh-per-call control); "
            "plus WKT-defined systems (ESRI Mercator_Auxiliary_Sphere, and the testData PROJCS texts of the supported kinds); plus one `cl` line per parameterisation: the closure pair of "
            "sr.Transformers() obtained once, 8 in-region positions, then rejected calls (poles, NaN, out of range), then the 8 positions again, against freshly obtained closures; plus `tw` lines (route decision of NewTransform): a reference whose datum code is the lower-case wgs84 (WKT GEOGCS/PROJCS on D_WGS_1984 / WGS_1984, or +datum=wgs84) against a reference on a 3-/7-parameter datum (named or +towgs84), tmerc/merc/lcc/aea/eqdc, each compared bit for bit on all three legs with its twin pair written with +datum=WGS84 (>= 30 compared lines per side per run, checked); plus `il` lines (state carried between DIFFERENT transformers): two projected systems with the same projection parameters on different built-in ellipsoids (or a UTM zone and a transverse Mercator on its central meridian), positions exactly on lat_0 / lat_1 / lat_2, the second system's three legs run alone and then in turn with the first one's on the same positions - judged by Spec and model, and compared bit for bit with the answers alone; plus `cc` lines (tmerc/lcc/aea/merc/longlat, fully specified, no datum shift: the definitions for which the unchanged tree is write-free per call under go -race): 8 goroutines share one transformer pair, every answer compared with the sequential one; plus `cp` lines (ill-conditioned cones, 60 parameterisations per quick run, 300 thorough, own RNG stream): aea/lcc/eqdc with standard parallels 0.001..0.5 degrees apart or within 1.001..1.5 degrees of symmetric about the equator (cone constant ~0.01), 16 positions incl. the pole-side border 89 degrees, both parallels and lat_0, rt and cl lines. distinct = distinct input line; non-trivial = every class",
    "timeout": {"quick": 900, "thorough": 3000},
    "trivial_class": r"^$",
}
