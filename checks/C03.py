T = "GeomV.C03."
CFG = {
    "id": "C03",
    "lean_modules": ["GeomV.C03.Proofs", "GeomV.C03.ProofsScale", "GeomV.C03.ProofsMScale", "GeomV.C03.ProofsTouch", "GeomV.C03.ProofsOrder"],
    "exe": "geomv_c03",
    "go_cmd": "c03",
    "stages": ["go:gen", "go:impl", "lean:judge"],
    "theorems": [T + n for n in [
        "shoelace_eq_textbook", "shoelace_reverse", "shoelace_rotate", "shoelace_close",
        "centroidNum_reverse", "centroidNum_rotate", "centroidNum_close", "measure_spelling",
        "pip_spec", "C03_area", "C03_marea",
        "C03_centroid", "C03_centroid_invariant", "C03_centroid_true", "C03_centroid_valid", "C03_centroid_bbox_partial",
        "op_agrees_area", "op_agrees_centroid", "op_centroid_unclosed_differs", "C03_mcentroid_unfixed_wrong",
        "C03_mcentroid_ring", "C03_mcentroid_spec_invariant", "C03_mcentroid",
        "distPointToSegment_min", "C03_length", "C03_length_multi", "C03_distance", "C03_distance_multi",
        "C03_buffer", "C03_buffer_panics",
        "polygonCentroidCore_scale", "opCentroidCore_scale", "C03_centroid_guard", "C03_opCentroid_guard",
        "C03_centroid_valid_guarded", "op_agrees_centroid_guarded", "C03_mcentroid_guarded",
        "pip_scale", "ringArea_scale", "C03_area_scale", "multiPolygonCentroidCore_scale", "C03_mcentroid_guard", "C03_mcentroid_guarded_all",
        "C03_area_touch", "C03_marea_touch", "C03_mcentroid_touch", "C03_mcentroid_touch_guarded", "C03_centroid_valid_touch",
        "C03_area_order", "C03_area_anyorder", "C03_area_holefirst", "C03_mcentroid_anyorder", "C03_centroid_order", "C03_centroid_valid_anyorder"]],
    "trusted_base": [
        "Lean 4.33.0 kernel; axioms of every theorem printed by #print axioms must be within {propext, Classical.choice, Quot.sound}",
        "Mathlib v4.33 modules imported by GeomV/C03/Lemmas*.lean and Proofs.lean (checked by the same kernel)",
        "model lean/GeomV/C03/Model.lean is tied to /repo/{area,multipolygon,linestring,multilinestring,simplify,point,bounds,within}.go and op/properties.go by the correspondence run on every check",
        "IEEE-754 rounding is modelled, not verified: exact Rat models coincide with the float code on integer grids (products < 2^53, compared exactly for areas) and within relative 1e-9 otherwise (measured by the run)",
        "within.go's point-in-polygon test: the model is property C02's (GeomV.C02.Model, tied by C02's correspondence + regenerated definitions and again by this run through Polygon.Area); C02's theorem pointInPolygon_spec is composed with the C03 specification in pip_spec, so C03_area/C03_marea/C03_mcentroid carry no hypothesis about it",
        "measure of a simple ring := |shoelace|/2 (classical identification with Lebesgue area is part of the reading)",
        "harness/cmd/c03 + lean driver + lib/vcheck.py transport inputs faithfully",
    ],
    "assumptions": ["finite coordinates (no NaN/Inf); -0 and +0 are the same number"],
    "rule": "valid integer-grid polygons (rectangle/star/comb/diamond/concave-star shells, 0-4 holes of 5 shapes placed in disjoint cells, "
            "validated exactly) under per-ring reversal x rotation {0,1,mid,last} x closed/unclosed orbits (full orbit for <=2 rings, systematic+sampled above), "
            "their images under random invertible affine maps to arbitrary doubles, multipolygons of 1-4 disjoint members (+ island in a hole), "
            "every base also at dyadic scales 2^-14..2^-30 and 2^+20, areas at 2^±400/±500, centroids at 2^±300 (rescaled branch of fix 4edcec2) and four corpus shapes at 2^±400/±600; ring order permuted (hole first) judged by the Spec; polygons whose rings touch in single points (hole vertex on a side of a rectangle / on the extreme vertex of a diamond / on a slanted edge, two holes touching, a shell touched in every vertex) judged by Spec.ValidPolyT under full or sampled orbits; query points interpolated on segment interiors and pushed off by 0, 1e-12 .. 1e-3 of the segment length with non-dyadic coordinates k/10, k/7, k/3 and random floats (distance tolerance 1e-9 d + 1e-12 max|coordinate|); line strings, query points and buffers also at 2^±511..2^±900; receivers laid out as separate allocations, as windows of one packed buffer, or as prefix re-slices (receiver compared bit for bit before/after every call); a fixed corpus of degenerate/invalid shapes; line strings with query points on vertices, on segments, projecting onto endpoints, beyond ends; "
            "buffers with 3..720 segments and invalid arguments. distinct = distinct input line; non-trivial = verdict class not '*-skipped'",
    "timeout": {"quick": 900, "thorough": 3000},
}
