T = "GeomV.C03."
import os, re, subprocess

TIE_MODULE = T + "Ties"
TIE_THEOREMS = ["C03_tie_signedarea", "C03_tie_op_area", "C03_tie_Centroid_core", "C03_tie_op_Centroid_core", "C03_tie_op_Centroid",
                "C03_tie_op_Area_Polygon", "C03_tie_op_Area_MultiPolygon", "C03_tie_op_Length_LineString", "C03_tie_op_Length_MultiLineString",
                "C03_tie_op_Area_GeometryCollection", "C03_tie_op_Area_Geom", "C03_tie_op_Length_GeometryCollection", "C03_tie_op_Length_Geom",
                "C03_tie_similar", "C03_tie_pointSimilar", "C03_tie_pointsSimilar", "C03_tie_area", "C03_tie_Polygon_Area", "C03_tie_ringBounds", "C03_tie_MultiPolygon_Area",
                "C03_tie_MultiPolygon_Centroid_core", "C03_tie_centroidAxisScale", "C03_tie_centroidScale", "C03_tie_scaled",
                "C03_tie_Centroid_scaled", "C03_tie_MultiPolygon_Centroid_scaled", "C03_tie_op_Centroid_scaled",
                "C03_tie_centroidOrigin", "C03_tie_op_centroidOrigin", "C03_tie_translated",
                "C03_tie_Centroid", "C03_tie_MultiPolygon_Centroid", "C03_tie_bounds_Area", "C03_tie_bounds_Centroid",
                "C03_tie_op_length", "C03_tie_LineString_Length", "C03_tie_MultiLineString_Length",
                "C03_tie_pointSubtract", "C03_tie_dot", "C03_tie_norm", "C03_tie_d", "C03_tie_distPointToSegment_core", "C03_tie_distPointToSegment",
                "C03_tie_LineString_Distance", "C03_tie_MultiLineString_Distance", "C03_tie_Buffer"]


def pregen(check):
    """T1: regenerate lean/GeomV/C03/Gen.lean from area.go, op/properties.go, bounds.go, linestring.go,
    multilinestring.go, simplify.go, point.go of the tree under test (written only when it changed).  If a function
    left the translatable subset, or the regenerated definitions no longer denote the model's functions (Ties.lean
    does not build), the tie is reported broken and the Ties module is left out so that the other obligations are
    still audited."""
    import vcheck
    cfg = check.cfg

    def drop(why):
        cfg["lean_modules"] = [m for m in cfg["lean_modules"] if m != TIE_MODULE]
        check.broken.append(why)
    ok, gobin, out = vcheck.go_build("c03", check.rundir)
    if not ok:
        return  # reported by the harness build of the main flow
    p = subprocess.run([gobin, "extract", "--repo", vcheck.REPO], stdout=subprocess.PIPE, stderr=subprocess.PIPE, text=True)
    if p.returncode not in (0, 3) or not p.stdout.startswith("import"):
        drop("T1 tie: extractor failed: " + p.stderr.strip()[-300:])
        return
    gen = os.path.join(vcheck.LEAN, "GeomV", "C03", "Gen.lean")
    old = open(gen).read() if os.path.exists(gen) else ""
    if old != p.stdout:
        with open(gen + ".tmp%d" % os.getpid(), "w") as f:
            f.write(p.stdout)
        os.replace(gen + ".tmp%d" % os.getpid(), gen)
    if p.returncode == 3:
        drop("T1 tie: " + p.stderr.strip()[-600:])
        return
    with vcheck.Lock("lake"):
        b = subprocess.run(["lake", "build", TIE_MODULE], cwd=vcheck.LEAN, stdout=subprocess.PIPE, stderr=subprocess.STDOUT, text=True)
    if b.returncode != 0:
        errs = re.findall(r"error: .*", b.stdout)[:3]
        drop("T1 tie broken: the measure code regenerated from the Go source no longer denotes the model (GeomV.C03.Ties does not build): "
             + " | ".join(errs))


CFG = {
    "id": "C03",
    "lean_modules": ["GeomV.C03.Proofs", "GeomV.C03.ProofsScale", "GeomV.C03.ProofsTranslate", "GeomV.C03.ProofsMScale", "GeomV.C03.ProofsTouch", "GeomV.C03.ProofsOrder", "GeomV.C03.ProofsSpecScale", "GeomV.C03.ProofsOpArea", "GeomV.C03.ProofsBBox", "GeomV.C03.ProofsAffine", "GeomV.C03.ProofsJudge", "GeomV.C03.ProofsOp", "GeomV.C03.ProofsMTranslate", "GeomV.C03.ProofsClosed", "GeomV.C03.ProofsGC", "GeomV.C03.ProofsOrient"],
    "exe": "geomv_c03",
    "go_cmd": "c03",
    "stages": ["go:gen", "go:impl", "lean:judge"],
    "theorems": [T + n for n in [
        "shoelace_eq_textbook", "shoelace_reverse", "shoelace_rotate", "shoelace_close",
        "centroidNum_reverse", "centroidNum_rotate", "centroidNum_close", "measure_spelling",
        "pip_spec", "C03_area", "C03_marea",
        "C03_centroid", "C03_centroid_invariant", "C03_centroid_true", "C03_centroid_valid", "C03_centroid_bbox_partial",
        "op_agrees_area", "op_agrees_centroid", "op_centroid_unclosed_differs", "C03_mcentroid_unfixed_wrong",
        "C03_mcentroid_ring", "C03_mcentroid_spec_invariant", "C03_mcentroid",
        "distPointToSegment_min", "C03_length", "C03_length_multi", "C03_distance", "C03_distance_multi",
        "C03_buffer", "C03_buffer_panics",
        "polygonCentroidCore_scale", "opCentroidCore_scale", "C03_centroid_guard", "C03_opCentroid_guard",
        "C03_centroid_valid_guarded", "op_agrees_centroid_guarded", "C03_mcentroid_guarded",
        "polygonCentroidCore_translate", "opCentroidCore_translate", "C03_centroid_origin_guard", "C03_opCentroid_origin_guard",
        "op_centroid_unclosed_not_equivariant", "centOrigin_translate", "C03_centroid_valid_now", "op_agrees_centroid_now",
        "pip_translate", "ringArea_translate", "C03_area_translate", "multiPolygonCentroidCore_translate", "C03_mcentroid_origin_guard",
        "C03_centroid_valid_anyorder_now", "C03_mcentroid_anyorder_now",
        "closeIfOpen_ap", "C03_allClosed_of_spelling", "C03_allClosed_of_spelling_multi", "C03_mcentroid_now", "C03_opCentroid_now",
        "C03_opArea_leaves", "C03_opArea_collection", "C03_opArea_geom", "C03_opLength_leaves", "C03_opLength_geom",
        "cr_trans", "cr_strict", "fan_chain", "orient_fan_ccw", "orient_fan_cw", "opOrientation1_start", "opOrientation1_mid", "C03_op_orientation_fan_partial",
        "pip_scale", "ringArea_scale", "C03_area_scale", "multiPolygonCentroidCore_scale", "C03_mcentroid_guard", "C03_mcentroid_guarded_all",
        "C03_area_touch", "C03_marea_touch", "C03_mcentroid_touch", "C03_mcentroid_touch_guarded", "C03_centroid_valid_touch",
        "C03_area_order", "C03_area_anyorder", "C03_area_holefirst", "C03_mcentroid_anyorder", "C03_centroid_order", "C03_centroid_valid_anyorder",
        "sideRings_scale", "C03_validPoly_scale", "C03_validPolyT_scale", "C03_validAny_scale", "C03_specArea_scale", "C03_validPoly_mul", "C03_validPolyT_mul", "C03_shellIndex_scale", "C03_opArea", "C03_opMArea",
        "C03_centroid_bbox_star", "C03_mcentroid_bbox_partial",
        "C03_spec_affine_measure", "C03_spec_affine_ringCentroid", "C03_spec_affine_area", "C03_spec_affine_centroid", "C03_spec_affine_mcentroid", "C03_bounds_area", "C03_bounds_centroid", "C03_judge_scaleInt", "C03_judge_scaleInt_members",
        "C03_op_isLeft", "C03_op_reversePolygon", "C03_op_floatEquals_zero", "C03_op_fix_rings", "C03_op_fix_rings_multi",
        "C03_op_FixOrientation_rings", "C03_op_fix_measure", "C03_op_fix_area", "C03_op_fix_ringsKept",
        "C03_op_pointInPoly_grid_exact", "C03_op_pointInPolyExact_crossing", "C03_op_pointInPoly_grid_sideRing",
        "C03_op_pointInPoly_grid_sideRing_closed", "C03_op_within_point_grid",
        "C03_op_within_hole_boundary_false", "C03_op_within_left_edge_false", "C03_op_within_tolerance_cross_wrong",
        "C03_op_tolerance_tiny_wrong", "C03_op_fix_tolerance_wrong"]],
    "trusted_base": [
        "Lean 4.33.0 kernel; axioms of every theorem printed by #print axioms must be within {propext, Classical.choice, Quot.sound}",
        "Mathlib v4.33 modules imported by GeomV/C03/Lemmas*.lean and Proofs.lean (checked by the same kernel)",
        "model lean/GeomV/C03/Model.lean is tied to /repo/{area,multipolygon,linestring,multilinestring,simplify,point,bounds,within}.go and op/properties.go by the correspondence run on every check",
        "IEEE-754 rounding is modelled, not verified: exact Rat models coincide with the float code on integer grids (products < 2^53, compared exactly for areas) and within relative 1e-9 otherwise (measured by the run)",
        "within.go's point-in-polygon test: the model is property C02's (GeomV.C02.Model, tied by C02's correspondence + regenerated definitions and again by this run through Polygon.Area); C02's theorem pointInPolygon_spec is composed with the C03 specification in pip_spec, so C03_area/C03_marea/C03_mcentroid carry no hypothesis about it",
        "measure of a simple ring := |shoelace|/2 (classical identification with Lebesgue area is part of the reading)",
        "harness/cmd/c03 + lean driver + lib/vcheck.py transport inputs faithfully",
    ],
    "assumptions": ["finite coordinates (no NaN/Inf); -0 and +0 are the same number"],
    "rule": "valid integer-grid polygons (rectangle/star/comb/diamond/concave-star shells, 0-4 holes of 5 shapes placed in disjoint cells, "
            "validated exactly) under per-ring reversal x rotation {0,1,mid,last} x closed/unclosed orbits (full orbit for <=2 rings, systematic+sampled above), "
            "their images under random invertible affine maps to arbitrary doubles, multipolygons of 1-4 disjoint members (+ island in a hole), "
            "every base also at dyadic scales 2^-14..2^-30 and 2^+20, areas at 2^±400/±500, centroids at 2^±300 (rescaled branch of fix 4edcec2) and four corpus shapes at 2^±400/±600; polygons far from the origin relative to their size (every second base translated by 2^20..2^40, k·2^18..2^36, 1e5..1e9 whole and fractional, either sign, per axis, one axis possibly near; nine corpus offsets up to 1e12; two far members; closed, mixed and unclosed spellings): class suffix -offset:far, the centroid tolerance is 1e-9 of the EXTENT of the polygon on each axis (+ 8 ulp of the largest |coordinate|), never more than the former 1e-9·max|coordinate|; ring order permuted (hole first) judged by the Spec; polygons whose rings touch in single points (hole vertex on a side of a rectangle / on the extreme vertex of a diamond / on a slanted edge, two holes touching, a shell touched in every vertex) judged by Spec.ValidPolyT under full or sampled orbits; query points interpolated on segment interiors and pushed off by 0, 1e-12 .. 1e-3 of the segment length with non-dyadic coordinates k/10, k/7, k/3 and random floats (distance tolerance 1e-9 d + 1e-12 max|coordinate|); line strings, query points and buffers also at 2^±511..2^±900; receivers laid out as separate allocations, as windows of one packed buffer, or as prefix re-slices (receiver compared bit for bit before/after every call); a fixed corpus of degenerate/invalid shapes; line strings with query points on vertices, on segments, projecting onto endpoints, beyond ends; "
            "buffers with 3..720 segments and invalid arguments; anisotropic magnitudes (x and y multiplied by different powers of two, 2^0/2^±600, 2^±350/2^∓350, ...: the per-axis range guard of the centroids, class suffix -aniso; centroid tolerances relative to the largest |coordinate| on each axis); op.FixOrientation / op.Within lines (opfix, opwithin, opfixwithin: all four winding combinations, hole-first orders, nested islands, unclosed/empty/short rings, nil and unsupported types, probes on vertices / edge middles / level with a vertex / inside holes, scales 2^-14..2^20 and corpus shapes down to 2^-40); opgc lines: op.Area and op.Length on arbitrary geometries — GeometryCollections nested up to depth 3 of alternately wound valid polygons (either common direction, any start vertex, closed or unclosed), multi-polygons, integer line strings (0..7 and 60..70 points), multi-line-strings, points, multi-points, bounds, nil, empty collections/rings, also at dyadic scales; judged by the Spec (sum of the segment lengths of all line strings / sum of shells minus holes of all polygons in the geometry) and against opAreaGeom/opLengthGeom. distinct = distinct input line; non-trivial = verdict class not '*-skipped'",
    "timeout": {"quick": 900, "thorough": 3000},
}

# T1 (regenerated definitions + tie lemmas); appended here so that the lists above can be edited independently
CFG["lean_modules"].append(TIE_MODULE)
CFG["theorems"] += [T + n for n in TIE_THEOREMS]
CFG["pregen"] = pregen
CFG["trusted_base"].append(
    "T1: harness/cmd/c03/extract.go (go/ast, translation table in its header) regenerates lean/GeomV/C03/Gen.lean from area.go (signedarea, area, Polygon.Area, Polygon.ringBounds, centroidAxisScale, centroidScale, Polygon.scaled, centroidAxisOrigin, centroidOrigin, Polygon.translated, Polygon.Centroid with its origin guard and its range guard), "
    "multipolygon.go (Area, Centroid with its origin guard and its range guard), op/properties.go (area, length, centroidAxisOrigin, centroidOrigin, the Polygon case of Centroid with its inline origin guard and range guard, the Polygon / MultiPolygon / GeometryCollection / no-case-matches cases of Area, the LineString / MultiLineString / GeometryCollection / no-case-matches cases of Length), bounds.go (Area, Centroid), linestring.go / multilinestring.go (Length, Distance), "
    "simplify.go (pointSubtract, dot, norm, d, distPointToSegment), similar.go (similar, pointSimilar, pointsSimilar), point.go (Buffer) of the tree under test on every run, in a faulting monad (index, index assignment, slice, make, integer %, nil box, panic are partial: GenLib.lean; loops with return/continue keep their control flow); "
    "Ties.lean proves that each regenerated function returns the model's value (areas, lengths, distances, MultiPolygon/op centroids: WITHOUT FAULT for every input; Polygon.Centroid, Point.Buffer: fault for fault; area: for the boxes of the rings of p and i < len(p); scaled: for non-zero factors). "
    "Recognised statement groups, refused (exit 3, tie broken) when their text changes: the accumulator group `cx /= 6*d; cy /= 6*d; A += w; xA += cx*w; yA += cy*w` / `var A, xA, yA float64` / `return Point{xA/A, yA/A}` = CAcc.add / CAcc.zero / CAcc.finish (float division by zero); "
    "the body of centroidAxisScale and the two inline axis-scale blocks of op.Centroid (compared as text) = axisScale (Frexp/Ldexp over Rat = pow2Floor); `return Point{X: c.X * kx, Y: c.Y * ky}` in a centroid range guard = unscale; `return Point{X: c.X + ox, Y: c.Y + oy}` in a centroid origin guard = unshift; the body of centroidAxisOrigin (compared as text; a Rat is finite) = the identity; the guard of distPointToSegment (`if m := E; (m >= 0x1p500 || (m <= 0x1p-500 && m > 0)) && !math.IsInf(m, 0) { _, e := math.Frexp(m); k := math.Ldexp(1, e-1); return k * distPointToSegment(...) }`, compared as text) = `match RNum.rescale E`; "
    "a function's call of itself inside its range guard (Polygon.Centroid, MultiPolygon.Centroid, op.Centroid, distPointToSegment on the rescaled copy) is read as the code below the guard, inside the origin guard of the centroids (on the translated copy) as the code below that guard (range guard + loops; centOrigin_translate: the first vertex of the translated copy is the origin); a type switch on g geom.Geom is regenerated per listed case (the statements around the switch with the case's body in its place; a call f(x) with x of static type T is case T; in the GeometryCollection case the function's call of itself on a member — static type geom.Geom, dynamic type unknown — is the parameter `self` of the regenerated case, and Ties.lean proves that the model of the whole function (ModelGC.lean: opAreaGeom, opLengthGeom, structural recursion over the nested geometry) is a fixed point of the switch assembled from the regenerated cases: C03_tie_op_Area_Geom, C03_tie_op_Length_Geom; a geometry that no case lists is the regenerated case `other`: the default clause when there is one, otherwise the statements around the switch; only the dispatch on the constructor is written by hand); "
    "calls into other files are the models' functions: pointInPolygon = property C02's model of within.go with the boxes the code passes. "
    "Not modelled by the translation: slice capacity (taken = length), aliasing (observed by the harness), a nil *Bounds receiver of bounds.go's Area/Centroid, the default (unsupported geometry error) case of op.Centroid (observed by the `opfix`/corpus lines only); "
    "in the exact (Rat) rendering a float64 division by a computed zero ends the rendering (Go.Fault.nonFinite; only in Polygon.scaled, proved not to occur for the factors centroidScale returns)")
