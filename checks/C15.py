import importlib.util, os
import vcheck

T = "GeomV.C15."


def pregen(check):
    """T1 tie: regenerate lean/GeomV/C15/Gen.lean (similar, pointSimilar, pointsSimilar, ringSimilarFrom, ringSimilar and all
    eight Similar methods) from the current source"""
    spec = importlib.util.spec_from_file_location("c15_go2lean", os.path.join(vcheck.HARNESS, "cmd", "c15", "go2lean.py"))
    mod = importlib.util.module_from_spec(spec); spec.loader.exec_module(mod)
    out = os.path.join(vcheck.LEAN, "GeomV", "C15", "Gen.lean")
    try:
        text = mod.generate(open(os.path.join(vcheck.REPO, "similar.go")).read())
    except Exception as e:  # Untranslatable or unreadable source: the tie is broken
        check.broken.append("T1 tie: similar.go is outside the translatable subset: %s" % e)
        return
    if not os.path.exists(out) or open(out).read() != text:
        open(out, "w").write(text)


CFG = {
    "id": "C15",
    "lean_modules": ["GeomV.C15.Proofs", "GeomV.C15.ProofsBlocks", "GeomV.C15.ProofsFloat", "GeomV.C15.ProofsPath", "GeomV.C15.ProofsAnyFit", "GeomV.C15.ProofsNil", "GeomV.C15.ProofsFloatLift", "GeomV.C15.ProofsRne", "GeomV.C15.ProofsMany", "GeomV.C15.Ties"],
    "pregen": pregen,
    "exe": "geomv_c15",
    "go_cmd": "c15",
    "stages": ["go:gen", "go:impl", "lean:judge"],
    "theorems": [T + n for n in [
        "C15_symm_all", "C15_symm", "C15_greedy_iff_perfect", "C15_model_eq_spec", "C15_false_of_spec",
        "C15_perturb", "C15_perturb_members", "C15_perturb_ring", "C15_perturb_points", "C15_perturb_polygon", "C15_perturb_collection",
        "C15_false_cases", "C15_false_type", "C15_false_count", "C15_false_vertex_count", "C15_false_no_partner",
        "C15_false_displaced_vertex", "C15_false_reversed", "C15_false_displaced_ring_vertex",
        "C15_false_displaced_member", "C15_ring_index_eq_rotation",
        "C15_tie_similar", "C15_tie_pointSimilar", "C15_tie_pointsSimilar", "C15_tie_ringSimilarFrom", "C15_tie_ringSimilar",
        "C15_tie_Point", "C15_tie_MultiPoint", "C15_tie_LineString", "C15_tie_Bounds",
        "C15_tie_MultiLineString", "C15_tie_Polygon", "C15_tie_MultiPolygon", "C15_tie_GeometryCollection",
        "loops_eq_matchMembers", "removal_in_source",
        "C15_false_displaced_several", "dispRingSome_false", "dispPtsSome_false",
        "C15_rne_rounding", "C15_float64_lift", "C15_float64_false", "C15_float64_true", "C15_float64_symm", "C15_float64_grid", "isDouble_sub_of_onGrid",
        "C15_model_eq_spec_blocks", "C15_greedy_iff_perfect_blocks", "C15_false_displaced_copy", "C15_sepRel_block", "C15_perturb_blocks", "C15_false_blocks",
        "C15_blockRel_iff", "C15_any_fit_matcher", "C15_firstFit_is_code", "C15_false_displaced_member_blocks", "C15_false_displaced_anywhere",
        "C15_any_fit_all_levels", "matchWith_eq_of_rows",
        "C15_nil_free_receiver_no_fault", "C15_nil_receiver_faults",
        "C15_float_lift", "C15_float_lift_symm", "simC_similar", "simC_congr",
        "C15_float_false", "C15_float_true", "C15_float_exact", "C15_float_symm", "truncInt_rounding",
        # compiled forms used by the judge executable (@[csimp]): proved equal to the Spec definitions
        "Spec.near_eq_C", "Spec.ringNear_eq_C", "Spec.existsMatching_eq_C"]],
    "trusted_base": [
        "Lean 4.33.0 kernel; axioms of every theorem printed by #print axioms must be within {propext, Classical.choice, Quot.sound}",
        "model lean/GeomV/C15/Model.lean is tied to /repo/similar.go by the correspondence run (both argument orders of every generated pair, exact comparison of the boolean answers) on every check",
        "IEEE-754: Go's float64 a-b is assumed to be roundTiesToEven of the exact difference (math.Abs and < exact); that roundTiesToEven (C02.rne, from C17's bit-level roundPos) is a monotone, odd rounding leaving the doubles alone is PROVED (C15_rne_rounding), and with it that the float comparison equals the exact one unless |a-b| lies strictly between e and its representable predecessor (C15_float64_lift); generated coordinates/tolerances are dyadic (a-b exact) or keep |a-b| at least 10% away from e",
        "harness/cmd/c15/go2lean.py (expression + simple-loop + single-case type-switch translator + member-matching loop skeleton, ~470 lines) for the regenerated definitions of similar, pointSimilar, pointsSimilar, ringSimilarFrom, ringSimilar and all eight Similar methods (Gen.lean; loop combinators in GenLoop.lean); exercised by the same correspondence run",
        "harness/cmd/c15 + lean driver + lib/vcheck.py transport inputs faithfully",
    ],
    "assumptions": [
        "Similar is a function of the values of its operands: it does not modify them and its answer does not depend on their memory layout or on earlier calls (checked on every case: SPEC operand-modified / answer-depends-on-earlier-calls / answer-depends-on-operand-layout)",
        "nil interface values are outside the eight types: what the code does with them (panic exactly when the loops reach a nil RECEIVER member, false for a nil argument) is modelled as faults (Model.simE, ProofsNil.lean) and compared on the 'nilm' lines, it is not part of the property; a typed nil *Bounds cannot be written in the line protocol and is neither modelled nor generated",
        "polygon rings are closed (last vertex duplicates the first): the closing vertex is skipped by the code by design and is not compared",
        "finite coordinates and tolerance (no NaN/Inf)",
    ],
    "rule": "per base geometry (8 types in rotation, members in distinct 256-tol cells, vertices on a 16-tol lattice, 30% of rings axis-aligned "
            "rectangles = anchor ties, 10% near-ties): same, perturb(<tol), permute, rotate, combo, reverse line, reverse ring, displace one vertex "
            "(65/64..100 tol), insert/delete member, insert/delete vertex, change type, duplicate member (non-separated), unrelated geometry; "
            "both argument orders of every pair; 80% dyadic tolerances 2^-30..2^30, 20% decimal; plus a fixed corpus of edge cases; "
            "rings that visit a vertex twice (pinched / figure-eight, second visit bit-identical or within tol/4) under all start-vertex pairs (a third of the pairs per "
            "call, rotating: every pair ~100 times per quick run), alone and as holes in polygons / multi-polygons / collections (every ninth pair); vertex and member counts 64,128,129,1024,1025,2048; deletions/insertions at the END of a list. "
            "every 7th base has coordinates of magnitude 2^24..2^40 on a 2^-10 lattice with tol 2^-30/2^-20/1e-9 (a-b exact, a±tol not representable; zero perturbation); "
            "ring moved to / rings exchanged between sibling member polygons of a multi-polygon or collection (F). "
            "REPEATED members: every member-list kind (lines, rings, polygons of a multi-polygon, rings of one member polygon, collection of points, "
            "collection of mixed types) at 65/66/67/70, 128..131 and 5/33/63/64 members with two or three bit-identical copies of one member at positions "
            "(n-2,n-1), (<64,n-1), (63,64), and at 257/258/260/300 members (one kind per call, copies last): copy / combo (T), one copy displaced with the other kept, also permuted+perturbed with the kept copy last (F), "
            "another member replaced by a further copy (F); judged by the specification under blockSeparated. "
            "two vertices of a point list exchanged (F), a whole member shifted rigidly (F), one vertex displaced at index 1,2,k/2,k/2+1,k-3,k-2 of lists "
            "of 64..2048 vertices and of a 1025-vertex ring (F). "
            "concurrent callers (~120 'conc-' lines): 8 goroutines repeat the pair on private copies while 8 others call Similar on large unrelated "
            "geometries; any answer differing from the answer obtained alone is a violation. "
            "Every pair is evaluated by the harness under five operand layouts (plain; packed = consecutive windows of one flat buffer with spare capacity; "
            "shared = prefix lists are re-slices of the other operand's backing array / same slice on both sides; nil for empty; in-place overwrite of an "
            "already-compared operand), four calls per layout (AB, BA, AB, BA) with a bit-for-bit comparison of both operands after every call. "
            "a vertex moved by exactly pred(tol) (T) and succ(tol) (F) with exact differences, tol 0.5/0.1/2^-30/3/2^30, in point, line, multi-point, bounds, ring. "
            "tolerances far outside 2^-30..2^30: 2^-53, 2^-60, 2^-100, 2^-500, 2^-900, 2^60, 2^500, 2^900 (every 12th dyadic base, lattice scaled with tol) and "
            "1e-16, 1e-19, 1e-30, 1e-200, 1e25 (a third of the decimal bases). reorderings documented for another type only: start vertex of a line / line of a "
            "multi-line-string / multi-point rotated, on open and on EXACTLY closed point lists (lrotate:F, with same/combo/reverse/displace/vswap controls on the "
            "closed bases), corners of a bounds exchanged (bswap:F). a bit-identical copy of a vertex inserted right after it (vdup:F), an EMPTY member inserted (insert:F). "
            "nil interface values (~340 'nilm' lines): nil operand, nil members of (nested) collections on either side, before/after matched and unmatched "
            "members, with equal and different counts: answers AND panics compared with the fault model simE. "
            "distinct = distinct input line; non-trivial = every class",
    "timeout": {"quick": 600, "thorough": 3000},
}
