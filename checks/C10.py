T = "GeomV.C10."
CFG = {
    "id": "C10",
    "lean_modules": ["GeomV.C10.Proofs"],
    "exe": "geomv_c10",
    "go_cmd": "c10",
    "stages": ["go:gen", "go:impl", "lean:judge"],
    "theorems": [T + n for n in [
        "C10_structure", "C10_map_vertices", "C10_vertex_i", "C10_nil_identity", "C10_error_no_panic",
        "C10_pure", "C10_pure_last", "C10_pure_states", "C10_history_state", "C10_step_state_eq",
        "C10_no_index_fault", "C10_no_panic", "C10_input_unchanged_partial",
    ]],
    "trusted_base": [
        "Lean 4.33.0 kernel; axioms of every theorem printed by #print axioms must be within {propext, Classical.choice, Quot.sound}",
        "Mem.lean (memory model behind C10_input_unchanged_partial) covers the point-slice loop only and is not executed against the code; the input-untouched clause is tied by the before/after/scribble comparison of the real slices on every gt line",
        "model lean/GeomV/C10/{GeomTransform,Transformer}.lean is tied to /repo/transform.go and /repo/proj/{transform,adjust_axis}.go by the correspondence run on every check: "
        "Geom.Transform results compared exactly (bit patterns); transformer results compared bit-for-bit with the model instantiated by oracle tables "
        "(projection forward/inverse, constructor errors through the exported API; datumTransform through hook proj.VerifDatumTransform, build tag verif) filled from the real code, and the SR objects' full "
        "field dumps (reflection, unexported datum included) compared after every call with 'as parsed' / 'as left by one constructor run'",
        "the hypothesis CoreOK of C10_pure (re-running a projection constructor on an initialised SR changes nothing; it never writes Name/Axis/ToMeter/"
        "FromGreenwich/DatumCode/datum; datumTransform leaves the datums as found) is not proved about the Go constructors: it is checked on the real "
        "objects after every generated call (state tags) — any other state is a DIFF",
        "IEEE-754 double arithmetic of Lean's Float (C) equals Go's for * + - / and negation (NaN payloads excluded)",
        "harness/cmd/c10 + lean driver + lib/vcheck.py transport inputs faithfully",
    ],
    "assumptions": [
        "geometries have no nil members (a nil interface inside a GeometryCollection or a nil *Bounds panics in Go; the model reproduces it, the theorems exclude it by `noNil`)",
        "nil slices and empty slices are not distinguished",
        "NewTransform's nil-if-Equal answer can flip once a constructor has run on one of two equal SRs (noted, outside the property): such a flip on a transformer built between calls is skipped",
        "axis strings have three letters (what projString accepts; DeriveConstants defaults to enu)",
    ],
    "rule": "gt lines: grammar-generated geometries of all 8 types (nesting <= 3, member counts 0..7, coordinates from random bit patterns, NaN payloads, "
            "-0, +-Inf, integers, ordinary values) x {nil transformer, pure bit-pattern transformer failing on 'poison' vertices placed with density "
            "0/0.02/0.1/0.4 (several failing vertices => order matters), counting transformer failing on its k-th call for k = first/middle/last/none/random}; "
            "every answer checked against Spec.TransformSpec, the recorded call log against the vertex list, input slices compared before/after and after "
            "scribbling over the output (aliasing). h lines: histories of 2..50 calls over pools of 1..6 transformers built from 2..6 shared *SR objects drawn "
            "from a 43-entry catalogue stratified by {no hop, hop on source side, hop on dest side, both, non-default axis order (11 axis strings), registry "
            "entries WGS84/EPSG:4326/EPSG:3857/GOOGLE, grid-shift datums and failing constructors, random}; every answer compared bit-for-bit with a freshly "
            "parsed + freshly built transformer's answer, with the Lean model's answer, and the SR states with the model's. "
            "Second round: +R_A/+rf/+from_greenwich/+to_meter references; NewTransform as a history step (transformers built between calls, state tags checked before and after every call); gt lines run three calls (identical repeat, then after in-place mutation of the operand) with late re-check of earlier results, inputs laid out as windows of one flat buffer / prefix re-slices / nil-for-empty, dyadic scales, size thresholds 63..2048. "
            "distinct = distinct input line; non-trivial = class not nocalls/skipped/bad",
    "trivial_class": r"(nocalls|skipped|^gt-bad|^hist-bad)",
    "timeout": {"quick": 600, "thorough": 3000},
}
