import os, subprocess, sys
sys.path.insert(0, os.path.join(os.path.dirname(os.path.dirname(os.path.abspath(__file__))), "lib"))
import vcheck

T = "GeomV.C10."
TIES = ["LongLat", "Merc", "TMerc", "UTM", "LCC", "AEA", "EqdC", "Krovak", "Registered", "Path", "Datum", "State", "Transform", "Axis", "Geom", "DatumBody", "AxisLoop", "Prelude"]
CTORS = ["LongLat", "Merc", "TMerc", "UTM", "LCC", "AEA", "EqdC", "Krovak"]


def pregen(check):
    """Regenerate lean/GeomV/C10/GenWrites.lean from the Go source of the tree under test (go/ast extractor
    harness/cmd/c10/astwrites): per projection constructor the set of SR fields it assigns, and per function
    on a transformer's call path the fields it assigns through its *SR/*datum parameters.  The tie modules
    GeomV.C10.Ties.<Ctor> compare them with the model's write sets; a difference fails `lake build` of the
    module named after the constructor."""
    for mode, fname, marker in (("writes", "GenWrites.lean", "namespace GeomV.C10.Gen"),
                                ("bodies", "GenBodies.lean", "def ctorBodies"),
                                ("datum", "GenDatum.lean", "def datumShape"),
                                ("state", "GenState.lean", "def nonlocalWrites"),
                                ("transform", "GenTransform.lean", "def transform3 : Fn"),
                                ("axis", "GenAxis.lean", "def axisCases"),
                                ("geom", "GenGeom.lean", "def geomMethods"),
                                ("datumbody", "GenDatumBody.lean", "def datumBody"),
                                ("axisloop", "GenAxisLoop.lean", "def axisFn"),
                                ("prelude", "GenPrelude.lean", "def newTransformBody")):
        out = os.path.join(vcheck.LEAN, "GeomV", "C10", fname)
        with vcheck.Lock("go"):
            p = subprocess.run(["go", "run", "./cmd/c10/astwrites", vcheck.REPO if mode == "geom" else os.path.join(vcheck.REPO, "proj"), mode], cwd=vcheck.HARNESS,
                               env=vcheck.GOENV, stdout=subprocess.PIPE, stderr=subprocess.PIPE, text=True)
        if p.returncode != 0 or marker not in p.stdout:
            check.broken.append("source extractor (%s) failed on %s/proj: %s" % (mode, vcheck.REPO, p.stderr.strip()[-300:]))
            return
        old = open(out).read() if os.path.exists(out) else ""
        if old != p.stdout:
            open(out, "w").write(p.stdout)
            vcheck.log("C10: %s regenerated (the Go source's extract changed)" % fname)


def post(check, pairs, stats):
    """thorough tier only: the goroutine probe (cc lines) once more under Go's race detector.  Races reported on
    the unchanged tree are the constructors' idempotent re-writes of the shared *SR on every call and
    datumTransform's deferred restore (same values written back): not observable in answers, outside the
    property, so they are COUNTED and summarised in the evidence, not flagged.  An answer that differs from the
    fresh transformer's under the race build is flagged like any other."""
    import re, shutil
    if check.tier != "thorough":
        return
    s1 = os.path.join(check.rundir, "s1.txt")
    if not os.path.exists(s1):
        return
    lines = [l for l in open(s1) if l.startswith("cc ")][:400]
    if not lines:
        return
    inp = os.path.join(check.rundir, "cc-race-in.txt")
    open(inp, "w").writelines(lines)
    out = os.path.join(check.rundir, "c10race")
    args = ["go", "build", "-race", "-tags", "verif", "-o", out]
    mf = os.path.join(check.rundir, "alt.mod")
    if vcheck.REPO != "/repo" and os.path.exists(mf):
        args += ["-modfile", mf]
    args.append("./cmd/c10")
    with vcheck.Lock("go"):
        b = subprocess.run(args, cwd=vcheck.HARNESS, env=dict(vcheck.GOENV, CGO_ENABLED="1"), stdout=subprocess.PIPE, stderr=subprocess.STDOUT, text=True)
    if b.returncode != 0:
        vcheck.log("C10: -race build not available: %s" % b.stdout.strip()[-200:])
        check.cfg["explanation"] = "race probe: go build -race failed (no race runtime?)"
        return
    env = dict(vcheck.GOENV, GORACE="halt_on_error=0 history_size=2")
    try:
        r = subprocess.run([out, "impl"], stdin=open(inp), stdout=subprocess.PIPE, stderr=subprocess.PIPE, env=env, text=True, timeout=900)
    except subprocess.TimeoutExpired:
        check.cfg["explanation"] = "race probe: timeout"
        return
    nrace = r.stderr.count("WARNING: DATA RACE")
    sites = {}
    for blk in r.stderr.split("WARNING: DATA RACE")[1:]:
        m = re.search(r"(?:Write|Read) at \S+ by goroutine \d+:\n\s+(\S+)\(\)", blk)
        if m:
            f = m.group(1).split("/")[-1]
            sites[f] = sites.get(f, 0) + 1
    diffs = [l for l in r.stdout.split("\n") if "=> cc diff" in l]
    top = ", ".join("%s x%d" % kv for kv in sorted(sites.items(), key=lambda kv: -kv[1])[:8])
    msg = ("race probe (thorough): %d cc lines under go -race, %d DATA RACE reports (first access in: %s), %d lines with an answer "
           "differing from the fresh transformer's" % (len(lines), nrace, top or "-", len(diffs)))
    vcheck.log("C10: " + msg)
    check.cfg["explanation"] = msg
    if diffs:
        check.broken.append("goroutine probe under -race: concurrent answer differs from the fresh transformer's: " + diffs[0][-300:])


CFG = {
    "id": "C10",
    "lean_modules": ["GeomV.C10.Proofs", "GeomV.C10.ProofsSrc", "GeomV.C10.ProofsDatum", "GeomV.C10.ProofsRefine"] + ["GeomV.C10.Ties." + t for t in TIES],
    "pregen": pregen,
    "post": post,
    "exe": "geomv_c10",
    "go_cmd": "c10",
    "stages": ["go:gen", "go:impl", "lean:judge"],
    "theorems": [T + n for n in [
        "C10_structure", "C10_map_vertices", "C10_vertex_i", "C10_nil_identity", "C10_error_no_panic",
        "C10_pure", "C10_pure_last", "C10_pure_states", "C10_history_state", "C10_step_state_eq",
        "C10_no_index_fault", "C10_no_panic", "C10_input_unchanged",
        "C10_init_idempotent", "C10_init_frame", "C10_CoreOK_ctors", "C10_pure_ctors",
    ]] + [T + "tie_" + t for t in TIES] + [T + "tie_body_" + t for t in CTORS] + [T + n for n in [
        "C10_src_init_total", "C10_src_init_idempotent", "C10_src_init_frame",
        "C10_datum_frame", "C10_datum_never_written", "C10_datum_pure", "C10_datum_history", "C10_pure_with_datums", "C10_step_datums_frame", "C10_datum_panic_is_panic",
        "tie_transform3", "tie_closure", "tie_checkNotWGS", "tie_TransformConsts", "tie_Axis_cases",
        "tie_geom_Point", "tie_geom_MultiPoint", "tie_geom_LineString", "tie_geom_MultiLineString", "tie_geom_MultiPolygon",
        "tie_geom_GeometryCollection", "tie_geom_Bounds", "tie_geom_nil", "tie_geom_Polygon", "tie_geom_methods", "tie_geom_program", "tie_geom_writes", "tie_DatumSig", "tie_AxisShape", "tie_PreludeSig", "C10_build_pure",
        "C10_mem_refines", "C10_mem_refines_flat", "C10_mem_refines_nil", "C10_mem_vertices", "C10_mem_input_kept",
    ]],
    "trusted_base": [
        "Lean 4.33.0 kernel; axioms of every theorem printed by #print axioms must be within {propext, Classical.choice, Quot.sound}",
        "Mem.lean (memory model of the eight Transform methods behind C10_input_unchanged) refines the functional model GeomTransform.lean by theorem C10_mem_refines (all types, nesting, layouts); additionally, on every gt line the judge lays the input out in a Mem as the harness does (separate arrays / windows of one buffer / prefix re-slices), runs Mem.transformTop and compares the decoded result with the functional model (hence with the implementation); the real slices are compared before/after/after scribbling",
        "Ctors.lean (constructors' writes): write SETS, VALUES and CONDITIONS are re-extracted from the Go source by go/ast on every run (GenWrites.lean, GenBodies.lean) and proved equal to the model (Ties/*.lean: tie_<Ctor> by decide, tie_body_<Ctor> for every SR and float semantics); trusted: the extractor's slicing rule (harness/cmd/c10/astwrites/body.go) and the naming of Go literals / math.* functions as uninterpreted POps operations (CtorIR.lean); also covered at run time by the state dumps (every SR = as parsed or after one constructor run) and the wd records",
        "Datum.lean (datumTransform on a heap of *datum objects, abstract callees): since phase 4 the WHOLE body of datumTransform is re-translated from the Go source on every run (astwrites mode datumbody -> GenDatumBody.lean, little language DatumIR.lean: pointer parameters into the shared heap or re-pointed to a local copy, saved locals, the deferred function run on every way out incl. a callee's panic) and proved equal to the hand model datumTransformM — heap left and answer — for every heap, aliasing, point and callees (tie_DatumBody, tie_DatumSig); the save/defer-restore shape tie (GenDatum.lean, tie_Datum) and the callees' write-freedom (tie_Path) stay; trusted: the translator astwrites/datumbody.go and the naming of the two float constants, the four callees and the error text as DOps fields; at run time the reflection dumps include the unexported datum",
        "GeomTransform.lean (the eight Transform methods): since phase 4 the WHOLE body of every method is re-translated from /repo/transform.go on every run (astwrites mode geom -> GenGeom.lean, little language GeomIR.lean: real arrays made by make and written at bounds-checked indices, range with block scoping, one err cell, unknown values after a failing call, type assertions; a call x.Transform(t) means the model's dispatch) and proved equal to the model for every receiver, transformer or nil (tie_geom_<Type>, tie_geom_nil, tie_geom_methods, tie_Geom); the per-method ties hold for ANY meaning of the calls that agrees with the model on the receiver's members, and tie_geom_program proves that the eight extracted methods calling EACH OTHER (fuel = nesting depth + 1; no reference to the model inside the bodies) compute exactly the model's transform for every transformer or nil and every geometry without nil members; trusted: the translator astwrites/geom.go",
        "Transformer.lean's stepNoHop/body (= transform3), step (= the closure returned by NewTransform) and notWGS (= checkNotWGS) are no longer only hand-modelled: the WHOLE bodies are re-translated from the Go source statement by statement on every run (astwrites mode transform -> GenTransform.lean, little language TransformIR.lean with Go's semantics for the point slice, err, shadowed/captured *SR variables, bound function values) and proved equal to the model for every heap, Core and float semantics (tie_transform3, tie_closure, tie_checkNotWGS, composed in tie_Transform; constants in tie_TransformConsts); trusted there: the translator harness/cmd/c10/astwrites/transform.go (one syntactic form per IR constructor, everything else `.other` = stuck) and the interpreter's reading of the abstract callees (Transformers() = Core.init on the cell, forward/inverse evaluated on the cell's record at call time, datumTransform = Core.dt, adjust_axis = the model's adjustAxis, Parse(\"WGS84\") = the registry cell, one `err` cell per body)",
        "adjust_axis: since phase 4 its WHOLE body (loop header, continue guard, the if / else-if chain picking v and t, the switch on crs.Axis[i] with cases and default, the final return) is re-translated from the Go source on every run (astwrites mode axisloop -> GenAxisLoop.lean, little language AxisIR.lean) and proved equal to the model's adjustAxis for every axis string, point and float semantics (tie_AxisLoop; nothing else in the function: tie_AxisShape); the older ties stay (case table read as four actions: tie_Axis_cases; source texts: tie_Axis); trusted: the translator astwrites/axisloop.go (a trailing `break` of a case is dropped; the default case must be `err := fmt.Errorf(…); return nil, err`)",
        "model lean/GeomV/C10/{GeomTransform,Transformer}.lean is tied to /repo/transform.go and /repo/proj/{transform,adjust_axis}.go by the correspondence run on every check: "
        "Geom.Transform results compared exactly (bit patterns); transformer results compared bit-for-bit with the model instantiated by oracle tables "
        "(projection forward/inverse, constructor errors through the exported API; datumTransform through hook proj.VerifDatumTransform, build tag verif) filled from the real code, and the SR objects' full "
        "field dumps (reflection, unexported datum included) compared after every call with 'as parsed' / 'as left by one constructor run'",
        "the hypothesis CoreOK of C10_pure is a theorem for Ctors.lean (C10_CoreOK_ctors); for the Go constructors themselves (re-running a projection constructor on an initialised SR changes nothing; it never writes Name/Axis/ToMeter/"
        "FromGreenwich/DatumCode/datum; datumTransform leaves the datums as found) is not proved about the Go constructors: it is checked on the real "
        "objects after every generated call (state tags) — any other state is a DIFF",
        "IEEE-754 double arithmetic of Lean's Float (C) equals Go's for * + - / and negation (NaN payloads excluded)",
        "harness/cmd/c10 + lean driver + lib/vcheck.py transport inputs faithfully",
    ],
    "assumptions": [
        "geometries have no nil members (a nil interface inside a GeometryCollection or a nil *Bounds panics in Go; the model reproduces it, the theorems exclude it by `noNil`)",
        "nil slices and empty slices are not distinguished",
        "NewTransform's nil-if-Equal answer can flip once a constructor has run on one of two SRs: on a transformer built between calls the flip is skipped ONLY when the two definitions denote the same CRS after the constructors' defaults (tsame record, own field-by-field comparison within 4 ulp); between different CRSs it is a SPEC failure (NewTransform-nil-depends-on-history)",
        "axis strings have three letters (what projString accepts; DeriveConstants defaults to enu)",
    ],
    "rule": "gt lines: grammar-generated geometries of all 8 types (nesting <= 3, member counts 0..7, coordinates from random bit patterns, NaN payloads, "
            "-0, +-Inf, integers, ordinary values) x {nil transformer, pure bit-pattern transformer failing on 'poison' vertices placed with density "
            "0/0.02/0.1/0.4 (several failing vertices => order matters), counting transformer failing on its k-th call for k = first/middle/last/none/random}; "
            "every answer checked against Spec.TransformSpec, the recorded call log against the vertex list, input slices compared before/after and after "
            "scribbling over the output (aliasing). h lines: histories of 2..50 calls over pools of 1..6 transformers built from 2..6 shared *SR objects drawn "
            "from a 43-entry catalogue stratified by {no hop, hop on source side, hop on dest side, both, non-default axis order (11 axis strings), registry "
            "entries WGS84/EPSG:4326/EPSG:3857/GOOGLE, grid-shift datums and failing constructors, random}; every answer compared bit-for-bit with a freshly "
            "parsed + freshly built transformer's answer, with the Lean model's answer, and the SR states with the model's. "
            "Second round: +R_A/+rf/+from_greenwich/+to_meter references; NewTransform as a history step (transformers built between calls, state tags checked before and after every call); gt lines run three calls (identical repeat, then after in-place mutation of the operand) with late re-check of earlier results, inputs laid out as windows of one flat buffer / prefix re-slices / nil-for-empty, dyadic scales, size thresholds 63..2048. "
            "Phase 3: consecutive calls of one transformer repeat the previous input exactly (30 %) or as a NEAR duplicate (25 %: one coordinate equal, the other 1 ulp / 1e-10 / 1e-7 relative / 0.25 away) so approximately or half keyed memos answer from the wrong entry. "
            "Round h: twin references (base and base + one boolean flag: +south for utm zones 1..60 at southern points, +czech, +R_A) side by side in one history, either twin first; on lines with twins the fresh transformer's answer comes from a process of its own (c10 fresh1), so per-process caches cannot pollute the reference. "
            "distinct = distinct input line; non-trivial = class not nocalls/skipped/bad",
    "trivial_class": r"(nocalls|skipped|^gt-bad|^hist-bad)",
    "timeout": {"quick": 600, "thorough": 3000},
}
