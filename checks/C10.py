T = "GeomV.C10."
CFG = {
    "id": "C10",
    "lean_modules": ["GeomV.C10.Proofs"],
    "exe": "geomv_c10",
    "go_cmd": "c10",
    "stages": ["go:gen", "go:impl", "lean:judge"],
    "theorems": [T + n for n in []],
    "trusted_base": [
        "Lean 4.33.0 kernel; axioms of every theorem printed by #print axioms must be within {propext, Classical.choice, Quot.sound}",
    ],
    "assumptions": [],
    "rule": "",
    "trivial_class": r"(nocalls|skipped|^gt-bad|^hist-bad)",
    "timeout": {"quick": 600, "thorough": 3000},
}
