T = "GeomV.C02."
CFG = {
    "id": "C02",
    "lean_modules": ["GeomV.C02.Proofs"],
    "exe": "geomv_c02",
    "go_cmd": "c02",
    "stages": ["go:gen", "go:impl", "lean:judge"],
    "theorems": [T + n for n in ["C02_pointOnSegment_spec", "C02_rayIntersects_eq_crossHO", "C02_ring_onEdge_iff",
                                 "C02_closed_walk_even", "C02_bbox_prefilter_sound", "C02_point", "C02_point_no_panic",
                                 "C02_receivers_points", "C02_receivers_multiline", "C02_receivers_polygon"]],
    "lean_dirs": ["C02"],
    "trusted_base": [
        "Lean 4.33.0 kernel; axioms of every theorem printed by #print axioms must be within {propext, Classical.choice, Quot.sound}",
        "model lean/GeomV/C02/Model.lean (exact Rat arithmetic, four-valued float division FQ, extended-rational Bounds) is tied to "
        "/repo/{within,simplify,area,bounds,multipoint,linestring,multilinestring,polygon}.go by the correspondence run on every check: "
        "exact three-valued status, exhaustive on half-integer grids",
        "IEEE-754 rounding is modelled, not verified: on half-integer grids (|k/2|, |k| <= 2^11) every subtraction is exact and "
        "distinct quotients differ by far more than an ulp; this argument is checked by the exhaustive grid enumeration, not assumed",
        "harness/cmd/c02 + lean driver + lib/vcheck.py transport inputs faithfully",
    ],
    "assumptions": ["finite coordinates (NaN/±Inf are outside the exact model; -0.0 is identified with 0 and exercised by the correspondence run)",
                    "nil and empty slices are not distinguished (matters only for reflect.DeepEqual in Polygon.Within)"],
    "rule": "fixed corpus (degenerate, bow-tie, holes, multipolygons, *Bounds, -0.0, one-ulp edges) + EXHAUSTIVE: every ordered vertex triple on the "
            "integer grids [0,2]^2 and [0,3]^2 (closed and unclosed spelling) and on the half-integer grid {0,.5,..,2}^2 (thorough: also "
            "{0,.5,..,3}^2 and every ordered quadruple on [0,2]^2 and [0,3]^2), against every point of the "
            "half-integer grid one unit beyond (for [0,2]^2 with both spellings of zero) + seeded samples of quadrilaterals, pentagons, 1-3 ring polygons, "
            "2-3 member multipolygons, half-integer and long rings, magnitudes up to 2^10 + random float polygons with points kept clear of edges "
            "(incl. ray through vertex, 1-3 ulp high edges, x = -0.0) judged on the exact dyadic values + the four receivers. "
            "A grid line is one polygonal geometry against all grid points; distinct = distinct input line; non-trivial = class not 'skipped'",
    "timeout": {"quick": 900, "thorough": 3000},
}


def post(check, pairs, stats):
    n = 0
    for impl, _ in pairs:
        t = impl.split(" ", 5)
        if t[0] == "grid":
            k = int(t[3]) - int(t[2]) + 1
            n += k * k
        else:
            n += 1
    stats["point_polygon_pairs"] = n
    stats["exhaustive"] = True
    check.cfg["explanation"] = "point/polygonal pairs judged this run: %d (grid part exhaustive over its stated catalogue)" % n


CFG["post"] = post
