T = "GeomV.C02."
CFG = {
    "id": "C02",
    "lean_modules": ["GeomV.C02.Proofs", "GeomV.C02.Ties", "GeomV.C02.ProofsFloat", "GeomV.C02.IEEE", "GeomV.C02.TiesLoops", "GeomV.C02.ProofsIEEE", "GeomV.C02.ProofsNaN", "GeomV.C02.ProofsXF", "GeomV.C02.ProofsOvf", "GeomV.C02.ProofsLat"],
    "exe": "geomv_c02",
    "go_cmd": "c02",
    "stages": ["go:gen", "go:impl", "lean:judge"],
    "theorems": [T + n for n in ["C02_pointOnSegment_spec", "C02_rayIntersects_eq_crossHO", "C02_ring_onEdge_iff",
                                 "C02_closed_walk_even", "C02_bbox_prefilter_sound", "C02_point", "C02_point_no_panic",
                                 "C02_receivers_points", "C02_receivers_multiline", "C02_receivers_polygon", "C02_closed_spelling",
                                 "C02_tie_pointSubtract", "C02_tie_pointOnSegment", "C02_tie_rayIntersectsSegment", "C02_tie_Bounds_Empty", "C02_tie_Bounds_Overlaps",
                                 "C02_float_ray_exact_on_grid", "C02_float_onSegment_exact_on_grid", "C02_float_point_exact_on_grid",
                                 "C02_float_ray_exact_on_scaled_grid", "C02_float_onSegment_exact_on_scaled_grid", "C02_float_point_exact_on_scaled_grid",
                                 "C02_rne_rounding",
                                 "C02_tie_pointInPolygonal", "C02_tie_pointInPolygon", "C02_tie_ringBounds", "C02_tie_extendPoints",
                                 "C02_tie_Point_Within", "C02_tie_MultiPoint_Within", "C02_tie_LineString_Within",
                                 "C02_tie_MultiLineString_Within", "C02_tie_Polygon_Within",
                                 "C02_float_point_regenerated", "C02_ieee_point_exact_on_scaled_grid",
                                 "C02_ieee_ray_exact_on_scaled_grid", "C02_ieee_onSegment_exact_on_scaled_grid",
                                 "C02_nan_query_outside", "C02_inf_query_outside", "C02_nan_vertex_ring_ignored",
                                 "C02_xf_finite_eq_model", "C02_xf_finite_spec",
                                 "C02_tie_GenOL_loops", "C02_tie_Polygons", "C02_overflow_breaks_within", "C02_overflow_misses_onEdge",
                                 "C02_overflow_false_onEdge", "C02_overflow_false_inside", "C02_no_overflow_sub",
                                 "C02_no_overflow_pointSubtract", "C02_no_overflow_on_lattice"]],
    "lean_dirs": ["C02"],
    "trusted_base": [
        "Lean 4.33.0 kernel; axioms of every theorem printed by #print axioms must be within {propext, Classical.choice, Quot.sound}",
        "model lean/GeomV/C02/Model.lean (exact Rat arithmetic, four-valued float division FQ, extended-rational Bounds) is tied to "
        "/repo/{within,simplify,area,bounds,multipoint,linestring,multilinestring,polygon}.go by the correspondence run on every check: "
        "exact three-valued status, exhaustive on half-integer grids",
        "T1: harness/cmd/c02/extract.go + extract_loops.go (go/ast, ~1100 lines) regenerate lean/GeomV/C02/Gen.lean from the tree under test on "
        "every run: namespace Gen (pointSubtract, pointOnSegment, rayIntersectsSegment, (*Bounds).Empty, (*Bounds).Overlaps, (Point).Equals), "
        "namespace GenR (the first three with every float - and / rounded by rnd) and namespace GenL: the LOOPS (invert, NewBounds, NewBoundsPoint, "
        "extendPoint, extendPoints, ringBounds, pointInPolygon, pointInPolygonal and the five Within receivers) in the monad Except Fault with "
        "faulting index operations (GenLib.lean: idx, setIdx, forRange, forInt with early return/continue as Ctl values). Ties.lean proves "
        "Gen.f = Model.f by rfl; TiesLoops.lean proves the loops equal to the model by induction (C02_tie_pointInPolygonal etc.). The "
        "translation of float division/comparison into FQ (fdiv, fdivR, FQ.eq, FQ.ge), of box fields into ERat (math.Min/Max = ERat.min/max), of "
        "reflect.DeepEqual(p, poly) into `poly = .polygon p`, of the interface call pg.Polygons() into a match on the three dynamic types "
        "(the three method bodies ARE regenerated: Polygonal_Polygons, tie C02_tie_Polygons), and the value semantics of "
        "slices/pointers (no aliasing; make = zero values) are part of the trusted base and are exercised by the correspondence run",
        "IEEE-754 rounding: on the half-integer grid times 2^s ((k/2)*2^s, |k| <= 2^11, -1000 <= s <= 900) PROVED (ProofsFloat.lean) for every "
        "rounding function that is monotone and fixes the doubles m*2^e (|m| <= 2^53, -1074 <= e <= 970); IEEE.lean PROVES that roundTiesToEven "
        "(rne, defined from the bit-level Dec.roundPos of C17 via its specification IsRNE) is such a function, ProofsIEEE.lean instantiates. "
        "What is trusted: that the hardware implements roundTiesToEven for - and /, and the reading `every - and / is rounded once` (GenR). "
        "Off those grids (margin-protected arbitrary floats) rounding is checked by the correspondence run, not proved",
        "harness/cmd/c02 + lean driver + lib/vcheck.py transport inputs faithfully",
    ],
    "assumptions": ["no overflow: coordinate differences of magnitude 2^1024 and above overflow in the real code and the property FAILS there (known finding; "
                    "fourth rendering GenO/GenOL, pt ovf-* lines, ProofsOvf.lean: C02_overflow_breaks_within …); "
                    "finite coordinates for the property theorems (the Rat model identifies -0.0 with 0; ProofsXF.lean PROVES that the XF rendering, "
                    "which does not, agrees with it for finite coordinates: C02_xf_finite_eq_model). NaN/±Inf/-0.0: third rendering of the source "
                    "over XF (XF.lean: IEEE comparison/sub/div/math.Min/Max with NaN, ±Inf, signed zero; finite results exact, no overflow) — "
                    "ProofsNaN.lean proves NaN query → Outside, ±Inf query vs finite vertices → Outside, rings with a NaN vertex are dropped; "
                    "the `nf` lines compare that rendering with the real code (DIFF only; outside the property's quantifier)",
                    "nil and empty slices are not distinguished (matters only for reflect.DeepEqual in Polygon.Within)"],
    "rule": "fixed corpus (degenerate, bow-tie, holes, multipolygons, *Bounds, -0.0, one-ulp edges) + EXHAUSTIVE: every ordered vertex triple on the "
            "integer grids [0,2]^2 and [0,3]^2 (closed and unclosed spelling) and on the half-integer grid {0,.5,..,2}^2 (thorough: also "
            "{0,.5,..,3}^2 and every ordered quadruple on [0,2]^2 and [0,3]^2), against every point of the "
            "half-integer grid one unit beyond (for [0,2]^2 with both spellings of zero) + seeded samples of quadrilaterals, pentagons, 1-3 ring polygons, "
            "2-3 member multipolygons, half-integer and long rings, magnitudes up to 2^10 + random float polygons with points kept clear of edges "
            "(incl. ray through vertex, 1-3 ulp high edges, x = -0.0) judged on the exact dyadic values + the four receivers "
            "+ the sampled and float shapes at dyadic scales 2^±20..2^±1000. Every query is asked twice against three slice layouts of the "
            "polygon (own arrays / windows of one flat buffer with spare capacity / prefix re-slices) with a bit-for-bit snapshot check; "
            "hist lines query one polygon object, change it in place (coordinates overwritten / ring slots re-pointed), query again and change back, "
            "each answer judged for the polygon as it is at that call. "
            "cc lines: 2-5 unrelated multi-ring polygonals with long (subdivided) first rings, each asked its own grid 30-40 times by its own "
            "goroutine, all at the same time, while further goroutines call Polygon.Area on the same polygons and Within on a far-away triangle; "
            "every answer string of every goroutine is judged by the Spec (Within is a function of point and polygon, whatever other goroutines ask). "
            "A grid line is one polygonal geometry against all grid points; distinct = distinct input line; non-trivial = class not 'skipped'",
    "timeout": {"quick": 900, "thorough": 3000},
}


def post(check, pairs, stats):
    n = 0
    for impl, _ in pairs:
        t = impl.split(" ", 5)
        if t[0] == "grid":
            k = int(t[3]) - int(t[2]) + 1
            n += k * k
        else:
            n += 1
    stats["point_polygon_pairs"] = n
    stats["exhaustive"] = True
    check.cfg["explanation"] = "point/polygonal pairs judged this run: %d (grid part exhaustive over its stated catalogue)" % n


CFG["post"] = post


def pregen(check):
    """T1: regenerate Gen.lean from the Go source of the tree under test (written only when it changed)"""
    import os, subprocess
    import vcheck
    # the `pt ovf-*` family (coordinates near 2^1023: differences overflow) fires on the unchanged tree; its known finding
    # lives in findings/C02.json and reaches the run through the shared KNOWN_FINDINGS.json (bin/mkfindings). Until that
    # table carries the entry the family is not generated (and the run says so); afterwards it is on for good.
    have = any(k.get("property") == "C02" and k.get("kind") == "known" and "pt-ovf" in k.get("signature", "")
               for k in vcheck.load_known())
    vcheck.GOENV["C02_OVF"] = "1" if have else "0"
    if not have:
        vcheck.log("C02: pt ovf-* lines OFF: KNOWN_FINDINGS.json has no C02 overflow entry yet (run bin/mkfindings)")
    ok, gobin, out = vcheck.go_build("c02", check.rundir)
    if not ok:
        return  # reported as a broken tie by the harness build of the main flow
    p = subprocess.run([gobin, "extract", "--repo", vcheck.REPO], stdout=subprocess.PIPE, stderr=subprocess.PIPE, text=True)
    if p.returncode != 0:
        check.broken.append("T1 tie: simplify.go/within.go/bounds.go/area.go/receivers left the translatable subset: " + p.stderr.strip()[-300:])
        return
    gen = os.path.join(vcheck.LEAN, "GeomV", "C02", "Gen.lean")
    old = open(gen).read() if os.path.exists(gen) else ""
    if old != p.stdout:
        with open(gen + ".tmp", "w") as f:
            f.write(p.stdout)
        os.replace(gen + ".tmp", gen)


CFG["pregen"] = pregen
