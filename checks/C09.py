"""C09 — projected coordinates agree with proj4js and with independent reference formulas.

pregen (tie T1): harness/cmd/c09/extract (go/ast + go/types, source text only) regenerates
lean/GeomV/C09/Gen/{GoCommon,GoProj,Tables}.lean from the CURRENT proj/common.go, the closures AND constructor bodies of the projection files, datum.go, the four table files and
the vendored proj4js constants, so the theorems are re-checked against what the code says now.
If `node` is on PATH the vendored JavaScript itself is run on a sample to validate the Lean
transliteration `Js.lean` (recorded in the evidence; the check does not depend on node).
"""
import json, os, shutil, subprocess, sys
sys.path.insert(0, os.path.join(os.path.dirname(os.path.dirname(os.path.abspath(__file__))), "lib"))
import vcheck

T = "GeomV.C09."
GEN = os.path.join(vcheck.LEAN, "GeomV", "C09", "Gen")
_state = {}


# sha256 of the vendored proj4js 2.3.12 sources that `Js.lean` was transliterated from and that the
# table extractor reads (snapshot 8354466 of /repo): "that proj4js release" of the property is pinned,
# so editing the vendored JavaScript together with the Go port cannot make the two agree.
JS_PIN = {
    "common/sign.js": "5bfd6fc0216051ef0424740111bbeaa944deb1aca435a93f7ac6ff13f75450be",
    "common/adjust_lon.js": "36c099eb31127d522db0f2ca45c981328b4b287a0a25e615eb62c5282ed904c8",
    "common/adjust_lat.js": "66de369e842de12d6f324e22743fd0f0d377b947f334c7d6d252a98971e0f63a",
    "common/msfnz.js": "0c5cbfbbf4fbe514c6da07d810263a2854637ed869d74e7ca8c579dd0aa807d4",
    "common/tsfnz.js": "a2551610bc8a9a7b9745bfc68de626035ee7e4d0aa7f433d4e57c73397463dcb",
    "common/e0fn.js": "ac36cef1129acb0040916f9ee16fd26e1269e6c88ac8202efeb87c5983ae31e4",
    "common/e1fn.js": "d1c98bd014e3ae4c8e4adeac3285743b1e57e76d26825986af3cca690416f9b7",
    "common/e2fn.js": "1b145061af11c010f452013133de9d801d54185ecc1c54bd57e908553cf38fcf",
    "common/e3fn.js": "e0af991289b040cf75b061aad907be92447114ee7fcd7e8741f1ecccdf478937",
    "common/mlfn.js": "0cec5bdfa59371e769f657f6a56cdb8155939e5bf368af44e4dce8d15f24c6de",
    "common/asinz.js": "cbcd7cb98986454712a6dd7e11b89ade794132f210c769ae2776c9132dee72f7",
    "common/qsfnz.js": "2cc885e915bd2cacc62c980e21b1bdf735ba3454e0aecbd88337eff2102561c8",
    "common/phi2z.js": "c6560becf7512fead723f18f12be13d7dbabd412154fb59403a105b3d2ff046c",
    "common/imlfn.js": "a6e364060c552e9040164e37476534cd08e8f20a5d9520a4b40267d1bd060676",
    "common/toPoint.js": "cdc8cc27a1133de97097c712879061896e86e3e6840ce4b399bc66168570aacb",
    "projString.js": "f36e77481b5ef6a4eab4d2b271eec79c2b4162a89619319fa1da11833641bbc5",
    "deriveConstants.js": "4217dde4ef8a564e504ddee97136a98c83eeb0e378b8944f4b929546d46d477a",
    "datum.js": "f2706c1c31a272952b343a090c3baa3407768bb6167f6b604ea4c819eca08826",
    "datum_transform.js": "e5d4fc7e5527f0b956f4e57d36ca0d67106dd9800dfb744c589e030d48bd3646",
    "transform.js": "4571b65b3980dc07e0f56c5abd4fa4ca9c474bad42b023b405a03f71a6822e4e",
    "Proj.js": "4adbba6c4919b65e0f0bd5e25e1906065a3d542ce07f0664c6b69732ba44f9ac",
    "global.js": "8d518d74f1a2873d965c974aa92811734e4450202dfd2eed3d15e5b5bb94c0af",
    "constants/Datum.js": "738235ee040b27a1961d6db3cb411883527d43f606981e24d8f0b38ebb44bcb5",
    "constants/Ellipsoid.js": "46cd9f3b77b764f94d31368850eca29894d98a80a4744cafe64fd5af54e44eb9",
    "constants/PrimeMeridian.js": "0cffc840eaec07d7ad8b9eaceecf12555c83068575a118e53f5baa0e67aef385",
    "constants/units.js": "4583a9cbf31f392eee513d2b7713a3b7af58fd1f3ff3ee8fbc4345d8403ade30",
    "projections/merc.js": "d62d888bcee094d3082592fba5d80fd038073aca2a0cc202c7abb98519de1ba5",
    "projections/lcc.js": "94c268741a1940be9e4eb55de3adc7993e46c95e68c967bc532b868b5986e261",
    "projections/aea.js": "b26c18a404475e21574c0e5f3159eb4bfb45ba02bd68a0a47cb499c58823f5da",
    "projections/eqdc.js": "bf8169c99835fded926a5bc9c805895aee2b36665c5223a3c599838ed9bb6013",
    "projections/tmerc.js": "907d4127c010b44eb2a7b768f5b04a755efa56d8e79faf330b51e16896bb3560",
    "projections/utm.js": "e79fe99340aab1789c467197f64e1b6baca6eb68d9b99221fe4e4383f4756ac8",
    "projections/krovak.js": "f3f0ffa4373db166fd339693f202d0d9bd58df669ee33eb151eccfdec6604fc4",
    "projections/longlat.js": "33937ec51f54d96db19ff6d528d45ecd92e59b162ebe6c426e02b62599829206",
}


def js_pin(check):
    import hashlib
    lib = os.path.join(vcheck.REPO, "proj", "proj4js-2.3.12", "lib")
    bad = []
    for rel, want in JS_PIN.items():
        try:
            got = hashlib.sha256(open(os.path.join(lib, rel), "rb").read()).hexdigest()
        except OSError:
            got = "missing"
        if got != want:
            bad.append(rel)
    if bad:
        check.broken.append("vendored proj4js 2.3.12 differs from the pinned release (Js.lean / table theorems were written "
                            "against it): " + ", ".join(bad))
    _state["js_pin"] = "%d files pinned, %d differ" % (len(JS_PIN), len(bad))


def pregen(check):
    js_pin(check)
    out = os.path.join(check.rundir, "c09extract")
    args = ["go", "build", "-o", out, "./cmd/c09/extract"]
    with vcheck.Lock("go"):
        p = subprocess.run(args, cwd=vcheck.HARNESS, env=vcheck.GOENV, stdout=subprocess.PIPE, stderr=subprocess.STDOUT, text=True)
    if p.returncode != 0:
        check.broken.append("T1 extractor does not build: " + p.stdout.strip()[-300:])
        return
    with vcheck.Lock("lake"):   # Gen/*.lean are inputs of lake build
        p = subprocess.run([out, "--repo", vcheck.REPO, "--out", GEN], stdout=subprocess.PIPE, stderr=subprocess.STDOUT, text=True)
    _state["extract"] = p.stdout.strip()
    if p.returncode != 0:
        # a function left the translatable subset / a table is no longer a literal: broken tie
        check.broken.append("T1 extraction failed: " + p.stdout.strip()[-500:])
    else:
        vcheck.log(p.stdout.strip())


NODE_JS = r"""
var lib = process.argv[2] + '/proj/proj4js-2.3.12/lib';
var Proj = require(lib + '/Proj'), transform = require(lib + '/transform');
require(lib + '/includedProjections')({Proj: Proj});
var lines = require('fs').readFileSync(0, 'utf8').split('\n');
lines.forEach(function (l) {
  if (!l) return;
  var f = l.split(' | ');
  try {
    var r = transform(new Proj(f[0]), new Proj(f[1]), {x: parseFloat(f[2]), y: parseFloat(f[3])});
    console.log(r.x + ' ' + r.y);
  } catch (e) { console.log('throw'); }
});
"""


def node_crosscheck(check, pairs):
    """optional: run the vendored proj4js itself on the first hop of a sample of cases and compare
    with the Lean transliteration (through `geomv_c09 js`)."""
    node = shutil.which("node")
    if not node:
        return {"node": "not on PATH; transliteration Js.lean not cross-checked this run"}
    import struct
    cases = []
    for impl, _ in pairs:
        lhs = impl.split(" => ")[0]
        f = [x.strip() for x in lhs.split(" | ")]
        if f[0] != "tr" or len(f) < 4:
            continue
        xy = f[-1].split()
        x = struct.unpack(">d", bytes.fromhex(xy[0]))[0]
        y = struct.unpack(">d", bytes.fromhex(xy[1]))[0]
        cases.append((f[1], f[2], x, y, xy[0], xy[1]))
        if len(cases) >= 400:
            break
    js = os.path.join(check.rundir, "node.js")
    open(js, "w").write(NODE_JS)
    inp = "".join("%s | %s | %r | %r\n" % (a, b, x, y) for a, b, x, y, _, _ in cases)
    p = subprocess.run([node, js, vcheck.REPO], input=inp, stdout=subprocess.PIPE, stderr=subprocess.PIPE, text=True)
    got = p.stdout.split("\n")
    q = subprocess.run([check.exe(), "js"], input="".join("%s | %s | %s %s\n" % (a, b, hx, hy) for a, b, _, _, hx, hy in cases),
                       stdout=subprocess.PIPE, stderr=subprocess.PIPE, text=True)
    mine = q.stdout.split("\n")
    n = bad = 0
    worst = 0.0
    for i, c in enumerate(cases):
        if i >= len(got) or i >= len(mine):
            break
        g, m = got[i].split(), mine[i].split()
        n += 1
        if g == ["throw"] or m[:1] == ["err"]:
            # proj4js signals failure by null/NaN that transform.js ignores; only both-numeric cases are compared
            continue
        try:
            gx, gy, mx, my = float(g[0]), float(g[1]), float(m[0]), float(m[1])
        except (ValueError, IndexError):
            bad += 1
            continue
        if gx != gx and mx != mx:
            continue
        rel = max(abs(gx - mx) / (1 + abs(gx)), abs(gy - my) / (1 + abs(gy)))
        worst = max(worst, rel)
        # 1e-9: V8's and libm's acos differ in the last place, which proj4js' spherical tmerc amplifies
        # by ~1e5 next to the equator; a transliteration error shows at 1e-6 or more
        if not rel <= 1e-9:
            bad += 1
    if bad:
        check.broken.append("Js.lean disagrees with the vendored proj4js run by node on %d of %d sampled first hops" % (bad, n))
    return {"node": node, "sampled_first_hops": n, "disagreements": bad, "worst_relative_difference": worst}


def post(check, pairs, stats):
    stats["t1_extract"] = _state.get("extract", "")
    stats["js_pin"] = _state.get("js_pin", "")
    try:
        stats["node_crosscheck"] = node_crosscheck(check, pairs)
    except Exception as e:  # the check must pass without node
        stats["node_crosscheck"] = {"error": repr(e)}
    # surface both in the evidence file
    check.cfg["explanation"] = (check.cfg.get("explanation_base", "") + " | T1: " + stats["t1_extract"] + " | proj4js sources: " + stats["js_pin"] +
                                " | node cross-check of Js.lean: " + json.dumps(stats["node_crosscheck"]))


CFG = {
    "id": "C09",
    "level": "proof",
    "lean_modules": ["GeomV.C09.Proofs", "GeomV.C09.ProofsProj", "GeomV.C09.ProofsDatum", "GeomV.C09.ProofsPipeline", "GeomV.C09.ProofsInit", "GeomV.C09.ProofsInit2", "GeomV.C09.ProofsInit3", "GeomV.C09.ProofsInit4", "GeomV.C09.ProofsParse", "GeomV.C09.ProofsFold", "GeomV.C09.ProofsParse2", "GeomV.C09.ProofsPins"],
    "exe": "geomv_c09",
    "go_cmd": "c09",
    "stages": ["go:gen", "go:impl", "lean:judge"],
    "pregen": pregen,
    "post": post,
    "theorems": [T + n for n in [
        # (C) tables, regenerated from both sources
        "C09_ellipsoids", "C09_datums", "C09_primeMeridians", "C09_units",
        # (A) proj/common.go (T1-generated) = lib/common/*.js, all arguments
        "go_e0fn_eq_js", "go_e1fn_eq_js", "go_e2fn_eq_js", "go_e3fn_eq_js", "go_e3fn_one", "go_mlfn_eq_js",
        "go_msfnz_eq_js", "go_tsfnz_eq_js", "go_qsfnz_eq_js", "go_sign_eq_js", "go_adjust_lon_eq_js",
        "go_adjust_lat_eq_js", "go_asinz_eq_js", "go_phi2z_eq_js", "go_imlfn_eq_js", "go_consts_eq_js",
        # (A) projection level, Go closures = proj4js methods
        "go_merc_fwd_eq_js", "go_aea_fwd_eq_js", "go_eqdc_fwd_eq_js", "go_tmerc_fwd_eq_js",
        "go_lcc_fwd_eq_js", "go_krovak_fwd_eq_js",
        "go_merc_inv_eq_js", "go_lcc_inv_eq_js", "go_aea_inv_eq_js", "go_eqdc_inv_eq_js", "go_tmerc_inv_eq_js",
        "go_krovak_inv_eq_js", "go_aeaPhi1z_eq_js",
        # (A) datum.go / datum_transform.go = datum.js / datum_transform.js
        "go_geodetic_to_geocentric_eq_js", "go_geocentric_to_geodetic_eq_js", "go_geocentric_to_wgs84_eq_js",
        "go_geocentric_from_wgs84_eq_js", "go_compare_datums_eq_js", "go_checkDatumParams_eq_js", "go_datum_eq_js", "go_datum_eq_js_any",
        # (A) transform.go closure = transform.js, given stage-wise equality
        "go_pipeline_core_eq_js", "twoHop_same", "go_pipeline_eq_js", "stage_of", "js_forward_keeps_z", "js_inverse_keeps_z",
        # (A) constructors: constants computed by the Go constructor = those of the proj4js init
        # (Go side = the REGENERATED constructor bodies Gen.Go.<Ctor>_init)
        "go_init_tmerc_eq_js", "go_tmerc_fwd_eq_js'", "go_tmerc_inv_eq_js'", "go_init_utm_eq_js", "go_utm_fwd_eq_js'", "go_utm_inv_eq_js'",
        "go_merc_init_val", "js_merc_init_val", "go_init_merc_eq_js", "go_merc_fwd_eq_js'", "go_merc_inv_eq_js'",
        "krovak_init_agree", "go_init_krovak_eq_js", "go_krovak_fwd_eq_js'", "go_krovak_inv_eq_js'",
        "aea_init_agree", "go_init_aea_eq_js", "go_aea_fwd_eq_js'", "go_aea_inv_eq_js'",
        "lcc_init_agree", "go_init_lcc_eq_js", "go_lcc_fwd_eq_js'", "go_lcc_inv_eq_js'",
        "eqdc_init_agree", "go_init_eqdc_eq_js", "go_eqdc_fwd_eq_js'", "go_eqdc_inv_eq_js'",
        # known finding: lcc at the pole, proved on the regenerated closure
        "lcc_pole_is_moved",
        # (B) Snyder's closed forms
        "snyder_mdist_eq", "snyder_m_eq", "snyder_t_eq", "snyder_q_eq",
        "snyder_merc_eq", "snyder_lcc_eq", "snyder_aea_eq", "snyder_eqdc_eq",
        # the known finding, proved on the model
        "tmerc_sphere_ignores_false_origin",
        # projString.go / deriveConstants.go: pinned source text of the hand-modelled parts; the REGENERATED
        # arithmetic of DeriveConstants (Gen.Go.DeriveConstants_core1, statement by statement) = deriveConstants.js
        "projString_keys_pinned", "projString_special_pinned", "projString_frame_pinned", "DeriveConstants_shape_pinned",
        "go_deriveCore_eq_js_S", "go_deriveCore_eq_js",
        # every case of projString's switch (numeric/string/flag cases from the REGENERATED tables) = projString.js
        "go_projString_num_eq_js", "go_projString_str_eq_js", "go_projString_flag_eq_js", "go_projString_units_eq_js",
        "go_projString_nadgrids_eq_js", "go_projString_axis_eq_js", "go_projString_towgs84_eq_js", "go_projString_pm_eq_js",
        "go_projString_unknown", "paramSame_new",
        # projString over a WHOLE definition string (the fold over the parameter list; proj4js' paramObj de-duplicates keys)
        "step_same", "fold_same", "dedupKV_nodup", "js_paramObj_eq", "go_projString_unfold", "js_projString_unfold", "finish_same",
        "go_projString_eq_js_dedup", "go_projString_eq_js", "repeated_key_differs",
        # getDatum = datum.js (DatumSame); the two table lookups of DeriveConstants = deriveConstants.js
        "go_getDatum_eq_js", "ell_nz", "dec_toNum_ne_zero", "go_deriveTables_eq_js",
        # ... composed: DeriveConstants as a whole, and Parse(def) = new Proj(def) up to init for one definition string
        "goFold_keeps", "js_fold_keeps", "deriveTables_keepsG", "deriveTables_keepsJ", "go_deriveTail_eq_js",
        "go_deriveConstants_eq_js", "fresh_of_projString", "go_parse_eq_js", "same_of_parse", "go_merc_fwd_parsed_eq_js",
        # normalised source text of the functions whose model is still hand-written (any edit = broken tie)
        "getDatum_pinned", "geocentric_to_geodetic_pinned", "datumTransform_pinned", "checkNotWGS_pinned", "NewTransform_pinned",
        "transform3_pinned", "TMerc_inverse_pinned", "Krovak_inverse_pinned",
    ]],
    "trusted_base": [
        "Lean 4.33.0 kernel; axioms of every theorem printed by #print axioms must be within {propext, Classical.choice, Quot.sound}",
        "T1 extractor harness/cmd/c09/extract (go/ast + go/types constant folding; regex over the proj4js object literals): "
        "regenerates Gen/GoCommon.lean, Gen/GoProj.lean (closures of merc/lcc/aea/eqdc/tmerc/krovak, the constructor bodies of Merc/LCC/AEA/EqdC/TMerc/UTM/Krovak, aeaPhi1z, datum.go methods incl. compare_datums, checkDatumParams of datum_transform.go) and Gen/Tables.lean from the current sources on every run; Gen/GoParse.lean: the simple cases of projString's switch as key -> field tables, the arithmetic statements of DeriveConstants one definition each, the remaining statements as normalised source text (go/printer) pinned by ProofsParse.*_pinned",
        "hand models Model.lean (Go port) and Js.lean (proj4js) are tied by the correspondence run: Go vs Model to 1e-6 m, "
        "Go vs Js to 0.1 mm, Go vs Spec.Ref to 5 mm on every generated case; Js.lean is additionally cross-checked against the "
        "vendored JavaScript run by node when node is present",
        "IEEE-754 rounding and Go math vs C libm are modelled, not verified: theorems are over the reals, "
        "the 0.1 mm / 5 mm clauses about compiled float code are numeric evidence",
        "harness/cmd/c09 + lean driver + lib/vcheck.py transport inputs faithfully (parameters as decimal text, coordinates as bit patterns)",
    ],
    "assumptions": [
        "definitions are PROJ.4 strings with plain decimal numbers (WKT and registered names belong to C20); axis is enu (C10)",
        "datum-less definitions are compared only within one ellipsoid (as the property scopes it); +towgs84 of all zeros is not generated",
        "positions in the usable region: transverse Mercator within 3.5 degrees of the central meridian, cones on the side of their parallels",
    ],
    "rule": "chains longlat -> P1 -> P2 -> longlat over {merc,lcc,aea,eqdc,tmerc,utm,krovak,longlat} with drawn parameters "
            "(every built-in ellipsoid, a/b, a/rf, spheres; named datums, 3- and 7-term towgs84, none; named and numeric prime "
            "meridians; m/ft/us-ft/to_meter; false origins; k_0), one point per chain, every hop on freshly parsed SRs; "
            "plus proj.Parse field cases over every table key. distinct = distinct input line; non-trivial = every class",
    "explanation_base": "level partial: tables and formula identities are proofs for all inputs; agreement of compiled float code to 0.1 mm / 5 mm is measured on every run",
    "timeout": {"quick": 600, "thorough": 3000},
}
