T = "GeomV.C14."

# ---- pin of the external clipper: the model's transcription of clipper.compute's two trivial-case
# tests (lean/GeomV/C01/Model.lean `construct`) is valid for exactly this source.
import hashlib, os, re, subprocess
POLYCLIP = "github.com/ctessum/polyclip-go"
POLYCLIP_VERSION = "v1.1.0"
POLYCLIP_H1 = "h1:TGMfwMynNykXwCZCxI+CHdjo/ZE9JThup/gmrgigGEE="
POLYCLIP_FILES = {
    "clipper.go": "58a5302a1b9ed2682a48c4974c2467e31691f7bc4d12f0e0d09d7834f4ec4248",
    "geom.go": "8c6b749c2ccc251e30ebb40baab5d866343500beecf65f0255ba4f8cf869bcad",
    "connector.go": "a2d4a6c0e589b894db141c804ea2ef449a413b9e6c2f05f44a837f4f51f7c77a",
}


def pin_polyclip(check):
    import vcheck
    repo = vcheck.REPO
    try:
        mod = open(os.path.join(repo, "go.mod")).read()
        m = re.search(r"^\s*(?:require\s+)?%s\s+(\S+)" % re.escape(POLYCLIP), mod, flags=re.M)
        if not m or m.group(1) != POLYCLIP_VERSION:
            check.broken.append("go.mod requires %s %s; the trivial-case tables of the model were transcribed from %s"
                                % (POLYCLIP, m.group(1) if m else "?", POLYCLIP_VERSION))
            return
        rep = re.search(r"^\s*replace\s+%s\b.*$" % re.escape(POLYCLIP), mod, flags=re.M)
        if rep:
            check.broken.append("go.mod replaces the clipper: " + rep.group(0).strip())
            return
        gs = open(os.path.join(repo, "go.sum")).read()
        if ("%s %s %s" % (POLYCLIP, POLYCLIP_VERSION, POLYCLIP_H1)) not in gs:
            check.broken.append("go.sum hash of %s %s differs from the pinned %s" % (POLYCLIP, POLYCLIP_VERSION, POLYCLIP_H1))
            return
        cache = subprocess.run(["go", "env", "GOMODCACHE"], env=vcheck.GOENV, stdout=subprocess.PIPE, text=True).stdout.strip()
        d = os.path.join(cache, POLYCLIP + "@" + POLYCLIP_VERSION)
        for fn, want in POLYCLIP_FILES.items():
            got = hashlib.sha256(open(os.path.join(d, fn), "rb").read()).hexdigest()
            if got != want:
                check.broken.append("module cache %s/%s differs from the transcribed source (sha256 %s)" % (d, fn, got[:16]))
    except Exception as e:  # unreadable go.mod etc.: the tie cannot be established
        check.broken.append("cannot establish the polyclip pin: %r" % e)

TIE_MODULE = T + "Ties"
TIE_THEOREMS = ["C14_tie_toPolyClip", "C14_tie_polyClipToPolygon", "C14_tie_clipperOp", "C14_tie_Polygons", "C14_tie_op",
                "C14_tie_maxAbs", "C14_tie_scalePath", "C14_tie_clipLine_body", "C14_tie_clipLine",
                "C14_tie_LineString_Clip", "C14_tie_MultiLineString_Clip", "C14_src_clip"]
# Scale.lean: the fixed clipLine (small operands scaled up by a power of two) = the unchanged glue around the
# sweep conjugated by the scaling; Flip.lean: closureOK follows from validity + general position
SCALE_THEOREMS = ["clipLineM_eq", "trivialCase_scale", "bbox_scale", "scaleOf_pos", "polyClipToPolygon_scale"]
FLIP_THEOREMS = ["closureOK_of_valid", "cross_lemma", "inside_flip", "uniqueHit_of_valid", "C14_pointset_of_segs'", "C14_exact_of_segs'"]


# Float.lean: the power-of-two scaling of clipLine on an IEEE-754 binary64 model; Frexp/Ldexp of GenLib proved against their specification
FLOAT_THEOREMS = ["frexpExp_spec", "frexpExp_unique", "ldexp_eq_zpow", "factor_spec", "isF64_mul_up", "isF64_mul_down", "maxAbsC_ge",
                  "C14_scale_up_exact", "C14_float_scale_up", "C14_scale_back_exact", "C14_scale_roundtrip"]

# Beyond.lean: what holds outside the quantifier (non-simple lines, invalid polygons) and what does not
BEYOND_THEOREMS = ["C14_pointset_beyond", "C14_pointset_nonsimple", "noZeroSegs_of_simple", "nonsimple_length_counts_twice",
                   "invalid_closure_fails", "invalid_pointset_fails", "closed_line_lost"]

# Chains.lean: the oracle's chains (what the judge compares with) consist of exactly the oracle's segments (what the theorems speak about)
CHAIN_THEOREMS = ["oracleChains_segs", "pathChains_segs", "segIvs_starts", "segIvs_tail_pos"]

SRC_MODULE = T + "Src"
SRC_THEOREMS = ["C14_src", "C14_vertices_of_contract", "C14_empty_iff_of_contract"]


def regen_glue(check):
    """T1: regenerate lean/GeomV/C14/Gen.lean from linestring.go / multilinestring.go / polygon.go (+ the two other
    Polygons() methods) of the tree under test (written only when it changed).  If a function left the translatable
    subset, or the regenerated definitions no longer denote the model's functions (Ties.lean does not build), the tie
    is reported broken and the Ties module is left out so that the other obligations are still audited."""
    import vcheck
    cfg = check.cfg

    def drop(why):
        cfg["lean_modules"] = [m for m in cfg["lean_modules"] if m not in (TIE_MODULE, SRC_MODULE)]
        check.broken.append(why)
    ok, gobin, out = vcheck.go_build("c14", check.rundir)
    if not ok:
        return  # reported by the harness build of the main flow
    p = subprocess.run([gobin, "extract", "--repo", vcheck.REPO], stdout=subprocess.PIPE, stderr=subprocess.PIPE, text=True)
    if p.returncode not in (0, 3) or not p.stdout.startswith("import"):
        drop("T1 tie: extractor failed: " + p.stderr.strip()[-300:])
        return
    gen = os.path.join(vcheck.LEAN, "GeomV", "C14", "Gen.lean")
    old = open(gen).read() if os.path.exists(gen) else ""
    if old != p.stdout:
        with open(gen + ".tmp%d" % os.getpid(), "w") as f:
            f.write(p.stdout)
        os.replace(gen + ".tmp%d" % os.getpid(), gen)
    if p.returncode == 3:
        drop("T1 tie: " + p.stderr.strip()[-600:])
        return
    with vcheck.Lock("lake"):
        b = subprocess.run(["lake", "build", TIE_MODULE], cwd=vcheck.LEAN, stdout=subprocess.PIPE, stderr=subprocess.STDOUT, text=True)
    if b.returncode != 0:
        errs = re.findall(r"error: .*", b.stdout)[:3]
        drop("T1 tie broken: the Clip glue regenerated from the Go source no longer denotes the model (GeomV.C14.Ties does not build): "
             + " | ".join(errs))


def pregen(check):
    pin_polyclip(check)
    regen_glue(check)


CFG = {
    "id": "C14",
    "lean_modules": ["GeomV.C14.Proofs", "GeomV.C14.Complete", "GeomV.C14.Length", "GeomV.C14.Unify", "GeomV.C14.Flip", "GeomV.C14.Scale", "GeomV.C14.Float", "GeomV.C14.Beyond", "GeomV.C14.Chains", "GeomV.C14.Known", "GeomV.C14.Src", TIE_MODULE],
    "lean_dirs": ["C14", "C01"],
    "exe": "geomv_c14",
    "go_cmd": "c14",
    "stages": ["go:gen", "go:impl", "lean:judge"],
    "theorems": [T + n for n in ["C14_glue", "C14_trivial", "C14_exact", "C14_vertices", "C14_empty_iff", "oracle_midpoints_inside", "oracle_endpoints_on_L", "oracle_subintervals_cover", "oracle_complete", "oracle_complete_col", "boundary_param_mem", "oracle_intervals_disjoint", "collinear_free", "C14_length", "C14_together_defect", "C14_pointset_of_segs", "C14_exact_of_segs", "closed_iff_covered", "covered_mergeAdj", "onSeg_sub_iff", "C14_known_small_scale", "known_small_scale_facts"] + SCALE_THEOREMS + FLOAT_THEOREMS + BEYOND_THEOREMS + CHAIN_THEOREMS + FLIP_THEOREMS + TIE_THEOREMS + SRC_THEOREMS],
    "level": "proof",
    "trusted_base": [
        "Lean 4.33.0 kernel; axioms of every theorem printed by #print axioms must be within {propext, Classical.choice, Quot.sound}",
        "the CLIPLINE sweep of github.com/ctessum/polyclip-go v1.1.0 (everything in clipper.compute after its two trivial-case tests, and the connector) is a PARAMETER of the model with ONE explicit contract hypothesis, ClipLineSegsSpec (the segments of the returned pieces are, up to direction and order, the oracle's maximal inside parts): the headline (C14_exact_of_segs) and the length clause (C14_length) both rest on it; it is exercised and compared with the exact Rat oracle on every generated case, not proved. (C14_exact / C14_vertices / C14_empty_iff are also stated under the point-set form ClipLineSpec.)",
        "T1: harness/cmd/c14/extract.go (go/ast, ~700 lines, translation table in its header) regenerates lean/GeomV/C14/Gen.lean from linestring.go / multilinestring.go / polygon.go (+ the Polygons() methods of multipolygon.go, bounds.go) of the tree under test on every run, in a faulting monad (index, slice, make are partial: GenLib.lean); Ties.lean proves that LineString.Clip, MultiLineString.Clip, clipLine, maxAbs, scalePath, Polygon.op, clipperOp, toPolyClip, polyClipToPolygon, Polygons as regenerated return WITHOUT FAULT exactly the model's clip (scaledCore core) / polyOp / clipperOp / polyClipToPolygon / polygonsOf. float64 is translated to the exact rational value (finite values only); math.Max / math.Abs / math.Ldexp / the exponent of math.Frexp are the hand-written GenLib.fmax / fabs / ldexp / frexpExp (hand-written, but proved against their documented contracts: frexpExp_spec / frexpExp_unique - 2^(e-1) <= m < 2^e determines e -, ldexp_eq_zpow; the glue theorems use only that Ldexp(1, k) is positive). Not modelled by the translation: slice capacity (taken = length) and aliasing (observed by the harness: operands compared with a snapshot after every call, histories on one object, concurrent callers; after every plain call a point is appended to every returned piece and all operands are overwritten, and the result must not change: answer `aliased` -> DIFF)",
        "/repo fix (clipLine): operands whose largest absolute coordinate m satisfies 2^-1022 <= m < 1/2 (a normal number below 1/2; the bound was 2^-1000 before fix 67bac92) are multiplied by 2^-e (m = f*2^e) before Polygon.op(.., CLIPLINE) and the pieces by the inverse. Scale.lean proves (clipLineM_eq) that this is the unchanged glue around the sweep conjugated by the scaling (scaledCore core): the two trivial-case tests of the clipper's head are invariant under a positive factor (trivialCase_scale), re-closing commutes with the scaling. The contract on the sweep is therefore a contract on the conjugated sweep - which is what the run compares per case. The model multiplies rationals; Float.lean proves on an IEEE-754 binary64 model (IsF64; any rounding that is the identity on representable values) that for representable operands the float products of the way in equal them (C14_scale_up_exact, C14_float_scale_up: every product is representable and below 1; factor_spec: the factor is 2^k, 1 <= k <= 1021) and those of the way back whenever the product is zero or in the normal range (C14_scale_back_exact; a crossing point whose scaled-back value is subnormal is rounded to the subnormal grid). Figures all of whose coordinates are subnormal are NOT scaled and are clipped wrongly (known, not generated)",
        "the head of polyclip's clipper.compute (construct: the two trivial-case tests), BoundingBox and Overlaps are transcribed by hand in lean/GeomV/C01/Model.lean and pinned by version + go.sum hash + sha256 of clipper.go/geom.go/connector.go (pin_polyclip); tied by the correspondence run",
        "IEEE-754 rounding: crossing points are floats, compared with the oracle's exact rational crossing points to 1e-9 of the extent; lengths are summed in binary64 and compared to 1e-9 relative; inputs are exact (the oracle works on the rational values of the float inputs)",
        "harness/cmd/c14 (+ harness/cmd/c01/shapes) + lean driver + lib/vcheck.py transport inputs faithfully",
    ],
    "assumptions": ["finite coordinates; membership in P is the even-odd rule over all rings of all member polygons; the oracle is proved sound and complete (oracle_complete: off the finitely many crossing parameters a point of a segment is inside P iff its parameter lies in an oracle interval); the length clause is proved under the segment form of the contract (ClipLineSegsSpec)",
                    "closureOK (every crossing parameter of a line segment whose point lies on the boundary of P is covered by an inside interval) is no longer an assumption: closureOK_of_valid (Flip.lean) proves it from validC + gpLine ('a proper crossing flips the even-odd status': cross_lemma, inside_flip; the crossed edge is unique: uniqueHit_of_valid); C14_exact_of_segs' / C14_pointset_of_segs' / C14_src have no closure hypothesis. The judge still evaluates it on every in-quantifier case (DIFF if false - it would contradict the theorem)",
                    "Beyond.lean states what holds outside the quantifier: the point-set characterisation by the oracle needs only distinct consecutive vertices and general position (plus the decidable closureOK for invalid polygons): C14_pointset_beyond / C14_pointset_nonsimple; simplicity is needed for the length clause, validity for closureOK, and the code returns nothing for a closed line inside P (closed_line_lost). OUT OF SCOPE (stated, not checked against the Spec): non-simple lines (self-crossing, repeated vertices, closed lines, members whose interiors meet), invalid polygons, lines not in general position (a line vertex on the boundary, a polygon vertex on the line, collinear overlap). Such cases get the class suffix -outside-quantifier; for them only the theorems that hold for ALL inputs apply and are compared: no panic and the glue (C14_tie_*, C14_glue), no piece in the trivial cases (C14_trivial)"],
    "rule": "simple open integer-grid polylines (random walks, zigzags with many crossings, walks entirely inside, entirely outside within the box, box-disjoint, straight through) and multi-line strings of 1-4 members that are pairwise disjoint or form a network (two routes between the same junctions with equal / different vertex counts and either direction, branches at a common end point; interiors never cross) "
            "against polygons with holes / multi-polygons / boxes at half-integer offsets (no line vertex on the boundary, no polygon vertex on the line: rejected by exact int64 tests); "
            "40% of the cases at coordinate scales 2^-20/2^-24/2^-30/2^-40/2^-60/2^-400/2^+20 (dyadic: exact), the ordinary families placed in ONE quadrant (all coordinates <= 0; x <= 0 <= y; y <= 0 <= x; all >= 0; extreme coordinate exactly 0 or not) at scales 2^-24..2^-1018 and a corpus at 2^-1003..2^-1024, lines whose vertices lie inside the bounding box of a hole that is not a rectangle (diamond, triangle, L) or on an island inside a hole, a tiny figure with one more member line of ordinary size far away, histories that change the coordinate scale between calls, multi-call histories on one line with operands overwritten in place, operands over one flat backing array and compared with a snapshot after each call, size-threshold cases (vertex/ring/member counts beyond 64/128/1024; lines of 1024..3000 vertices; multi-line strings of 63..257 (thorough: ..2049) members, each with an inside part of a different length); "
            "closed CYCLES of 3..6 member lines through shared junctions inside P (hole of P inside the block, a street leaving P from a junction, a chord, a free member; member order and directions shuffled); "
            "multi-polygons with empty / nil member polygons first, in the middle and last; non-rectangular 3- and 4-vertex polygons (diamond, dart, trapezoid, triangle) with lines strictly inside their bounding box; "
            "a non-dyadic affine family (scales 0.1, 1/3, 0.7, 1.1e-3, 37.3 and offsets 1000.37, -512.9: full 53-bit mantissas); "
            "cc lines: concurrent callers (answer computed alone, then 6 goroutines x 30 rounds on private deep copies while 6 others clip large unrelated inputs; first answer not bit-identical to the reference is judged, class prefix conc-); distinct = distinct input line; non-trivial = verdict class not '-outside-quantifier' (degenerate corpus receivers, compared with the model only)",
    "trivial_class": r"outside-quantifier$",
    "pregen": pregen,
    "timeout": {"quick": 600, "thorough": 3000},
    "explanation": "partial: the glue is regenerated from the Go source and proved equal to the model without fault (T1), the trivial cases are proved for all inputs, the oracle is proved sound and complete, and headline + length clause follow from ONE contract on the sweep (ClipLineSegsSpec); the CLIPLINE sweep itself is exercised (compared with the oracle per case), not proved",
}
