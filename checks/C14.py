T = "GeomV.C14."

# ---- pin of the external clipper: the model's transcription of clipper.compute's two trivial-case
# tests (lean/GeomV/C01/Model.lean `construct`) is valid for exactly this source.
import hashlib, os, re, subprocess
POLYCLIP = "github.com/ctessum/polyclip-go"
POLYCLIP_VERSION = "v1.1.0"
POLYCLIP_H1 = "h1:TGMfwMynNykXwCZCxI+CHdjo/ZE9JThup/gmrgigGEE="
POLYCLIP_FILES = {
    "clipper.go": "58a5302a1b9ed2682a48c4974c2467e31691f7bc4d12f0e0d09d7834f4ec4248",
    "geom.go": "8c6b749c2ccc251e30ebb40baab5d866343500beecf65f0255ba4f8cf869bcad",
    "connector.go": "a2d4a6c0e589b894db141c804ea2ef449a413b9e6c2f05f44a837f4f51f7c77a",
}


def pin_polyclip(check):
    import vcheck
    repo = vcheck.REPO
    try:
        mod = open(os.path.join(repo, "go.mod")).read()
        m = re.search(r"^\s*(?:require\s+)?%s\s+(\S+)" % re.escape(POLYCLIP), mod, flags=re.M)
        if not m or m.group(1) != POLYCLIP_VERSION:
            check.broken.append("go.mod requires %s %s; the trivial-case tables of the model were transcribed from %s"
                                % (POLYCLIP, m.group(1) if m else "?", POLYCLIP_VERSION))
            return
        rep = re.search(r"^\s*replace\s+%s\b.*$" % re.escape(POLYCLIP), mod, flags=re.M)
        if rep:
            check.broken.append("go.mod replaces the clipper: " + rep.group(0).strip())
            return
        gs = open(os.path.join(repo, "go.sum")).read()
        if ("%s %s %s" % (POLYCLIP, POLYCLIP_VERSION, POLYCLIP_H1)) not in gs:
            check.broken.append("go.sum hash of %s %s differs from the pinned %s" % (POLYCLIP, POLYCLIP_VERSION, POLYCLIP_H1))
            return
        cache = subprocess.run(["go", "env", "GOMODCACHE"], env=vcheck.GOENV, stdout=subprocess.PIPE, text=True).stdout.strip()
        d = os.path.join(cache, POLYCLIP + "@" + POLYCLIP_VERSION)
        for fn, want in POLYCLIP_FILES.items():
            got = hashlib.sha256(open(os.path.join(d, fn), "rb").read()).hexdigest()
            if got != want:
                check.broken.append("module cache %s/%s differs from the transcribed source (sha256 %s)" % (d, fn, got[:16]))
    except Exception as e:  # unreadable go.mod etc.: the tie cannot be established
        check.broken.append("cannot establish the polyclip pin: %r" % e)

TIE_MODULE = T + "Ties"
TIE_THEOREMS = ["C14_tie_toPolyClip", "C14_tie_polyClipToPolygon", "C14_tie_clipperOp", "C14_tie_Polygons", "C14_tie_op",
                "C14_tie_LineString_Clip", "C14_tie_MultiLineString_Clip", "C14_src_clip"]


def regen_glue(check):
    """T1: regenerate lean/GeomV/C14/Gen.lean from linestring.go / multilinestring.go / polygon.go (+ the two other
    Polygons() methods) of the tree under test (written only when it changed).  If a function left the translatable
    subset, or the regenerated definitions no longer denote the model's functions (Ties.lean does not build), the tie
    is reported broken and the Ties module is left out so that the other obligations are still audited."""
    import vcheck
    cfg = check.cfg

    def drop(why):
        cfg["lean_modules"] = [m for m in cfg["lean_modules"] if m != TIE_MODULE]
        check.broken.append(why)
    ok, gobin, out = vcheck.go_build("c14", check.rundir)
    if not ok:
        return  # reported by the harness build of the main flow
    p = subprocess.run([gobin, "extract", "--repo", vcheck.REPO], stdout=subprocess.PIPE, stderr=subprocess.PIPE, text=True)
    if p.returncode not in (0, 3) or not p.stdout.startswith("import"):
        drop("T1 tie: extractor failed: " + p.stderr.strip()[-300:])
        return
    gen = os.path.join(vcheck.LEAN, "GeomV", "C14", "Gen.lean")
    old = open(gen).read() if os.path.exists(gen) else ""
    if old != p.stdout:
        with open(gen + ".tmp%d" % os.getpid(), "w") as f:
            f.write(p.stdout)
        os.replace(gen + ".tmp%d" % os.getpid(), gen)
    if p.returncode == 3:
        drop("T1 tie: " + p.stderr.strip()[-600:])
        return
    with vcheck.Lock("lake"):
        b = subprocess.run(["lake", "build", TIE_MODULE], cwd=vcheck.LEAN, stdout=subprocess.PIPE, stderr=subprocess.STDOUT, text=True)
    if b.returncode != 0:
        errs = re.findall(r"error: .*", b.stdout)[:3]
        drop("T1 tie broken: the Clip glue regenerated from the Go source no longer denotes the model (GeomV.C14.Ties does not build): "
             + " | ".join(errs))


def pregen(check):
    pin_polyclip(check)
    regen_glue(check)


CFG = {
    "id": "C14",
    "lean_modules": ["GeomV.C14.Proofs", "GeomV.C14.Complete", "GeomV.C14.Length", "GeomV.C14.Unify", TIE_MODULE],
    "lean_dirs": ["C14", "C01"],
    "exe": "geomv_c14",
    "go_cmd": "c14",
    "stages": ["go:gen", "go:impl", "lean:judge"],
    "theorems": [T + n for n in ["C14_glue", "C14_trivial", "C14_exact", "C14_vertices", "C14_empty_iff", "oracle_midpoints_inside", "oracle_endpoints_on_L", "oracle_subintervals_cover", "oracle_complete", "oracle_complete_col", "boundary_param_mem", "oracle_intervals_disjoint", "collinear_free", "C14_length", "C14_together_defect", "C14_pointset_of_segs", "C14_exact_of_segs", "closed_iff_covered", "covered_mergeAdj", "onSeg_sub_iff"] + TIE_THEOREMS],
    "level": "proof",
    "trusted_base": [
        "Lean 4.33.0 kernel; axioms of every theorem printed by #print axioms must be within {propext, Classical.choice, Quot.sound}",
        "the CLIPLINE sweep of github.com/ctessum/polyclip-go v1.1.0 (everything in clipper.compute after its two trivial-case tests, and the connector) is a PARAMETER of the model with the explicit contract hypothesis ClipLineSpec; it is exercised and compared with the exact Rat oracle (maximal inside chains) on every generated case, not proved",
        "model lean/GeomV/C01/Model.lean (clip, polyOp, construct) is tied to /repo/{linestring,multilinestring,polygon}.go and polyclip-go@v1.1.0/clipper.go by the correspondence run on every check",
        "IEEE-754 rounding: line vertices are integers and polygon vertices half-integers (exact); crossing points are floats, compared with the oracle's exact rational crossing points to 1e-9 of the extent; lengths are summed in binary64",
        "harness/cmd/c14 (+ harness/cmd/c01/shapes) + lean driver + lib/vcheck.py transport inputs faithfully",
    ],
    "assumptions": ["finite coordinates; membership in P is the even-odd rule over all rings of all member polygons; the oracle is proved sound and complete (oracle_complete: off the finitely many crossing parameters a point of a segment is inside P iff its parameter lies in an oracle interval); the length clause is proved under the segment form of the contract (ClipLineSegsSpec)"],
    "rule": "simple open integer-grid polylines (random walks, zigzags with many crossings, walks entirely inside, entirely outside within the box, box-disjoint, straight through) and multi-line strings of 1-4 members that are pairwise disjoint or form a network (two routes between the same junctions with equal / different vertex counts and either direction, branches at a common end point; interiors never cross) "
            "against polygons with holes / multi-polygons / boxes at half-integer offsets (no line vertex on the boundary, no polygon vertex on the line: rejected by exact int64 tests); "
            "40% of the cases at coordinate scales 2^-20/2^-24/2^-30/2^+20 (dyadic: exact), multi-call histories on one line with operands overwritten in place, operands over one flat backing array and compared with a snapshot after each call, size-threshold cases (vertex/ring/member counts beyond 64/128/1024; lines of 1024..3000 vertices); distinct = distinct input line; non-trivial = verdict class not '-outside-quantifier' (degenerate corpus receivers, compared with the model only)",
    "trivial_class": r"outside-quantifier$",
    "pregen": pregen,
    "timeout": {"quick": 600, "thorough": 3000},
    "explanation": "partial: the glue and the trivial cases are proved for all inputs and the oracle is proved sound; the CLIPLINE sweep is exercised (compared with the oracle per case), not proved",
}
