T = "GeomV.C14."
CFG = {
    "id": "C14",
    "lean_modules": ["GeomV.C14.Proofs"],
    "lean_dirs": ["C14", "C01"],
    "exe": "geomv_c14",
    "go_cmd": "c14",
    "stages": ["go:gen", "go:impl", "lean:judge"],
    "theorems": [T + n for n in ["C14_glue", "C14_trivial", "C14_empty_iff", "oracle_midpoints_inside", "oracle_endpoints_on_L"]],
    "level": "proof",
    "trusted_base": [
        "Lean 4.33.0 kernel; axioms of every theorem printed by #print axioms must be within {propext, Classical.choice, Quot.sound}",
        "the CLIPLINE sweep of github.com/ctessum/polyclip-go v1.1.0 (everything in clipper.compute after its two trivial-case tests, and the connector) is a PARAMETER of the model with the explicit contract hypothesis ClipLineSpec; it is exercised and compared with the exact Rat oracle (maximal inside chains) on every generated case, not proved",
        "model lean/GeomV/C01/Model.lean (clip, polyOp, construct) is tied to /repo/{linestring,multilinestring,polygon}.go and polyclip-go@v1.1.0/clipper.go by the correspondence run on every check",
        "IEEE-754 rounding: line vertices are integers and polygon vertices half-integers (exact); crossing points are floats, compared with the oracle's exact rational crossing points to 1e-9 of the extent; lengths are summed in binary64",
        "harness/cmd/c14 (+ harness/cmd/c01/shapes) + lean driver + lib/vcheck.py transport inputs faithfully",
    ],
    "assumptions": ["finite coordinates; membership in P is the even-odd rule over all rings of all member polygons; the oracle is proved sound (its intervals lie on L with midpoints inside P) but not complete"],
    "rule": "simple open integer-grid polylines (random walks, zigzags with many crossings, walks entirely inside, entirely outside within the box, box-disjoint, straight through) and multi-line strings of 1-4 pairwise disjoint members "
            "against polygons with holes / multi-polygons / boxes at half-integer offsets (no line vertex on the boundary, no polygon vertex on the line: rejected by exact int64 tests); "
            "distinct = distinct input line; non-trivial = verdict class not '-outside-quantifier' (degenerate corpus receivers, compared with the model only)",
    "trivial_class": r"outside-quantifier$",
    "timeout": {"quick": 600, "thorough": 3000},
    "explanation": "partial: the glue and the trivial cases are proved for all inputs and the oracle is proved sound; the CLIPLINE sweep is exercised (compared with the oracle per case), not proved",
}
