import os, re, subprocess
import vcheck

T = "GeomV.C19."
GONUM_SUM = "gonum.org/v1/gonum v0.9.3 h1:DnoIG+QAMaF5NvxnGe/oKsgKcAc6PcUyl8q0VetfQ8s="


def pregen(check):
    """ties that are not behavioural: (1) the model transliterates gonum v0.9.3's AStar, so a different gonum
    (go.sum hash in the tree under test or in the harness module) is a broken tie; (2) the value ShortestRoute
    hands to AStar must satisfy path.Weighted at compile time (harness/cmd/c19/weighted)."""
    for p in (os.path.join(vcheck.REPO, "go.sum"), os.path.join(vcheck.HARNESS, "go.sum")):
        if GONUM_SUM not in open(p).read():
            check.broken.append("gonum is not the pinned v0.9.3 (hash differs) in " + p)
    gm = open(os.path.join(vcheck.REPO, "go.mod")).read()
    if not re.search(r"gonum\.org/v1/gonum v0\.9\.3\b", gm):
        check.broken.append("go.mod of the tree under test does not require gonum v0.9.3")
    # (3) the harness's copy of gonum's aStarQueue (driven by the real container/heap to tie the Lean heap model) is
    # textually the module's: compare with the source in the module cache
    try:
        with vcheck.Lock("go"):
            d = subprocess.run(["go", "list", "-m", "-f", "{{.Dir}}", "gonum.org/v1/gonum"], cwd=vcheck.HARNESS, env=vcheck.GOENV,
                               stdout=subprocess.PIPE, stderr=subprocess.STDOUT, text=True).stdout.strip().splitlines()[-1]
        src = open(os.path.join(d, "graph", "path", "a_star.go")).read()
        src = src[src.index("// aStarNode adds A* accounting"):].strip()
        cp = open(os.path.join(vcheck.HARNESS, "cmd", "c19", "heapq.go")).read()
        cp = cp[cp.index("// BEGIN verbatim copy"):cp.index("// END verbatim copy")]
        cp = cp[cp.index("// aStarNode adds A* accounting"):].strip()
        if src != cp:
            check.broken.append("harness/cmd/c19/heapq.go: the copy of aStarQueue differs from gonum's graph/path/a_star.go")
        if "heap.Push(open, aStarNode{node: v, gscore: g, fscore: g + h(v, t)})" not in open(os.path.join(d, "graph", "path", "a_star.go")).read():
            check.broken.append("gonum's AStar loop is not the transliterated one")
    except Exception as e:
        check.broken.append("cannot compare the aStarQueue copy with gonum's source: %r" % (e,))
    args = ["go", "build", "-tags", "verif", "-o", os.devnull]
    if vcheck.REPO != "/repo":
        mod = open(os.path.join(vcheck.HARNESS, "go.mod")).read().replace("=> /repo", "=> " + vcheck.REPO)
        mf = os.path.join(check.rundir, "altw.mod")
        open(mf, "w").write(mod)
        import shutil
        shutil.copy(os.path.join(vcheck.HARNESS, "go.sum"), os.path.join(check.rundir, "altw.sum"))
        args += ["-modfile", mf]
    args.append("./cmd/c19/weighted")
    with vcheck.Lock("go"):
        p = subprocess.run(args, cwd=vcheck.HARNESS, env=vcheck.GOENV, stdout=subprocess.PIPE, stderr=subprocess.STDOUT, text=True)
    if p.returncode != 0:
        check.broken.append("compile-time assertion `var _ path.Weighted = route.Network{}` fails: "
                            + (p.stdout.strip().splitlines() or ["?"])[-1][:300])


TIE_MODULE = T + "Ties"
TIEQ_MODULE = T + "TiesQ"   # query-side ties (Node, Edge, From); theorems live in namespace GeomV.C19.Ties
TIEQ_THEOREMS = ["tie_Node", "tie_Edge", "forMapAux_setIdx", "tie_From", "tie_From_mem"]
TIER_MODULE = T + "TiesR"   # phase 4: the body of ShortestRoute (adapter from the regenerated From/Weight/costHeuristic, totals loop) = Model.shortestRoute
TIER_THEOREMS = ["ordOf_mem", "cand_mem", "neighborIds_nodup", "cand_eq_keys", "tie_From_perm", "tie_adapter", "tie_totals", "tie_aStar", "tie_ShortestRoute", "tie_ShortestRoute_ok",
                 "tie_ShortestRoute_fault", "C19_regenerated", "C19_regenerated_unreachable"]
TIE_THEOREMS = ["tie_NewNetwork", "tie_Has", "tie_newNodeID", "tie_newNode", "tie_addNode", "tie_ensureNode", "tie_AddLink",
                "tie_Weight", "tie_costHeuristic", "tie_buildFrom", "tie_build", "mapSet_keys_nodup"]


def regen(check):
    """T1: regenerate lean/GeomV/C19/Gen.lean from route/route.go of the tree under test (written only when it changed) and
    build Ties.lean, which proves that the regenerated NewNetwork / Has / newNodeID / newNode / addNode / AddLink / Weight /
    costHeuristic return without fault what the model's functions return on related states.  If a function left the
    translatable subset or the ties no longer build, the tie is reported broken and the Ties module is left out so that the
    other obligations are still audited."""
    cfg = check.cfg

    def drop(why):
        cfg["lean_modules"] = [m for m in cfg["lean_modules"] if m not in (TIE_MODULE, TIEQ_MODULE, TIER_MODULE)]
        cfg["theorems"] = [t for t in cfg["theorems"] if not t.startswith(TIE_MODULE + ".")]
        check.broken.append(why)
    exe = os.path.join(check.rundir, "c19extract")
    with vcheck.Lock("go"):
        b = subprocess.run(["go", "build", "-o", exe, "./cmd/c19/extract"], cwd=vcheck.HARNESS, env=vcheck.GOENV,
                           stdout=subprocess.PIPE, stderr=subprocess.STDOUT, text=True)
    if b.returncode != 0:
        drop("T1 tie: the extractor does not build: " + b.stdout.strip()[-300:])
        return
    p = subprocess.run([exe, "--repo", vcheck.REPO], stdout=subprocess.PIPE, stderr=subprocess.PIPE, text=True)
    if p.returncode not in (0, 3) or not p.stdout.startswith("import"):
        drop("T1 tie: extractor failed: " + p.stderr.strip()[-300:])
        return
    gen = os.path.join(vcheck.LEAN, "GeomV", "C19", "Gen.lean")
    old = open(gen).read() if os.path.exists(gen) else ""
    if old != p.stdout:
        with open(gen + ".tmp%d" % os.getpid(), "w") as f:
            f.write(p.stdout)
        os.replace(gen + ".tmp%d" % os.getpid(), gen)
    if p.returncode == 3:
        drop("T1 tie: " + p.stderr.strip()[-600:])
        return
    with vcheck.Lock("lake"):
        b = subprocess.run(["lake", "build", TIE_MODULE], cwd=vcheck.LEAN, stdout=subprocess.PIPE, stderr=subprocess.STDOUT, text=True)
    if b.returncode != 0:
        errs = re.findall(r"error: .*", b.stdout)[:3]
        drop("T1 tie broken: route.go as regenerated no longer denotes the model (GeomV.C19.Ties does not build): " + " | ".join(errs))
        return
    with vcheck.Lock("lake"):
        b = subprocess.run(["lake", "build", TIEQ_MODULE], cwd=vcheck.LEAN, stdout=subprocess.PIPE, stderr=subprocess.STDOUT, text=True)
    if b.returncode != 0:
        errs = re.findall(r"error: .*", b.stdout)[:3]
        cfg["lean_modules"] = [m for m in cfg["lean_modules"] if m not in (TIEQ_MODULE, TIER_MODULE)]
        cfg["theorems"] = [t for t in cfg["theorems"] if t.split(".")[-1] not in TIEQ_THEOREMS + TIER_THEOREMS]
        check.broken.append("T1 tie broken: Node/Edge/From of route.go as regenerated no longer denote the model (GeomV.C19.TiesQ does not build): " + " | ".join(errs))
        return
    with vcheck.Lock("lake"):
        b = subprocess.run(["lake", "build", TIER_MODULE], cwd=vcheck.LEAN, stdout=subprocess.PIPE, stderr=subprocess.STDOUT, text=True)
    if b.returncode != 0:
        errs = re.findall(r"error: .*", b.stdout)[:3]
        cfg["lean_modules"] = [m for m in cfg["lean_modules"] if m != TIER_MODULE]
        cfg["theorems"] = [t for t in cfg["theorems"] if t.split(".")[-1] not in TIER_THEOREMS]
        check.broken.append("T1 tie broken: the body of ShortestRoute of route.go as regenerated no longer denotes the model's shortestRoute (GeomV.C19.TiesR does not build): " + " | ".join(errs))


FRAME_MODULE = T + "Frame"
FRAME_THEOREMS = ["tie_Frame", "C19_queries_frame", "C19_queries_schedule"]


def regen_frame(check):
    """frame tie (concurrency clause): regenerate lean/GeomV/C19/GenFrame.lean (go/ast: writes to memory a ShortestRoute call
    does not own, on the query path of package route and of index/rtree's NearestNeighbor; package-level variables; calls
    leaving the packages) from the tree under test and build Frame.lean, whose theorem tie_Frame compares the lists with the
    model's by `decide`.  A write on the query path = broken tie (reported with the offending statements)."""
    cfg = check.cfg

    def drop(why):
        cfg["lean_modules"] = [m for m in cfg["lean_modules"] if m != FRAME_MODULE]
        cfg["theorems"] = [t for t in cfg["theorems"] if not t.startswith(FRAME_MODULE + ".")]
        check.broken.append(why)
    exe = os.path.join(check.rundir, "c19frame")
    with vcheck.Lock("go"):
        b = subprocess.run(["go", "build", "-o", exe, "./cmd/c19/frame"], cwd=vcheck.HARNESS, env=vcheck.GOENV,
                           stdout=subprocess.PIPE, stderr=subprocess.STDOUT, text=True)
    if b.returncode != 0:
        drop("frame tie: the extractor does not build: " + b.stdout.strip()[-300:])
        return
    p = subprocess.run([exe, "--repo", vcheck.REPO], stdout=subprocess.PIPE, stderr=subprocess.PIPE, text=True)
    if p.returncode != 0 or not p.stdout.startswith("/-!"):
        drop("frame tie: extractor failed: " + p.stderr.strip()[-300:])
        return
    gen = os.path.join(vcheck.LEAN, "GeomV", "C19", "GenFrame.lean")
    old = open(gen).read() if os.path.exists(gen) else ""
    if old != p.stdout:
        with open(gen + ".tmp%d" % os.getpid(), "w") as f:
            f.write(p.stdout)
        os.replace(gen + ".tmp%d" % os.getpid(), gen)
    with vcheck.Lock("lake"):
        b = subprocess.run(["lake", "build", FRAME_MODULE], cwd=vcheck.LEAN, stdout=subprocess.PIPE, stderr=subprocess.STDOUT, text=True)
    if b.returncode != 0:
        ws = re.findall(r"def (\w+_writes) : List \(String × List String\) :=\n  (\[.*?\])\n\n", p.stdout, re.S)
        drop("frame tie broken (GeomV.C19.Frame.tie_Frame does not build): the query path writes memory it does not own, or its "
             "call/variable lists changed: " + " ; ".join("%s = %s" % (n, " ".join(v.split())[:300]) for n, v in ws))


def pregen_all(check):
    pregen(check)
    regen(check)
    regen_frame(check)


CFG = {
    "id": "C19",
    "lean_modules": ["GeomV.C19.Heap", "GeomV.C19.Ident", "GeomV.C19.IdentGen", "GeomV.C19.Nearest", "GeomV.C19.NearestSort", "GeomV.C19.Proofs", TIE_MODULE, TIEQ_MODULE, TIER_MODULE, FRAME_MODULE],
    "lean_dirs": ["C19"],
    "exe": "geomv_c19",
    "go_cmd": "c19",
    "stages": ["go:gen", "go:impl", "lean:judge"],
    "pregen": pregen_all,
    "theorems": [T + n for n in ["bellmanFord_correct", "pickMin_spec", "listQ_spec", "heapUp_spec", "heapDown_spec", "heapQ_spec", "astar_optimal", "consistent_zero", "heuristic_consistent",
                                 "polyLen_ge_chord", "euclidR_tri", "C19_route", "C19_unreachable", "build_wf", "C19_built", "C19_built_gonum", "C19_history", "C19_gap_not_minimal", "C19_gap_fixed", "newNode_class", "addLink_ident", "C19_ident",
                                 # wave 2: identification without separation (IdentGen.lean)
                                 "newNode_firstfit", "addLink_firstfit", "buildFrom_nodes_mono", "buildFrom_nodePos_stable", "C19_ident_general", "C19_ident_build",
                                 "C19_ident_order_dependent", "C19_ident_single_candidate", "C19_nearest_meaning",
                                 # wave 2: the R-tree parameter replaced by C11/C12's model + theorems (Nearest.lean)
                                 "rtreeOf_ok", "C19_nearest_rtree_nofault", "C19_nearest_rtree_min", "C19_nearest_rtree_none", "C19_nearest_rtree_unguarded",
                                 "C19_geo_rtree_contract", "C19_ident_build_rtree",
                                 # wave 3: C12.OrderOK discharged (sort.Sort = any program of Swap calls; NearestSort.lean)
                                 "C19_nearest_rtree_sort", "C19_geo_rtree_contract_sort", "C19_ident_build_rtree_sort", "C19_nearest_rtree_unguarded_sort"]]
                + [TIE_MODULE + "." + n for n in TIE_THEOREMS + TIEQ_THEOREMS + TIER_THEOREMS]
                + [FRAME_MODULE + "." + n for n in FRAME_THEOREMS],
    "trusted_base": [
        "Lean 4.33.0 kernel; axioms of every theorem printed by #print axioms must be within {propext, Classical.choice, Quot.sound}",
        "model lean/GeomV/C19/Model.lean is tied to /repo/route/route.go and to gonum v0.9.3 graph/path.AStar by the correspondence run on every check "
        "(adapter dump Nodes/From/Edge/Weight compared exactly; route cost compared with the model's and with the verified Bellman-Ford optimum); "
        "gonum is pinned by its go.sum hash; path.Weighted satisfaction is asserted at compile time and reported at run time",
        "gonum's binary heap IS modelled and proved (heapQ_spec); the model is tied to the real container/heap + a verbatim copy of gonum's unexported aStarQueue "
        "(copy compared with the module source in pregen) by slot-by-slot layout comparison after every operation of random Push/update/Pop histories (family heapq); "
        "the Go map order behind From is an arbitrary-permutation parameter of the theorems",
        "op.Length / op.Distance / op.PointEquals / rtree.NearestNeighbor(k=1) are parameters of the model; the driver instance computes them in exact Rat "
        "(sqrt only under the 1e-9 tolerance class)",
        "harness/cmd/c19 + lean driver + lib/vcheck.py transport inputs faithfully",
    ],
    "assumptions": [
        "non-empty networks (ShortestRoute on a network without nodes panics; there is no nearest node)",
        "finite positive speeds, finite coordinates; query points with a unique nearest node (generators keep away from ties)",
        "IEEE rounding is not modelled: exact comparison on integer/axis-aligned/power-of-two data, 1e-9 relative otherwise",
    ],
    "rule": "each case is a HISTORY of AddLink and ShortestRoute calls on ONE Network (queries asked again after further links: joining links, "
            "shortcuts, faster links), every answer judged against the verified Bellman-Ford optimum and the brute-force nearest nodes of the network "
            "as it was at that moment; networks of 1-60 nodes plus 60-400-node road/town networks (several R-tree leaves, scales 1 and 1/128) with "
            "query points tens to thousands of units from every node; junction networks at magnitudes 1e3..1e9 whose link ends differ by 1-4 ulps or up to "
            "4.5e-10 relative (must share the node) or 2e-9 relative (must not); grids at false origins 2^30..2^40 (both signs) with query pairs closer than 1e-9 relative "
            "that snap to different nodes; 30% of exact cases rescaled by 2^-30..2^30; routes re-verified after the whole history, link inputs passed as "
            "windows of one flat buffer and compared bit for bit afterwards; shuffled link order and random link orientation, no self-loops/parallel links: "
            "hand corpus (route tests, DESIGN 6-link case, fast-long vs slow-short, components), grids with random deletions/detoured links/long chords, "
            "chains of diamonds whose one-link side is the most expensive, motorway-vs-slow-direct with a very slow spur (time option), 2-3 components, "
            "random float networks with bent links and speeds over 3 decades, end points perturbed on both sides of the 1e-9 identification threshold; "
            "6 query pairs per network, both options; gapnet: integer networks at ~1e9 whose junction vertices are 1-7 units off their node (inside the tolerance) with a direct "
            "link that is cheaper than the chain only for an unscaled heuristic, shuffled order/orientation, both options; heapq: 1-400 operation histories on the priority queue "
            "alone with frequent score ties; star: hubs with 7-40 spokes and branches behind them / grid junctions of degree 7-24, queries hub -> every spoke end; chain: 17-80 links with per-link power-of-two speeds under both options; wrap: a 256-node chain added in order plus nodes whose ids agree modulo 256 with their neighbour's. distinct = distinct input line; non-trivial = class not skipped-*",
    "timeout": {"quick": 900, "thorough": 3000},
}
