T = "GeomV.C11."
CFG = {
    "id": "C11",
    "lean_modules": ["GeomV.C11.Proofs"],
    "exe": "geomv_c11",
    "go_cmd": "c11",
    "stages": ["go:gen", "go:impl", "lean:judge"],
    "theorems": [T + n for n in []],
    "trusted_base": [],
    "assumptions": [],
    "rule": "",
    "timeout": {"quick": 900, "thorough": 3000},
}
