import importlib.util, os
_spec = importlib.util.spec_from_file_location("c11_tie", os.path.join(os.path.dirname(os.path.abspath(__file__)), "C11_tie.py"))
c11_tie = importlib.util.module_from_spec(_spec); _spec.loader.exec_module(c11_tie)
T = "GeomV.C11."
CFG = {
    "id": "C11",
    "lean_modules": ["GeomV.C11.Proofs", "GeomV.C11.ProofsArith", "GeomV.C11.ProofsFill", "GeomV.C11.ProofsHeap", "GeomV.C11.ProofsParent", "GeomV.C11.ProofsParentIns", "GeomV.C11.ProofsParentDel", "GeomV.C11.ProofsHeapDel", "GeomV.C11.ProofsHeapIns", "GeomV.C11.ProofsHeapBase", "GeomV.C11.ProofsHeapSplit", "GeomV.C11.ProofsHeapRootSplit", "GeomV.C11.ProofsHeapAdjust", "GeomV.C11.ProofsHeapCondense"] + c11_tie.C11_TIES,
    "exe": "geomv_c11",
    "go_cmd": "c11",
    "stages": ["go:gen", "go:impl", "lean:judge"],
    "theorems": [T + n for n in [
        "C11_init", "C11_sharePoint_iff", "C11_intersects_iff", "C11_search", "C11_split_partition",
        "C11_insert", "C11_delete_absent", "C11_delete_present", "C11_step", "C11_reachable",
        "C11_search_reachable", "C11_goHeur_inRange",
        # phase 3: the heuristics under ANY interpretation of the float arithmetic (rounding, overflow, NaN)
        "C11_anyArith_inRange", "C11_heurA_rat", "C11_reachable_anyArith", "C11_chooseNode_old_defect", "C11_chooseEntryOld_eq_new_rat",
        # phase 3: what holds of the minimum fill; sharpness of the parameter hypotheses (NewTree validates nothing)
        "C11_fill", "C11_fill_reachable", "C11_minfill_not_invariant", "C11_maxC_ge2_needed", "C11_minC_ge1_needed",
        # wave 2: the POINTER-LEVEL model (Heap.lean: arena of nodes, stored parent fields, nil dereferences as faults, fuel recursion)
        # refines the functional model
        "Heap.C11_heap_search_refines", "Heap.C11_heap_findLeaf_refines", "Heap.C11_heap_split_refines",
        # wave 3: the parent-link invariant ParentOK of the arena model (ParentView.lean / ProofsParent.lean): established by NewTree, preserved by each
        # primitive arena write pattern (entry removal with detached orphans, entry append + child.parent = holder, node allocation, root split,
        # root collapse) and by the arena collapse loop; implies the hook's audit.
        "Heap.C11_heap_parent_init", "Heap.C11_heap_parent_collapse", "Heap.C11_heap_parent_audit", "Heap.C11_heap_parent_reach",
        "Heap.VJ.shrink", "Heap.VJ.adopt", "Heap.VJ.adopt_noset", "Heap.VJ.alloc", "Heap.VJ.reroot", "Heap.VJ.collapse",
        "Heap.view_setEntries", "Heap.view_setParent", "Heap.view_alloc",
        # … composed along the arena operations as wholes (ProofsParentIns.lean): insert(e, level) incl. orphan entries, Insert, insert-only histories
        "Heap.chooseNode_held", "Heap.distribute_P", "Heap.split_P", "Heap.adjust_P",
        "Heap.C11_heap_parent_insertEntry", "Heap.C11_heap_parent_insert", "Heap.C11_heap_parent_reachable_partial",
        # … Delete (entry removal, condenseTree's upward loop and re-insertion loop, root collapse) and ALL histories (ProofsParentDel.lean)
        "Heap.VJ.shrink0", "Heap.condense_P", "Heap.reinsert_P", "Heap.C11_heap_parent_delete", "Heap.C11_heap_parent_step",
        "Heap.C11_heap_parent_reachable",
        # phase 4: the first phase of Delete (findLeaf + index loop) and the descent of insert (chooseNode) of the pointer-level model refine
        # the functional model; the fused recursions delIn / insertAt of the functional model are linked to the separate findLeafF / chooseNodeF
        "Heap.C11_delIn_findLeaf", "Heap.C11_heap_delete_phase1_refines", "Heap.C11_insertAt_chooseNode", "Heap.C11_heap_chooseNode_refines",
        "Heap.C11_heap_collapse_refines",
        # … and the whole Delete / Insert (no overflow) of the pointer-level model on represented trees whose root is a leaf (base case; `_partial`)
        "Heap.C11_heap_delete_refines_partial", "Heap.C11_heap_insert_refines_partial",
        # … the fault direction of the split refinement (split on the arena faults exactly where splitEntries faults)
        "Heap.C11_heap_split_total",
        # … and with it the first root split: Insert into a full leaf root (append, split, adjustTree at the root, new root, height++)
        "Heap.C11_heap_insert_rootsplit_refines_partial",
        # … adjustTree along the STORED parent links for trees of any height: Insert that overflows no node, under the path hypothesis PathOK;
        # the frame lemma (memories agreeing on the nodes erase visits denote the same tree)
        "Heap.erase_agree", "Heap.adjust_climb", "Heap.C11_heap_insert_nosplit_refines_partial", "Heap.pathOKb_sound",
        # … condenseTree's upward loop along the stored parent links (no underflow on the path): Delete on trees of any height, under the path hypotheses
        "Heap.condense_climb", "Heap.delIn_rebuild", "Heap.C11_heap_delete_nounderflow_refines_partial", "Heap.onPathb_sound",
        # T1: definitions regenerated from index/rtree/{geom,rtree}.go of the tree under test = the model's
        "C11_tie_size", "C11_tie_margin", "C11_tie_containsPoint", "C11_tie_containsRect", "C11_tie_intersect",
        "C11_tie_enlarge", "C11_tie_initBoundingBox", "C11_tie_boundingBox", "C11_tie_computeBoundingBox",
        "C11_tie_assignGroup", "C11_tie_pickNext", "C11_tie_pickSeeds", "C11_tie_chooseNode",
        # … and the box theorems restated for the regenerated definitions
        "C11_intersects_iff_src", "C11_containsRect_src", "C11_enlarge_src", "C11_computeBoundingBox_src"]],
    "trusted_base": [
        "T1: harness/cmd/c11/extract.go (go/ast; translation table in its header) regenerates lean/GeomV/C11/Gen.lean from "
        "index/rtree/geom.go and rtree.go of the tree under test on every run; Ties/*.lean prove Gen.f = Model.f for size, margin, "
        "containsPoint, containsRect, intersect, enlarge, initBoundingBox, boundingBox, computeBoundingBox, assignGroup, pickNext, "
        "pickSeeds and the loop of chooseNode (the box of the entry recursed into = the box at the model's index); a function outside the translatable subset is missing from Gen.lean and its tie fails by name",
        "control-skeleton tie: harness/cmd/c11/skeleton.go prints the conditions, loop kinds, calls, returns/breaks and the assignments "
        "to height/size/root/parent/level/leaf/entries of every structural function (and the fields of Rtree/node/entry) and the "
        "run compares it with harness/cmd/c11/skeleton.expected, the text the hand-written model was transcribed from",
        "pointer-level model lean/GeomV/C11/Heap.lean (hand-written statement by statement from the skeleton text; arena of nodes with stored parent "
        "fields) is run by the judge next to the functional model on every exact history of <= 400 operations with coordinates below 2^70: no fault, "
        "erase(arena) = functional tree, same Delete result/Size/Depth, parent audit on the arena; ProofsHeap*.lean prove that its searchIntersect, "
        "findLeaf, split (both directions), chooseNode, the first phase of Delete, the root-collapse loop and the whole Insert/Delete on leaf-root trees "
        "(incl. the first root split) refine the functional model, and Insert without split / Delete without underflow on trees of any height under explicit path "
        "hypotheses (PathOK/OnPath/DelPath/NoUnder, not derived from ParentOK); adjustTree with a pending split sibling, condenseTree's underflow branch and the "
        "re-insertion loop are tied by the run only",
        "Lean 4.33.0 kernel; axioms of every theorem printed by #print axioms must be within {propext, Classical.choice, Quot.sound}",
        "model lean/GeomV/C11/Model.lean (functional tree with the stored fields of the Go structs; parent links = recursion path; "
        "findLeaf + entry removal + condenseTree's upward loop fused into one recursion `delIn`) is tied to /repo/index/rtree/rtree.go "
        "by the correspondence run: after EVERY operation of every generated history the whole real tree (dumped through the "
        "`verif` hook: level, leaf flag, entry order, stored boxes, object identity, parent-link audit), Size, Depth, the Delete "
        "result and the answers to a query batch are compared exactly with the model",
        "IEEE-754 arithmetic in the heuristics (size differences) is exact on the generated grids (integers / half-integers below 2^53); "
        "the theorems do not depend on the heuristics at all (arbitrary in-range choice functions), and the transcription of the four heuristics "
        "over an ARBITRARY interpretation of their float arithmetic is proved in range for every interpretation (C11_anyArith_inRange) and equal to the "
        "tied exact model at Rat (C11_heurA_rat): rounding/overflow/NaN in the heuristics cannot break any clause",
        "Go `==` on interface values is modelled by DecidableEq on object identity (pointers, geom.Point values, *geom.Bounds); "
        "objects of uncomparable dynamic type (Go would panic in ==) are outside the model",
        "index/rtree/verif_hook.go (build tag verif, read-only) + harness/cmd/c11 + lean driver + lib/vcheck.py transport faithfully",
    ],
    "assumptions": [
        "1 <= MinChildren and 2 <= MaxChildren (implied by the property's 2 <= min <= max/2)",
        "object boxes and query boxes contain a point (min <= max) for the 'share a point' reading of geom.go intersect; "
        "the structural theorems (WF, multiset semantics, no panic) need no assumption on boxes",
        "Go int fields size/height/level are modelled as Nat (the theorems show they never go below their minimum)",
    ],
    "rule": "histories over (min,max) in {(2,4),(2,5),(3,6),(3,7),(4,8),(25,50)} x object kinds {pointer objects, geom.Point values, "
            "*geom.Bounds} x phases {grow->drain to empty->refill, alternate insert/delete at the capacity boundary, delete "
            "everything inside a region (a whole subtree) then refill, random mix, duplicates of few objects, deletes of absent "
            "objects in every state} over pools with coincident boxes, degenerate boxes, clusters, lines, half-integer coordinates; "
            "a NON-DYADIC family (coordinates float64(k)/d, d in {10,7,3}, touching = bit-equal floats; judged by the Spec only, no structural "
            "diff, class *specOnly*); coordinate units 2^-10 .. 2^400; query batch: whole plane, point at a corner, touching corner/edge, one unit off, line, disjoint, an object's own box, random. "
            "Phase 3: extreme coordinate units 2^-1000..2^900 incl. mixed magnitudes (areas overflow to +Inf / NaN differences / underflow to 0; judged by the Spec only), "
            "fan-outs 66..130 (nodes with more than 64 and 128 entries), all three object kinds in one tree; the query batch of a step is asked first and rendered afterwards, "
            "query box objects are reused across steps, returned slices are overwritten. "
            "Wave 2: fan*-specOnly (points (2^-i,2^-i), (min,max) in {(2,130),(1,129),(2,200)} + thorough {(3,140),(1,300)}: a root with 126..150 children crossing 128/129/130 "
            "and its split in reported steps, deletes below root entries with index >= 128); a shadow tree built before every history is re-dumped after it. "
            "One case = one history (every step judged); distinct = distinct history line; class = phase-kind-params-max height reached",
    "timeout": {"quick": 900, "thorough": 3000},
    "explanation": "SPEC verdicts are computed from Spec.lean on the implementation's own dump and answers (wfNode, Size, stored "
                   "multiset vs history semantics, Delete result, brute-force search); DIFF = dump/answers differ from the model.",
}


def pregen(check):
    c11_tie.pregen(check, c11_tie.C11_TIES)


CFG["pregen"] = pregen
