T = "GeomV.C12."
CFG = {
    "id": "C12",
    "lean_modules": ["GeomV.C12.Proofs"],
    "lean_dirs": ["C11", "C12"],
    "exe": "geomv_c12",
    "go_cmd": "c12",
    "stages": ["go:gen", "go:impl", "lean:judge"],
    "theorems": [T + n for n in []],
    "trusted_base": [],
    "assumptions": [],
    "rule": "",
    "timeout": {"quick": 900, "thorough": 3000},
}
